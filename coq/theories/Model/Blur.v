(* Model of the three Fourier-domain blurs of lentil:
     lentil/detector.py     pixel(img, oversample)
     lentil/convolvable.py  jitter(img, scale, pixelscale, oversample), smear(img, distance, angle, pixelscale, oversample)
   All three compute   |ifft2(fft2(img) * kernel)|   with a real multiplier [kernel] built from np.fft.fftfreq of
   the two axis lengths; jitter and smear then rescale the result by  sum(img)/sum(out).

   np.fft.fft2 / np.fft.ifft2 are modelled by their contract (numpy's documented definition): the defining sums
       fft2  a [u,v] = sum_x sum_y a[x,y] e(x u/m) e(y v/n),       e t = exp(-2 pi i t) = the scalar's kernel [ke]
       ifft2 F [i,j] = 1/(m n) sum_u sum_v F[u,v] e(-i u/m) e(-j v/n)
   evaluated axis by axis (two passes, each materialised with [force]).
   The transcendental functions are parameters (oracle inputs):
       sinc  q = sin(pi q)/(pi q)          (np.sinc)
       gauss q = exp(-2 pi^2 q)            (np.exp(-2*(np.pi*...)**2) with q the squared argument s^2 rho^2)
       sn, cs  = sin, cos of the smear angle in radians (np.radians, np.sin, np.cos)
       kabs    = np.abs on complex numbers,  kinv = 1/x on the reals
   Floats are rationals (Qc); the arguments handed to sinc / gauss are computed exactly as the code computes them
   (same axis order, same product (scale/pixelscale)*oversample). *)
From LV Require Export Lib.Arr.

Definition zQ (z : Z) : Qc := Q2Qc (inject_Z z).
(* the phase a/n in turns *)
Definition tq (a n : Z) : Qc := (zQ a / zQ n)%Qc.

(* np.fft.fftfreq(n)[k] (d = 1): k/n for k < (n-1)//2 + 1, (k-n)/n above *)
Definition fftfreq_num (n k : Z) : Z := if k <? (n - 1) / 2 + 1 then k else k - n.
Definition fftfreq (n k : Z) : Qc := tq (fftfreq_num n k) n.

Section Blur.
Variable S : Scalar.

(* ---- one-dimensional transforms on index functions ---- *)
Definition dft1 (n : Z) (f : Z -> S) (u : Z) : S :=
  sumZ n (fun x => (f x * ke (tq (x * u) n))%K).
(* the inverse kernel, without the 1/n *)
Definition idft1r (n : Z) (F : Z -> S) (y : Z) : S :=
  sumZ n (fun u => (F u * ke (tq (- (y * u)) n))%K).

(* ---- np.fft.fft2 / np.fft.ifft2: the 1-D transform along axis 0, then along axis 1 ---- *)
Definition fft2 (a : arr S) : arr S :=
  let m := nr a in let n := nc a in
  let t := force (mkArr m n (fun u y => dft1 m (fun x => get a x y) u)) in
  force (mkArr m n (fun u v => dft1 n (fun y => get t u y) v)).
Definition ifft2 (F : arr S) : arr S :=
  let m := nr F in let n := nc F in
  let t := force (mkArr m n (fun u j => idft1r n (fun v => get F u v) j)) in
  force (mkArr m n (fun i j => (kofq (/ zQ (m * n))%Qc * idft1r m (fun u => get t u j) i)%K)).

(* element-wise product, shape of the first operand (the code's operands always have equal shapes) *)
Definition amul (a b : arr S) : arr S := mkArr (nr a) (nc a) (fun i j => (get a i j * get b i j)%K).

(* the complex array  ifft2(fft2(img) * kernel)  before the absolute value *)
Definition conv (kernel img : arr S) : arr S := ifft2 (force (amul (fft2 img) kernel)).

(* np.roll(a, (sr, sc), axis=(0, 1)) *)
Definition roll (a : arr S) (sr sc : Z) : arr S :=
  mkArr (nr a) (nc a) (fun i j => get a ((i - sr) mod nr a) ((j - sc) mod nc a)).

(* circular convolution on the array's own period *)
Definition cconv (a h : arr S) : arr S :=
  mkArr (nr a) (nc a) (fun i j =>
    sumZ (nr a) (fun x => sumZ (nc a) (fun y => (get a x y * get h ((i - x) mod nr a) ((j - y) mod nc a))%K))).

(* ---- the three multipliers, built as the code builds them ---- *)
Variable sinc : Qc -> S.
Variable gauss : Qc -> S.

(* pixel:  x = fftfreq(shape[1]); y = fftfreq(shape[0]); kernel = outer(sinc(y*os), sinc(x*os))   (rows: y, columns: x) *)
Definition pixel_mul (os : Qc) (m n : Z) : arr S :=
  mkArr m n (fun i j => (sinc (fftfreq m i * os)%Qc * sinc (fftfreq n j * os)%Qc)%K).

(* the extent in samples: (scale / pixelscale) * oversample *)
Definition extent (scale pixelscale os : Qc) : Qc := (scale / pixelscale * os)%Qc.

(* jitter: xx, yy = meshgrid(x, y)  (xx[i,j] = x[j], yy[i,j] = y[i]);  rho = sqrt(xx^2 + yy^2);
   kernel = exp(-2 (pi * extent * rho)^2) = gauss((extent * rho)^2) = gauss(extent^2 * (xx^2 + yy^2)) *)
Definition jitter_mul (scale pixelscale os : Qc) (m n : Z) : arr S :=
  let s := extent scale pixelscale os in
  mkArr m n (fun i j => gauss (s * s * (fftfreq n j * fftfreq n j + fftfreq m i * fftfreq m i))%Qc).

(* smear: yy_rot = sin(angle)*yy + cos(angle)*xx;  kernel = sinc(yy_rot * (distance/pixelscale) * oversample)
   (in exact arithmetic yy_rot * (d/p) * os = yy_rot * ((d/p) * os)) *)
Definition smear_mul (distance sn cs pixelscale os : Qc) (m n : Z) : arr S :=
  let e := extent distance pixelscale os in
  mkArr m n (fun i j => sinc ((sn * fftfreq m i + cs * fftfreq n j) * e)%Qc).

(* ---- absolute value and the renormalisation of jitter / smear ---- *)
Variable kabs : S -> S.
Variable kinv : S -> S.

(* out * np.sum(img) / np.sum(out) *)
Definition renorm (out img : arr S) : arr S :=
  mkArr (nr out) (nc out) (fun i j => (get out i j * asum img * kinv (asum out))%K).

Definition blur (kernel img : arr S) : arr S := amap kabs (conv kernel img).

Definition pixel (img : arr S) (os : Qc) : arr S :=
  blur (pixel_mul os (nr img) (nc img)) img.
Definition jitter (img : arr S) (scale pixelscale os : Qc) : arr S :=
  renorm (blur (jitter_mul scale pixelscale os (nr img) (nc img)) img) img.
Definition smear (img : arr S) (distance sn cs pixelscale os : Qc) : arr S :=
  renorm (blur (smear_mul distance sn cs pixelscale os (nr img) (nc img)) img) img.
End Blur.

Arguments dft1 {S}. Arguments idft1r {S}. Arguments fft2 {S}. Arguments ifft2 {S}. Arguments amul {S}.
Arguments conv {S}. Arguments roll {S}. Arguments cconv {S}.
Arguments pixel_mul {S}. Arguments jitter_mul {S}. Arguments smear_mul {S}.
Arguments renorm {S}. Arguments blur {S}. Arguments pixel {S}. Arguments jitter {S}. Arguments smear {S}.

(* the rationals as a scalar structure (second execution stage: the renormalisation of real arrays) *)
Definition QS : Scalar := mkScalar Qc 0%Qc 1%Qc Qcplus Qcmult Qcminus Qcopp (fun x => x) (fun q => q) (fun _ => 1%Qc).
