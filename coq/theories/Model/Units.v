(* C14 - model of the unit machinery of lentil/radiometry.py (definitions only).
   The 16 wavelength factors, the 9 flux conversions and the constants H, C, K come from the
   GENERATED file Gen/UnitTable.v (observed / translated from the working tree on every check);
   what is hand-written here is the code around them: name resolution (Unit, the ladders of the
   to() methods), Spectrum.to, the trapezoid integral, planck_radiance / planck_exitance,
   vegaflux and the Blackbody constructor.  Everything is written over an abstract carrier
   [K : Fld]; it is executed on Qc (every float is a rational) and the theorems are stated on R.
   np.exp and np.pi are external: [expf] and [cpi]. *)
From LV Require Import Lib.Base Model.UnitsBase Gen.UnitTable.

(* the (lower-cased) strings the code distinguishes; [NOther] = any other string *)
Inductive uname :=
  NM | NMeter | NUm | NMicron | NNm | NNanometer | NAngstrom | NPhotlam | NFlam | NWlam | NOther.
Inductive unit := UW (w : wunit) | UF (f : funit).

(* Unit(name) for name not None *)
Definition Unit (n : uname) : result unit :=
  match n with
  | NM | NMeter => Ok (UW Wm)
  | NUm | NMicron => Ok (UW Wum)
  | NNm | NNanometer => Ok (UW Wnm)
  | NAngstrom => Ok (UW Wangstrom)
  | NPhotlam => Ok (UF Fphotlam)
  | NFlam => Ok (UF Fflam)
  | NWlam => Ok (UF Fwlam)
  | NOther => Err ValueError
  end.
(* names accepted by Meter.to / Micron.to / Nanometer.to / Angstrom.to *)
Definition wave_name (n : uname) : option wunit :=
  match n with
  | NM | NMeter => Some Wm
  | NUm | NMicron => Some Wum
  | NNm | NNanometer => Some Wnm
  | NAngstrom => Some Wangstrom
  | _ => None
  end.
(* Spectrum.to accepts only ['m', 'um', 'nm', 'angstrom'] *)
Definition short_wave_name (n : uname) : option wunit :=
  match n with NM => Some Wm | NUm => Some Wum | NNm => Some Wnm | NAngstrom => Some Wangstrom | _ => None end.
(* names accepted by Photlam.to / Flam.to / Wlam.to and by the flux branch of Spectrum.to *)
Definition flux_name (n : uname) : option funit :=
  match n with NPhotlam => Some Fphotlam | NFlam => Some Fflam | NWlam => Some Fwlam | _ => None end.
(* the canonical name of a unit object (attribute .name) *)
Definition wname (a : wunit) : uname :=
  match a with Wm => NM | Wum => NUm | Wnm => NNm | Wangstrom => NAngstrom end.
Definition fname (a : funit) : uname :=
  match a with Fphotlam => NPhotlam | Fflam => NFlam | Fwlam => NWlam end.

Section Units.
Variable K : Fld.
Variables cH cC cK cpi : K.          (* module constants H, C, K and np.pi *)
Variable expf : K -> K.              (* np.exp *)

Definition wf (a b : wunit) : K := fofq (wave_factor a b).
(* X.to(waveunit) of a wavelength unit object *)
Definition wave_to (a : wunit) (n : uname) : result K :=
  match wave_name n with Some b => Ok (wf a b) | None => Err ValueError end.
(* X.to(flux, fluxunit, wave) of a flux unit object *)
Definition flux_to (a : funit) (flux : K) (n : uname) (wave : K) : result K :=
  match flux_name n with Some b => Ok (flux_conv K cH cC a b flux wave) | None => Err ValueError end.

(* ---- Spectrum (wave unit a wavelength unit, value unit None or a flux unit) ---- *)
Record spectrum := mkSpec { s_wave : list K; s_value : list K; s_wu : wunit; s_vu : option funit }.

Definition scale (f : K) (l : list K) : list K := map (fun x => x * f)%F l.
Definition unscale (f : K) (l : list K) : list K := map (fun x => x / f)%F l.
(* self._valueunit.to(value, unit, wave) / Meter().to(self.waveunit), element-wise *)
Fixpoint conv_values (a b : funit) (back : K) (vs ws : list K) : list K :=
  match vs, ws with
  | v :: vs', w :: ws' => (flux_conv K cH cC a b v w / back)%F :: conv_values a b back vs' ws'
  | _, _ => []
  end.

(* one iteration of the loop `for unit in args` of Spectrum.to *)
Definition to1 (s : spectrum) (n : uname) : result spectrum :=
  match short_wave_name n with
  | Some b =>
      let f := wf (s_wu s) b in
      match s_vu s with
      | Some _ => Ok (mkSpec (scale f (s_wave s)) (unscale f (s_value s)) b (s_vu s))
      | None => Ok (mkSpec (scale f (s_wave s)) (s_value s) b None)
      end
  | None =>
      match flux_name n with
      | Some g =>
          match s_vu s with
          | None => Err TypeError
          | Some a =>
              let fm := wf (s_wu s) Wm in          (* self._waveunit.to('meter') *)
              let wave_m := scale fm (s_wave s) in
              let value_m := unscale fm (s_value s) in
              Ok (mkSpec (s_wave s) (conv_values a g (wf Wm (s_wu s)) value_m wave_m) (s_wu s) (Some g))
          end
      | None => Err ValueError
      end
  end.
Fixpoint to (s : spectrum) (args : list uname) : result spectrum :=
  match args with
  | [] => Ok s
  | n :: r => rbind (to1 s n) (fun s' => to s' r)
  end.

(* chained trapezoid rule  sum 1/2 (v_i + v_{i+1}) (w_{i+1} - w_i)   (np.trapz(value, wave)) *)
Fixpoint trapz (ws vs : list K) : K :=
  match ws, vs with
  | w0 :: ws', v0 :: vs' =>
      match ws', vs' with
      | w1 :: _, v1 :: _ => (fofq (1 # 2) * (v0 + v1) * (w1 - w0) + trapz ws' vs')%F
      | _, _ => f0
      end
  | _, _ => f0
  end.

(* ---- Spectrum.sample(wave, method='linear', fill_value=0, waveunit) ----
   a copy is converted to the requested wave unit with Spectrum.to (when the unit string is the
   spectrum's own the copy is skipped: the same values, the factor being 1), then
   scipy.interpolate.interp1d(kind='linear', bounds_error=False, fill_value=0) is evaluated:
   piecewise linear between the samples, 0 outside [wave[0], wave[-1]].  [leb] is the order. *)
Variable leb : K -> K -> bool.
Fixpoint interp_lin (ws vs : list K) (x : K) : option K :=
  match ws, vs with
  | w0 :: ws', v0 :: vs' =>
      match ws', vs' with
      | w1 :: _, v1 :: _ =>
          if leb w0 x && leb x w1 then Some (v0 + (v1 - v0) / (w1 - w0) * (x - w0))%F
          else interp_lin ws' vs' x
      | _, _ => None
      end
  | _, _ => None
  end.
Definition sample_at (ws vs : list K) (x : K) : K :=
  match interp_lin ws vs x with Some y => y | None => f0 end.
Definition sample (s : spectrum) (pts : list K) (n : uname) : result (list K) :=
  rbind (to1 s n) (fun s' => Ok (map (sample_at (s_wave s') (s_value s')) pts)).
(* sampling at the converted grid itself *)
Definition sample_grid (s : spectrum) (n : uname) : result (list K) :=
  rbind (to1 s n) (fun s' => Ok (map (sample_at (s_wave s') (s_value s')) (s_wave s'))).

(* ---- Spectrum.to as it leaves the object ----
   the wave setter (called by `self.wave = self.wave * factor`) re-validates the wavelengths: all > 0,
   sorted, no two equal - otherwise ValueError before anything is assigned *)
Fixpoint strictly_increasing (ws : list K) : bool :=
  match ws with
  | w0 :: ((w1 :: _) as t) => negb (leb w1 w0) && strictly_increasing t
  | _ => true
  end.
Definition wave_ok (ws : list K) : bool :=
  forallb (fun w => negb (leb w f0)) ws && strictly_increasing ws.
Definition to1c (s : spectrum) (n : uname) : result spectrum :=
  rbind (to1 s n) (fun s' => if wave_ok (s_wave s') then Ok s' else Err ValueError).
(* the loop `for unit in args`: on the first refused unit the exception propagates; the object keeps the
   conversions made for the units before it and nothing of the refused one or of those after it *)
Fixpoint to_st (s : spectrum) (args : list uname) : spectrum * option errkind :=
  match args with
  | [] => (s, None)
  | n :: r => match to1c s n with Ok s' => to_st s' r | Err e => (s, Some e) end
  end.

(* the same loop as a result (no object state): Ok of the final object, or the first exception *)
Fixpoint toc (s : spectrum) (args : list uname) : result spectrum :=
  match args with
  | [] => Ok s
  | n :: r => rbind (to1c s n) (fun s' => toc s' r)
  end.

(* ---- Planck's law ---- *)
Definition pow5 (x : K) : K := (x * x * x * x * x)%F.
(* coef*H*C**2/(wave**5*(np.exp(H*C/(wave*K*temp))-1)), wave in metres: the SI function *)
Definition planck_si (coef wave_m temp : K) : K :=
  (coef * cH * (cC * cC) / (pow5 wave_m * (expf (cH * cC / (wave_m * cK * temp)) - f1)))%F.

Definition planck_gen (coef wave temp : K) (wn vn : uname) : result K :=
  rbind (Unit wn) (fun u =>
  match u with
  | UF _ => Err TypeError               (* a flux unit's to() has three parameters *)
  | UW a =>
      rbind (wave_to a NMeter) (fun f =>
      let wave_m := (wave * f)%F in
      let flux := planck_si coef wave_m temp in
      match vn with
      | NWlam => rbind (wave_to Wm wn) (fun g => Ok (flux / g)%F)
      | _ => rbind (flux_to Fwlam flux vn wave_m) (fun x =>
             rbind (wave_to Wm wn) (fun g => Ok (x / g)%F))
      end)
  end).
Definition planck_radiance := planck_gen (fofq (2 # 1)).
Definition planck_exitance := planck_gen (fofq (2 # 1) * cpi)%F.

(* vegaflux after the table look-up: w0 = band centre in metres, jy = flux in Jansky *)
Definition vegaflux (w0 jy : K) (wn vn : uname) : result (K * K) :=
  let flux := (jy * fofq (1 # 100000000000000000000000000))%F in     (* 1e-26 *)
  let flux := (flux * cC / (w0 * w0))%F in
  let flux := (flux * w0 / (cH * cC))%F in
  rbind (match vn with
         | NPhotlam => rbind (wave_to Wm wn) (fun g => Ok (flux / g)%F)
         | _ => rbind (flux_to Fphotlam flux vn w0) (fun x =>
                rbind (wave_to Wm wn) (fun g => Ok (x / g)%F))
         end) (fun fl =>
  rbind (wave_to Wm wn) (fun g => Ok (fl, (w0 * g)%F))).

(* Blackbody(wave, temp, waveunit, valueunit): values planck_radiance, then Spectrum.__init__ *)
Fixpoint radiances (ws : list K) (temp : K) (wn vn : uname) : result (list K) :=
  match ws with
  | [] => Ok []
  | w :: r => rbind (planck_radiance w temp wn vn) (fun v =>
              rbind (radiances r temp wn vn) (fun vs => Ok (v :: vs)))
  end.
Definition blackbody (ws : list K) (temp : K) (wn vn : uname) : result spectrum :=
  rbind (radiances ws temp wn vn) (fun vs =>
  match Unit wn, Unit vn with
  | Ok (UW a), Ok (UF g) => Ok (mkSpec ws vs a (Some g))
  | _, _ => Err ValueError
  end).

(* Blackbody.sample(wave, waveunit) of an object made by the constructor: planck_radiance at the requested
   wavelengths, in the requested wave unit and the object's CURRENT value unit *)
Definition bb_sample (s : spectrum) (temp : K) (pts : list K) (wn : uname) : result (list K) :=
  match s_vu s with
  | Some g => radiances pts temp wn (fname g)
  | None => Err AttributeErr          (* None.lower() *)
  end.

(* Blackbody.vegamag / Blackbody.sample_vegamag.  The band's table entry is (w0 metres, jy Jansky);
   [pw] is 10**(-0.4*mag) (the power function is external).
   E = E0 * (M/M0) * 10**(-0.4*mag) with (E0, wave0) = vegaflux(band, waveunit, valueunit),
   M0 = planck_exitance(wave0, ...), M = planck_exitance(wave, ...) *)
Fixpoint exitances (ws : list K) (temp : K) (wn vn : uname) : result (list K) :=
  match ws with
  | [] => Ok []
  | w :: r => rbind (planck_exitance w temp wn vn) (fun v =>
              rbind (exitances r temp wn vn) (fun vs => Ok (v :: vs)))
  end.
Definition vega_irradiance (w0 jy pw temp : K) (ws : list K) (wn vn : uname) : result (list K) :=
  rbind (vegaflux w0 jy wn vn) (fun p =>
  rbind (planck_exitance (snd p) temp wn vn) (fun M0 =>
  rbind (exitances ws temp wn vn) (fun Ms =>
  Ok (map (fun M => fst p * (M / M0) * pw)%F Ms)))).
(* the classmethod: the irradiance, then cls(wave, temp, waveunit, valueunit) with its values replaced *)
Definition vegamag (w0 jy pw temp : K) (ws : list K) (wn vn : uname) : result spectrum :=
  rbind (vega_irradiance w0 jy pw temp ws wn vn) (fun E =>
  rbind (blackbody ws temp wn vn) (fun s => Ok (mkSpec (s_wave s) E (s_wu s) (s_vu s)))).
(* star.sample(wave, waveunit): sample_vegamag with the object's current value unit *)
Definition star_sample (s : spectrum) (w0 jy pw temp : K) (pts : list K) (wn : uname) : result (list K) :=
  match s_vu s with
  | Some g => vega_irradiance w0 jy pw temp pts wn (fname g)
  | None => Err AttributeErr
  end.

End Units.
