(* Model of the plane-type state machine of lentil (lentil/ptype.py, Plane.multiply and its
   overrides in lentil/plane.py, _propagate_ptype / _has_tilt in lentil/propagate.py).

   Only the vocabulary and the program semantics are written by hand.  The transition functions
   themselves are NOT: [Gen/PTypeObserved.v] is regenerated on every check by observing the real
   classes exhaustively, [Gen/DocTable.v] by parsing the tables of the user documentation.
   Definitions only, no proofs.

   State.  The documentation speaks about the plane type of a wavefront only.  The code has one
   more bit that decides whether a step is refused: propagate_fft raises NotImplementedError
   *before* looking at the type when any field of the wavefront carries fitted tilt
   (propagate.py:_has_tilt).  A model over the type alone would therefore not be a function; the
   state of the model is the pair (type, content), the content being: fields without tilt, fields
   with tilt, or no fields at all (every field was clipped away by disjoint apertures or thrown
   off the grid; such a wavefront is legitimate, dark, and has no tilt to carry). *)
From LV Require Export Lib.Base.

(* type of a Wavefront: lentil.none / lentil.pupil / lentil.image (Wavefront.ptype setter accepts
   nothing else) *)
Inductive wtype := WNone | WPupil | WImage.
(* type of a Plane: lentil.ptype.PTYPES *)
Inductive ptype := PNone | PPupil | PImage | PTilt | PTransform.
(* exception classes a step was observed to raise; a class the generator has no name for is EOther *)
Inductive exc := EValueError | ETypeError | EIndexError | ENotImplementedError | EAssertionError
               | EAttributeError | EKeyError | EOther.
(* far-field propagation routine *)
Inductive method := Dft | Fft.

(* what the state machine knows about a wavefront: its ptype, and what its field list looks like:
   Empty = w.data == [], Tilted = any(field.tilt for field in w.data), Plain otherwise *)
Inductive content := Plain | Tilted | Empty.
Record wstate := St { ty : wtype; body : content }.
Definition tilted (s : wstate) : bool := match body s with Tilted => true | _ => false end.

(* what one step does: it returns a new wavefront in state [s], or it raises [e] and the operand
   wavefront (which the program keeps using) is left in state [kept] *)
Inductive outcome := Yields (s : wstate) | Raises (e : exc) (kept : wstate).

Definition wtype_eqb (a b : wtype) : bool :=
  match a, b with WNone, WNone | WPupil, WPupil | WImage, WImage => true | _, _ => false end.
Definition ptype_eqb (a b : ptype) : bool :=
  match a, b with
  | PNone, PNone | PPupil, PPupil | PImage, PImage | PTilt, PTilt | PTransform, PTransform => true
  | _, _ => false
  end.

(* integer codes of the case protocol (mirrored in harness/props/c08.py) *)
Definition wcode (w : wtype) : Z := match w with WNone => 0 | WPupil => 1 | WImage => 2 end.
Definition wtype_of_code (z : Z) : option wtype :=
  match z with 0 => Some WNone | 1 => Some WPupil | 2 => Some WImage | _ => None end.
Definition pcode (p : ptype) : Z :=
  match p with PNone => 0 | PPupil => 1 | PImage => 2 | PTilt => 3 | PTransform => 4 end.
Definition ptype_of_code (z : Z) : option ptype :=
  match z with 0 => Some PNone | 1 => Some PPupil | 2 => Some PImage | 3 => Some PTilt
             | 4 => Some PTransform | _ => None end.
(* same numbers as harness/common.py:ERRNAMES where that table has the class *)
Definition exc_code (e : exc) : Z :=
  match e with EValueError => 1 | ETypeError => 2 | EIndexError => 3 | ENotImplementedError => 4
             | EAssertionError => 5 | EAttributeError => 6 | EKeyError => 7 | EOther => 0 end.
Definition mcode (m : method) : Z := match m with Dft => 0 | Fft => 1 end.
Definition method_of_code (z : Z) : option method :=
  match z with 0 => Some Dft | 1 => Some Fft | _ => None end.
Definition ccode (c : content) : Z := match c with Plain => 0 | Tilted => 1 | Empty => 2 end.
Definition content_of_code (z : Z) : option content :=
  match z with 0 => Some Plain | 1 => Some Tilted | 2 => Some Empty | _ => None end.
Definition bcode (b : bool) : Z := if b then 1 else 0.
Definition bool_of_code (z : Z) : option bool :=
  match z with 0 => Some false | 1 => Some true | _ => None end.

(* a Wavefront type seen as the Plane type of the same name *)
Definition ptype_of_wtype (w : wtype) : ptype :=
  match w with WNone => PNone | WPupil => PPupil | WImage => PImage end.

Section Machine.
  (* the plane classes; the inductive is generated from the code *)
  Variable C : Type.

  (* one statement of a program:
       w = w * Plane(ptype=p, ...)  |  w = w * c(...)          (clip = true: the plane's aperture is
                                                               disjoint from all the light of w)
                                    |  w = w * c(..., ptype=p) (po = Some p: the documented ptype
                                                               override of a class constructor)
                                       (mism = true: plane and wavefront both carry a pixel scale
                                                               and the two differ)
       w = propagate_dft(w, ...) / propagate_fft(w, ...)
       w = <another wavefront, in state s>                     (the planes of the program live on) *)
  Inductive op := MulType (p : ptype) (clip mism : bool)
                | MulClass (c : C) (po : option ptype) (clip mism : bool)
                | Propagate (m : method) | Fresh (s : wstate).

  (* a transition system: what each kind of step does to a wavefront in a given state *)
  Record machine := {
    m_mul : wstate -> ptype -> bool -> bool -> outcome;      (* Plane(ptype=p).multiply(w) *)
    m_class : C -> option ptype -> bool -> bool -> wstate -> outcome;   (* c(..., [ptype=p]).multiply(w) *)
    m_prop : method -> wstate -> outcome             (* propagate_<m>(w, ...) *)
  }.

  Definition step (M : machine) (s : wstate) (o : op) : outcome :=
    match o with
    | MulType p clip mism => m_mul M s p clip mism
    | MulClass c po clip mism => m_class M c po clip mism s
    | Propagate m => m_prop M m s
    | Fresh s' => Yields s'
    end.

  (* the state of the wavefront the program goes on with:
       try: w = <step>(w)  except Exception: pass
     a refused step leaves the program with its operand *)
  Definition next (o : outcome) : wstate :=
    match o with Yields s => s | Raises _ kept => kept end.

  (* trace of outcomes of a program started on a wavefront in state [s] *)
  Fixpoint run_program (M : machine) (s : wstate) (ops : list op) : list outcome :=
    match ops with
    | [] => []
    | o :: rest => let x := step M s o in x :: run_program M (next x) rest
    end.

  (* state of the wavefront after the whole program *)
  Fixpoint final_state (M : machine) (s : wstate) (ops : list op) : wstate :=
    match ops with
    | [] => s
    | o :: rest => final_state M (next (step M s o)) rest
    end.

  (* ---- The machine the documentation describes ---------------------------------------------
     [dmul w p]   cell of the "Multiplication rules" table of wavefront.rst (None = "Not allowed")
     [dprop m w]  far-field rows of the propagation table of diffraction.rst for routine m
                  (None = not supported)
     [cls_ptype c po] the ptype an instance of class c carries: its default (planes.rst) or the
                  one given to the constructor
     A refused operation raises TypeError and leaves the operand as it was (state included).

     The tables say nothing about the content of a wavefront (fitted tilt, no fields), and
     property C08 does not pin it.  Everything about it is therefore implementation-defined in the
     documented machine:
     [impl]              the content after an accepted step is whatever the implementation [impl]
                         gives the wavefront it returns on that step
     [fft_refuses_tilt]  propagate_fft refuses (NotImplementedError, operand kept) a wavefront
                         that carries tilt, whatever its type; read off the code by the generator,
                         the direct oracle of the harness accepts either value.
     Types, acceptance, exception class and the state kept by a refused step come from the
     documentation alone - for every content, the empty one included.

     Inconsistent sampling ([mism]): a cell the table forbids is a TypeError whatever the sampling.
     What a PERMITTED product of differently sampled operands does (lentil refuses it with
     ValueError) is not a plane-type rule (property C07 speaks about it): there the documented
     machine repeats the implementation. *)
  Definition doc_type_outcome (s : wstate) (d : option wtype) (b : content) : outcome :=
    match d with Some t => Yields (St t b) | None => Raises ETypeError s end.

  Definition doc_mul_outcome (s : wstate) (d : option wtype) (mism : bool) (x : outcome) : outcome :=
    match d with
    | None => Raises ETypeError s
    | Some t => if mism then x else Yields (St t (body (next x)))
    end.

  Definition doc_machine (dmul : wtype -> ptype -> option wtype)
             (dprop : method -> wtype -> option wtype)
             (cls_ptype : C -> option ptype -> ptype) (impl : machine) (fft_refuses_tilt : bool) : machine :=
    {| m_mul := fun s p clip mism =>
         doc_mul_outcome s (dmul (ty s) p) mism (m_mul impl s p clip mism);
       m_class := fun c po clip mism s =>
         doc_mul_outcome s (dmul (ty s) (cls_ptype c po)) mism (m_class impl c po clip mism s);
       m_prop := fun m s =>
         match m with
         | Fft => if tilted s && fft_refuses_tilt then Raises ENotImplementedError s
                  else doc_type_outcome s (dprop m (ty s)) (body (next (m_prop impl m s)))
         | Dft => doc_type_outcome s (dprop m (ty s)) (body (next (m_prop impl m s)))
         end |}.
End Machine.

Arguments MulType {C} p clip mism.
Arguments MulClass {C} c po clip mism.
Arguments Fresh {C} s.
Arguments Propagate {C} m.
Arguments m_mul {C} m _ _ _ _.
Arguments m_class {C} m _ _ _ _ _.
Arguments m_prop {C} m _ _.
Arguments step {C} M s o.
Arguments run_program {C} M s ops.
Arguments final_state {C} M s ops.
Arguments doc_machine {C} dmul dprop cls_ptype impl fft_refuses_tilt.

(* ---- encoding of traces for the case protocol ---- *)
Definition estate (s : wstate) : list Z := [wcode (ty s); ccode (body s)].
Definition eoutcome (x : outcome) : list Z :=
  match x with
  | Yields s => 0 :: estate s
  | Raises e k => 1 :: exc_code e :: estate k
  end.
