(* Model of the plane-type state machine of lentil (lentil/ptype.py, Plane.multiply and its
   overrides in lentil/plane.py, _propagate_ptype in lentil/propagate.py).

   Only the vocabulary and the program semantics are written by hand.  The transition functions
   themselves are NOT: [Gen/PTypeObserved.v] is regenerated on every check by observing the real
   classes exhaustively, [Gen/DocTable.v] by parsing the tables of the user documentation.
   Definitions only, no proofs. *)
From LV Require Export Lib.Base.

(* type of a Wavefront: lentil.none / lentil.pupil / lentil.image (Wavefront.ptype setter accepts
   nothing else) *)
Inductive wtype := WNone | WPupil | WImage.
(* type of a Plane: lentil.ptype.PTYPES *)
Inductive ptype := PNone | PPupil | PImage | PTilt | PTransform.
(* exception classes a step was observed to raise; a class the generator has no name for is EOther *)
Inductive exc := EValueError | ETypeError | EIndexError | ENotImplementedError | EAssertionError
               | EAttributeError | EKeyError | EOther.
(* what one step does: it returns a new wavefront of type [t], or it raises [e] and the operand
   wavefront (which the program keeps using) is left with type [kept] *)
Inductive outcome := Yields (t : wtype) | Raises (e : exc) (kept : wtype).
(* far-field propagation routine *)
Inductive method := Dft | Fft.

Definition wtype_eqb (a b : wtype) : bool :=
  match a, b with WNone, WNone | WPupil, WPupil | WImage, WImage => true | _, _ => false end.

(* integer codes of the case protocol (mirrored in harness/props/c08.py) *)
Definition wcode (w : wtype) : Z := match w with WNone => 0 | WPupil => 1 | WImage => 2 end.
Definition wtype_of_code (z : Z) : option wtype :=
  match z with 0 => Some WNone | 1 => Some WPupil | 2 => Some WImage | _ => None end.
Definition pcode (p : ptype) : Z :=
  match p with PNone => 0 | PPupil => 1 | PImage => 2 | PTilt => 3 | PTransform => 4 end.
Definition ptype_of_code (z : Z) : option ptype :=
  match z with 0 => Some PNone | 1 => Some PPupil | 2 => Some PImage | 3 => Some PTilt
             | 4 => Some PTransform | _ => None end.
(* same numbers as harness/common.py:ERRNAMES where that table has the class *)
Definition exc_code (e : exc) : Z :=
  match e with EValueError => 1 | ETypeError => 2 | EIndexError => 3 | ENotImplementedError => 4
             | EAssertionError => 5 | EAttributeError => 6 | EKeyError => 7 | EOther => 0 end.
Definition mcode (m : method) : Z := match m with Dft => 0 | Fft => 1 end.
Definition method_of_code (z : Z) : option method :=
  match z with 0 => Some Dft | 1 => Some Fft | _ => None end.

(* a Wavefront type seen as the Plane type of the same name *)
Definition ptype_of_wtype (w : wtype) : ptype :=
  match w with WNone => PNone | WPupil => PPupil | WImage => PImage end.

Section Machine.
  (* the plane classes; the inductive is generated from the code *)
  Variable C : Type.

  (* one statement of a program:  w = w * Plane(ptype=p, ...)  |  w = w * c(...)  |
     w = propagate_dft(w, ...) / propagate_fft(w, ...) *)
  Inductive op := MulType (p : ptype) | MulClass (c : C) | Propagate (m : method).

  (* a transition system: what each kind of step does to a wavefront of a given type *)
  Record machine := {
    m_mul : wtype -> ptype -> outcome;      (* Plane(ptype=p).multiply(w) *)
    m_class : C -> wtype -> outcome;        (* c(...).multiply(w) *)
    m_prop : method -> wtype -> outcome     (* propagate_<m>(w, ...) *)
  }.

  Definition step (M : machine) (w : wtype) (o : op) : outcome :=
    match o with
    | MulType p => m_mul M w p
    | MulClass c => m_class M c w
    | Propagate m => m_prop M m w
    end.

  (* the type of the wavefront the program goes on with:
       try: w = <step>(w)  except Exception: pass *)
  Definition next (o : outcome) : wtype :=
    match o with Yields t => t | Raises _ kept => kept end.

  (* trace of outcomes of a program started on a wavefront of type [w] *)
  Fixpoint run_program (M : machine) (w : wtype) (ops : list op) : list outcome :=
    match ops with
    | [] => []
    | o :: rest => let x := step M w o in x :: run_program M (next x) rest
    end.

  (* type of the wavefront after the whole program *)
  Fixpoint final_type (M : machine) (w : wtype) (ops : list op) : wtype :=
    match ops with
    | [] => w
    | o :: rest => final_type M (next (step M w o)) rest
    end.

  (* The machine the documentation describes.  [dmul w p] is the cell of the "Multiplication
     rules" table (None = "Not allowed"), [dprop w] the far-field row of the propagation table
     (None = not supported), [cls_ptype c] the ptype attribute an instance of class c carries.
     A refused operation raises TypeError and leaves the operand as it was. *)
  Definition doc_outcome (w : wtype) (d : option wtype) : outcome :=
    match d with Some t => Yields t | None => Raises ETypeError w end.

  Definition doc_machine (dmul : wtype -> ptype -> option wtype) (dprop : wtype -> option wtype)
             (cls_ptype : C -> ptype) : machine :=
    {| m_mul := fun w p => doc_outcome w (dmul w p);
       m_class := fun c w => doc_outcome w (dmul w (cls_ptype c));
       m_prop := fun _ w => doc_outcome w (dprop w) |}.
End Machine.

Arguments MulType {C} p.
Arguments MulClass {C} c.
Arguments Propagate {C} m.
Arguments m_mul {C} m _ _.
Arguments m_class {C} m _ _.
Arguments m_prop {C} m _ _.
Arguments step {C} M w o.
Arguments run_program {C} M w ops.
Arguments final_type {C} M w ops.
Arguments doc_machine {C} dmul dprop cls_ptype.
