(* Glue between the plane model (Model/Plane.v) and the propagation model (Model/Propagate.v):
   the wavefront a chain of planes leaves behind, handed to lentil.propagate_dft.
   Definitions only. *)
From LV Require Export Model.Plane Model.Propagate.

(* helper.slice_offset(slice, shape) on every index expression it accepts: Ellipsis, a tuple holding Ellipsis and a
   full slice ((..., :)), any other tuple holding Ellipsis (refused: the offset cannot be known), a pair of slices *)
Inductive slice_arg := SlEllipsis | SlEllFull | SlEllOther | SlPair (r0 r1 c0 c1 : Z).
Definition slice_offset_any (s : slice_arg) (sr sc : Z) : result (Z * Z) :=
  match s with
  | SlEllipsis | SlEllFull => Ok (0, 0)
  | SlEllOther => Err ValueError
  | SlPair r0 r1 c0 c1 => Ok (slice_offset (SBox r0 r1 c0 c1) sr sc)
  end.

Section Segment.
Variable S : Scalar.

(* the attributes propagate_dft reads: a 2-d shape and a focal length that is a number or np.inf
   (a wavefront of shape () or with focal_length None makes propagate_dft raise) *)
Definition to_wavefront (w : pwf S) (t : wf_ptype) : result (wavefront S) :=
  match pw_shape w with
  | None => Err ValueError
  | Some sh =>
      match pw_focal w with
      | FInf => Ok (mkWf (pw_lam w) (pw_pix w) None sh t (pw_data w))
      | FVal q => Ok (mkWf (pw_lam w) (pw_pix w) (Some q) sh t (pw_data w))
      | FNone => Err TypeError
      end
  end.

(* lentil.propagate_dft(Wavefront(...) * P1 * ... * Pk, pixelscale, shape, prop_shape, oversample) for
   pupil planes and fields without tilt *)
Definition chain_propagate (sq : Qc -> S) (ps : list (plane S)) (w : pwf S) (dur duc : Qc)
           (shape pshape : option (Z * Z)) (os : Z) : result (wavefront S) :=
  rbind (chain_multiply ps w) (fun w1 =>
  rbind (to_wavefront w1 PtPupil) (fun w2 =>
  propagate_dft sq (@no_shift S) w2 dur duc shape pshape os None)).

(* Field.shift for angular tilt elements (Tilt.shift: x = xs - z*self.x, y = ys - z*self.y; then metres ->
   oversampled output pixels and (x, y) -> (row, col) = (-y, x)); the full model with dispersive elements
   is Model/Tilt.v (property C04).  z = focal length (None = np.inf is not meaningful with tilt) *)
Definition ang_step (z : Qc) (acc : Qc * Qc) (t : tilt) : Qc * Qc :=
  match t with
  | TiltAng tx ty => (fst acc - z * tx, snd acc - z * ty)%Qc
  | TiltDisp _ _ _ _ _ => acc
  end.
Definition ang_shift (z : option Qc) (dur duc : Qc) (os : Z) (f : field S) : Qc * Qc :=
  let xy := fold_left (ang_step (match z with Some q => q | None => 0%Qc end)) (ftilt f) (0%Qc, 0%Qc) in
  ((- (snd xy / dur * zq os))%Qc, (fst xy / duc * zq os)%Qc).

(* the same call for fields that may carry angular tilt (per-segment tilts of a segmented pupil) *)
Definition chain_propagate_tilted (sq : Qc -> S) (ps : list (plane S)) (w : pwf S) (dur duc : Qc)
           (shape pshape : option (Z * Z)) (os : Z) : result (wavefront S) :=
  rbind (chain_multiply ps w) (fun w1 =>
  rbind (to_wavefront w1 PtPupil) (fun w2 =>
  propagate_dft sq (ang_shift (wfocal w2) dur duc os) w2 dur duc shape pshape os None)).
End Segment.
Arguments to_wavefront {S}. Arguments chain_propagate {S}.
Arguments ang_shift {S}. Arguments chain_propagate_tilted {S}.
