(* Energy bookkeeping of a far-field propagation (C05) and lentil.util.normalize_power.
     power a            = sum |a|^2                                  (np.sum(np.abs(a)**2))
     pupil_field        = amp * exp(2 pi i opd / lambda)             (Plane.multiply's phasor; phase in turns)
     propagate_period   = the unitary dft2 over one full period (Pr, Pc), alpha = (1/Pr, 1/Pc), the call
                          propagate_dft makes for an untilted field when shape*oversample = (Pr, Pc)
     window_energy F M N = total intensity |F|^2 over the centred M x N window of a full-period output F
                          (what Wavefront.intensity sums to when propagate_dft is asked for a smaller shape)
     normalize_power    = array * sqrt(power / sum |array|^2);  square root and reciprocal are parameters
                          (reals are not executable): [sqs] is sqrt on the scalars that represent
                          non-negative reals, [inv] the reciprocal. *)
From LV Require Export Model.Dft.

Section Power.
Variable S : Scalar.
Variable sq : Qc -> S.
Variable sqs : S -> S.
Variable inv : S -> S.

Definition power (a : arr S) : S := asum (amap norm2 a).

Definition pupil_field (amp : arr S) (phase : Z -> Z -> Qc) : arr S :=
  mkArr (nr amp) (nc amp) (fun x y => (get amp x y * ke (- phase x y)%Qc)%K).

Definition propagate_period (f : arr S) (Pr Pc : Z) (offr offc : Z) : arr S :=
  dft2 sq f (/ zq Pr)%Qc (/ zq Pc)%Qc Pr Pc 0%Qc 0%Qc offr offc true.

Definition window_energy (F : arr S) (M N : Z) : S :=
  sumZ M (fun u => sumZ N (fun v => norm2 (get F (u - M / 2 + nr F / 2) (v - N / 2 + nc F / 2)))).

Definition normalize_power (a : arr S) (p : S) : arr S :=
  let c := sqs (p * inv (power a))%K in amap (fun z => (z * c)%K) a.
End Power.
Arguments power {S}. Arguments pupil_field {S}. Arguments propagate_period {S}.
Arguments window_energy {S}. Arguments normalize_power {S}.

(* normalize_power as a caller sees it, including the calls whose result is not finite:
     power/sum|a|^2 with sum|a|^2 = 0 is inf or nan (0/0), and the square root of a negative target is nan -
   every sample of the result is then inf or nan (with a RuntimeWarning, no exception).  [None] = "not finite".
   [is0] decides whether a scalar is zero; the target is a rational (every float is one). *)
Section PowerChecked.
Variable S : Scalar.
Variable sqs : S -> S.
Variable inv : S -> S.
Variable is0 : S -> bool.

Definition normalize_power_checked (a : arr S) (p : Qc) : option (arr S) :=
  if is0 (power a) || negb (Qle_bool 0 (this p)) then None
  else Some (normalize_power sqs inv a (kofq p)).
End PowerChecked.
Arguments normalize_power_checked {S}.
