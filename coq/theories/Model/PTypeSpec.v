(* The two machines property C08 compares, built from the generated tables:
   [observed]   (Gen/PTypeObserved.v) the implementation's transition function, and
   [documented] the machine the three documentation tables (Gen/DocTable.v) describe.
   Definitions only, no proofs. *)
From LV Require Export Model.PType Gen.PTypeObserved Gen.DocTable.

(* the plane type the documentation gives an instance of a class: the one handed to the constructor
   ("If ptype is not provided, it defaults to ..."), else the default of the planes.rst table; for a
   public class that table does not list (Grism, LensletArray) the multiplication table is entered
   with the ptype attribute its instances carry *)
Definition eff_ptype (k : cls) (po : option ptype) : ptype :=
  match po with
  | Some p => p
  | None => match doc_class_ptype k with Some p => p | None => observed_class_ptype k end
  end.

(* types, acceptance and exceptions from the documentation; the tilt bit from the implementation
   (Model/PType.v:doc_machine) *)
Definition documented : machine cls :=
  doc_machine doc_mul doc_prop eff_ptype observed observed_fft_refuses_tilt.

(* known finding C08-rotate-flip: these two documented classes cannot be applied at all *)
Definition known_broken (k : cls) : bool :=
  match k with KRotate | KFlip => true | _ => false end.
(* claimed: every operation except Rotate/Flip and except a ptype override the class constructor
   does not accept (there is no such object) *)
Definition op_claimed (o : op cls) : bool :=
  match o with
  | MulClass k po _ _ =>
      negb (known_broken k) &&
      match po with
      | None => true
      | Some p => match observed_override_ptype k p with Some _ => true | None => false end
      end
  | _ => true
  end.
(* consistently sampled: no multiplication of differently sampled operands *)
Definition consistent (o : op cls) : bool :=
  match o with MulType _ _ m => negb m | MulClass _ _ _ m => negb m | _ => true end.
Definition is_fft (o : op cls) : bool :=
  match o with Propagate Fft => true | _ => false end.
(* a step that never hands a tilt to a wavefront that had none *)
Definition untilting (o : op cls) : bool :=
  forallb (fun s => negb (tilted (next (step observed s o))))
          [St WNone Plain; St WPupil Plain; St WImage Plain; St WNone Empty; St WPupil Empty; St WImage Empty].

(* ---- the documentation read on types alone (no tilt bit at all) ---- *)
Inductive toutcome := TYields (t : wtype) | TRaises (e : exc) (kept : wtype).
Definition erase (x : outcome) : toutcome :=
  match x with Yields s => TYields (ty s) | Raises e k => TRaises e (ty k) end.
Definition tdoc (w : wtype) (d : option wtype) : toutcome :=
  match d with Some t => TYields t | None => TRaises ETypeError w end.
Definition tstep (w : wtype) (o : op cls) : toutcome :=
  match o with
  | MulType p _ _ => tdoc w (doc_mul w p)
  | MulClass k po _ _ => tdoc w (doc_mul w (eff_ptype k po))
  | Propagate m => tdoc w (doc_prop m w)
  | Fresh s => TYields (ty s)
  end.
Definition tnext (x : toutcome) : wtype := match x with TYields t => t | TRaises _ k => k end.
Fixpoint run_types (w : wtype) (ops : list (op cls)) : list toutcome :=
  match ops with
  | [] => []
  | o :: rest => let x := tstep w o in x :: run_types (tnext x) rest
  end.

(* ---- the hand-written transition function (Model/PTypeMeta.v abstracted to states) ------------
   What lentil's code does to (type, content), written down by hand from plane.py / propagate.py:
   the refusals and their order, the forced image type, and the evolution of the content (tilt
   objects, emptiness) that the generated tables only record. *)
From LV Require Export Model.PTypeMeta.

Inductive mkind := MKPlane | MKPupil | MKImage | MKTilt.
Definition mk_of (k : pkind) : mkind :=
  match k with KindPlane => MKPlane | KindPupil _ => MKPupil | KindImage => MKImage | KindTilt => MKTilt end.
(* which multiply() the public classes run; Rotate and Flip have their own, broken, one *)
Definition ckind (k : cls) : option mkind :=
  match k with
  | KPlane | KLensletArray => Some MKPlane
  | KPupil => Some MKPupil
  | KImage => Some MKImage
  | KTilt | KDispersiveTilt | KGrism => Some MKTilt
  | KRotate | KFlip => None
  end.
(* both operands carry a pixel scale and the two differ *)
Definition mism_of (a b : psc) : bool :=
  match a, b with Some x, Some y => negb (psc_eqb x y) | _, _ => false end.

Definition mul_content (mk : mkind) (clip : bool) (c : content) : content :=
  match c with
  | Empty => Empty
  | _ => if clip then Empty else match mk with MKTilt => Tilted | _ => c end
  end.
Definition hand_mul_outcome (mk : mkind) (p : ptype) (clip mism : bool) (s : wstate) : outcome :=
  match hand_table (ty s) p with
  | None => Raises ETypeError s
  | Some t =>
      if mism then Raises EValueError s
      else Yields (St (match mk with MKImage => WImage | _ => t end) (mul_content mk clip (body s)))
  end.
Definition hand_prop_outcome (m : method) (s : wstate) : outcome :=
  match m with
  | Fft =>
      if tilted s then Raises ENotImplementedError s else
      match propagate_ptype (ty s) with
      | Err _ => Raises ETypeError s
      | Ok t => Yields (St t Plain)
      end
  | Dft =>
      match propagate_ptype (ty s) with
      | Err _ => Raises ETypeError s
      | Ok t => Yields (St t (match body s with Empty => Empty | _ => Plain end))
      end
  end.
(* the ptype attribute an instance carries *)
Definition inst_ptype (k : cls) (po : option ptype) : ptype :=
  match po with Some p => p | None => observed_class_ptype k end.
