(* The two machines property C08 compares, built from the generated tables:
   [observed]   (Gen/PTypeObserved.v) the implementation's transition function, and
   [documented] the machine the three documentation tables (Gen/DocTable.v) describe.
   Definitions only, no proofs. *)
From LV Require Export Model.PType Gen.PTypeObserved Gen.DocTable.

(* the plane type the documentation gives an instance of a class: the one handed to the constructor
   ("If ptype is not provided, it defaults to ..."), else the default of the planes.rst table; for a
   public class that table does not list (Grism, LensletArray) the multiplication table is entered
   with the ptype attribute its instances carry *)
Definition eff_ptype (k : cls) (po : option ptype) : ptype :=
  match po with
  | Some p => p
  | None => match doc_class_ptype k with Some p => p | None => observed_class_ptype k end
  end.

(* types, acceptance and exceptions from the documentation; the tilt bit from the implementation
   (Model/PType.v:doc_machine) *)
Definition documented : machine cls :=
  doc_machine doc_mul doc_prop eff_ptype observed observed_fft_refuses_tilt.

(* known finding C08-rotate-flip: these two documented classes cannot be applied at all *)
Definition known_broken (k : cls) : bool :=
  match k with KRotate | KFlip => true | _ => false end.
(* claimed: every operation except Rotate/Flip and except a ptype override the class constructor
   does not accept (there is no such object) *)
Definition op_claimed (o : op cls) : bool :=
  match o with
  | MulClass k po _ _ =>
      negb (known_broken k) &&
      match po with
      | None => true
      | Some p => match observed_override_ptype k p with Some _ => true | None => false end
      end
  | _ => true
  end.
(* consistently sampled: no multiplication of differently sampled operands *)
Definition consistent (o : op cls) : bool :=
  match o with MulType _ _ m => negb m | MulClass _ _ _ m => negb m | _ => true end.
Definition is_fft (o : op cls) : bool :=
  match o with Propagate Fft => true | _ => false end.
(* a step that never hands a tilt to a wavefront that had none *)
Definition untilting (o : op cls) : bool :=
  forallb (fun s => negb (tilted (next (step observed s o))))
          [St WNone Plain; St WPupil Plain; St WImage Plain; St WNone Empty; St WPupil Empty; St WImage Empty].

(* ---- the documentation read on types alone (no tilt bit at all) ---- *)
Inductive toutcome := TYields (t : wtype) | TRaises (e : exc) (kept : wtype).
Definition erase (x : outcome) : toutcome :=
  match x with Yields s => TYields (ty s) | Raises e k => TRaises e (ty k) end.
Definition tdoc (w : wtype) (d : option wtype) : toutcome :=
  match d with Some t => TYields t | None => TRaises ETypeError w end.
Definition tstep (w : wtype) (o : op cls) : toutcome :=
  match o with
  | MulType p _ _ => tdoc w (doc_mul w p)
  | MulClass k po _ _ => tdoc w (doc_mul w (eff_ptype k po))
  | Propagate m => tdoc w (doc_prop m w)
  | Fresh s => TYields (ty s)
  end.
Definition tnext (x : toutcome) : wtype := match x with TYields t => t | TRaises _ k => k end.
Fixpoint run_types (w : wtype) (ops : list (op cls)) : list toutcome :=
  match ops with
  | [] => []
  | o :: rest => let x := tstep w o in x :: run_types (tnext x) rest
  end.
