(* The public entry points of lentil/field.py and lentil/extent.py around the kernels of Model/Field.v and
   Model/Extent.v: Field attributes (shape, size, extent, pixelscale), merge(a, b, enforce_overlap) with its two
   refusals, _merge's pixelscale check, overlap(fields), array_extent with parent_shape and with short shapes.
   Definitions only, no proofs. *)
From LV Require Export Model.Field.

(* Field.pixelscale as the caller gave it: None, a number, or a pair; `==` of Python on these values *)
Inductive px := PxNone | PxS (q : Qc) | PxP (a b : Qc).
Definition px_eqb (x y : px) : bool :=
  match x, y with
  | PxNone, PxNone => true
  | PxS a, PxS b => Qc_eq_bool a b
  | PxP a b, PxP c d => Qc_eq_bool a c && Qc_eq_bool b d
  | _, _ => false                      (* None == 1.0, 1.0 == (1.0, 1.0): False *)
  end.

(* array_extent(shape, shift, parent_shape): a shape with fewer than two entries counts as (1, 1); with a parent
   shape the extent is relative to the parent's upper-left corner *)
Definition array_extent_any (shape : list Z) (shr shc : Z) (parent : option (Z * Z)) : extent :=
  let '(sr, sc) := match shape with a :: b :: _ => (a, b) | _ => (1, 1) end in
  let '(rmin, rmax, cmin, cmax) := array_extent sr sc shr shc in
  match parent with
  | None => (rmin, rmax, cmin, cmax)
  | Some (pr, pc) => (rmin + pr / 2, rmax + pr / 2, cmin + pc / 2, cmax + pc / 2)
  end.

Section FieldApi.
Variable S : Scalar.

(* a Field object: data/offset/tilt (Model/Field.v) and the pixelscale attribute *)
Definition pxfield := (field S * px)%type.

(* Field.shape (None = ()), Field.size, Field.extent *)
Definition fshape (f : field S) : option (Z * Z) := match fd f with D0 _ => None | D2 a => Some (nr a, nc a) end.
Definition fsize (f : field S) : Z := dsize (fd f).

(* _merge(fields): pixelscales must all equal the first one; an empty collection fails at fields[0] *)
Definition merge_px (fs : list pxfield) : result pxfield :=
  match fs with
  | [] => Err IndexError
  | (f0, p0) :: _ =>
      if forallb (fun fp => px_eqb (snd fp) p0) fs then Ok (merge (map fst fs), p0) else Err ValueError
  end.

(* overlap(fields): two fields - their extents intersect; otherwise - _reduce leaves at most one group *)
Definition overlap (fs : list (field S)) : bool :=
  match fs with
  | [a; b] => intersect (fextent a) (fextent b)
  | _ => Nat.leb (length (reduce_groups fs)) 1
  end.

(* merge(a, b, enforce_overlap=True) *)
Definition merge_pub (a b : pxfield) (enforce : bool) : result pxfield :=
  if enforce && negb (overlap [fst a; fst b]) then Err ValueError else merge_px [a; b].
End FieldApi.
Arguments fshape {S}. Arguments fsize {S}. Arguments merge_px {S}. Arguments overlap {S}. Arguments merge_pub {S}.
