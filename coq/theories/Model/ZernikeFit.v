(* Model of lentil/zernike.py: zernike_compose, zernike_basis, zernike_fit, zernike_remove
   (tree after fix dd16df9).  Definitions only.

   What is abstract (section variables; named in TRUSTED of harness/props/c12.py):
   * [zpoly normalize crd j r c] - the value of the (unmasked) Noll mode j at pixel (r, c) for a
     normalisation flag and a coordinate choice ([None] = zernike_coordinates(mask), [Some x] = the
     caller's (rho, theta)).  The modes themselves are property C11; here they are ANY family.
   * [is0] - the zero test behind np.asarray(mask, dtype=bool).
   * [solve k N B y] - np.linalg.pinv followed by the einsum of zernike_fit, with the contract
     "an answer solves the normal equations of  min |y - sum_i c_i B_i|^2"  (Lib/Lsq.v: [NE]).
     The executed instance is the validated Gauss solver [q_solve].
   What is modelled as written: the mask factor inside zernike(), coefficient k <-> Noll index k+1
   in compose, the (modes, pixels) reshape and opd.ravel() in fit, the argument passing of remove
   (keyword rho/theta, normalize left at its default True in BOTH the fit and the re-composition,
   re-composition with the REQUESTED modes), the ValueError of zernike_index for j < 1 and the
   size/shape errors of einsum and of the final subtraction.
   Argument forms: the coordinate arguments (rho, theta) are modelled as given ([coordarg]: none, both,
   rho alone -> ValueError from the first mode evaluated, theta alone -> silently the default
   coordinates); a scalar [modes] is the one-element list (np.atleast_1d / newaxis); containers
   (list, tuple, ndarray of any integer dtype), memory layout (C, Fortran, strided views) and the
   dtype of opd / mask do not reach the model: they denote the same values, and the tie checks that
   lentil agrees.  Repeated modes make the family dependent: the solver contract does not apply
   (the executed solver answers Err; the tie decides those calls by the oracle only).
   An empty list of modes is refused by zernike_fit / zernike_remove / zernike_basis(vectorize=True) (reshape of
   an empty cube), accepted by zernike_basis(vectorize=False) and - as an empty coefficient list - by zernike_compose.
   Not modelled: modes given as a nested (2-d) array or as floats; an opd that is not 2-d; numpy broadcasting of an opd whose shape
   differs from the mask's (the model refuses it). *)
From LV Require Export Lib.Arr Lib.Lsq.

Section ZernikeFit.
Variable S : Scalar.
Variable Crd : Type.
Variable is0 : S -> bool.
Variable zpoly : bool -> option Crd -> Z -> Z -> Z -> S.
Variable solve : Z -> Z -> (Z -> Z -> S) -> (Z -> S) -> result (list S).

(* zernike(mask, index, normalize, rho, theta):  Z = <polynomial> * mask, mask cast to bool *)
Definition zernike (mask : arr S) (j : Z) (normalize : bool) (crd : option Crd) : arr S :=
  mkArr (nr mask) (nc mask) (fun r c => if is0 (get mask r c) then k0 else zpoly normalize crd j r c).

(* opd = zeros(mask.shape); for index, coeff in ndenumerate(coeffs): opd += coeff * zernike(mask, index+1, ...) *)
Definition zernike_compose (mask : arr S) (coeffs : list S) (normalize : bool) (crd : option Crd) : arr S :=
  mkArr (nr mask) (nc mask)
        (fun r c => sumZ (Z.of_nat (length coeffs))
                         (fun i => (nthZ coeffs i * get (zernike mask (i + 1)%Z normalize crd) r c)%K)).

Definition nthmode (modes : list Z) (i : Z) : Z := nth (Z.to_nat i) modes 0.      (* modes[i] *)
(* caller side (not lentil code): the coefficient vector of length n that makes zernike_compose
   produce  sum_i cs_i * mode(modes_i);  entry t belongs to Noll index t+1 (harness: scatter()) *)
Definition scatter (n : Z) (modes : list Z) (cs : list S) : list S :=
  tabZ n (fun t => sumZ (Z.of_nat (length modes))
                        (fun i => if nthmode modes i =? t + 1 then nthZ cs i else k0)).

(* a.ravel() / a.reshape(-1): row-major *)
Definition ravel (a : arr S) (p : Z) : S := get a (p / nc a) (p mod nc a).

(* zernike_basis(mask, modes, vectorize=True, ...): row i = zernike(mask, modes[i], ...) flattened *)
Definition basis_mat (mask : arr S) (modes : list Z) (normalize : bool) (crd : option Crd) (i p : Z) : S :=
  ravel (zernike mask (nthmode modes i) normalize crd) p.
(* zernike_index raises for j < 1 *)
Definition modes_ok (modes : list Z) : bool := negb (existsb (fun j => j <? 1) modes).

(* zernike_basis(mask, modes, vectorize=False, normalize, rho, theta): the cube, basis[i] = zernike(mask, modes[i], ...);
   an empty list of modes gives the empty cube of shape (0,) + mask.shape *)
Definition zernike_basis_cube (mask : arr S) (modes : list Z) (normalize : bool) (crd : option Crd)
  : result (list (arr S)) :=
  if negb (modes_ok modes) then Err ValueError else Ok (map (fun j => zernike mask j normalize crd) modes).
(* vectorize=True: basis.reshape(basis.shape[0], -1) - one row per mode, the pixels row-major; numpy cannot infer
   the -1 for an EMPTY cube and raises ValueError *)
Definition zernike_basis_vec (mask : arr S) (modes : list Z) (normalize : bool) (crd : option Crd)
  : result (arr S) :=
  if negb (modes_ok modes) then Err ValueError else
  if Nat.eqb (length modes) 0 then Err ValueError else
  Ok (mkArr (Z.of_nat (length modes)) (nr mask * nc mask) (basis_mat mask modes normalize crd)).

(* basis = zernike_basis(mask, modes, True, normalize, rho, theta); pinv(basis) applied to opd.ravel()
   (einsum refuses an opd whose size is not the number of columns) *)
Definition zernike_fit (opd mask : arr S) (modes : list Z) (normalize : bool) (crd : option Crd)
  : result (list S) :=
  rbind (zernike_basis_vec mask modes normalize crd) (fun B =>
    if negb (nr opd * nc opd =? nc B) then Err ValueError else
    solve (nr B) (nc B) (get B) (ravel opd)).

(* coeffs = zernike_fit(opd, mask, modes, rho=rho, theta=theta)       -- normalize = True (default)
   basis  = zernike_basis(mask, modes, rho=rho, theta=theta)          -- the same modes, normalize = True
   residual = opd - einsum('ijk,i->jk', basis, coeffs) *)
Definition zernike_remove (opd mask : arr S) (modes : list Z) (crd : option Crd) : result (arr S) :=
  rbind (zernike_fit opd mask modes true crd) (fun coeffs =>
    if negb ((nr opd =? nr mask) && (nc opd =? nc mask)) then Err ValueError else
    Ok (mkArr (nr opd) (nc opd)
          (fun r c => (get opd r c
                       - sumZ (Z.of_nat (length modes))
                              (fun i => (get (zernike mask (nthmode modes i) true crd) r c * nthZ coeffs i)%K))%K))).

(* ---- the coordinate arguments as the caller passes them ----
   zernike():  if rho is None: rho, theta = zernike_coordinates(mask)     (a lone theta is dropped)
               elif theta is None: raise ValueError                        (first mode evaluated) *)
Inductive coordarg := CNone | CBoth (x : Crd) | CRhoOnly | CThetaOnly.
Definition coords_of (a : coordarg) : option Crd := match a with CBoth x => Some x | _ => None end.
Definition coords_err (a : coordarg) (ncalls : nat) : bool :=
  match a with CRhoOnly => negb (Nat.eqb ncalls 0) | _ => false end.

Definition zernike_compose_a (mask : arr S) (coeffs : list S) (normalize : bool) (a : coordarg) : result (arr S) :=
  if coords_err a (length coeffs) then Err ValueError else Ok (zernike_compose mask coeffs normalize (coords_of a)).
Definition zernike_fit_a (opd mask : arr S) (modes : list Z) (normalize : bool) (a : coordarg) : result (list S) :=
  if coords_err a (length modes) then Err ValueError else zernike_fit opd mask modes normalize (coords_of a).
Definition zernike_remove_a (opd mask : arr S) (modes : list Z) (a : coordarg) : result (arr S) :=
  if coords_err a (length modes) then Err ValueError else zernike_remove opd mask modes (coords_of a).
(* zernike_basis as the public function: the cube (vectorize=False) or the matrix (vectorize=True) *)
Definition zernike_basis_a (mask : arr S) (modes : list Z) (vectorize normalize : bool) (a : coordarg)
  : result (list (arr S) + arr S) :=
  if coords_err a (length modes) then Err ValueError else
  if vectorize then rbind (zernike_basis_vec mask modes normalize (coords_of a)) (fun B => Ok (Datatypes.inr B))
  else rbind (zernike_basis_cube mask modes normalize (coords_of a)) (fun cube => Ok (Datatypes.inl cube)).
End ZernikeFit.
Arguments CNone {Crd}. Arguments CBoth {Crd}. Arguments CRhoOnly {Crd}. Arguments CThetaOnly {Crd}.
Arguments coords_of {Crd}. Arguments coords_err {Crd}.
Arguments zernike_compose_a {S Crd}. Arguments zernike_fit_a {S Crd}. Arguments zernike_remove_a {S Crd}.
Arguments zernike_basis_a {S Crd}.
Arguments scatter {S}. Arguments zernike {S Crd}. Arguments zernike_compose {S Crd}. Arguments ravel {S}.
Arguments basis_mat {S Crd}. Arguments zernike_fit {S Crd}. Arguments zernike_remove {S Crd}.
Arguments zernike_basis_cube {S Crd}. Arguments zernike_basis_vec {S Crd}.
