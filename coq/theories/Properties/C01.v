(* C01 - Matrix-triple-product DFT equals the defining Fourier sum and is invertible.
   [S] ranges over every commutative ring with a kernel e = [ke] satisfying e(a+b) = e a * e b
   (over the complex numbers: e t = exp(-2 pi i t)); alpha, shift over all rationals, shapes and
   offsets over all integers. *)
From LV Require Import Model.Dft Proofs.DftP.

(* every output sample (u, v) carries the defining sum over input samples, both planes' origins at
   index floor(n/2), times sqrt|alpha_r alpha_c| exactly when unitary *)
Theorem C01_dft2_is_defining_sum :
  forall (S : Scalar), is_ring S -> kernel_laws S -> forall (sq : Qc -> S)
         (f : arr S) (ar ac : Qc) (M N : Z) (shr shc : Qc) (offr offc : Z) (unitary : bool) (u v : Z),
  0 <= u < M -> 0 <= v < N ->
  get (dft2 sq f ar ac M N shr shc offr offc unitary) u v
  = (sumZ (nr f) (fun x => sumZ (nc f) (fun y =>
       (get f x y * ke (ar * zq (x - nr f / 2 + offr) * (zq (u - M / 2) - shr)
                        + ac * zq (y - nc f / 2 + offc) * (zq (v - N / 2) - shc))%Qc)%K))
     * (if unitary then sq (qabs (ar * ac)%Qc) else k1))%K.
Proof. exact dft2_defining_sum. Qed.
Print Assumptions C01_dft2_is_defining_sum.

Theorem C01_dft2_shape :
  forall (S : Scalar) (sq : Qc -> S) (f : arr S) ar ac M N shr shc offr offc unitary,
  nr (dft2 sq f ar ac M N shr shc offr offc unitary) = M /\ nc (dft2 sq f ar ac M N shr shc offr offc unitary) = N.
Proof. exact dft2_shape. Qed.
Print Assumptions C01_dft2_shape.

(* integer input offsets: a sub-array containing the support, transformed with the slice's offset,
   gives the transform of the whole zero-padded array *)
Theorem C01_subarray_with_offset :
  forall (S : Scalar), is_ring S -> forall (g : arr S) r0 r1 c0 c1 ar ac offr offc U V,
  0 <= r0 -> r0 <= r1 -> r1 <= nr g -> 0 <= c0 -> c0 <= c1 -> c1 <= nc g ->
  (forall x y, 0 <= x < nr g -> 0 <= y < nc g -> ~ (r0 <= x < r1 /\ c0 <= y < c1) -> get g x y = k0) ->
  fourier_sum (aslice g r0 r1 c0 c1) ar ac (offr + slice_off r0 r1 (nr g)) (offc + slice_off c0 c1 (nc g)) U V
  = fourier_sum g ar ac offr offc U V.
Proof. exact (fun S R => fourier_sum_subarray S R (fun _ => k0)). Qed.
Print Assumptions C01_subarray_with_offset.

(* writing into a caller-supplied buffer: same values as a fresh allocation, independent of the
   buffer's prior content; buffers that cannot hold complex values are refused *)
Theorem C01_out_buffer_transparent :
  forall (S : Scalar) (sq : Qc -> S) (dt : dtype) (buf1 buf2 : arr S) f ar ac M N shr shc offr offc unitary,
  nr buf1 = nr buf2 -> nc buf1 = nc buf2 ->
  dft2_out sq (Some (dt, buf1)) f ar ac M N shr shc offr offc unitary
  = dft2_out sq (Some (dt, buf2)) f ar ac M N shr shc offr offc unitary
  /\ (dt <> Float64 -> nr buf1 = M -> nc buf1 = N ->
      dft2_out sq (Some (dt, buf1)) f ar ac M N shr shc offr offc unitary
      = dft2_out sq None f ar ac M N shr shc offr offc unitary).
Proof. exact dft2_out_transparent. Qed.
Print Assumptions C01_out_buffer_transparent.
