(* C01 - Matrix-triple-product DFT equals the defining Fourier sum and is invertible.
   [S] ranges over every commutative ring with a kernel e = [ke] satisfying e(a+b) = e a * e b
   (over the complex numbers: e t = exp(-2 pi i t)); alpha, shift over all rationals, shapes and
   offsets over all integers. *)
From Coq Require Import Reals QArith Qreals Qcanon.
From Coquelicot Require Import Complex.
From LV Require Import Lib.Instances Lib.Cis Model.Dft Model.DftOut Model.DftApi Proofs.DftP Proofs.DftOutP Proofs.DftInvP Proofs.DftApiP Proofs.DftApiInvP.

(* every output sample (u, v) carries the defining sum over input samples, both planes' origins at
   index floor(n/2), times sqrt|alpha_r alpha_c| exactly when unitary *)
Theorem C01_dft2_is_defining_sum :
  forall (S : Scalar), is_ring S -> kernel_laws S -> forall (sq : Qc -> S)
         (f : arr S) (ar ac : Qc) (M N : Z) (shr shc : Qc) (offr offc : Z) (unitary : bool) (u v : Z),
  0 <= u < M -> 0 <= v < N ->
  get (dft2 sq f ar ac M N shr shc offr offc unitary) u v
  = (sumZ (nr f) (fun x => sumZ (nc f) (fun y =>
       (get f x y * ke (ar * zq (x - nr f / 2 + offr) * (zq (u - M / 2) - shr)
                        + ac * zq (y - nc f / 2 + offc) * (zq (v - N / 2) - shc))%Qc)%K))
     * (if unitary then sq (qabs (ar * ac)%Qc) else k1))%K.
Proof. exact dft2_defining_sum. Qed.
Print Assumptions C01_dft2_is_defining_sum.

Theorem C01_dft2_shape :
  forall (S : Scalar) (sq : Qc -> S) (f : arr S) ar ac M N shr shc offr offc unitary,
  nr (dft2 sq f ar ac M N shr shc offr offc unitary) = M /\ nc (dft2 sq f ar ac M N shr shc offr offc unitary) = N.
Proof. exact dft2_shape. Qed.
Print Assumptions C01_dft2_shape.

(* integer input offsets: a sub-array containing the support, transformed with the slice's offset,
   gives the transform of the whole zero-padded array *)
Theorem C01_subarray_with_offset :
  forall (S : Scalar), is_ring S -> forall (g : arr S) r0 r1 c0 c1 ar ac offr offc U V,
  0 <= r0 -> r0 <= r1 -> r1 <= nr g -> 0 <= c0 -> c0 <= c1 -> c1 <= nc g ->
  (forall x y, 0 <= x < nr g -> 0 <= y < nc g -> ~ (r0 <= x < r1 /\ c0 <= y < c1) -> get g x y = k0) ->
  fourier_sum (aslice g r0 r1 c0 c1) ar ac (offr + slice_off r0 r1 (nr g)) (offc + slice_off c0 c1 (nc g)) U V
  = fourier_sum g ar ac offr offc U V.
Proof. exact (fun S R => fourier_sum_subarray S R (fun _ => k0)). Qed.
Print Assumptions C01_subarray_with_offset.

(* writing into a caller-supplied buffer: same values as a fresh allocation, independent of the
   buffer's prior content; buffers that cannot hold complex values are refused *)
Theorem C01_out_buffer_transparent :
  forall (S : Scalar) (sq : Qc -> S) (dt : dtype) (buf1 buf2 : arr S) f ar ac M N shr shc offr offc unitary,
  nr buf1 = nr buf2 -> nc buf1 = nc buf2 ->
  dft2_out sq (Some (dt, buf1)) f ar ac M N shr shc offr offc unitary
  = dft2_out sq (Some (dt, buf2)) f ar ac M N shr shc offr offc unitary
  /\ (dt <> Float64 -> nr buf1 = M -> nc buf1 = N ->
      dft2_out sq (Some (dt, buf1)) f ar ac M N shr shc offr offc unitary
      = dft2_out sq None f ar ac M N shr shc offr offc unitary).
Proof. exact dft2_out_transparent. Qed.
Print Assumptions C01_out_buffer_transparent.

(* the same for the inverse transform's out= (the buffer is handed down to dft2 and finished in place) *)
Theorem C01_inverse_out_buffer_transparent :
  forall (S : Scalar) (sq : Qc -> S) (dt : dtype) (buf1 buf2 : arr S) F ar ac M N shr shc unitary,
  nr buf1 = nr buf2 -> nc buf1 = nc buf2 ->
  idft2_out sq (Some (dt, buf1)) F ar ac M N shr shc unitary
  = idft2_out sq (Some (dt, buf2)) F ar ac M N shr shc unitary
  /\ (dt <> Float64 -> nr buf1 = M -> nc buf1 = N ->
      idft2_out sq (Some (dt, buf1)) F ar ac M N shr shc unitary
      = idft2_out sq None F ar ac M N shr shc unitary).
Proof. exact idft2_out_transparent. Qed.
Print Assumptions C01_inverse_out_buffer_transparent.

(* ---- over the complex numbers: CS is Coquelicot's C with e t = exp(-2 pi i t) = cis (-(2 PI t)).
   The model's square-root parameter [sq] is any function with (sq q)^2 = q for q >= 0 (e.g. the
   principal root, see C01_nonvacuous). ---- *)

(* the inverse transform called with the same sampling and the same normalisation flag recovers the
   input whenever the forward transform covered one full period (alpha = 1/shape, equal shapes) -
   for BOTH flags (on the repaired code, commit d3fa362) *)
Theorem C01_idft2_dft2_id :
  forall (sq : Qc -> C), (forall q : Qc, (0 <= q)%Qc -> Cmult (sq q) (sq q) = RtoC (Q2R q)) ->
  forall (f : arr CS) (unitary : bool) (x y : Z),
  0 < nr f -> 0 < nc f -> 0 <= x < nr f -> 0 <= y < nc f ->
  get (idft2 (S:=CS) sq
         (dft2 (S:=CS) sq f (/ zq (nr f))%Qc (/ zq (nc f))%Qc (nr f) (nc f) 0%Qc 0%Qc 0 0 unitary)
         (/ zq (nr f))%Qc (/ zq (nc f))%Qc (nr f) (nc f) 0%Qc 0%Qc unitary) x y
  = get f x y.
Proof. exact (fun sq H f un x y Hm Hn Hx Hy => idft2_dft2_id sq f un x y H Hm Hn Hx Hy). Qed.
Print Assumptions C01_idft2_dft2_id.

(* under the unitary flag the forward transform conserves energy over one full period
   (any real output shift, any integer input offset): sum |F|^2 = sum |f|^2 ... *)
Theorem C01_parseval_full_period :
  forall (sq : Qc -> C), (forall q : Qc, (0 <= q)%Qc -> Cmult (sq q) (sq q) = RtoC (Q2R q)) ->
  forall (f : arr CS) (shr shc : Qc) (offr offc : Z), 0 < nr f -> 0 < nc f ->
  @sumZ CS (nr f) (fun u => @sumZ CS (nc f) (fun v => @norm2 CS
     (get (dft2 (S:=CS) sq f (/ zq (nr f))%Qc (/ zq (nc f))%Qc (nr f) (nc f) shr shc offr offc true) u v)))
  = @sumZ CS (nr f) (fun x => @sumZ CS (nc f) (fun y => @norm2 CS (get f x y))).
Proof. exact (fun sq H f shr shc offr offc Hm Hn =>
                parseval_period sq f (nr f) (nc f) shr shc offr offc H Hm Hn (Z.le_refl _) (Z.le_refl _)). Qed.
Print Assumptions C01_parseval_full_period.

(* ... and the inverse transform conserves it just as the forward transform does *)
Theorem C01_parseval_full_period_inverse :
  forall (sq : Qc -> C), (forall q : Qc, (0 <= q)%Qc -> Cmult (sq q) (sq q) = RtoC (Q2R q)) ->
  forall (F : arr CS) (shr shc : Qc), 0 < nr F -> 0 < nc F ->
  @sumZ CS (nr F) (fun x => @sumZ CS (nc F) (fun y => @norm2 CS
     (get (idft2 (S:=CS) sq F (/ zq (nr F))%Qc (/ zq (nc F))%Qc (nr F) (nc F) shr shc true) x y)))
  = @sumZ CS (nr F) (fun u => @sumZ CS (nc F) (fun v => @norm2 CS (get F u v))).
Proof. exact (fun sq H F shr shc Hm Hn =>
                parseval_period_inv sq F (nr F) (nc F) shr shc H Hm Hn (Z.le_refl _) (Z.le_refl _)). Qed.
Print Assumptions C01_parseval_full_period_inverse.

(* ---- the public entry points (Model/DftApi.v): argument forms, defaults, refusals, glue to the kernel ----
   [bcast2] is np.broadcast_to(., (2,)) on a scalar / 0-d value, a 1-d sequence or a >= 2-d array;
   [args_ok] = every argument has an acceptable form and the input is 2-d; [req_shape] = the requested shape
   (the input's own shape when shape is None); a buffer is [out_accept]-able (complex128, C-contiguous, right
   shape), [out_notype] (its dtype cannot hold complex) or [out_badvalue] (np.dot refuses it). *)

(* complete verdict of a dft2 call: an argument of the wrong form or an input that is not 2-d is refused with
   ValueError whatever else was passed; otherwise the result is the kernel [dft2] on the expanded arguments with
   the output lengths max(0, M), max(0, N) (np.arange), unless the buffer is refused - TypeError when its dtype cannot
   hold complex values (whatever its shape), ValueError when np.dot cannot write into it; nothing else can happen *)
Theorem C01_dft2_call_verdict :
  forall (S : Scalar) (sq : Qc -> S) (f : input S) (alpha : argform Qc) (shape : option (argform Z))
         (shift : argform Qc) (offset : argform Z) (unitary : bool) (out : option outbuf),
  (args_ok f alpha shape shift offset = false ->
     dft2_api sq f alpha shape shift offset unitary out = Err ValueError)
  /\
  (args_ok f alpha shape shift offset = true ->
     exists g a sh st off, f = In2 g /\ bcast2 alpha = Ok a /\ req_shape g shape = Ok sh /\ bcast2 shift = Ok st
       /\ bcast2 offset = Ok off /\
       let M := Z.max 0 (fst sh) in let N := Z.max 0 (snd sh) in
       (out_accept out M N ->
          dft2_api sq f alpha shape shift offset unitary out
          = Ok (dft2 sq g (fst a) (snd a) M N (fst st) (snd st) (fst off) (snd off) unitary))
       /\ (out_notype out -> dft2_api sq f alpha shape shift offset unitary out = Err TypeError)
       /\ (out_badvalue out M N -> dft2_api sq f alpha shape shift offset unitary out = Err ValueError)
       /\ (out_accept out M N \/ out_notype out \/ out_badvalue out M N)).
Proof. exact dft2_api_verdict. Qed.
Print Assumptions C01_dft2_call_verdict.

(* a call depends on an argument only through its broadcast to two values: alpha, a one-element [alpha] and
   [alpha, alpha] are the same call (likewise shape, shift, offset) *)
Theorem C01_argument_forms_agree :
  forall (S : Scalar) (sq : Qc -> S) (f : input S) alpha alpha' shape shape' shift shift' offset offset' unitary out,
  bcast2 alpha = bcast2 alpha' -> bcast2 shift = bcast2 shift' -> bcast2 offset = bcast2 offset' ->
  (forall g : arr S, req_shape g shape = req_shape g shape') ->
  dft2_api sq f alpha shape shift offset unitary out = dft2_api sq f alpha' shape' shift' offset' unitary out.
Proof. exact dft2_api_forms. Qed.
Print Assumptions C01_argument_forms_agree.

(* out= at the entry point: whenever a call with a buffer succeeds, the call without one returns the same array *)
Theorem C01_call_out_transparent :
  forall (S : Scalar) (sq : Qc -> S) (f : input S) alpha shape shift offset unitary (o : outbuf) (F : arr S),
  dft2_api sq f alpha shape shift offset unitary (Some o) = Ok F ->
  dft2_api sq f alpha shape shift offset unitary None = Ok F.
Proof. exact dft2_api_out_transparent. Qed.
Print Assumptions C01_call_out_transparent.

(* the inverse entry point is refused exactly when dft2 refuses conj(F) with the same arguments (and zero offset),
   with the same exception; an accepted call returns the kernel [idft2] on the expanded arguments *)
Theorem C01_idft2_call_verdict :
  forall (S : Scalar) (sq : Qc -> S) (F : input S) (alpha : argform Qc) (shape : option (argform Z))
         (shift : argform Qc) (unitary : bool) (out : option outbuf),
  (forall e, idft2_api sq F alpha shape shift unitary out = Err e <->
             dft2_api sq (input_conj F) alpha shape shift (FSeq [0; 0]) unitary out = Err e)
  /\ (forall R, idft2_api sq F alpha shape shift unitary out = Ok R ->
        exists g ar ac M N shr shc, F = In2 g /\ bcast2 alpha = Ok (ar, ac) /\ req_shape g shape = Ok (M, N)
          /\ bcast2 shift = Ok (shr, shc) /\ out_accept out (Z.max 0 M) (Z.max 0 N)
          /\ R = idft2 sq g ar ac (Z.max 0 M) (Z.max 0 N) shr shc unitary).
Proof. exact idft2_api_verdict. Qed.
Print Assumptions C01_idft2_call_verdict.

(* the documented round trip with every optional argument at its default (shape=None, no shift, no offset,
   out=None), both flags, over the complex numbers *)
Theorem C01_roundtrip_through_entry_points :
  forall (sq : Qc -> C), (forall q : Qc, (0 <= q)%Qc -> Cmult (sq q) (sq q) = RtoC (Q2R q)) ->
  forall (f : arr CS) (unitary : bool), 0 < nr f -> 0 < nc f ->
  let alpha := FSeq [(/ zq (nr f))%Qc; (/ zq (nc f))%Qc] in
  exists F R,
    dft2_api (S:=CS) sq (In2 f) alpha None (FSeq [0%Qc; 0%Qc]) (FSeq [0; 0]) unitary None = Ok F
    /\ nr F = nr f /\ nc F = nc f
    /\ idft2_api (S:=CS) sq (In2 F) alpha None (FSeq [0%Qc; 0%Qc]) unitary None = Ok R
    /\ forall x y, 0 <= x < nr f -> 0 <= y < nc f -> get R x y = get f x y.
Proof. exact (fun sq H f un => api_roundtrip_defaults sq f un H). Qed.
Print Assumptions C01_roundtrip_through_entry_points.

(* non-vacuity of the verdict theorem: each of the five outcomes is reached by a concrete call (integers as scalars) *)
Example C01_call_verdict_nonvacuous :
  let f : input ZS := In2 (mkArr (S:=ZS) 2 3 (fun x y => x + 2 * y)) in
  let sq := fun _ : Qc => 1 in
  (exists F, dft2_api (S:=ZS) sq f (FScalar 1%Qc) (Some (FScalar 4)) (FSeq [0%Qc]) (FSeq [1; -2]) true
                      (Some (mkOut OComplex128 true 4 4)) = Ok F /\ nr F = 4 /\ nc F = 4)
  /\ dft2_api (S:=ZS) sq f (FSeq [1%Qc; 1%Qc; 1%Qc]) None (FScalar 0%Qc) (FScalar 0) true None = Err ValueError
  /\ dft2_api (S:=ZS) sq (InRank 1) (FScalar 1%Qc) None (FScalar 0%Qc) (FScalar 0) true None = Err ValueError
  /\ dft2_api (S:=ZS) sq f (FScalar 1%Qc) None (FScalar 0%Qc) (FScalar 0) true (Some (mkOut ONoComplex true 9 9)) = Err TypeError
  /\ dft2_api (S:=ZS) sq f (FScalar 1%Qc) None (FScalar 0%Qc) (FScalar 0) true (Some (mkOut OOther true 2 3)) = Err ValueError
  /\ dft2_api (S:=ZS) sq f (FScalar 1%Qc) None (FScalar 0%Qc) (FScalar 0) true (Some (mkOut OComplex128 false 2 3)) = Err ValueError.
Proof. cbn. repeat split; try reflexivity. eexists. split; [reflexivity|]. split; reflexivity. Qed.

(* the hypotheses are satisfiable by a non-trivial instance: the principal square root and a 2x3 array *)
Example C01_nonvacuous :
  let sq := fun q : Qc => RtoC (sqrt (Q2R q)) in
  let f : arr CS := mkArr (S:=CS) 2 3 (fun x y => ((IZR x, IZR (x + 2 * y)) : C)) in
  (forall q : Qc, (0 <= q)%Qc -> Cmult (sq q) (sq q) = RtoC (Q2R q))
  /\ 0 < nr f /\ 0 < nc f /\ get f 1 2 <> get f 0 0.
Proof. cbn. split; [exact sqrt_sq_spec|]. repeat split; try reflexivity.
  intro E. injection E as E _. apply eq_IZR in E. discriminate. Qed.
