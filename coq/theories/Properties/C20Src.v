(* C20 (translation layer, WP-T2) - the shape arithmetic of lentil.util.rebin and the hex-lattice list building of
   lentil/segmented.py are what the source says NOW.
   [src_<f>] (Gen/GeometrySrc.v) is regenerated from the text of lentil/util.py and lentil/segmented.py by harness/gen_src.py on every
   check; the theorems hold for ALL integer arguments.  (pad, subarray, slice_offset and boundary_slice, also part
   of C20's model, are covered by Properties/C06Src.v.)  Only statements: every proof is [exact]. *)
From LV Require Import Model.Geometry Model.Shapes Gen.GeometrySrc Proofs.GeometrySrcP.

(* 2-d: complex data is refused, otherwise img.reshape(n // f, f, m // f, f) *)
Theorem C20_src_rebin_reshape_is_model : forall (n m f : Z) (cplx : bool),
  src_rebin_reshape (n, m) f cplx = if cplx then Err ValueError else Ok (n / f, f, m / f, f).
Proof. exact src_rebin_reshape_ok. Qed.
Print Assumptions C20_src_rebin_reshape_is_model.

(* and the model's rebin has exactly that shape, whenever numpy's reshape accepts the sizes *)
Theorem C20_src_rebin_reshape_is_rebin2 : forall (S : Scalar) (a : arr S) (f : Z), 0 < f ->
  reshape_ok (nr a) (nc a) f = true ->
  match src_rebin_reshape (nr a, nc a) f false with
  | Ok (r, _, c, _) => exists b, rebin2 a f = Ok b /\ nr b = r /\ nc b = c
  | Err _ => False
  end.
Proof. exact src_rebin_reshape_model. Qed.
Print Assumptions C20_src_rebin_reshape_is_rebin2.

(* cube (d, n, m): rebinned_shape = (d, n // f, m // f), the cube reshaped to (d, n // f, f, m // f, f) *)
Theorem C20_src_rebin_reshape_3d_is_model : forall (d n m f : Z) (cplx : bool),
  src_rebin_reshape_3d (d, n, m) f cplx =
  if cplx then Err ValueError else Ok ((d, n / f, m / f), (d, n / f, f, m / f, f)).
Proof. exact src_rebin_reshape_3d_ok. Qed.
Print Assumptions C20_src_rebin_reshape_3d_is_model.

Theorem C20_src_rebin_reshape_3d_is_rebin3 : forall (S : Scalar) (c : cube S) (f : Z), 0 < f ->
  reshape_ok (cr c) (cc c) f = true ->
  match src_rebin_reshape_3d (cd c, cr c, cc c) f false with
  | Ok (sh, _) => exists b, rebin3 c f = Ok b /\ (cd b, cr b, cc b) = sh
  | Err _ => False
  end.
Proof. exact src_rebin_reshape_3d_model. Qed.
Print Assumptions C20_src_rebin_reshape_3d_is_rebin3.

(* ---- lentil/segmented.py: the hexagonal lattice (Hex is a named tuple of cube coordinates) ---- *)
(* hex_add, including the assertion of Hex() that the coordinates sum to zero *)
Theorem C20_src_hex_add_is_model : forall a b : hex,
  src_hex_add a b =
  if (let '(q, r, s) := a in q + r + s) + (let '(q, r, s) := b in q + r + s) =? 0
  then Ok (hex_add a b) else Err AssertionErr.
Proof. exact src_hex_add_ok. Qed.
Print Assumptions C20_src_hex_add_is_model.

(* hex_ring: the loop over the six directions (unrolled) and the loops over range(radius) (folds), with the
   assertions of Hex() at every step: they never fire, and the list is the model's ring, for every integer radius *)
Theorem C20_src_hex_ring_is_model : forall radius : Z, src_hex_ring radius = Ok (hex_ring radius).
Proof. exact src_hex_ring_ok. Qed.
Print Assumptions C20_src_hex_ring_is_model.
