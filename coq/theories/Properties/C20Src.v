(* C20 (translation layer, WP-T2) - the shape arithmetic of lentil.util.rebin and the hex-lattice list building of
   lentil/segmented.py are what the source says NOW.
   [src_<f>] (Gen/GeometrySrc.v) is regenerated from the text of lentil/util.py and lentil/segmented.py by harness/gen_src.py on every
   check; the theorems hold for ALL integer arguments.  (pad, subarray, slice_offset and boundary_slice, also part
   of C20's model, are covered by Properties/C06Src.v.)  Only statements: every proof is [exact]. *)
From LV Require Import Model.Geometry Model.Shapes Gen.GeometrySrc Proofs.GeometrySrcP.

(* 2-d: complex data is refused, otherwise img.reshape(n // f, f, m // f, f) *)
Theorem C20_src_rebin_reshape_is_model : forall (n m f : Z) (cplx : bool),
  src_rebin_reshape (n, m) f cplx = if cplx then Err ValueError else Ok (n / f, f, m / f, f).
Proof. exact src_rebin_reshape_ok. Qed.
Print Assumptions C20_src_rebin_reshape_is_model.

(* and the model's rebin has exactly that shape, whenever numpy's reshape accepts the sizes *)
Theorem C20_src_rebin_reshape_is_rebin2 : forall (S : Scalar) (a : arr S) (f : Z), 0 < f ->
  reshape_ok (nr a) (nc a) f = true ->
  match src_rebin_reshape (nr a, nc a) f false with
  | Ok (r, _, c, _) => exists b, rebin2 a f = Ok b /\ nr b = r /\ nc b = c
  | Err _ => False
  end.
Proof. exact src_rebin_reshape_model. Qed.
Print Assumptions C20_src_rebin_reshape_is_rebin2.

(* cube (d, n, m): rebinned_shape = (d, n // f, m // f), the cube reshaped to (d, n // f, f, m // f, f) *)
Theorem C20_src_rebin_reshape_3d_is_model : forall (d n m f : Z) (cplx : bool),
  src_rebin_reshape_3d (d, n, m) f cplx =
  if cplx then Err ValueError else Ok ((d, n / f, m / f), (d, n / f, f, m / f, f)).
Proof. exact src_rebin_reshape_3d_ok. Qed.
Print Assumptions C20_src_rebin_reshape_3d_is_model.

Theorem C20_src_rebin_reshape_3d_is_rebin3 : forall (S : Scalar) (c : cube S) (f : Z), 0 < f ->
  reshape_ok (cr c) (cc c) f = true ->
  match src_rebin_reshape_3d (cd c, cr c, cc c) f false with
  | Ok (sh, _) => exists b, rebin3 c f = Ok b /\ (cd b, cr b, cc b) = sh
  | Err _ => False
  end.
Proof. exact src_rebin_reshape_3d_model. Qed.
Print Assumptions C20_src_rebin_reshape_3d_is_rebin3.

(* ---- lentil/segmented.py: the hexagonal lattice (Hex is a named tuple of cube coordinates) ---- *)
(* hex_add, including the assertion of Hex() that the coordinates sum to zero *)
Theorem C20_src_hex_add_is_model : forall a b : hex,
  src_hex_add a b =
  if (let '(q, r, s) := a in q + r + s) + (let '(q, r, s) := b in q + r + s) =? 0
  then Ok (hex_add a b) else Err AssertionErr.
Proof. exact src_hex_add_ok. Qed.
Print Assumptions C20_src_hex_add_is_model.

(* hex_ring: the loop over the six directions (unrolled) and the loops over range(radius) (folds), with the
   assertions of Hex() at every step: they never fire, and the list is the model's ring, for every integer radius *)
Theorem C20_src_hex_ring_is_model : forall radius : Z, src_hex_ring radius = Ok (hex_ring radius).
Proof. exact src_hex_ring_ok. Qed.
Print Assumptions C20_src_hex_ring_is_model.

(* ---- lentil/util.py: window(img, shape, slice) ---- *)
(* with shape and slice: None when the image has one element (returned as is), the size-consistency asserts, else the
   slices of the returned view *)
Theorem C20_src_window_slice_is_model : forall (n m : Z) (shape : Z * Z) (sl : Z * Z * Z * Z),
  src_window_slice (n, m) shape sl =
  let '(s0, s1, s2, s3) := sl in
  if n * m =? 1 then Ok None
  else if negb (s1 - s0 =? fst shape) then Err AssertionErr
  else if negb (s3 - s2 =? snd shape) then Err AssertionErr
  else Ok (Some ((s0, s1), (s2, s3))).
Proof. exact src_window_slice_stmt. Qed.
Print Assumptions C20_src_window_slice_is_model.

Theorem C20_src_window_slice_noshape_is_model : forall (n m : Z) (sl : Z * Z * Z * Z),
  src_window_slice_noshape (n, m) sl =
  let '(s0, s1, s2, s3) := sl in if n * m =? 1 then None else Some ((s0, s1), (s2, s3)).
Proof. exact src_window_slice_noshape_stmt. Qed.
Print Assumptions C20_src_window_slice_noshape_is_model.

(* a cube: the test is on the total size, the slices are those of the last two axes *)
Theorem C20_src_window_slice_cube_is_model : forall (d n m : Z) (shape : Z * Z) (sl : Z * Z * Z * Z),
  src_window_slice_cube (d, n, m) shape sl =
  let '(s0, s1, s2, s3) := sl in
  if d * n * m =? 1 then Ok None
  else if negb (s1 - s0 =? fst shape) then Err AssertionErr
  else if negb (s3 - s2 =? snd shape) then Err AssertionErr
  else Ok (Some ((s0, s1), (s2, s3))).
Proof. exact src_window_slice_cube_stmt. Qed.
Print Assumptions C20_src_window_slice_cube_is_model.

(* and the model's window is that decision followed by numpy slicing *)
Theorem C20_src_window_is_window : forall (S : Scalar) (a : arr S) (shape : Z * Z) (sl : Z * Z * Z * Z),
  window a (Some shape) (Some sl) =
  match src_window_slice (nr a, nc a) shape sl with
  | Ok None => Ok a
  | Ok (Some ((r0, r1), (c0, c1))) => Ok (np_slice a r0 r1 c0 c1)
  | Err e => Err e
  end.
Proof. exact src_window_is_window. Qed.
Print Assumptions C20_src_window_is_window.

Theorem C20_src_window_cube_is_window3 : forall (S : Scalar) (c : cube S) (shape : Z * Z) (sl : Z * Z * Z * Z),
  window3 c (Some shape) (Some sl) =
  match src_window_slice_cube (cd c, cr c, cc c) shape sl with
  | Ok None => Ok c
  | Ok (Some ((r0, r1), (c0, c1))) => Ok (np_slice3 c r0 r1 c0 c1)
  | Err e => Err e
  end.
Proof. exact src_window_cube_is_window3. Qed.
Print Assumptions C20_src_window_cube_is_window3.

(* ---- lentil/helper.py: mesh - THE origin convention: sample floor(n/2) is coordinate 0 (before shift/rotation) ---- *)
Theorem C20_src_mesh_origin_is_model : forall (n m s0 s1 i j : Z),
  src_mesh_origin (n, m) (s0, s1) i j = (i - ctr n - s0, j - ctr m - s1).
Proof. exact src_mesh_origin_ok. Qed.
Print Assumptions C20_src_mesh_origin_is_model.
