(* C14 - Unit conversions are consistent and Planck's law is unit-independent.
   [wave_factor], [flux_conv], [const_H], [const_C] are the GENERATED tables of Gen/UnitTable.v
   (the 16 factors observed through the real classes, the 9 conversions translated from the source
   of Photlam.to / Flam.to / Wlam.to on every check); the theorems are re-checked against them on
   every run.  [RF] is the field of real numbers: flux, wavelength, temperature, H, C range over
   all reals (H*C <> 0, wavelengths <> 0).  Wien's displacement law and the Stefan-Boltzmann total
   are NOT provable here (they need the root of x = 5(1 - exp(-x)) and zeta(4)); they are numeric
   tests, labelled as tests, in harness/props/c14.py:extra. *)
From Coq Require Import Reals.
From LV Require Import Lib.Base Model.UnitsBase Gen.UnitTable Model.Units Proofs.UnitsP Proofs.UnitsStateP Proofs.UnitsVegaP.

(* (a) all 64 ordered triples of wavelength units (finite, decided by computation in Q):
   A->B->C is A->C, A->A is 1, every round trip is 1, every factor is positive *)
Theorem C14_wave_factors_compose :
  forall a b c : wunit,
  (wave_factor a b * wave_factor b c == wave_factor a c)%Q /\ (wave_factor a a == 1)%Q
  /\ (wave_factor a b * wave_factor b a == 1)%Q /\ (0 < wave_factor a b)%Q.
Proof. exact wave_factors_compose. Qed.
Print Assumptions C14_wave_factors_compose.

(* (b) all 27 ordered triples of flux units, for ALL flux and wavelength values *)
Theorem C14_flux_conversions_compose :
  forall (H C : R), (H * C <> 0)%R -> forall (a b c : funit) (flux wave : R), (wave <> 0)%R ->
  flux_conv RF H C b c (flux_conv RF H C a b flux wave) wave = flux_conv RF H C a c flux wave
  /\ flux_conv RF H C a a flux wave = flux
  /\ flux_conv RF H C b a (flux_conv RF H C a b flux wave) wave = flux.
Proof.
  intros H C HC a b c flux wave Hw.
  exact (conj (flux_comp H C HC a b c flux wave Hw)
        (conj (flux_id H C a flux wave) (flux_round H C HC a b flux wave Hw))).
Qed.
Print Assumptions C14_flux_conversions_compose.

(* every flux conversion multiplies the flux by a factor that depends on the wavelength only *)
Theorem C14_flux_conversion_linear :
  forall (H C : R), (H * C <> 0)%R -> forall (a b : funit) (k flux wave : R), (wave <> 0)%R ->
  flux_conv RF H C a b (k * flux)%R wave = (k * flux_conv RF H C a b flux wave)%R.
Proof. exact flux_linear. Qed.
Print Assumptions C14_flux_conversion_linear.

(* (c) Spectrum.to(<wave unit b>) on any spectrum (any lists): succeeds, wavelengths are multiplied
   by the table factor; a per-wavelength density keeps its trapezoid integral
   sum 1/2 (v_i + v_{i+1}) (w_{i+1} - w_i); a unitless spectrum keeps its values *)
Theorem C14_to_preserves_integral :
  forall (H C : R) (s : spectrum RF) (b : wunit),
  exists s', to1 RF H C s (wname b) = Ok s'
    /\ s_wu RF s' = b /\ s_vu RF s' = s_vu RF s
    /\ s_wave RF s' = scale RF (wf RF (s_wu RF s) b) (s_wave RF s)
    /\ (forall g, s_vu RF s = Some g ->
          trapz RF (s_wave RF s') (s_value RF s') = trapz RF (s_wave RF s) (s_value RF s))
    /\ (s_vu RF s = None -> s_value RF s' = s_value RF s).
Proof. exact to_preserves_integral. Qed.
Print Assumptions C14_to_preserves_integral.

(* chains of wavelength-unit conversions of a spectrum (density or unitless): A->B->C is A->C,
   A->A is the identity, every round trip restores wavelengths and values *)
Theorem C14_spectrum_wave_chain :
  forall (H C : R) (s : spectrum RF) (b c : wunit),
  to RF H C s [wname b; wname c] = to RF H C s [wname c]
  /\ to RF H C s [wname (s_wu RF s)] = Ok s
  /\ to RF H C s [wname b; wname (s_wu RF s)] = Ok s.
Proof.
  intros H C s b c.
  exact (conj (to_wave_compose H C s b c) (conj (to_wave_id H C s) (to_wave_round H C s b))).
Qed.
Print Assumptions C14_spectrum_wave_chain.

(* (T14d) chains of flux-unit conversions of a spectrum, in any wavelength unit *)
Theorem C14_spectrum_flux_chain :
  forall (H C : R), (H * C <> 0)%R -> forall (s : spectrum RF) (g h k : funit),
  s_vu RF s = Some g -> Forall (fun w => w <> 0%R) (s_wave RF s) ->
  to RF H C s [fname h; fname k] = to RF H C s [fname k]
  /\ (length (s_value RF s) = length (s_wave RF s) ->
      to RF H C s [fname g] = Ok s /\ to RF H C s [fname h; fname g] = Ok s).
Proof.
  intros H C HC s g h k Hv Hn. split.
  - exact (to_flux_compose H C HC s g h k Hv Hn).
  - intros Hl. exact (conj (to_flux_id H C s g Hv Hl) (to_flux_round H C HC s g h Hv Hn Hl)).
Qed.
Print Assumptions C14_spectrum_flux_chain.

(* Spectrum.sample(points, waveunit = b) (linear, fill 0; [interp_lin]/[sample_at] in Model/Units.v):
   sampling at the points x*f expressed in unit b (f the table factor a->b) returns, for a density,
   the samples taken at x in the spectrum's own unit DIVIDED BY f, and for a unitless spectrum the
   same samples - for all spectra with distinct consecutive wavelengths and all points *)
Theorem C14_sample_unit_independent :
  forall (H C : R) (s : spectrum RF) (b : wunit) (pts : list R),
  distinct_adj (s_wave RF s) ->
  sample RF H C Rleb s (scale RF (wf RF (s_wu RF s) b) pts) (wname b)
  = Ok (map (fun x => match s_vu RF s with
                      | Some _ => (sample_at RF Rleb (s_wave RF s) (s_value RF s) x / wf RF (s_wu RF s) b)%R
                      | None => sample_at RF Rleb (s_wave RF s) (s_value RF s) x
                      end) pts).
Proof. exact sample_unit_independent. Qed.
Print Assumptions C14_sample_unit_independent.

(* a density sampled in another wave unit on its own grid expressed in that unit: the values are the
   spectrum's values / f and the trapezoid integral over the new grid is the spectrum's integral *)
Theorem C14_sample_grid_preserves_integral :
  forall (H C : R) (s : spectrum RF) (g : funit) (b : wunit),
  s_vu RF s = Some g -> increasing (s_wave RF s) -> (2 <= length (s_wave RF s))%nat ->
  length (s_value RF s) = length (s_wave RF s) ->
  sample_grid RF H C Rleb s (wname b) = Ok (unscale RF (wf RF (s_wu RF s) b) (s_value RF s))
  /\ trapz RF (scale RF (wf RF (s_wu RF s) b) (s_wave RF s)) (unscale RF (wf RF (s_wu RF s) b) (s_value RF s))
     = trapz RF (s_wave RF s) (s_value RF s).
Proof. exact sample_grid_density. Qed.
Print Assumptions C14_sample_grid_preserves_integral.

(* (d) planck_radiance / planck_exitance requested in any (wave, flux) unit, under any accepted
   spelling of the unit names, is the SI function [planck_si] (np.exp abstract: [expf]) at the
   wavelength in metres, carried to the requested units by the table conversions *)
Theorem C14_planck_unit_independent :
  forall (H C : R) (Kb : R) (expf : R -> R) (coef w T : R) (wn vn : uname) (a : wunit) (g : funit),
  wave_name wn = Some a -> flux_name vn = Some g ->
  planck_gen RF H C Kb expf coef w T wn vn
  = Ok (flux_conv RF H C Fwlam g (planck_si RF H C Kb expf coef (w * wf RF a Wm) T) (w * wf RF a Wm)
          / wf RF Wm a)%R.
Proof. exact planck_gen_spec. Qed.
Print Assumptions C14_planck_unit_independent.

(* ... and it is the same physical quantity in every unit: a blackbody spectrum built in units
   (a, g) and converted with Spectrum.to to (b, h) IS the blackbody spectrum built directly in (b, h)
   at the converted wavelengths - for all wavelength lists, temperatures and unit pairs *)
Theorem C14_blackbody_unit_independent :
  forall (H C : R), (H * C <> 0)%R -> forall (Kb : R) (expf : R -> R) (T : R) (a b : wunit) (g h : funit)
         (ws : list R) (s : spectrum RF),
  Forall (fun w => w <> 0%R) ws ->
  blackbody RF H C Kb expf ws T (wname a) (fname g) = Ok s ->
  to RF H C s [wname b; fname h]
  = blackbody RF H C Kb expf (scale RF (wf RF a b) ws) T (wname b) (fname h).
Proof. exact blackbody_unit_independent. Qed.
Print Assumptions C14_blackbody_unit_independent.

(* exitance = pi x radiance in every unit pair *)
Theorem C14_exitance_is_pi_radiance :
  forall (H C : R), (H * C <> 0)%R -> forall (Kb cpi : R) (expf : R -> R) (w T : R) (wn vn : uname) (a : wunit) (g : funit),
  wave_name wn = Some a -> flux_name vn = Some g -> (w <> 0)%R ->
  exists r, planck_radiance RF H C Kb expf w T wn vn = Ok r
         /\ planck_exitance RF H C Kb cpi expf w T wn vn = Ok (cpi * r)%R.
Proof. exact exitance_pi_radiance. Qed.
Print Assumptions C14_exitance_is_pi_radiance.

(* vegaflux in any unit pair is its SI photon flux carried by the table conversions *)
Theorem C14_vegaflux_unit_independent :
  forall (H C : R) (w0 jy : R) (wn vn : uname) (a : wunit) (g : funit),
  wave_name wn = Some a -> flux_name vn = Some g ->
  vegaflux RF H C w0 jy wn vn
  = Ok ((flux_conv RF H C Fphotlam g
           (jy * Q2R (1 # 100000000000000000000000000) * C / (w0 * w0) * w0 / (H * C)) w0 / wf RF Wm a)%R,
        (w0 * wf RF Wm a)%R).
Proof. exact vegaflux_spec. Qed.
Print Assumptions C14_vegaflux_unit_independent.

(* ---- deepen: refusals of Spectrum.to and the state of the object ----
   One argument of Spectrum.to, complete case analysis, for EVERY carrier (no field law is used):
   ValueError exactly for a name that is none of m/um/nm/angstrom/photlam/flam/wlam; TypeError exactly for a
   flux name on a spectrum without value unit; no other exception; an accepted wavelength unit sets the wave
   unit, keeps the value unit and the number of values and multiplies the wavelengths by the table factor; an
   accepted flux unit sets the value unit and keeps wave unit and wavelengths. *)
Theorem C14_to_outcome :
  forall (K : Fld) (cH cC : K) (s : spectrum K) (n : uname),
  match to1 K cH cC s n with
  | Err e =>
      (e = ValueError /\ ~ In n [NM; NUm; NNm; NAngstrom; NPhotlam; NFlam; NWlam])
      \/ (e = TypeError /\ In n [NPhotlam; NFlam; NWlam] /\ s_vu K s = None)
  | Ok s' =>
      (exists b, n = wname b /\ s_wu K s' = b /\ s_vu K s' = s_vu K s
                 /\ s_wave K s' = scale K (wf K (s_wu K s) b) (s_wave K s)
                 /\ length (s_value K s') = length (s_value K s))
      \/ (exists g a, n = fname g /\ s_vu K s = Some a /\ s_vu K s' = Some g
                      /\ s_wu K s' = s_wu K s /\ s_wave K s' = s_wave K s)
  end.
Proof. exact to1_outcome. Qed.
Print Assumptions C14_to_outcome.

(* Spectrum.to with several arguments, as it leaves the object ([to_st]: the loop with the wave setter's
   re-validation): either every argument was accepted and the object is the result of the whole chain, or the
   call raised e at the first refused argument n and the object holds exactly the conversions of the arguments
   before n - nothing of n, nothing of the arguments after it *)
Theorem C14_to_state_after_refusal :
  forall (K : Fld) (cH cC : K) (leb : K -> K -> bool) (args : list uname) (s s1 : spectrum K) (o : option errkind),
  to_st K cH cC leb s args = (s1, o) ->
  match o with
  | None => toc K cH cC leb s args = Ok s1
  | Some e => exists pre n post, args = pre ++ n :: post /\ toc K cH cC leb s pre = Ok s1
                                 /\ to1c K cH cC leb s1 n = Err e /\ toc K cH cC leb s args = Err e
  end.
Proof. exact to_st_spec. Qed.
Print Assumptions C14_to_state_after_refusal.

(* over the reals: a well-formed spectrum (wavelengths > 0 and strictly increasing, as many values as
   wavelengths - what the constructor demands) stays well-formed under every accepted conversion, so the wave
   setter's re-validation inside Spectrum.to never raises and the checked loop is the plain one *)
Theorem C14_to_keeps_wellformed :
  forall (H C : R) (args : list uname) (s s' : spectrum RF),
  wellformed s ->
  toc RF H C Rleb s args = to RF H C s args
  /\ (toc RF H C Rleb s args = Ok s' -> wellformed s').
Proof. intros H C args s s' W. exact (conj (toc_is_to H C args s W) (toc_keeps_wellformed H C args s s' W)). Qed.
Print Assumptions C14_to_keeps_wellformed.

(* ---- deepen: Blackbody.sample, Blackbody.vegamag, sample_vegamag ----
   Blackbody.sample: sampling a Blackbody (built in any units (a, g)) in the wave unit b at its own wavelengths
   expressed in b returns exactly the values the object has after to(b) - the sampled curve and the converted
   object are the same curve, for all wavelength lists and temperatures *)
Theorem C14_blackbody_sample_is_converted :
  forall (H C : R), (H * C <> 0)%R -> forall (Kb : R) (expf : R -> R) (T : R) (a b : wunit) (g : funit)
         (ws : list R) (s s' : spectrum RF),
  Forall (fun w => w <> 0%R) ws ->
  blackbody RF H C Kb expf ws T (wname a) (fname g) = Ok s ->
  to RF H C s [wname b] = Ok s' ->
  bb_sample RF H C Kb expf s T (s_wave RF s') (wname b) = Ok (s_value RF s').
Proof. exact bb_sample_is_converted. Qed.
Print Assumptions C14_blackbody_sample_is_converted.

(* Blackbody.vegamag (E = E0 (M/M0) 10^(-0.4 mag), [vegamag] in Model/Units.v; (w0, jy) the band's table entry,
   pw = 10^(-0.4 mag), np.exp abstract): a star built in the units (a, g) and converted with Spectrum.to to (b, h)
   IS the star built directly in (b, h) at the converted wavelengths - for every unit pair, wavelength list,
   temperature, magnitude and band (w0 <> 0, reference exitance <> 0).  The defect repaired by 5043f95 (zero point
   and exitances taken in photlam whatever the value unit) contradicts exactly this statement. *)
Theorem C14_vegamag_unit_independent :
  forall (H C : R), (H * C <> 0)%R -> forall (Kb cpi : R) (expf : R -> R) (w0 jy pw T : R),
  (w0 <> 0)%R -> (planck_si RF H C Kb expf (Q2R (2 # 1) * cpi) w0 T <> 0)%R ->
  forall (a b : wunit) (g h : funit) (ws : list R) (s : spectrum RF),
  Forall (fun w => w <> 0%R) ws ->
  vegamag RF H C Kb cpi expf w0 jy pw T ws (wname a) (fname g) = Ok s ->
  to RF H C s [wname b; fname h]
  = vegamag RF H C Kb cpi expf w0 jy pw T (scale RF (wf RF a b) ws) (wname b) (fname h).
Proof. exact vegamag_unit_independent. Qed.
Print Assumptions C14_vegamag_unit_independent.

(* star.sample (sample_vegamag): after any conversion to (b, h), sampling the star in b at its own wavelengths
   returns its values - the zero point, the reference exitance and the exitances are all taken in the units of the
   request (a zero point cached in the construction units, seeded change C14-4, contradicts this) *)
Theorem C14_vegamag_sample_is_converted :
  forall (H C : R), (H * C <> 0)%R -> forall (Kb cpi : R) (expf : R -> R) (w0 jy pw T : R),
  (w0 <> 0)%R -> (planck_si RF H C Kb expf (Q2R (2 # 1) * cpi) w0 T <> 0)%R ->
  forall (a b : wunit) (g h : funit) (ws : list R) (s s' : spectrum RF),
  Forall (fun w => w <> 0%R) ws ->
  vegamag RF H C Kb cpi expf w0 jy pw T ws (wname a) (fname g) = Ok s ->
  to RF H C s [wname b; fname h] = Ok s' ->
  star_sample RF H C Kb cpi expf s' w0 jy pw T (s_wave RF s') (wname b) = Ok (s_value RF s').
Proof. exact star_sample_is_converted. Qed.
Print Assumptions C14_vegamag_sample_is_converted.

(* non-vacuity of the vegamag statements: a concrete star on exact rationals (H = C = K = 1, pi := 3, exp := 2,
   band centre 2 m, 1e26 Jy, 10^(-0.4 mag) = 1/2) has the values E0 (M/M0) pw = [1/4; 1/64] at [2; 4] m (photon exitance ratio (1/32)(4/2)) *)
Example C14_vegamag_nonvacuous :
  match vegamag QcF (Q2Qc 1) (Q2Qc 1) (Q2Qc 1) (Q2Qc 3) (fun _ => Q2Qc 2) (Q2Qc 2)
                (Q2Qc (100000000000000000000000000 # 1)) (Q2Qc (1 # 2)) (Q2Qc 1) [Q2Qc 2; Q2Qc 4] NM NPhotlam with
  | Ok s => Some (map this (s_value QcF s), s_wu QcF s, s_vu QcF s)
  | Err _ => None
  end = Some ([1 # 4; 1 # 64], Wm, Some Fphotlam)%Q.
Proof. vm_compute. reflexivity. Qed.

(* non-vacuity: the constants of the source satisfy H*C <> 0, a concrete density spectrum in nm
   converts to um with wavelengths / 1000, values * 1000 and the same integral (= 30), and a
   flux conversion with those constants is not the identity *)
Example C14_nonvacuous :
  (Q2R const_H * Q2R const_C <> 0)%R
  /\ (match to1 QcF (Q2Qc const_H) (Q2Qc const_C)
              (mkSpec QcF [Q2Qc 400; Q2Qc 500; Q2Qc (1300 # 2)] [Q2Qc (1 # 10); Q2Qc (1 # 5); Q2Qc 0]
                      Wnm (Some Fflam)) NUm with
      | Ok s' => Some (map this (s_wave QcF s'), map this (s_value QcF s'), s_wu QcF s', s_vu QcF s',
                       this (trapz QcF (s_wave QcF s') (s_value QcF s')))
      | Err _ => None
      end = Some ([2 # 5; 1 # 2; 13 # 20], [100 # 1; 200 # 1; 0 # 1], Wum, Some Fflam, 30 # 1))%Q
  /\ this (trapz QcF [Q2Qc 400; Q2Qc 500; Q2Qc (1300 # 2)] [Q2Qc (1 # 10); Q2Qc (1 # 5); Q2Qc 0]) = (30 # 1)%Q
  /\ this (flux_conv QcF (Q2Qc const_H) (Q2Qc const_C) Fflam Fphotlam (Q2Qc 1) (Q2Qc 1)) <> (1 # 1)%Q
  (* a refused chain: 'um' accepted, 'furlong' refused with ValueError, 'nm' never applied: the object is left in um *)
  /\ (let '(s1, o) := to_st QcF (Q2Qc const_H) (Q2Qc const_C) (fun x y => Qle_bool (this x) (this y))
                        (mkSpec QcF [Q2Qc 400; Q2Qc 500] [Q2Qc 1; Q2Qc 2] Wnm (Some Fflam)) [NUm; NOther; NNm] in
      (map this (s_wave QcF s1), map this (s_value QcF s1), s_wu QcF s1, o))
     = ([2 # 5; 1 # 2], [1000 # 1; 2000 # 1], Wum, Some ValueError)%Q
  /\ to_st QcF (Q2Qc const_H) (Q2Qc const_C) (fun x y => Qle_bool (this x) (this y))
        (mkSpec QcF [Q2Qc 400; Q2Qc 500] [Q2Qc 1; Q2Qc 2] Wnm None) [NPhotlam]
     = (mkSpec QcF [Q2Qc 400; Q2Qc 500] [Q2Qc 1; Q2Qc 2] Wnm None, Some TypeError).
Proof.
  split; [exact source_constants_ok|].
  split; [vm_compute; reflexivity|].
  split; [vm_compute; reflexivity|].
  split; [vm_compute; discriminate|].
  split; [vm_compute; reflexivity|].
  reflexivity.
Qed.
