(* C05 - Propagation conserves energy.
   Scalars: CS = Coquelicot's complex numbers with kernel e t = exp(-2 pi i t); RS = the reals.
   [dft2] is the model of lentil.fourier.dft2 (Model/Dft.v, tied to the code by C01); its square-root
   parameter [sq] is any function with (sq q)^2 = q for q >= 0.  The period is (Pr, Pc) = (1/alpha_r,
   1/alpha_c), integers >= the input shape, possibly different per axis; offsets are arbitrary integers
   (the position of a sub-array/segment in the pupil), shifts arbitrary rationals.
   The FFT propagator is the same unitary transform on the zero-padded field: that is C09's theorem
   (FFT path = DFT path); here it is covered by the direct energy oracle on the implementation only. *)
From Coq Require Import Reals QArith Qreals Qcanon Psatz.
From Coquelicot Require Import Complex.
From LV Require Import Lib.Cis Model.Dft Model.Power Proofs.DftP Proofs.DftInvP Proofs.PowerP.

(* (a) Parseval over one period that contains the input: total output intensity = input power *)
Theorem C05_parseval_period :
  forall (sq : Qc -> C), (forall q : Qc, (0 <= q)%Qc -> Cmult (sq q) (sq q) = RtoC (Q2R q)) ->
  forall (f : arr CS) (Pr Pc : Z) (shr shc : Qc) (offr offc : Z),
  0 < Pr -> 0 < Pc -> nr f <= Pr -> nc f <= Pc ->
  @sumZ CS Pr (fun u => @sumZ CS Pc (fun v => @norm2 CS
     (get (dft2 (S:=CS) sq f (/ zq Pr)%Qc (/ zq Pc)%Qc Pr Pc shr shc offr offc true) u v)))
  = @sumZ CS (nr f) (fun x => @sumZ CS (nc f) (fun y => @norm2 CS (get f x y))).
Proof. exact (fun sq H f Pr Pc shr shc offr offc => parseval_period sq f Pr Pc shr shc offr offc H). Qed.
Print Assumptions C05_parseval_period.

(* a smaller (centred) output window is the restriction of the full-period output; hence the executed
   model function [window_energy] is the total intensity of the transform asked for that window.
   Ring-generic: holds literally for the extracted model. *)
Theorem C05_window_is_restriction :
  forall (S : Scalar), is_ring S -> kernel_laws S ->
  forall (sq : Qc -> S) (f : arr S) (Pr Pc offr offc M N : Z), 0 <= M <= Pr -> 0 <= N <= Pc ->
  window_energy (dft2 sq f (/ zq Pr)%Qc (/ zq Pc)%Qc Pr Pc 0%Qc 0%Qc offr offc true) M N
  = sumZ M (fun u => sumZ N (fun v => norm2
      (get (dft2 sq f (/ zq Pr)%Qc (/ zq Pc)%Qc M N 0%Qc 0%Qc offr offc true) u v))).
Proof. exact window_energy_dft2. Qed.
Print Assumptions C05_window_is_restriction.

(* (b) nested windows inside one period: 0 <= E(W1) <= E(W2) <= input power, where E(M, N) is the total
   intensity (real squared moduli) of the transform evaluated on the centred M x N window *)
Theorem C05_windows_monotone_and_bounded :
  forall (sq : Qc -> C), (forall q : Qc, (0 <= q)%Qc -> Cmult (sq q) (sq q) = RtoC (Q2R q)) ->
  forall (f : arr CS) (Pr Pc offr offc M1 N1 M2 N2 : Z),
  0 < Pr -> 0 < Pc -> nr f <= Pr -> nc f <= Pc ->
  0 <= M1 <= M2 -> M2 <= Pr -> 0 <= N1 <= N2 -> N2 <= Pc ->
  let E := fun M N : Z => @sumZ RS M (fun u => @sumZ RS N (fun v =>
     (Cmod (get (dft2 (S:=CS) sq f (/ zq Pr)%Qc (/ zq Pc)%Qc M N 0%Qc 0%Qc offr offc true) u v) ^ 2)%R)) in
  (0 <= E M1 N1 /\ E M1 N1 <= E M2 N2
   /\ E M2 N2 <= @sumZ RS (nr f) (fun x => @sumZ RS (nc f) (fun y => Cmod (get f x y) ^ 2)))%R.
Proof.
  exact (fun sq H f Pr Pc offr offc M1 N1 M2 N2 HPr HPc Hm Hn HM1 HM2 HN1 HN2 =>
    conj (proj1 (window_monotone sq f Pr Pc offr offc M1 N1 M2 N2 HM1 HN1))
   (conj (proj2 (window_monotone sq f Pr Pc offr offc M1 N1 M2 N2 HM1 HN1))
         (window_bounded sq f Pr Pc offr offc M2 N2 H HPr HPc Hm Hn
            (conj (Z.le_trans _ _ _ (proj1 HM1) (proj2 HM1)) HM2)
            (conj (Z.le_trans _ _ _ (proj1 HN1) (proj2 HN1)) HN2)))).
Qed.
Print Assumptions C05_windows_monotone_and_bounded.

(* (c) the power normaliser: an array with non-zero power, target p >= 0  =>  power exactly p
   (real arrays with sqrt and 1/x; complex arrays with sqrt of the real part and the complex inverse) *)
Theorem C05_normalize_power_real :
  forall (a : arr RS) (p : R), (0 < @power RS a)%R -> (0 <= p)%R ->
  @power RS (@normalize_power RS sqrt Rinv a p) = p.
Proof. exact normalize_power_RS. Qed.
Print Assumptions C05_normalize_power_real.

Theorem C05_normalize_power_complex :
  forall (a : arr CS) (p : R),
  (0 < @sumZ RS (nr a) (fun x => @sumZ RS (nc a) (fun y => Cmod (get a x y) ^ 2)))%R -> (0 <= p)%R ->
  @power CS (@normalize_power CS (fun z => RtoC (sqrt (fst z))) Cinv a (RtoC p)) = RtoC p.
Proof. exact normalize_power_CS. Qed.
Print Assumptions C05_normalize_power_complex.

(* the power normaliser as a caller sees it: the result is finite (no inf / nan sample) exactly when the array has
   non-zero power and the target is not negative; it is then array * sqrt(p / sum|array|^2) and has power p.
   ([normalize_power_checked] returns None for the calls numpy answers with inf / nan and a RuntimeWarning.) *)
Theorem C05_normalize_power_finite_iff :
  forall (a : arr RS) (p : Qc),
  let is0 := fun x : R => if Req_EM_T x 0 then true else false in
  (forall b, @normalize_power_checked RS sqrt Rinv is0 a p = Some b ->
             @power RS a <> 0%R /\ (0 <= Q2R p)%R /\ b = @normalize_power RS sqrt Rinv a (Q2R p) /\ @power RS b = Q2R p)
  /\ (@normalize_power_checked RS sqrt Rinv is0 a p = None <-> @power RS a = 0%R \/ (Q2R p < 0)%R).
Proof. exact normalize_power_checked_RS. Qed.
Print Assumptions C05_normalize_power_finite_iff.

(* ... and therefore images to total p: normalised amplitude, any OPD phase (in turns), one full period *)
Theorem C05_normalized_amplitude_images_to_p :
  forall (sq : Qc -> C), (forall q : Qc, (0 <= q)%Qc -> Cmult (sq q) (sq q) = RtoC (Q2R q)) ->
  forall (a : arr CS) (p : R) (phase : Z -> Z -> Qc) (Pr Pc offr offc : Z),
  0 < Pr -> 0 < Pc -> nr a <= Pr -> nc a <= Pc ->
  (0 < @sumZ RS (nr a) (fun x => @sumZ RS (nc a) (fun y => Cmod (get a x y) ^ 2)))%R -> (0 <= p)%R ->
  @power CS (dft2 (S:=CS) sq
               (pupil_field (@normalize_power CS (fun z => RtoC (sqrt (fst z))) Cinv a (RtoC p)) phase)
               (/ zq Pr)%Qc (/ zq Pc)%Qc Pr Pc 0%Qc 0%Qc offr offc true)
  = RtoC p.
Proof. exact (fun sq H a p phase Pr Pc offr offc => normalized_images_to_p sq a p phase Pr Pc offr offc H). Qed.
Print Assumptions C05_normalized_amplitude_images_to_p.

(* both outcomes of the normaliser are reached: an all-zero array and a negative target are not finite *)
Example C05_normalize_power_nonvacuous :
  let is0 := fun x : R => if Req_EM_T x 0 then true else false in
  @normalize_power_checked RS sqrt Rinv is0 (mkArr (S:=RS) 2 2 (fun _ _ => 0%R)) 1%Qc = None
  /\ @normalize_power_checked RS sqrt Rinv is0 (mkArr (S:=RS) 1 1 (fun _ _ => 1%R)) (- (1))%Qc = None
  /\ exists b, @normalize_power_checked RS sqrt Rinv is0 (mkArr (S:=RS) 1 1 (fun _ _ => 2%R)) 1%Qc = Some b.
Proof.
  cbn zeta. split; [|split].
  - apply (proj2 (normalize_power_checked_RS _ _)). left. apply power_RS_zero.
  - apply (proj2 (normalize_power_checked_RS _ _)). right. rewrite Q2R_Qc_opp, Q2R_Qc_1. lra.
  - destruct (@normalize_power_checked RS sqrt Rinv _ (mkArr (S:=RS) 1 1 (fun _ _ => 2%R)) 1%Qc) as [b|] eqn:E; [eauto|].
    exfalso. apply (proj2 (normalize_power_checked_RS _ _)) in E. destruct E as [E|E].
    + rewrite power_RS_one in E. lra.
    + rewrite Q2R_Qc_1 in E. lra.
Qed.

(* the hypotheses are met by a concrete non-trivial instance: a 2x3 complex pupil, period 4x6 *)
Example C05_nonvacuous :
  let sq := fun q : Qc => RtoC (sqrt (Q2R q)) in
  let f : arr CS := mkArr (S:=CS) 2 3 (fun x y => ((IZR (x + 1), IZR y) : C)) in
  (forall q : Qc, (0 <= q)%Qc -> Cmult (sq q) (sq q) = RtoC (Q2R q))
  /\ nr f <= 4 /\ nc f <= 6
  /\ (0 < @sumZ RS (nr f) (fun x => @sumZ RS (nc f) (fun y => Cmod (get f x y) ^ 2)))%R.
Proof. cbn zeta. split; [exact sqrt_sq_spec|]. split; [discriminate|]. split; [discriminate|].
  apply (energy_pos _ 1 2); cbn; try lia. intro E. injection E as E _. apply eq_IZR in E. discriminate. Qed.
