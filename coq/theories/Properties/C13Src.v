(* C13 (translation layer, WP-T3) - the size of the common wavelength grid of Spectrum arithmetic is what the source
   says NOW.  [src_common_grid_linspace] (Gen/SpectrumOpSrc.v) is regenerated from the text of
   lentil/radiometry.py:_interp_common by harness/gen_src.py on every check, for INTEGER wavelength grids: the common
   range minwave, maxwave and dwave = _sampling(...) > 0 are integer arguments, the true division is exact.  For ALL
   integers the (start, stop, num + 1) handed to np.linspace are those of the model's [common_grid]
   (Model/Spectrum.v: linspace mn mx (qceil ((mx - mn) / dw)), the model's linspace taking num).
   Only statements: every proof is [exact]. *)
From LV Require Import Model.Spectrum Gen.SpectrumOpSrc Proofs.SpectrumOpSrcP.
Open Scope Z_scope.

Theorem C13_src_common_grid_linspace_is_model : forall mn mx d : Z, 0 < d ->
  src_common_grid_linspace mn mx d = (mn, mx, qceil ((zq mx - zq mn) / zq d)%Qc + 1).
Proof. exact src_common_grid_linspace_ok. Qed.
Print Assumptions C13_src_common_grid_linspace_is_model.
