(* C18 - stochastic models are reproducible from their seed and physically bounded.

   The random generator is an oracle (Model/Noise.v): every model function takes the array that
   numpy.random.default_rng(seed) returned for its one request as an input.  What is claimed here
   is everything the code does around the draw.  Facts about numpy's generators (moments of the
   draws, "different seeds give different draws") are NOT theorems; they are labelled numeric tests
   in harness/props/c18.py:extra.

   (a) Purity is structural: a Gallina function of (arguments, drawn array) has no other input.  The
       `_function_of_seed` theorems say the little that can be said: a seeded model consults the
       generator at its own seed only, so two generators that agree there give the same frame. *)
From Coq Require Import Reals QArith Qcanon.
From LV Require Import Lib.Cis Proofs.NoiseP Proofs.NoiseEntryP.

(* ---- (a) ---- *)
Theorem C18_shot_noise_function_of_seed :
  forall upper_guard (rng1 rng2 : generator) sqrt_img img mth seed,
    (forall rq, rng1 seed rq = rng2 seed rq) ->
    shot_noise_seeded upper_guard rng1 sqrt_img img mth seed
    = shot_noise_seeded upper_guard rng2 sqrt_img img mth seed.
Proof. exact shot_noise_seeded_ext. Qed.
Print Assumptions C18_shot_noise_function_of_seed.

Theorem C18_read_noise_function_of_seed :
  forall (rng1 rng2 : generator) img electrons seed,
    (forall rq, rng1 seed rq = rng2 seed rq) ->
    read_noise_seeded rng1 img electrons seed = read_noise_seeded rng2 img electrons seed.
Proof. exact read_noise_seeded_ext. Qed.
Print Assumptions C18_read_noise_function_of_seed.

Theorem C18_dark_current_function_of_seed :
  forall (rng1 rng2 : generator) rate n m fpn_factor seed,
    (forall rq, rng1 seed rq = rng2 seed rq) ->
    dark_current_seeded rng1 rate n m fpn_factor seed = dark_current_seeded rng2 rate n m fpn_factor seed.
Proof. exact dark_current_seeded_ext. Qed.
Print Assumptions C18_dark_current_function_of_seed.

(* read noise is signal-independent: frame - signal = the draw, on the signal's shape *)
Theorem C18_read_noise_additive :
  forall (img draw : arr QS) i j,
    nr (read_noise img draw) = nr img /\ nc (read_noise img draw) = nc img /\
    (get (read_noise img draw) i j - get img i j)%Qc = get draw i j.
Proof. exact read_noise_additive. Qed.
Print Assumptions C18_read_noise_additive.

(* ---- (b) dark frames ---- *)
(* no pattern noise (fpn_factor = 0, or anything not > 0): floor(rate) everywhere, whatever the draw *)
Theorem C18_dark_no_fpn :
  forall rate n m fpn_factor (draw : arr QS) i j,
    ~ (0 < fpn_factor)%Qc ->
    get (dark_current rate n m fpn_factor draw) i j = Qfloor rate
    /\ nr (dark_current rate n m fpn_factor draw) = n /\ nc (dark_current rate n m fpn_factor draw) = m.
Proof. intros. split; [now apply dark_no_fpn | apply dark_shape]. Qed.
Print Assumptions C18_dark_no_fpn.

(* with pattern noise: the integer floor(rate * fpn), non-negative when the lognormal draw is positive *)
Theorem C18_dark_fpn_floor_nonneg :
  forall rate n m fpn_factor (draw : arr QS) i j,
    let x := (rate * (if Qcltb 0 fpn_factor then get draw i j else 1))%Qc in
    let d := get (dark_current rate n m fpn_factor draw) i j in
    ((inject_Z d <= x)%Q /\ (x < inject_Z (d + 1))%Q) /\
    ((0 <= rate)%Qc -> (0 < get draw i j)%Qc -> 0 <= d).
Proof. intros. split; [apply dark_floor | apply dark_nonneg]. Qed.
Print Assumptions C18_dark_fpn_floor_nonneg.

(* ---- (c) power_spectrum over the reals, any mask shape ----
   filt = the filtered draw, Risz x := (x = 0), Rnrm c s := sqrt (c / s).
   If the masked draw is not identically zero: the frame has the mask's shape, is 0 wherever the mask
   is 0, the sum of its squares is rms^2 * count_nonzero(masked draw); and if rms <> 0 its non-zero
   support is that of the masked draw and its RMS over that support is exactly |rms|. *)
Theorem C18_power_spectrum_rms :
  forall (filt mask : arr RS) (rms : R),
    (exists i j, (0 <= i < nr mask /\ 0 <= j < nc mask) /\ (get filt i j * get mask i j)%R <> 0%R) ->
    exists out, power_spectrum_post Risz Rnrm filt mask rms = Some out /\
      nr out = nr mask /\ nc out = nc mask /\
      (forall i j, get mask i j = 0%R -> get out i j = 0%R) /\
      sumZ (nr out) (fun i => sumZ (nc out) (fun j => (get out i j * get out i j)%K))
        = (rms * rms * IZR (count2 (fun x => negb (Risz x)) (ps_opd filt mask)))%R /\
      (rms <> 0%R ->
         count2 (fun x => negb (Risz x)) out = count2 (fun x => negb (Risz x)) (ps_opd filt mask) /\
         1 <= count2 (fun x => negb (Risz x)) out /\
         sqrt (sumZ (nr out) (fun i => sumZ (nc out) (fun j => (get out i j * get out i j)%K))
               / IZR (count2 (fun x => negb (Risz x)) out)) = Rabs rms).
Proof. exact power_spectrum_rms. Qed.
Print Assumptions C18_power_spectrum_rms.

(* the degenerate case the hypothesis above excludes: the code computes 0/0 and returns NaN *)
Theorem C18_power_spectrum_zero_draw_is_nan :
  forall (filt mask : arr RS) (rms : R),
    (forall i j, 0 <= i < nr mask /\ 0 <= j < nc mask -> (get filt i j * get mask i j)%R = 0%R) ->
    power_spectrum_post Risz Rnrm filt mask rms = None.
Proof. exact power_spectrum_all_zero. Qed.
Print Assumptions C18_power_spectrum_zero_draw_is_nan.

(* ---- (d) shot noise ---- *)
(* Poisson path: a negative sample, then a sample above 9.223372006484771e18, is a ValueError;
   anything else is accepted *)
Theorem C18_shot_poisson_guards :
  forall (img draw : arr QS),
    ((exists i j, (0 <= i < nr img /\ 0 <= j < nc img) /\ (get img i j < 0)%Qc) ->
       shot_poisson img draw = ShotErr ValueError MsgNegative) /\
    ((forall i j, 0 <= i < nr img /\ 0 <= j < nc img -> (0 <= get img i j)%Qc) ->
     (exists i j, (0 <= i < nr img /\ 0 <= j < nc img) /\ (LAM_MAX < get img i j)%Qc) ->
       shot_poisson img draw = ShotErr ValueError MsgTooLarge) /\
    ((forall i j, 0 <= i < nr img /\ 0 <= j < nc img -> (0 <= get img i j)%Qc /\ (get img i j <= LAM_MAX)%Qc) ->
       shot_poisson img draw = ShotOk (@mkArr ZS (nr img) (nc img) (fun i j => Qfloor (get draw i j)))).
Proof. intros. split; [|split].
  - apply shot_poisson_negative. - apply shot_poisson_too_large. - apply shot_poisson_accepts. Qed.
Print Assumptions C18_shot_poisson_guards.

(* an accepted Poisson frame: input shape, integer samples floor(draw); under the generator contract
   (draws are non-negative integers k) the sample is k itself, >= 0 *)
Theorem C18_shot_poisson_frame :
  forall (img draw : arr QS) frame,
    shot_poisson img draw = ShotOk frame ->
    (forall i j, 0 <= i < nr img /\ 0 <= j < nc img -> (0 <= get img i j)%Qc /\ (get img i j <= LAM_MAX)%Qc) /\
    nr frame = nr img /\ nc frame = nc img /\
    (forall i j, get frame i j = Qfloor (get draw i j)) /\
    (forall i j k, get draw i j = Q2Qc (inject_Z k) -> 0 <= k -> get frame i j = k /\ 0 <= get frame i j).
Proof. exact shot_poisson_frame. Qed.
Print Assumptions C18_shot_poisson_frame.

(* Gaussian path (the code as it is: upper_guard = true, fixes 6d91c01 and a1d0f6b): a negative
   sample, then a sample above the bound, is a ValueError; the negative guard does not depend on the flag *)
Theorem C18_shot_gaussian_guards :
  forall (img draw : arr QS),
    (forall ug, (exists i j, (0 <= i < nr img /\ 0 <= j < nc img) /\ (get img i j < 0)%Qc) ->
       shot_gaussian ug img draw = ShotErr ValueError MsgNegative) /\
    ((forall i j, 0 <= i < nr img /\ 0 <= j < nc img -> (0 <= get img i j)%Qc) ->
     (exists i j, (0 <= i < nr img /\ 0 <= j < nc img) /\ (LAM_MAX < get img i j)%Qc) ->
       shot_gaussian true img draw = ShotErr ValueError MsgTooLarge).
Proof. intros. split; [intros; now apply shot_gaussian_negative | apply shot_gaussian_too_large]. Qed.
Print Assumptions C18_shot_gaussian_guards.

(* what IS guaranteed about an accepted Gaussian frame: input shape, integer samples
   cast_int64(draw) = the draw truncated toward zero while it fits int64; such a sample is
   non-negative exactly when the draw is > -1 (small counts can give negative samples: the
   approximation is documented for large counts only) *)
Theorem C18_shot_gaussian_frame :
  forall ug (img draw : arr QS) frame,
    shot_gaussian ug img draw = ShotOk frame ->
    (forall i j, 0 <= i < nr img /\ 0 <= j < nc img -> (0 <= get img i j)%Qc) /\
    (ug = true -> forall i j, 0 <= i < nr img /\ 0 <= j < nc img -> (get img i j <= LAM_MAX)%Qc) /\
    nr frame = nr img /\ nc frame = nc img /\
    (forall i j, get frame i j = cast_int64 (get draw i j)) /\
    (forall i j, - 2 ^ 63 <= Z.quot (Qnum (get draw i j)) (Zpos (Qden (get draw i j))) < 2 ^ 63 ->
       get frame i j = Z.quot (Qnum (get draw i j)) (Zpos (Qden (get draw i j))) /\
       (0 <= get frame i j <-> (- 1 < get draw i j)%Q)).
Proof. intros ug img draw frame H. destruct (shot_gaussian_frame ug img draw frame H) as (A & B & C & D & E).
  repeat split; try assumption; rewrite E.
  - now apply cast_int64_in_range.
  - now apply cast_int64_nonneg. - now apply cast_int64_nonneg. Qed.
Print Assumptions C18_shot_gaussian_frame.

(* Why the upper guard is needed (the code before fix a1d0f6b, upper_guard = false; the inverse of that
   fix is one of the mutants the check must catch): counts above the bound were accepted and came
   back as INT64_MIN - a hugely negative "count".  Witness: a 1x1 frame holding 10^19, draw 10^19. *)
Theorem C18_shot_gaussian_without_guard_overflows :
  exists (img draw : arr QS) frame,
    (LAM_MAX < get img 0 0)%Qc /\ shot_gaussian false img draw = ShotOk frame /\
    get frame 0 0 = - 2 ^ 63 /\ get frame 0 0 < 0.
Proof.
  exists (@aconst QS 1 1 (Q2Qc (10 ^ 19 # 1))), (@aconst QS 1 1 (Q2Qc (10 ^ 19 # 1))).
  eexists. split; [reflexivity|]. split; [reflexivity|]. split; [vm_compute; reflexivity|reflexivity]. Qed.
Print Assumptions C18_shot_gaussian_without_guard_overflows.

(* ---- (e) cosmic rays: every deposit is flux * sqrt(..) with flux >= 0, so the frame (requested
   shape) is non-negative; a deposit outside the frame is an IndexError ---- *)
Theorem C18_cosmic_rays_shape_nonneg :
  forall n m (rays : list (list (deposit RS))) frame,
    (forall ds d, In ds rays -> In d ds -> (0 <= dflux d)%R /\ exists q, ddist d = sqrt q) ->
    cosmic_rays n m rays = Ok frame ->
    nr frame = n /\ nc frame = m /\ forall i j, (0 <= get frame i j)%R.
Proof. exact cosmic_nonneg. Qed.
Print Assumptions C18_cosmic_rays_shape_nonneg.

(* the frame conserves the deposited charge (any commutative ring): every segment's flux*dist lands in
   exactly one pixel (negative indices count from the end, as numpy does); a deposit addressed
   outside [-n, n) x [-m, m) is an IndexError *)
Theorem C18_cosmic_rays_total :
  forall (S : Scalar), is_ring S -> forall n m (rays : list (list (deposit S))) frame,
    cosmic_rays n m rays = Ok frame ->
    sumZ (nr frame) (fun i => sumZ (nc frame) (fun j => get frame i j))
    = lsum (map (fun ds => lsum (map (fun d => (dflux d * ddist d)%K) ds)) rays).
Proof. exact cosmic_total. Qed.
Print Assumptions C18_cosmic_rays_total.

Theorem C18_cosmic_rays_index_error :
  forall (S : Scalar) n m (rays : list (list (deposit S))) ds d,
    In ds rays -> In d ds ->
    (- n <=? drow d) && (drow d <? n) && (- m <=? dcol d) && (dcol d <? m) = false ->
    cosmic_rays n m rays = Err IndexError.
Proof. exact cosmic_index_error. Qed.
Print Assumptions C18_cosmic_rays_index_error.

(* ==================================================================================================
   Public entry points (Model/NoiseEntry.v): argument validation, refusal order, shape bookkeeping,
   the glue between entry point and kernel.  Oracle contract used: default_rng(seed) raises
   ValueError for a negative integer (alone or in a sequence) and TypeError for a float;
   Generator.normal refuses a negative scale, np.ones / Generator.lognormal a negative dimension.
   ================================================================================================== *)

(* default_rng(seed): which seeds are accepted and which exception otherwise *)
Theorem C18_seed_validation :
  forall s,
    (seed_check s = Ok tt <->
       match s with SeedInt z => 0 <= z | SeedList l => Forall (fun z => 0 <= z) l | SeedFloat => False end) /\
    (seed_check s = Ok tt \/
     seed_check s = Err (match s with SeedFloat => TypeError | _ => ValueError end)).
Proof. exact seed_validation_x. Qed.
Print Assumptions C18_seed_validation.
Example C18_seed_validation_nonvacuous :
  seed_check (SeedInt 0) = Ok tt /\ seed_check (SeedList [3; -1]) = Err ValueError /\ seed_check SeedFloat = Err TypeError.
Proof. repeat split. Qed.

(* shot_noise, the whole entry point: 1. a method string other than exactly 'poisson' / 'gaussian'
   is an AssertionError whatever the seed and the frame; 2. then the seed's error whatever the
   frame; 3. then the kernel of the method; 4. a frame is accepted iff all of method, seed and
   0 <= counts <= LAM_MAX hold, and a bad frame is a ValueError.  Nothing else can happen. *)
Theorem C18_shot_noise_entry_refusal_order :
  forall (rng : egenerator) (sq img : arr QS) m s,
    (m <> str_poisson /\ m <> str_gaussian -> shot_noise_entry rng sq img m s = Err AssertionErr) /\
    (m = str_poisson \/ m = str_gaussian -> forall e, seed_check s = Err e ->
       shot_noise_entry rng sq img m s = Err e) /\
    (m = str_poisson -> seed_check s = Ok tt ->
       shot_noise_entry rng sq img m s = shot_to_result (shot_poisson img (rng s (ReqPoisson img)))) /\
    (m = str_gaussian -> seed_check s = Ok tt ->
       shot_noise_entry rng sq img m s = shot_to_result (shot_gaussian true img (rng s (ReqNormalArr img sq)))) /\
    ((exists f, shot_noise_entry rng sq img m s = Ok f) <->
       (m = str_poisson \/ m = str_gaussian) /\ seed_check s = Ok tt /\
       forall i j, 0 <= i < nr img /\ 0 <= j < nc img -> (0 <= get img i j)%Qc /\ (get img i j <= LAM_MAX)%Qc) /\
    ((m = str_poisson \/ m = str_gaussian) -> seed_check s = Ok tt ->
       ~ (forall i j, 0 <= i < nr img /\ 0 <= j < nc img -> (0 <= get img i j)%Qc /\ (get img i j <= LAM_MAX)%Qc) ->
       shot_noise_entry rng sq img m s = Err ValueError).
Proof. exact shot_noise_entry_x. Qed.
Print Assumptions C18_shot_noise_entry_refusal_order.
(* 'Poisson' (capital P) with a negative seed and a negative frame: AssertionError wins; 'poisson': the seed's ValueError *)
Example C18_shot_noise_entry_nonvacuous :
  let img := @aconst QS 1 2 (Q2Qc (-1 # 1)) in
  shot_noise_entry (fun _ _ => img) img img [80; 111; 105; 115; 115; 111; 110] (SeedInt (-1)) = Err AssertionErr /\
  shot_noise_entry (fun _ _ => img) img img str_poisson (SeedInt (-1)) = Err ValueError /\
  shot_noise_entry (fun _ _ => img) img img str_poisson SeedFloat = Err TypeError.
Proof. repeat split. Qed.

(* read_noise: seed first, then the scale; accepted iff seed valid and electrons >= 0; then img + draw *)
Theorem C18_read_noise_entry :
  forall (rng : egenerator) (img : arr QS) e s,
    (forall err, seed_check s = Err err -> read_noise_entry rng img e s = Err err) /\
    (seed_check s = Ok tt -> (e < 0)%Qc -> read_noise_entry rng img e s = Err ValueError) /\
    (seed_check s = Ok tt -> (0 <= e)%Qc ->
       read_noise_entry rng img e s = Ok (read_noise img (rng s (ReqNormal 0%Qc e (nr img) (nc img))))) /\
    ((exists f, read_noise_entry rng img e s = Ok f) <-> seed_check s = Ok tt /\ (0 <= e)%Qc).
Proof. exact read_noise_entry_x. Qed.
Print Assumptions C18_read_noise_entry.
Example C18_read_noise_entry_nonvacuous :
  let img := @aconst QS 2 3 1%Qc in
  read_noise_entry (fun _ _ => img) img (Q2Qc (-1 # 2)) (SeedInt 5) = Err ValueError /\
  exists f, read_noise_entry (fun _ _ => img) img (Q2Qc (5 # 2)) (SeedList [1; 2]) = Ok f.
Proof. split; [reflexivity | eexists; reflexivity]. Qed.

(* dark_current without pattern noise (fpn_factor not > 0), every shape form (int k, any sequence of
   ints, the empty tuple): the generator and the seed are never consulted - two calls with different
   generators and different (even invalid) seeds agree; the frame has the requested dimensions and
   is floor(rate) everywhere; a negative dimension is a ValueError *)
Theorem C18_dark_current_no_fpn_ignores_generator_and_seed :
  forall rate shape fpn,
    ~ (0 < fpn)%Qc ->
    (forall (rng1 rng2 : fgenerator) s1 s2,
       dark_current_entry rng1 rate shape fpn s1 = dark_current_entry rng2 rate shape fpn s2) /\
    (forall rng s, Forall (fun d => 0 <= d) (shape_dims shape) ->
       exists f, dark_current_entry rng rate shape fpn s = Ok f /\ fdims f = shape_dims shape /\
                 forall k, fget f k = Qfloor rate) /\
    (forall rng s, ~ Forall (fun d => 0 <= d) (shape_dims shape) ->
       dark_current_entry rng rate shape fpn s = Err ValueError).
Proof. exact dark_entry_no_fpn_x. Qed.
Print Assumptions C18_dark_current_no_fpn_ignores_generator_and_seed.
Example C18_dark_current_no_fpn_nonvacuous :
  (exists f, dark_current_entry (fun _ _ _ => 1%Qc) (Q2Qc (1007 # 10)) (ShapeInt 5) 0%Qc SeedFloat = Ok f
             /\ fdims f = [5] /\ fget f 3 = 100) /\
  dark_current_entry (fun _ _ _ => 1%Qc) 1%Qc (ShapeDims [2; -3]) 0%Qc (SeedInt 1) = Err ValueError.
Proof. split; [eexists; repeat split | reflexivity]. Qed.

(* with pattern noise: seed first, then the dimensions, then floor(rate * draw) on the requested dimensions *)
Theorem C18_dark_current_fpn_entry :
  forall (rng : fgenerator) rate shape fpn s,
    (0 < fpn)%Qc ->
    (forall e, seed_check s = Err e -> dark_current_entry rng rate shape fpn s = Err e) /\
    (seed_check s = Ok tt -> ~ Forall (fun d => 0 <= d) (shape_dims shape) ->
       dark_current_entry rng rate shape fpn s = Err ValueError) /\
    (seed_check s = Ok tt -> Forall (fun d => 0 <= d) (shape_dims shape) ->
       exists f, dark_current_entry rng rate shape fpn s = Ok f /\ fdims f = shape_dims shape /\
         forall k, fget f k = Qfloor (rate * rng s (fpn, shape_dims shape) k)%Qc).
Proof. exact dark_entry_fpn_x. Qed.
Print Assumptions C18_dark_current_fpn_entry.
Example C18_dark_current_fpn_nonvacuous :
  dark_current_entry (fun _ _ _ => 1%Qc) 1%Qc (ShapeDims [2; 3]) (Q2Qc (1 # 4)) (SeedInt (-1)) = Err ValueError /\
  exists f, dark_current_entry (fun _ _ k => Q2Qc (k # 2)) (Q2Qc (7 # 1)) (ShapeDims [2; 1; 2]) (Q2Qc (1 # 4)) (SeedInt 2) = Ok f
            /\ fdims f = [2; 1; 2] /\ fget f 3 = 10.
Proof. split; [reflexivity | eexists; repeat split]. Qed.

(* rank 2 is the frame of Model/Noise.v (row-major flat index), so C18_dark_no_fpn / C18_dark_fpn_floor_nonneg apply *)
Theorem C18_dark_current_rank2_agrees :
  forall (rng : fgenerator) rate n m fpn s (draw : arr QS) f,
    (forall i j, get draw i j = rng s (fpn, [n; m]) (i * m + j)) ->
    dark_current_entry rng rate (ShapeDims [n; m]) fpn s = Ok f ->
    fdims f = [n; m] /\ forall i j, fget f (i * m + j) = get (dark_current rate n m fpn draw) i j.
Proof. exact dark_entry_2d. Qed.
Print Assumptions C18_dark_current_rank2_agrees.

(* power_spectrum: seed first; a mask that is not 2-d, or is empty, is a ValueError; otherwise exactly
   the kernel C18_power_spectrum_rms speaks about, on the mask's shape *)
Theorem C18_power_spectrum_entry :
  forall (S : Scalar) isz nrm (filt : seed -> arr S) mdims (mask : arr S) rms s,
    (forall e, seed_check s = Err e -> power_spectrum_entry isz nrm filt mdims mask rms s = Err e) /\
    (seed_check s = Ok tt -> (forall n m, mdims = [n; m] -> n = 0 \/ m = 0) ->
       power_spectrum_entry isz nrm filt mdims mask rms s = Err ValueError) /\
    (forall n m, seed_check s = Ok tt -> mdims = [n; m] -> n <> 0 -> m <> 0 ->
       power_spectrum_entry isz nrm filt mdims mask rms s
       = Ok (power_spectrum_post isz nrm (filt s) (mkArr n m (get mask)) rms)).
Proof. exact power_spectrum_entry_x. Qed.
Print Assumptions C18_power_spectrum_entry.
Example C18_power_spectrum_entry_nonvacuous :
  let a := @aconst ZS 2 3 1 in
  power_spectrum_entry (S := ZS) (fun x : Z => x =? 0) (fun _ _ => 1) (fun _ => a) [5] a 1 (SeedInt 1) = Err ValueError /\
  power_spectrum_entry (S := ZS) (fun x : Z => x =? 0) (fun _ _ => 1) (fun _ => a) [2; 3] a 1 SeedFloat = Err TypeError /\
  exists o, power_spectrum_entry (S := ZS) (fun x : Z => x =? 0) (fun _ _ => 1) (fun _ => a) [2; 3] a 1 (SeedInt 1) = Ok (Some o).
Proof. split; [reflexivity|]. split; [reflexivity|]. eexists. reflexivity. Qed.

(* cosmic_rays, number of rays: x = expected number (area * rate * ts); x >= 1: int(x), i.e. the
   integer with k <= x < k+1; x < 1: one uniform draw u decides, one ray iff u <= x; never negative *)
Theorem C18_cosmic_nrays :
  forall x u : Qc,
    ((1 <= x)%Qc -> nrays x u = Z.quot (Qnum x) (Zpos (Qden x)) /\ 1 <= nrays x u /\
                   (inject_Z (nrays x u) <= x)%Q /\ (x < inject_Z (nrays x u + 1))%Q) /\
    ((x < 1)%Qc -> (u <= x)%Qc -> nrays x u = 1) /\
    ((x < 1)%Qc -> (x < u)%Qc -> nrays x u = 0) /\
    0 <= nrays x u.
Proof. exact nrays_spec. Qed.
Print Assumptions C18_cosmic_nrays.
Example C18_cosmic_nrays_nonvacuous :
  nrays (Q2Qc (7 # 2)) 0%Qc = 3 /\ nrays (Q2Qc (1 # 2)) (Q2Qc (1 # 4)) = 1 /\ nrays (Q2Qc (1 # 2)) (Q2Qc (3 # 4)) = 0
  /\ nrays (Q2Qc (-2 # 1)) 0%Qc = 0.
Proof. repeat split. Qed.

(* the frame is the sum of exactly the first nrays candidate rays (each with the flux its particle draw
   selects), and the global generator is advanced by one draw when fewer than one ray is expected
   plus five draws per ray *)
Theorem C18_cosmic_generator_consumption :
  forall (S : Scalar) gt09 n m x u (alpha proton : S) (rays : list (@ray S)),
    cosmic_rays_entry gt09 n m x u alpha proton rays
    = (cosmic_rays n m (map (ray_deposits gt09 alpha proton) (firstn (Z.to_nat (nrays x u)) rays)),
       draws_consumed x (nrays x u)) /\
    ((x < 1)%Qc -> draws_consumed x (nrays x u) = 1 + 5 * nrays x u) /\
    ((1 <= x)%Qc -> draws_consumed x (nrays x u) = 5 * nrays x u).
Proof. exact cosmic_generator_consumption_x. Qed.
Print Assumptions C18_cosmic_generator_consumption.

(* with non-negative fluxes the entry-level frame has the requested shape and is non-negative, whichever
   particle each draw selects *)
Theorem C18_cosmic_entry_shape_nonneg :
  forall (gt09 : K RS -> bool) n m x u (alpha proton : K RS) (rays : list (@ray RS)) frame,
    (0 <= alpha)%R -> (0 <= proton)%R ->
    (forall r t, In r rays -> In t (rsegs r) -> exists q, snd t = sqrt q) ->
    fst (cosmic_rays_entry gt09 n m x u alpha proton rays) = Ok frame ->
    nr frame = n /\ nc frame = m /\ forall i j, (0 <= get frame i j)%R.
Proof. exact cosmic_entry_nonneg. Qed.
Print Assumptions C18_cosmic_entry_shape_nonneg.
Example C18_cosmic_entry_nonvacuous :
  let r := @mkRay ZS 1 [(0, 1, 3); (-1, 0, 2)] in
  exists f, cosmic_rays_entry (S := ZS) (fun p : Z => 0 <? p) 2 2 (Q2Qc (5 # 2)) 0%Qc 4 1 [r; r; r] = (Ok f, 10)
            /\ get f 0 1 = 24 /\ get f 1 0 = 16.
Proof. eexists. repeat split. Qed.

(* ---- non-vacuity: a 2x3 (non-square) masked draw with a hole satisfies the hypothesis of
   C18_power_spectrum_rms ---- *)
Example C18_nonvacuous :
  let filt := @mkArr RS 2 3 (fun i j => IZR (i + j - 1)) in
  let mask := @mkArr RS 2 3 (fun i j => if (i =? 0) && (j =? 0) then 0%R else 1%R) in
  exists i j, (0 <= i < nr mask /\ 0 <= j < nc mask) /\ (get filt i j * get mask i j)%R <> 0%R.
Proof. cbv zeta. exists 1, 1. cbn. split; [lia|]. intros H. ring_simplify in H. apply R1_neq_R0. exact H. Qed.
