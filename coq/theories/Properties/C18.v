(* C18 - stochastic models are reproducible from their seed and physically bounded.

   The random generator is an oracle (Model/Noise.v): every model function takes the array that
   numpy.random.default_rng(seed) returned for its one request as an input.  What is claimed here
   is everything the code does around the draw.  Facts about numpy's generators (moments of the
   draws, "different seeds give different draws") are NOT theorems; they are labelled numeric tests
   in harness/props/c18.py:extra.

   (a) Purity is structural: a Gallina function of (arguments, drawn array) has no other input.  The
       `_function_of_seed` theorems say the little that can be said: a seeded model consults the
       generator at its own seed only, so two generators that agree there give the same frame. *)
From Coq Require Import Reals QArith Qcanon.
From LV Require Import Lib.Cis Proofs.NoiseP.

(* ---- (a) ---- *)
Theorem C18_shot_noise_function_of_seed :
  forall upper_guard (rng1 rng2 : generator) sqrt_img img mth seed,
    (forall rq, rng1 seed rq = rng2 seed rq) ->
    shot_noise_seeded upper_guard rng1 sqrt_img img mth seed
    = shot_noise_seeded upper_guard rng2 sqrt_img img mth seed.
Proof. exact shot_noise_seeded_ext. Qed.
Print Assumptions C18_shot_noise_function_of_seed.

Theorem C18_read_noise_function_of_seed :
  forall (rng1 rng2 : generator) img electrons seed,
    (forall rq, rng1 seed rq = rng2 seed rq) ->
    read_noise_seeded rng1 img electrons seed = read_noise_seeded rng2 img electrons seed.
Proof. exact read_noise_seeded_ext. Qed.
Print Assumptions C18_read_noise_function_of_seed.

Theorem C18_dark_current_function_of_seed :
  forall (rng1 rng2 : generator) rate n m fpn_factor seed,
    (forall rq, rng1 seed rq = rng2 seed rq) ->
    dark_current_seeded rng1 rate n m fpn_factor seed = dark_current_seeded rng2 rate n m fpn_factor seed.
Proof. exact dark_current_seeded_ext. Qed.
Print Assumptions C18_dark_current_function_of_seed.

(* read noise is signal-independent: frame - signal = the draw, on the signal's shape *)
Theorem C18_read_noise_additive :
  forall (img draw : arr QS) i j,
    nr (read_noise img draw) = nr img /\ nc (read_noise img draw) = nc img /\
    (get (read_noise img draw) i j - get img i j)%Qc = get draw i j.
Proof. exact read_noise_additive. Qed.
Print Assumptions C18_read_noise_additive.

(* ---- (b) dark frames ---- *)
(* no pattern noise (fpn_factor = 0, or anything not > 0): floor(rate) everywhere, whatever the draw *)
Theorem C18_dark_no_fpn :
  forall rate n m fpn_factor (draw : arr QS) i j,
    ~ (0 < fpn_factor)%Qc ->
    get (dark_current rate n m fpn_factor draw) i j = Qfloor rate
    /\ nr (dark_current rate n m fpn_factor draw) = n /\ nc (dark_current rate n m fpn_factor draw) = m.
Proof. intros. split; [now apply dark_no_fpn | apply dark_shape]. Qed.
Print Assumptions C18_dark_no_fpn.

(* with pattern noise: the integer floor(rate * fpn), non-negative when the lognormal draw is positive *)
Theorem C18_dark_fpn_floor_nonneg :
  forall rate n m fpn_factor (draw : arr QS) i j,
    let x := (rate * (if Qcltb 0 fpn_factor then get draw i j else 1))%Qc in
    let d := get (dark_current rate n m fpn_factor draw) i j in
    ((inject_Z d <= x)%Q /\ (x < inject_Z (d + 1))%Q) /\
    ((0 <= rate)%Qc -> (0 < get draw i j)%Qc -> 0 <= d).
Proof. intros. split; [apply dark_floor | apply dark_nonneg]. Qed.
Print Assumptions C18_dark_fpn_floor_nonneg.

(* ---- (c) power_spectrum over the reals, any mask shape ----
   filt = the filtered draw, Risz x := (x = 0), Rnrm c s := sqrt (c / s).
   If the masked draw is not identically zero: the frame has the mask's shape, is 0 wherever the mask
   is 0, the sum of its squares is rms^2 * count_nonzero(masked draw); and if rms <> 0 its non-zero
   support is that of the masked draw and its RMS over that support is exactly |rms|. *)
Theorem C18_power_spectrum_rms :
  forall (filt mask : arr RS) (rms : R),
    (exists i j, (0 <= i < nr mask /\ 0 <= j < nc mask) /\ (get filt i j * get mask i j)%R <> 0%R) ->
    exists out, power_spectrum_post Risz Rnrm filt mask rms = Some out /\
      nr out = nr mask /\ nc out = nc mask /\
      (forall i j, get mask i j = 0%R -> get out i j = 0%R) /\
      sumZ (nr out) (fun i => sumZ (nc out) (fun j => (get out i j * get out i j)%K))
        = (rms * rms * IZR (count2 (fun x => negb (Risz x)) (ps_opd filt mask)))%R /\
      (rms <> 0%R ->
         count2 (fun x => negb (Risz x)) out = count2 (fun x => negb (Risz x)) (ps_opd filt mask) /\
         1 <= count2 (fun x => negb (Risz x)) out /\
         sqrt (sumZ (nr out) (fun i => sumZ (nc out) (fun j => (get out i j * get out i j)%K))
               / IZR (count2 (fun x => negb (Risz x)) out)) = Rabs rms).
Proof. exact power_spectrum_rms. Qed.
Print Assumptions C18_power_spectrum_rms.

(* the degenerate case the hypothesis above excludes: the code computes 0/0 and returns NaN *)
Theorem C18_power_spectrum_zero_draw_is_nan :
  forall (filt mask : arr RS) (rms : R),
    (forall i j, 0 <= i < nr mask /\ 0 <= j < nc mask -> (get filt i j * get mask i j)%R = 0%R) ->
    power_spectrum_post Risz Rnrm filt mask rms = None.
Proof. exact power_spectrum_all_zero. Qed.
Print Assumptions C18_power_spectrum_zero_draw_is_nan.

(* ---- (d) shot noise ---- *)
(* Poisson path: a negative sample, then a sample above 9.223372006484771e18, is a ValueError;
   anything else is accepted *)
Theorem C18_shot_poisson_guards :
  forall (img draw : arr QS),
    ((exists i j, (0 <= i < nr img /\ 0 <= j < nc img) /\ (get img i j < 0)%Qc) ->
       shot_poisson img draw = ShotErr ValueError MsgNegative) /\
    ((forall i j, 0 <= i < nr img /\ 0 <= j < nc img -> (0 <= get img i j)%Qc) ->
     (exists i j, (0 <= i < nr img /\ 0 <= j < nc img) /\ (LAM_MAX < get img i j)%Qc) ->
       shot_poisson img draw = ShotErr ValueError MsgTooLarge) /\
    ((forall i j, 0 <= i < nr img /\ 0 <= j < nc img -> (0 <= get img i j)%Qc /\ (get img i j <= LAM_MAX)%Qc) ->
       shot_poisson img draw = ShotOk (@mkArr ZS (nr img) (nc img) (fun i j => Qfloor (get draw i j)))).
Proof. intros. split; [|split].
  - apply shot_poisson_negative. - apply shot_poisson_too_large. - apply shot_poisson_accepts. Qed.
Print Assumptions C18_shot_poisson_guards.

(* an accepted Poisson frame: input shape, integer samples floor(draw); under the generator contract
   (draws are non-negative integers k) the sample is k itself, >= 0 *)
Theorem C18_shot_poisson_frame :
  forall (img draw : arr QS) frame,
    shot_poisson img draw = ShotOk frame ->
    (forall i j, 0 <= i < nr img /\ 0 <= j < nc img -> (0 <= get img i j)%Qc /\ (get img i j <= LAM_MAX)%Qc) /\
    nr frame = nr img /\ nc frame = nc img /\
    (forall i j, get frame i j = Qfloor (get draw i j)) /\
    (forall i j k, get draw i j = Q2Qc (inject_Z k) -> 0 <= k -> get frame i j = k /\ 0 <= get frame i j).
Proof. exact shot_poisson_frame. Qed.
Print Assumptions C18_shot_poisson_frame.

(* Gaussian path (the code as it is: upper_guard = true, fixes 6d91c01 and a1d0f6b): a negative
   sample, then a sample above the bound, is a ValueError; the negative guard does not depend on the flag *)
Theorem C18_shot_gaussian_guards :
  forall (img draw : arr QS),
    (forall ug, (exists i j, (0 <= i < nr img /\ 0 <= j < nc img) /\ (get img i j < 0)%Qc) ->
       shot_gaussian ug img draw = ShotErr ValueError MsgNegative) /\
    ((forall i j, 0 <= i < nr img /\ 0 <= j < nc img -> (0 <= get img i j)%Qc) ->
     (exists i j, (0 <= i < nr img /\ 0 <= j < nc img) /\ (LAM_MAX < get img i j)%Qc) ->
       shot_gaussian true img draw = ShotErr ValueError MsgTooLarge).
Proof. intros. split; [intros; now apply shot_gaussian_negative | apply shot_gaussian_too_large]. Qed.
Print Assumptions C18_shot_gaussian_guards.

(* what IS guaranteed about an accepted Gaussian frame: input shape, integer samples
   cast_int64(draw) = the draw truncated toward zero while it fits int64; such a sample is
   non-negative exactly when the draw is > -1 (small counts can give negative samples: the
   approximation is documented for large counts only) *)
Theorem C18_shot_gaussian_frame :
  forall ug (img draw : arr QS) frame,
    shot_gaussian ug img draw = ShotOk frame ->
    (forall i j, 0 <= i < nr img /\ 0 <= j < nc img -> (0 <= get img i j)%Qc) /\
    (ug = true -> forall i j, 0 <= i < nr img /\ 0 <= j < nc img -> (get img i j <= LAM_MAX)%Qc) /\
    nr frame = nr img /\ nc frame = nc img /\
    (forall i j, get frame i j = cast_int64 (get draw i j)) /\
    (forall i j, - 2 ^ 63 <= Z.quot (Qnum (get draw i j)) (Zpos (Qden (get draw i j))) < 2 ^ 63 ->
       get frame i j = Z.quot (Qnum (get draw i j)) (Zpos (Qden (get draw i j))) /\
       (0 <= get frame i j <-> (- 1 < get draw i j)%Q)).
Proof. intros ug img draw frame H. destruct (shot_gaussian_frame ug img draw frame H) as (A & B & C & D & E).
  repeat split; try assumption; rewrite E.
  - now apply cast_int64_in_range.
  - now apply cast_int64_nonneg. - now apply cast_int64_nonneg. Qed.
Print Assumptions C18_shot_gaussian_frame.

(* Why the upper guard is needed (the code before fix a1d0f6b, upper_guard = false; the inverse of that
   fix is one of the mutants the check must catch): counts above the bound were accepted and came
   back as INT64_MIN - a hugely negative "count".  Witness: a 1x1 frame holding 10^19, draw 10^19. *)
Theorem C18_shot_gaussian_without_guard_overflows :
  exists (img draw : arr QS) frame,
    (LAM_MAX < get img 0 0)%Qc /\ shot_gaussian false img draw = ShotOk frame /\
    get frame 0 0 = - 2 ^ 63 /\ get frame 0 0 < 0.
Proof.
  exists (@aconst QS 1 1 (Q2Qc (10 ^ 19 # 1))), (@aconst QS 1 1 (Q2Qc (10 ^ 19 # 1))).
  eexists. split; [reflexivity|]. split; [reflexivity|]. split; [vm_compute; reflexivity|reflexivity]. Qed.
Print Assumptions C18_shot_gaussian_without_guard_overflows.

(* ---- (e) cosmic rays: every deposit is flux * sqrt(..) with flux >= 0, so the frame (requested
   shape) is non-negative; a deposit outside the frame is an IndexError ---- *)
Theorem C18_cosmic_rays_shape_nonneg :
  forall n m (rays : list (list (deposit RS))) frame,
    (forall ds d, In ds rays -> In d ds -> (0 <= dflux d)%R /\ exists q, ddist d = sqrt q) ->
    cosmic_rays n m rays = Ok frame ->
    nr frame = n /\ nc frame = m /\ forall i j, (0 <= get frame i j)%R.
Proof. exact cosmic_nonneg. Qed.
Print Assumptions C18_cosmic_rays_shape_nonneg.

(* the frame conserves the deposited charge (any commutative ring): every segment's flux*dist lands in
   exactly one pixel (negative indices count from the end, as numpy does); a deposit addressed
   outside [-n, n) x [-m, m) is an IndexError *)
Theorem C18_cosmic_rays_total :
  forall (S : Scalar), is_ring S -> forall n m (rays : list (list (deposit S))) frame,
    cosmic_rays n m rays = Ok frame ->
    sumZ (nr frame) (fun i => sumZ (nc frame) (fun j => get frame i j))
    = lsum (map (fun ds => lsum (map (fun d => (dflux d * ddist d)%K) ds)) rays).
Proof. exact cosmic_total. Qed.
Print Assumptions C18_cosmic_rays_total.

Theorem C18_cosmic_rays_index_error :
  forall (S : Scalar) n m (rays : list (list (deposit S))) ds d,
    In ds rays -> In d ds ->
    (- n <=? drow d) && (drow d <? n) && (- m <=? dcol d) && (dcol d <? m) = false ->
    cosmic_rays n m rays = Err IndexError.
Proof. exact cosmic_index_error. Qed.
Print Assumptions C18_cosmic_rays_index_error.

(* ---- non-vacuity: a 2x3 (non-square) masked draw with a hole satisfies the hypothesis of
   C18_power_spectrum_rms ---- *)
Example C18_nonvacuous :
  let filt := @mkArr RS 2 3 (fun i j => IZR (i + j - 1)) in
  let mask := @mkArr RS 2 3 (fun i j => if (i =? 0) && (j =? 0) then 0%R else 1%R) in
  exists i j, (0 <= i < nr mask /\ 0 <= j < nc mask) /\ (get filt i j * get mask i j)%R <> 0%R.
Proof. cbv zeta. exists 1, 1. cbn. split; [lia|]. intros H. ring_simplify in H. apply R1_neq_R0. exact H. Qed.
