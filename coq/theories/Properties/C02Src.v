(* C02 (translation layer, WP-T2) - the integer window arithmetic of propagate_dft is what the source says NOW.
   [src_<f>] (Gen/PropagateSrc.v) is regenerated from the text of lentil/propagate.py (and the functions of
   lentil/extent.py it calls) by harness/gen_src.py on every check; each theorem states, for ALL integer arguments,
   that the translated arithmetic equals the model of Model/Propagate.v the C02 theorems are about.  The float parts
   (alpha, the real shift) are out of scope: fix_shift = np.fix(shift) is an integer argument.
   Only statements: every proof is [exact]. *)
From LV Require Import Model.Extent Model.Propagate Gen.PropagateSrc Proofs.PropagateSrcP.

Theorem C02_src_mask_shape_is_model : forall (xs : Z * Z) (b : extent), src_mask_shape xs b = mask_shape b.
Proof. exact src_mask_shape_ok. Qed.
Print Assumptions C02_src_mask_shape_is_model.

Theorem C02_src_mask_shift_is_model : forall (R C : Z) (b : extent), src_mask_shift (R, C) b = mask_shift R C b.
Proof. exact src_mask_shift_ok. Qed.
Print Assumptions C02_src_mask_shift_is_model.

(* when the loop over the fields is reached: shape_out, prop_shape_out and the output window *)
Theorem C02_src_dft_shapes_is_model : forall (wshape shape pshape : Z * Z) (os : Z),
  src_dft_shapes wshape shape pshape os =
  ((fst shape * os, snd shape * os), (fst pshape * os, snd pshape * os),
   array_extent (fst shape * os) (snd shape * os) 0 0).
Proof. exact src_dft_shapes_ok. Qed.
Print Assumptions C02_src_dft_shapes_is_model.

(* shape=None, prop_shape=None: both are the wavefront's shape *)
Theorem C02_src_dft_shapes_default_is_model : forall (wshape : Z * Z) (os : Z),
  src_dft_shapes_default wshape os =
  ((fst wshape * os, snd wshape * os), (fst wshape * os, snd wshape * os),
   array_extent (fst wshape * os) (snd wshape * os) 0 0).
Proof. exact src_dft_shapes_default_ok. Qed.
Print Assumptions C02_src_dft_shapes_default_is_model.

(* with an output mask whose util.boundary is b: the code raises exactly where the model's [out_extent] does and
   otherwise uses the model's window (the bounding box of the mask) *)
Theorem C02_src_dft_shapes_mask_is_model : forall (wshape shape pshape : Z * Z) (os : Z) (m : bmask) (b : extent),
  mask_boundary m = Ok b ->
  match src_dft_shapes_mask wshape shape pshape os (mnr m, mnc m) b with
  | Ok (so, pso, oe) => so = (fst shape * os, snd shape * os) /\ pso = (fst pshape * os, snd pshape * os) /\
                        out_extent (fst shape * os) (snd shape * os) (Some m) = Ok oe
  | Err e => out_extent (fst shape * os) (snd shape * os) (Some m) = Err e
  end.
Proof. exact src_dft_shapes_mask_ok. Qed.
Print Assumptions C02_src_dft_shapes_mask_is_model.

(* one iteration of the loop, for arbitrary out_extent, prop_shape_out and integer fix_shift: whether the chip meets
   the window, its shape (None = ()), its offset, and the integer part of the shift handed to dft2 *)
Theorem C02_src_dft_field_window_is_model :
  forall (wshape : Z * Z) (os : Z) (fix_shift : Z * Z) (oe : extent) (pso : Z * Z),
  src_dft_field_window wshape os fix_shift oe pso =
  let pe := array_extent (fst pso) (snd pso) (fst fix_shift) (snd fix_shift) in
  if intersect oe pe then
    let ishape := intersection_shape oe pe in
    let '(isr, isc) := intersection_shift oe pe in
    let '(Ir1, Ic1) := match ishape with Some s => s | None => (1, 1) end in
    let ie := array_extent Ir1 Ic1 isr isc in
    let '(pcr, pcc) := array_center pe in
    let '(icr, icc) := array_center ie in
    Some (ishape, (isr, isc), (pcr - icr, pcc - icc))
  else None.
Proof. exact src_dft_field_window_ok. Qed.
Print Assumptions C02_src_dft_field_window_is_model.

(* and the model's per-field step [prop_field] is written with exactly that window *)
Theorem C02_src_prop_field_uses_window : forall (S : Scalar) (sq : Qc -> S) (oe : extent) (Pro Pco : Z)
    (alpha : option (Qc * Qc)) (sh : Qc * Qc) (f : field S),
  prop_field sq oe Pro Pco alpha sh f =
  match prop_window_model oe Pro Pco (qfix (fst sh)) (qfix (snd sh)) with
  | None => Ok None
  | Some (ishape, (isr, isc), (psr, psc)) =>
      match alpha with
      | None => Err TypeError
      | Some (ar, ac) =>
          match ishape, fd f with
          | Some (Ir, Ic), D2 a =>
              Ok (Some (mkField (D2 (dft2 sq a ar ac Ir Ic
                                       (zq psr + (fst sh - zq (qfix (fst sh))))%Qc
                                       (zq psc + (snd sh - zq (qfix (snd sh))))%Qc (offr f) (offc f) true))
                                isr isc []))
          | _, _ => Err ValueError
          end
      end
  end.
Proof. exact prop_field_uses_window. Qed.
Print Assumptions C02_src_prop_field_uses_window.
