(* WP-K - the two-leg relay pupil -> image -> pupil (counted and axiom-checked with C02).  Both legs use the FORWARD
   kernel, as propagate_dft / propagate_fft do; over one full period the forward transform applied twice is the mirror
   about the origin sample: C01's inverse theorem (orthogonality of the roots of unity, Lib/Cis.v) composed with C02's
   field rendering, the plane-type transitions pupil -> image -> pupil, C09's FFT path and C03/C07's segmented pupils.
   Only statements; the proofs are in Proofs/ChainRelayP.v.  Over the complex numbers [CS] (e t = exp(-2 pi i t));
   [sq] is the square root of the unitary factor: every statement gives the rendered field for ANY function sq (with the
   product of the two unitary factors and the period visible) and, for a true square root ([sq q]^2 = q for q >= 0), the
   plain mirror.  The two axes are independent: row period Pr, column period Pc, any parities.
   The mirror: output sample with coordinate u' (relative to floor(R/2) of the leg-2 output) shows the input-plane sample
   with coordinate  ((floor(P/2) - u') mod P) - floor(P/2),  the representative of -u' in the centred period
   [-floor(P/2), P-1-floor(P/2)]: that is -u' itself, except for even P at u' = -P/2 (index 0 of the period), whose mirror
   +P/2 lies outside the array and wraps onto -P/2 itself (Chain_relay_mirror_coordinate). *)
From Coq Require Import Reals QArith Qreals Qcanon.
From Coquelicot Require Import Complex.
From LV Require Import Lib.Cis Model.Tilt Model.Fft Proofs.FftP Proofs.DftInvP.
From LV Require Import Model.Segment Proofs.FieldP Proofs.PlaneP Proofs.PropagateP Proofs.SegmentP Proofs.ChainRelayP.
Local Open Scope Z_scope.

(* the mirrored coordinate, for both parities *)
Theorem Chain_relay_mirror_coordinate :
  forall P u' : Z, 0 < P -> - (P / 2) <= u' <= P - 1 - P / 2 ->
  (P / 2 - u') mod P - P / 2 = (if (P mod 2 =? 0) && (u' =? - (P / 2)) then u' else - u').
Proof. exact mirror_idx_spec. Qed.
Print Assumptions Chain_relay_mirror_coordinate.

(* 7. Chain_relay (C01 o C02, twice).  Leg 1: a pupil-plane wavefront (untilted array fields whose sum is supported on the
   centred Pr x Pc period, (Pr, Pc) = shape1 * oversample1), propagate_dft with commensurate sampling
   dx du/(lambda z os1) = 1/P per axis, the whole period evaluated (prop_shape defaulted, no mask): an image-plane
   wavefront.  Leg 2: propagate_dft of THAT wavefront (pixel scale du/os1 as leg 1 left it) with
   (du/os1) du2/(lambda z os2) = 1/P per axis, any shape2 / prop_shape2 / oversample2, no mask: a pupil-plane wavefront.
   Both calls succeed; inside leg 2's window the rendered field is
       sq(1/(Pr Pc))^2 * Pr Pc * g(mirror(u'), mirror(v')),      g = the input plane function (sum of the input fields),
   i.e. exactly g mirrored for a true square root; it is 0 outside the window; the intensity is its squared modulus. *)
Theorem Chain_relay :
  forall (sq : Qc -> C) (w : wavefront CS) (dur duc : Qc) (shape1 : option (Z * Z)) (os1 : Z) (du2r du2c : Qc)
         (shape2 pshape2 : option (Z * Z)) (os2 : Z) (dxr dxc z : Qc) (S1r S1c S2r S2c P2r P2c : Z),
  wptype w = PtPupil -> wps w = Some (dxr, dxc) -> wfocal w = Some z -> z <> 0%Qc ->
  (forall f, In f (wdata w) -> fsized f /\ ftilt f = []) ->
  match shape1 with None => wshape w | Some s => s end = (S1r, S1c) ->
  0 < S1r -> 0 < S1c -> 1 <= os1 -> S1r * os1 < maxsize -> S1c * os1 < maxsize ->
  (forall r c, inr (S1r * os1) (r + (S1r * os1) / 2) && inr (S1c * os1) (c + (S1c * os1) / 2) = false ->
     embed_sum (wdata w) r c = RtoC 0) ->
  ((dxr * dur) / (wwl w * z * zq os1))%Qc = (/ zq (S1r * os1))%Qc ->
  ((dxc * duc) / (wwl w * z * zq os1))%Qc = (/ zq (S1c * os1))%Qc ->
  match shape2 with None => (S1r * os1, S1c * os1) | Some s => s end = (S2r, S2c) ->
  match pshape2 with None => (S2r, S2c) | Some p => p end = (P2r, P2c) ->
  0 < S2r -> 0 < S2c -> 0 < P2r -> 0 < P2c -> 1 <= os2 -> S2r * os2 < maxsize -> S2c * os2 < maxsize ->
  ((dur / zq os1 * du2r) / (wwl w * z * zq os2))%Qc = (/ zq (S1r * os1))%Qc ->
  ((duc / zq os1 * du2c) / (wwl w * z * zq os2))%Qc = (/ zq (S1c * os1))%Qc ->
  let Pr := S1r * os1 in let Pc := S1c * os1 in
  let s := sq (qabs (/ zq Pr * / zq Pc)%Qc) in
  exists w1 w2 o2 oi2,
    propagate_dft (S := CS) sq (@no_shift CS) w dur duc shape1 None os1 None = Ok w1 /\ wptype w1 = PtImage /\
    propagate_dft (S := CS) sq (@no_shift CS) w1 du2r du2c shape2 pshape2 os2 None = Ok w2 /\ wptype w2 = PtPupil /\
    wfield w2 = Ok o2 /\ wintensity w2 = Ok oi2 /\
    nr o2 = S2r * os2 /\ nc o2 = S2c * os2 /\ nr oi2 = S2r * os2 /\ nc oi2 = S2c * os2 /\
    forall i j, 0 <= i < S2r * os2 -> 0 <= j < S2c * os2 ->
      let u' := i - (S2r * os2) / 2 in let v' := j - (S2c * os2) / 2 in
      get o2 i j =
        (if inE (array_extent (P2r * os2) (P2c * os2) 0 0) u' v'
         then Cmult (Cmult (Cmult s s) (RtoC (IZR Pr * IZR Pc)))
                    (embed_sum (wdata w) ((Pr / 2 - u') mod Pr - Pr / 2) ((Pc / 2 - v') mod Pc - Pc / 2))
         else RtoC 0) /\
      ((forall q : Qc, (0 <= q)%Qc -> Cmult (sq q) (sq q) = RtoC (Q2R q)) ->
       get o2 i j =
        (if inE (array_extent (P2r * os2) (P2c * os2) 0 0) u' v'
         then embed_sum (wdata w) ((Pr / 2 - u') mod Pr - Pr / 2) ((Pc / 2 - v') mod Pc - Pc / 2) else RtoC 0)) /\
      get oi2 i j = @norm2 CS (get o2 i j).
Proof. exact relay_dft. Qed.
Print Assumptions Chain_relay.

(* 8. Chain_relay_fft (C01 o C09, twice).  Leg 1: propagate_fft of a pupil-plane wavefront on the N0 x N1 grid
   _fft_shape gives (the grid is a parameter of [propagate_fft_N], as in C09), no shape requested: an image-plane wavefront
   holding the whole grid.  Leg 2: propagate_fft of that wavefront on the same grid, any shape2 with shape2 * os2 <= N,
   scratch buffers absent or large enough on either leg.  Both calls succeed (the FFT model accepts image-plane inputs:
   image -> pupil) and every sample of the re-imaged field is ortho^2 * N0 N1 * g(mirror(u'), mirror(v')), exactly g
   mirrored for a true square root - norm='ortho' on both legs, never an inverse FFT. *)
Theorem Chain_relay_fft :
  forall (sq : Qc -> C) (w : Fft.wavefront CS) (N0 N1 : Z) (du : Qc * Qc) (os1 : Z) (scratch1 : option (arr CS))
         (du2 : Qc * Qc) (s0 s1 os2 : Z) (scratch2 : option (arr CS)),
  0 < N0 -> 0 < N1 -> 0 < os2 -> Fft.has_tilt w = false -> Fft.wpt w = PPupil ->
  (forall f, In f (Fft.wdata w) -> match fd f with D0 _ => False | D2 d => 0 < nr d /\ 0 < nc d end) ->
  match scratch1 with
  | Some buf => N0 <= nr buf /\ N1 <= nc buf
  | None => 0 < fst (Fft.wshape w) /\ 0 < snd (Fft.wshape w) /\
            forall f r c, In f (Fft.wdata w) ->
              inr (fst (Fft.wshape w)) (r + fst (Fft.wshape w) / 2) && inr (snd (Fft.wshape w)) (c + snd (Fft.wshape w) / 2) = false ->
              embed f r c = k0
  end ->
  0 < s0 -> 0 < s1 -> s0 * os2 <= N0 -> s1 * os2 <= N1 ->
  match scratch2 with Some buf => N0 <= nr buf /\ N1 <= nc buf | None => True end ->
  exists out1 sc1 out2 sc2 o2,
    propagate_fft_N (S := CS) sq N0 N1 w du None os1 scratch1 = Ok (out1, sc1) /\ Fft.wpt out1 = PImage /\
    Fft.wshape out1 = (N0, N1) /\
    propagate_fft_N (S := CS) sq N0 N1 out1 du2 (Some (s0, s1)) os2 scratch2 = Ok (out2, sc2) /\ Fft.wpt out2 = PPupil /\
    Fft.wfield out2 = Ok o2 /\ nr o2 = s0 * os2 /\ nc o2 = s1 * os2 /\
    forall i j, 0 <= i < s0 * os2 -> 0 <= j < s1 * os2 ->
      let u' := i - (s0 * os2) / 2 in let v' := j - (s1 * os2) / 2 in
      get o2 i j = Cmult (Cmult (Cmult (sq (/ zq (N0 * N1))%Qc) (sq (/ zq (N0 * N1))%Qc)) (RtoC (IZR N0 * IZR N1)))
                         (embed_sum (Fft.wdata w) ((N0 / 2 - u') mod N0 - N0 / 2) ((N1 / 2 - v') mod N1 - N1 / 2)) /\
      ((forall q : Qc, (0 <= q)%Qc -> Cmult (sq q) (sq q) = RtoC (Q2R q)) ->
       get o2 i j = embed_sum (Fft.wdata w) ((N0 / 2 - u') mod N0 - N0 / 2) ((N1 / 2 - v') mod N1 - N1 / 2)).
Proof. exact relay_fft. Qed.
Print Assumptions Chain_relay_fft.

(* 9. Chain_relay_segmented (C03 o C07 o C02 o C01).  Leg 1 from a fresh plane wave times a pupil given by pairwise
   disjoint segment masks (any number; one propagated field per segment) or by one mask, no tilt; leg 2 back to a pupil
   plane.  With T(r, c) = amplitude * exp(2 pi i opd/lambda) inside the union of the masks and 0 outside - the SUM of the
   segment fields, which is the monolithic pupil function - the re-imaged field is T mirrored inside leg 2's window and
   the re-imaged intensity is |T mirrored|^2: the segments add coherently (amplitudes, never intensities). *)
Theorem Chain_relay_segmented :
  forall (sq : Qc -> C) (P : plane CS) (lam : Qc) (pix : pixraw) (foc : option Qc) (z dur duc : Qc) (shape1 : option (Z * Z))
         (os1 : Z) (du2r du2c : Qc) (shape2 pshape2 : option (Z * Z)) (os2 : Z) (dxr dxc : Qc)
         (n m S1r S1c S2r S2c P2r P2c : Z),
  plane_ok P n m -> pl_tilt P = [] -> disjoint_masks (masks_of (pl_mask P)) -> 0 < n -> 0 < m ->
  mul_pixelscale (pl_pix P) (pix_broadcast pix) = Ok (Some (dxr, dxc)) -> pl_focal P = Some (FVal z) -> z <> 0%Qc ->
  match shape1 with None => (n, m) | Some s => s end = (S1r, S1c) ->
  0 < S1r -> 0 < S1c -> 1 <= os1 -> S1r * os1 < maxsize -> S1c * os1 < maxsize ->
  n <= S1r * os1 -> m <= S1c * os1 ->
  ((dxr * dur) / (lam * z * zq os1))%Qc = (/ zq (S1r * os1))%Qc ->
  ((dxc * duc) / (lam * z * zq os1))%Qc = (/ zq (S1c * os1))%Qc ->
  match shape2 with None => (S1r * os1, S1c * os1) | Some s => s end = (S2r, S2c) ->
  match pshape2 with None => (S2r, S2c) | Some p => p end = (P2r, P2c) ->
  0 < S2r -> 0 < S2c -> 0 < P2r -> 0 < P2c -> 1 <= os2 -> S2r * os2 < maxsize -> S2c * os2 < maxsize ->
  ((dur / zq os1 * du2r) / (lam * z * zq os2))%Qc = (/ zq (S1r * os1))%Qc ->
  ((duc / zq os1 * du2c) / (lam * z * zq os2))%Qc = (/ zq (S1c * os1))%Qc ->
  (forall q : Qc, (0 <= q)%Qc -> Cmult (sq q) (sq q) = RtoC (Q2R q)) ->
  let w0 := pwf_init (S := CS) lam pix foc [] in
  let Pr := S1r * os1 in let Pc := S1c * os1 in
  let T := fun r c : Z =>
    if existsb (fun a => mask_at a (r + n / 2) (c + m / 2)) (masks_of (pl_mask P))
    then Cmult (amp_at (pl_amp P) (r + n / 2) (c + m / 2)) (@ke CS (- (opd_at (pl_opd P) (r + n / 2) (c + m / 2) / lam))%Qc)
    else RtoC 0 in
  exists w1p v1 v2 o2 oi2,
    plane_multiply P w0 = Ok w1p /\ (forall r c, embed_sum (pw_data w1p) r c = T r c) /\
    chain_propagate (S := CS) sq [P] w0 dur duc shape1 None os1 = Ok v1 /\ wptype v1 = PtImage /\
    propagate_dft (S := CS) sq (@no_shift CS) v1 du2r du2c shape2 pshape2 os2 None = Ok v2 /\ wptype v2 = PtPupil /\
    wfield v2 = Ok o2 /\ wintensity v2 = Ok oi2 /\
    nr o2 = S2r * os2 /\ nc o2 = S2c * os2 /\ nr oi2 = S2r * os2 /\ nc oi2 = S2c * os2 /\
    forall i j, 0 <= i < S2r * os2 -> 0 <= j < S2c * os2 ->
      let u' := i - (S2r * os2) / 2 in let v' := j - (S2c * os2) / 2 in
      get o2 i j = (if inE (array_extent (P2r * os2) (P2c * os2) 0 0) u' v'
                    then T ((Pr / 2 - u') mod Pr - Pr / 2) ((Pc / 2 - v') mod Pc - Pc / 2) else RtoC 0) /\
      get oi2 i j = @norm2 CS (get o2 i j).
Proof. exact relay_pupil. Qed.
Print Assumptions Chain_relay_segmented.

(* ---------------------------------------------------------------- non-vacuity *)
(* a 2 x 3 complex field at the origin of a pupil-plane wavefront (lambda = z = dx = 1), relayed over the period
   4 x 5 (rows even, columns odd): du = (1/4, 1/5) on leg 1, du2 = (1, 1) on leg 2, oversample 1 on both legs.  The
   hypotheses of Chain_relay hold for the principal square root, and the theorem pins the re-imaged samples: output
   (2,2) shows input sample (1,1) (the origin sample maps to itself), output (3,1) shows input (0,2) (mirrored), and
   output row 0 - coordinate -2 of the even period, the sample without a mirror partner - shows nothing of the field *)
Definition rlA : arr CS := @mkArr CS 2 3 (fun x y => (IZR (1 + x), IZR (2 * y))).
Definition rlW : wavefront CS :=
  mkWf 1%Qc (Some (1%Qc, 1%Qc)) (Some 1%Qc) (2, 3) PtPupil [mkField (D2 rlA) 0 0 []].
Definition rlSq : Qc -> C := fun q => RtoC (sqrt (Q2R q)).

Lemma rl_support : forall r c, inr (4 * 1) (r + (4 * 1) / 2) && inr (5 * 1) (c + (5 * 1) / 2) = false ->
  embed_sum (wdata rlW) r c = RtoC 0.
Proof.
  intros r c E. unfold embed_sum. cbn [wdata rlW fold_left]. rewrite embed_D2. unfold embedA. cbn [nr nc rlA].
  change (2 / 2) with 1. change (3 / 2) with 1.
  destruct (inr 2 (r - 0 + 1) && inr 3 (c - 0 + 1)) eqn:Ei.
  - exfalso. change (4 * 1) with 4 in E. change (5 * 1) with 5 in E. change (4 / 2) with 2 in E. change (5 / 2) with 2 in E.
    unfold inr in *. lia.
  - apply Cplus_0_l.
Qed.

Example Chain_relay_nonvacuous :
  (forall q : Qc, (0 <= q)%Qc -> Cmult (rlSq q) (rlSq q) = RtoC (Q2R q)) /\
  (forall f, In f (wdata rlW) -> fsized f /\ ftilt f = []) /\
  ((1 * Q2Qc (1 # 4)) / (wwl rlW * 1 * zq 1))%Qc = (/ zq (4 * 1))%Qc /\
  ((1 * Q2Qc (1 # 5)) / (wwl rlW * 1 * zq 1))%Qc = (/ zq (5 * 1))%Qc /\
  ((Q2Qc (1 # 4) / zq 1 * 1) / (wwl rlW * 1 * zq 1))%Qc = (/ zq (4 * 1))%Qc /\
  ((Q2Qc (1 # 5) / zq 1 * 1) / (wwl rlW * 1 * zq 1))%Qc = (/ zq (5 * 1))%Qc /\
  exists w1 w2 o2,
    propagate_dft (S := CS) rlSq (@no_shift CS) rlW (Q2Qc (1 # 4)) (Q2Qc (1 # 5)) (Some (4, 5)) None 1 None = Ok w1 /\
    propagate_dft (S := CS) rlSq (@no_shift CS) w1 1%Qc 1%Qc None None 1 None = Ok w2 /\ wptype w2 = PtPupil /\
    wfield w2 = Ok o2 /\
    get o2 2 2 = get rlA 1 1 /\ get o2 3 1 = get rlA 0 2 /\ get o2 3 3 = get rlA 0 0 /\
    get o2 0 2 = RtoC 0 /\ get o2 1 2 = RtoC 0 /\ get o2 2 0 = RtoC 0.
Proof.
  assert (Q1 : ((1 * Q2Qc (1 # 4)) / (wwl rlW * 1 * zq 1))%Qc = (/ zq (4 * 1))%Qc) by (apply Qc_is_canon; reflexivity).
  assert (Q2 : ((1 * Q2Qc (1 # 5)) / (wwl rlW * 1 * zq 1))%Qc = (/ zq (5 * 1))%Qc) by (apply Qc_is_canon; reflexivity).
  assert (Q3 : ((Q2Qc (1 # 4) / zq 1 * 1) / (wwl rlW * 1 * zq 1))%Qc = (/ zq (4 * 1))%Qc) by (apply Qc_is_canon; reflexivity).
  assert (Q4 : ((Q2Qc (1 # 5) / zq 1 * 1) / (wwl rlW * 1 * zq 1))%Qc = (/ zq (5 * 1))%Qc) by (apply Qc_is_canon; reflexivity).
  assert (Hf : forall f, In f (wdata rlW) -> fsized f /\ ftilt f = []).
  { intros f [<-|[]]. split; [|reflexivity]. unfold fsized. cbn. lia. }
  split; [exact sqrt_sq_spec|]. split; [exact Hf|]. repeat (split; [assumption|]).
  destruct (Chain_relay rlSq rlW (Q2Qc (1 # 4)) (Q2Qc (1 # 5)) (Some (4, 5)) 1 1%Qc 1%Qc None None 1 1%Qc 1%Qc 1%Qc
              4 5 4 5 4 5 eq_refl eq_refl eq_refl ltac:(discriminate) Hf eq_refl ltac:(lia) ltac:(lia) ltac:(lia)
              ltac:(unfold maxsize; lia) ltac:(unfold maxsize; lia) rl_support Q1 Q2 eq_refl eq_refl
              ltac:(lia) ltac:(lia) ltac:(lia) ltac:(lia) ltac:(lia) ltac:(unfold maxsize; lia) ltac:(unfold maxsize; lia) Q3 Q4)
    as (w1 & w2 & o2 & oi2 & E1 & _ & E2 & Pt2 & Fo2 & _ & _ & _ & _ & _ & G).
  exists w1, w2, o2. repeat (split; [assumption|]).
  assert (V : forall i j r c, 0 <= i < 4 * 1 -> 0 <= j < 5 * 1 ->
     (4 * 1 / 2 - (i - 4 * 1 / 2)) mod (4 * 1) - 4 * 1 / 2 = r -> (5 * 1 / 2 - (j - 5 * 1 / 2)) mod (5 * 1) - 5 * 1 / 2 = c ->
     get o2 i j = embed_sum (wdata rlW) r c).
  { intros i j r c Hi Hj Er Ec. destruct (G i j Hi Hj) as (_ & Gs & _). rewrite (Gs sqrt_sq_spec). cbv zeta.
    replace (inE (array_extent (4 * 1) (5 * 1) 0 0) (i - 4 * 1 / 2) (j - 5 * 1 / 2)) with true
      by (unfold inE, inb, array_extent; change (4 * 1) with 4 in *; change (5 * 1) with 5 in *;
          change (4 / 2) with 2; change (5 / 2) with 2; lia).
    now rewrite Er, Ec. }
  assert (Ein : forall r c, embed_sum (wdata rlW) r c = Cplus (RtoC 0) (embedA CS rlA 0 0 r c)).
  { intros r c. unfold embed_sum. cbn [wdata rlW fold_left]. now rewrite embed_D2. }
  repeat split.
  - rewrite (V 2 2 0 0) by (try lia; reflexivity). rewrite Ein. apply Cplus_0_l.
  - rewrite (V 3 1 (-1) 1) by (try lia; reflexivity). rewrite Ein. apply Cplus_0_l.
  - rewrite (V 3 3 (-1) (-1)) by (try lia; reflexivity). rewrite Ein. apply Cplus_0_l.
  - rewrite (V 0 2 (-2) 0) by (try lia; reflexivity). rewrite Ein. apply Cplus_0_l.
  - rewrite (V 1 2 1 0) by (try lia; reflexivity). rewrite Ein. apply Cplus_0_l.
  - rewrite (V 2 0 0 2) by (try lia; reflexivity). rewrite Ein. apply Cplus_0_l.
Qed.

(* the same field relayed through propagate_fft on the 4 x 5 grid (no scratch buffers, whole grid requested back) *)
Definition rlWF : Fft.wavefront CS := Fft.mkWf [mkField (D2 rlA) 0 0 []] (2, 3) 1%Qc (1%Qc, 1%Qc) 1%Qc PPupil.
Example Chain_relay_fft_nonvacuous :
  Fft.has_tilt rlWF = false /\
  (forall f, In f (Fft.wdata rlWF) -> match fd f with D0 _ => False | D2 d => 0 < nr d /\ 0 < nc d end) /\
  (forall f r c, In f (Fft.wdata rlWF) ->
     inr (fst (Fft.wshape rlWF)) (r + fst (Fft.wshape rlWF) / 2) && inr (snd (Fft.wshape rlWF)) (c + snd (Fft.wshape rlWF) / 2) = false ->
     embed f r c = k0) /\
  exists out1 sc1 out2 sc2 o2,
    propagate_fft_N (S := CS) rlSq 4 5 rlWF (1%Qc, 1%Qc) None 1 None = Ok (out1, sc1) /\ Fft.wpt out1 = PImage /\
    propagate_fft_N (S := CS) rlSq 4 5 out1 (1%Qc, 1%Qc) (Some (4, 5)) 1 None = Ok (out2, sc2) /\ Fft.wpt out2 = PPupil /\
    Fft.wfield out2 = Ok o2 /\
    get o2 2 2 = get rlA 1 1 /\ get o2 3 1 = get rlA 0 2 /\ get o2 0 2 = RtoC 0 /\ get o2 2 0 = RtoC 0.
Proof.
  assert (Hg : forall f, In f (Fft.wdata rlWF) -> match fd f with D0 _ => False | D2 d => 0 < nr d /\ 0 < nc d end).
  { intros f [<-|[]]. cbn. lia. }
  assert (Hin : forall f r c, In f (Fft.wdata rlWF) ->
     inr (fst (Fft.wshape rlWF)) (r + fst (Fft.wshape rlWF) / 2) && inr (snd (Fft.wshape rlWF)) (c + snd (Fft.wshape rlWF) / 2) = false ->
     embed f r c = k0).
  { intros f r c [<-|[]] H. cbn [Fft.wshape rlWF fst snd] in H. rewrite embed_D2. unfold embedA. cbn [nr nc rlA].
    change (2 / 2) with 1 in *. change (3 / 2) with 1 in *.
    replace (r - 0 + 1) with (r + 1) by ring. replace (c - 0 + 1) with (c + 1) by ring. rewrite H. reflexivity. }
  split; [reflexivity|]. split; [exact Hg|]. split; [exact Hin|].
  destruct (Chain_relay_fft rlSq rlWF 4 5 (1%Qc, 1%Qc) 1 None (1%Qc, 1%Qc) 4 5 1 None
              ltac:(lia) ltac:(lia) ltac:(lia) eq_refl eq_refl Hg (conj (eq_refl : 0 < fst (Fft.wshape rlWF)) (conj (eq_refl : 0 < snd (Fft.wshape rlWF)) Hin))
              ltac:(lia) ltac:(lia) ltac:(lia) ltac:(lia) I)
    as (out1 & sc1 & out2 & sc2 & o2 & E1 & Pt1 & _ & E2 & Pt2 & Fo2 & _ & _ & G).
  exists out1, sc1, out2, sc2, o2. repeat (split; [assumption|]).
  assert (V : forall i j r c, 0 <= i < 4 * 1 -> 0 <= j < 5 * 1 ->
     (4 / 2 - (i - 4 * 1 / 2)) mod 4 - 4 / 2 = r -> (5 / 2 - (j - 5 * 1 / 2)) mod 5 - 5 / 2 = c ->
     get o2 i j = embed_sum (Fft.wdata rlWF) r c).
  { intros i j r c Hi Hj Er Ec. destruct (G i j Hi Hj) as (_ & Gs). rewrite (Gs sqrt_sq_spec). cbv zeta. now rewrite Er, Ec. }
  assert (Ein : forall r c, embed_sum (Fft.wdata rlWF) r c = Cplus (RtoC 0) (embedA CS rlA 0 0 r c)).
  { intros r c. unfold embed_sum. cbn [Fft.wdata rlWF fold_left]. now rewrite embed_D2. }
  repeat split.
  - rewrite (V 2 2 0 0) by (try lia; reflexivity). rewrite Ein. apply Cplus_0_l.
  - rewrite (V 3 1 (-1) 1) by (try lia; reflexivity). rewrite Ein. apply Cplus_0_l.
  - rewrite (V 0 2 (-2) 0) by (try lia; reflexivity). rewrite Ein. apply Cplus_0_l.
  - rewrite (V 2 0 0 2) by (try lia; reflexivity). rewrite Ein. apply Cplus_0_l.
Qed.

(* a 2 x 3 pupil over C split into two disjoint segments (column 0 | columns 1-2), amplitude rlA, no OPD, pixel scale 1,
   focal length 1; relayed over the 4 x 5 period as above.  The hypotheses of Chain_relay_segmented hold (the slices are
   the bounding slices of the masks, computed by the model), plane_multiply leaves two fields, and the theorem pins the
   re-imaged field and intensity: output (2,2) carries |A[1,1]|^2 = |sum of the segment fields at the origin|^2 *)
Definition rlM1 : garr bool := mkP 2 3 (fun i j => j =? 0).
Definition rlM2 : garr bool := mkP 2 3 (fun i j => 1 <=? j).
Definition rlP : plane CS :=
  mkPlane (AmpA rlA) (OpdS 0%Qc) (PM3 2 3 [rlM1; rlM2])
          (match plane_slice (PM3 2 3 [rlM1; rlM2]) with Ok l => l | Err _ => [] end)
          (Some (1%Qc, 1%Qc)) [] (Some (FVal 1%Qc)).
Example Chain_relay_segmented_nonvacuous :
  plane_ok rlP 2 3 /\ disjoint_masks (masks_of (pl_mask rlP)) /\ pl_tilt rlP = [] /\
  mul_pixelscale (pl_pix rlP) (pix_broadcast PixNone) = Ok (Some (1%Qc, 1%Qc)) /\
  exists w1p v1 v2 o2 oi2,
    plane_multiply rlP (pwf_init (S := CS) 1%Qc PixNone None []) = Ok w1p /\ length (pw_data w1p) = 2%nat /\
    chain_propagate (S := CS) rlSq [rlP] (pwf_init (S := CS) 1%Qc PixNone None []) (Q2Qc (1 # 4)) (Q2Qc (1 # 5)) (Some (4, 5)) None 1 = Ok v1 /\
    propagate_dft (S := CS) rlSq (@no_shift CS) v1 1%Qc 1%Qc None None 1 None = Ok v2 /\ wptype v2 = PtPupil /\
    wfield v2 = Ok o2 /\ wintensity v2 = Ok oi2 /\
    get o2 2 2 = Cmult (get rlA 1 1) (RtoC 1) /\ get oi2 2 2 = @norm2 CS (Cmult (get rlA 1 1) (RtoC 1)) /\ get o2 0 2 = RtoC 0.
Proof.
  assert (Hok : plane_ok rlP 2 3).
  { constructor; try reflexivity.
    - intros a [<-|[<-|[]]]; split; reflexivity.
    - split; [split; reflexivity|exact I]. }
  assert (Hdis : disjoint_masks (masks_of (pl_mask rlP))).
  { cbn [rlP pl_mask masks_of]. constructor; [|constructor; [constructor|constructor]]. constructor; [|constructor].
    intros i j. unfold mask_at, rlM1, rlM2. cbn [pnr pnc pget]. destruct (inr 2 i); [|reflexivity]. destruct (inr 3 j); [|reflexivity].
    cbn [andb]. destruct (Z.eqb_spec j 0) as [->|Hj]; [reflexivity|reflexivity]. }
  assert (Q1 : ((1 * Q2Qc (1 # 4)) / (1 * 1 * zq 1))%Qc = (/ zq (4 * 1))%Qc) by (apply Qc_is_canon; reflexivity).
  assert (Q2 : ((1 * Q2Qc (1 # 5)) / (1 * 1 * zq 1))%Qc = (/ zq (5 * 1))%Qc) by (apply Qc_is_canon; reflexivity).
  assert (Q3 : ((Q2Qc (1 # 4) / zq 1 * 1) / (1 * 1 * zq 1))%Qc = (/ zq (4 * 1))%Qc) by (apply Qc_is_canon; reflexivity).
  assert (Q4 : ((Q2Qc (1 # 5) / zq 1 * 1) / (1 * 1 * zq 1))%Qc = (/ zq (5 * 1))%Qc) by (apply Qc_is_canon; reflexivity).
  split; [exact Hok|]. split; [exact Hdis|]. split; [reflexivity|]. split; [reflexivity|].
  destruct (Chain_relay_segmented rlSq rlP 1%Qc PixNone None 1%Qc (Q2Qc (1 # 4)) (Q2Qc (1 # 5)) (Some (4, 5)) 1 1%Qc 1%Qc
              None None 1 1%Qc 1%Qc 2 3 4 5 4 5 4 5 Hok eq_refl Hdis ltac:(lia) ltac:(lia) eq_refl eq_refl ltac:(discriminate)
              eq_refl ltac:(lia) ltac:(lia) ltac:(lia) ltac:(unfold maxsize; lia) ltac:(unfold maxsize; lia) ltac:(lia) ltac:(lia)
              Q1 Q2 eq_refl eq_refl ltac:(lia) ltac:(lia) ltac:(lia) ltac:(lia) ltac:(lia)
              ltac:(unfold maxsize; lia) ltac:(unfold maxsize; lia) Q3 Q4 sqrt_sq_spec)
    as (w1p & v1 & v2 & o2 & oi2 & E1 & _ & Ev1 & _ & Ev2 & Pt2 & Fo2 & Foi2 & _ & _ & _ & _ & G).
  exists w1p, v1, v2, o2, oi2. split; [exact E1|]. split.
  { unfold plane_multiply in E1. cbn in E1. injection E1 as <-. reflexivity. }
  repeat (split; [assumption|]).
  destruct (G 2 2 ltac:(lia) ltac:(lia)) as [G1 G2]. destruct (G 0 2 ltac:(lia) ltac:(lia)) as [G3 _].
  cbv zeta in G1, G3.
  assert (E22 : get o2 2 2 = Cmult (get rlA 1 1) (RtoC 1)).
  { transitivity (Cmult (get rlA 1 1) (@ke CS (- (0 / 1))%Qc)); [rewrite G1; reflexivity|]. f_equal.
    replace (- (0 / 1))%Qc with 0%Qc by (apply Qc_is_canon; reflexivity). apply (ke_0 CS CS_kernel). }
  split; [exact E22|]. split; [rewrite G2, E22; reflexivity|]. rewrite G3. reflexivity.
Qed.
