(* C17 (translation layer, WP-T3) - the output-shape formula and the interpolation coordinates of lentil.rescale
   are what the source says NOW.  [src_<f>] (Gen/RescaleSrc.v) is regenerated from the text of lentil/util.py by
   harness/gen_src.py on every check, with the scale an exact rational p/q (q > 0; every float is one).  For ALL
   integers the translated arithmetic is the model's [rescale_shape] / [coord] (Model/Rescale.v).
   Only statements: every proof is [exact]. *)
From LV Require Import Model.Rescale Gen.RescaleSrc Proofs.RescaleSrcP.
Open Scope Z_scope.

(* shape=None: np.ceil((img.shape[0]*scale, img.shape[1]*scale)).astype(int) *)
Theorem C17_src_rescale_shape_is_model : forall n m p q : Z, 0 < q ->
  src_rescale_shape (n, m) (p, q) = (rescale_shape n (zq p / zq q)%Qc, rescale_shape m (zq p / zq q)%Qc).
Proof. exact src_rescale_shape_ok. Qed.
Print Assumptions C17_src_rescale_shape_is_model.

(* shape=(a, b) *)
Theorem C17_src_rescale_shape_given_is_model : forall (ish : Z * Z) (a b p q : Z), 0 < q ->
  src_rescale_shape_given ish (p, q) (a, b) = (rescale_shape a (zq p / zq q)%Qc, rescale_shape b (zq p / zq q)%Qc).
Proof. exact src_rescale_shape_given_ok. Qed.
Print Assumptions C17_src_rescale_shape_given_is_model.

(* shape=a (scalar) *)
Theorem C17_src_rescale_shape_scalar_is_model : forall (ish : Z * Z) (a p q : Z), 0 < q ->
  src_rescale_shape_scalar ish (p, q) a = (rescale_shape a (zq p / zq q)%Qc, rescale_shape a (zq p / zq q)%Qc).
Proof. exact src_rescale_shape_scalar_ok. Qed.
Print Assumptions C17_src_rescale_shape_scalar_is_model.

(* element k of x = (np.arange(shape[1]) - shape[1]/2.)/scale + img.shape[1]/2. and of y: the model's [coord] *)
Theorem C17_src_rescale_coords_is_model : forall n m p q k : Z, 0 < p -> 0 < q ->
  let s := (zq p / zq q)%Qc in
  let '((xn, xd), (yn, yd)) := src_rescale_coords (n, m) (p, q) k in
  (zq xn / zq xd)%Qc = coord m (rescale_shape m s) s k /\ (zq yn / zq yd)%Qc = coord n (rescale_shape n s) s k.
Proof. exact src_rescale_coords_ok. Qed.
Print Assumptions C17_src_rescale_coords_is_model.
