(* C11 - Zernike modes are the Noll-ordered orthonormal polynomials. *)
From Coq Require Import Reals.
From Coquelicot Require Import Coquelicot.
From LV Require Import Lib.Cis Model.Zernike Proofs.ZernikeP Proofs.ZernikeFloatP Proofs.ZernikeRadialP Proofs.ZernikeEntryP Proofs.ZernikeIntP.

(* ---- (a) Noll's ordering ----
   [noll j] = (m, n) is the closed form: row n = ceil((-1 + sqrt(1+8j))/2) - 1 computed with the
   exact integer square root, position p = j - n(n+1)/2 - 1 in the row, |m| = 0,2,2,4,4.. (n even)
   or 1,1,3,3,.. (n odd), sign + for even j, - for odd j. *)
Theorem C11_noll_bijection :
  (* well-formed: n - |m| even, |m| <= n, even j <-> cosine (m > 0), odd j <-> sine (m < 0) *)
  (forall j, 1 <= j -> let '(m, n) := noll j in
     0 <= n /\ Z.abs m <= n /\ Z.even (n - Z.abs m) = true /\ (0 < m -> Z.even j = true) /\ (m < 0 -> Z.odd j = true))
  (* one-to-one *)
  /\ (forall j1 j2, 1 <= j1 -> 1 <= j2 -> noll j1 = noll j2 -> j1 = j2)
  (* onto the admissible pairs *)
  /\ (forall m n, 0 <= n -> Z.abs m <= n -> Z.even (n - Z.abs m) = true -> exists j, 1 <= j /\ noll j = (m, n))
  (* rows ordered by n, |m| non-decreasing within a row *)
  /\ (forall j1 j2, 1 <= j1 -> j1 <= j2 ->
        snd (noll j1) <= snd (noll j2) /\
        (snd (noll j1) = snd (noll j2) -> Z.abs (fst (noll j1)) <= Z.abs (fst (noll j2)))).
Proof. exact (conj noll_wf (conj noll_inj (conj noll_surj noll_ordered))). Qed.
Print Assumptions C11_noll_bijection.

(* zernike_index (row formula in exact arithmetic, then the code's list-building and its negative
   Python index) computes the closed form for every j >= 1 and raises ValueError otherwise *)
Theorem C11_index_code_is_noll :
  (forall j, 1 <= j -> noll_exact j = Ok (noll j)) /\
  (forall j rowf, j < 1 -> noll_code rowf j = Err ValueError).
Proof. exact (conj noll_code_closed (fun j rowf H => noll_code_error j H rowf)). Qed.
Print Assumptions C11_index_code_is_noll.

(* the exact row is the real-number expression of the source: row + 1 is the least integer c >= 0
   with 2c + 1 >= sqrt(1 + 8j) *)
Theorem C11_row_is_ceiling :
  forall j c, 1 <= j -> 0 <= c -> (1 + 8 * j <= (2 * c + 1) * (2 * c + 1) <-> row_exact j + 1 <= c).
Proof. exact row_exact_is_ceil. Qed.
Print Assumptions C11_row_is_ceiling.

(* ---- (b) the IEEE-754 double expression of the source,
        n = int(np.ceil((-1 + np.sqrt(1 + 8*j)) / 2) - 1),
   evaluated with the kernel's primitive doubles gives the exact row, hence the same (m, n)
   (bounded: 1 <= j <= 2*10^5, one kernel evaluation) ---- *)
Theorem C11_noll_float_exact :
  forall j, 1 <= j <= 200000 ->
    is_ceil (row_arg_float j) (ceil_float j) = true     (* the search found ceil of the double *)
    /\ row_float j = row_exact j
    /\ noll_float j = noll_exact j.
Proof. exact (fun j H => conj (proj1 (row_float_exact j H)) (conj (proj2 (row_float_exact j H)) (noll_float_exact j H))). Qed.
Print Assumptions C11_noll_float_exact.


(* ---- (c) the radial polynomial ----
   [rcoef m n k] is the code's factorial quotient (-1)^k (n-k)! / (k! ((n+m)/2-k)! ((n-m)/2-k)!),
   [radial m n rho] the code's sum of rcoef * rho^(n-2k) over the rationals.  Bounded: n <= 40. *)
Theorem C11_radial_is_textbook :
  forall n m k, 0 <= m <= n -> n <= 40 -> Z.even (n - m) = true -> 0 <= k <= (n - m) / 2 ->
    (* an integer: the product of binomial coefficients of the textbook form (Pascal's triangle) *)
    rcoef m n k = zQ ((if Z.even k then 1 else -1) * binom (n - k) k * binom (n - 2 * k) ((n - m) / 2 - k)).
Proof. exact radial_is_textbook. Qed.
Print Assumptions C11_radial_is_textbook.

Theorem C11_radial_at_one :
  forall m n, Z.abs m <= n -> n <= 40 -> Z.even (n - Z.abs m) = true -> radial m n 1%Qc = 1%Qc.
Proof. exact radial_at_one. Qed.
Print Assumptions C11_radial_at_one.

(* ---- the mode: value = normalisation * R_n^|m|(rho) * azimuthal factor * mask ----
   Any commutative ring [S] with kernel e(t) = exp(-2 pi i t); theta = 2 pi t;
   cos(2 pi s) := (e(s) + e(-s))/2, sin(2 pi s) := (e(-s) - e(s)) e(1/4)/2.
   For odd j the code's factor is sin(m theta) with the NEGATIVE m (so -sin(|m| theta)): the
   property fixes "odd j sine", not the sign; this is the factor as the code has it. *)
Theorem C11_mode_factorisation :
  forall (S : Scalar), is_ring S -> forall (sq : Qc -> S) m n normalize rho t (mask : bool),
  (@kofq S 1%Qc = k1 ->
   zernike_pt sq m n normalize rho t mask
   = ((if m =? 0 then (if n =? 0 then k1 else if normalize then sq (zQ (n + 1)) else k1)
       else if normalize then (sq (zQ 2) * sq (zQ (n + 1)))%K else k1)
      * kofq (radial m n rho)
      * (if m =? 0 then k1 else if 0 <? m then kcos (zQ m * t)%Qc else ksin (zQ m * t)%Qc)
      * (if mask then k1 else k0))%K)
  (* zero outside the mask *)
  /\ zernike_pt sq m n normalize rho t false = k0
  (* the executed model runs with sq = 1 and reports [norm2]; the code's factor multiplies it ... *)
  /\ zernike_pt sq m n normalize rho t mask
     = (norm_factor sq m n normalize * zernike_pt (fun _ => k1) m n normalize rho t mask)%K
  (* ... and its square is norm2 = 1, n+1 or 2(n+1) *)
  /\ ((forall q, (sq q * sq q)%K = kofq q) -> (forall a b : Qc, @kofq S (a * b)%Qc = (kofq a * kofq b)%K) ->
      @kofq S 1%Qc = k1 -> 0 <= n ->
      (norm_factor sq m n normalize * norm_factor sq m n normalize)%K
      = kofq (zQ (if normalize then (if m =? 0 then (if n =? 0 then 1 else n + 1) else 2 * (n + 1)) else 1))).
Proof.
  exact (fun S R sq m n nz rho t b =>
    conj (zernike_pt_factor S R sq m n nz rho t b)
   (conj (zernike_pt_outside S R sq m n nz rho t)
   (conj (zernike_pt_unnormalised S R sq m n nz rho t b)
         (norm_factor_square S R sq m n nz)))).
Qed.
Print Assumptions C11_mode_factorisation.

(* on the complex numbers, with the real square root: Noll's formula *)
Theorem C11_mode_on_C :
  forall m n normalize (rho t : Qc) (mask : bool), 0 <= n ->
  zernike_pt (S := CS) (fun q => RtoC (sqrt (Q2R q))) m n normalize rho t mask
  = RtoC (sqrt (IZR (if normalize then (if m =? 0 then (if n =? 0 then 1 else n + 1) else 2 * (n + 1)) else 1))
          * Q2R (radial m n rho)
          * (let theta := (2 * PI * Q2R t)%R in
             if m =? 0 then 1 else if 0 <? m then cos (IZR m * theta) else sin (IZR m * theta))
          * (if mask then 1 else 0))%R.
Proof. exact zernike_pt_textbook. Qed.
Print Assumptions C11_mode_on_C.

(* a whole call depends on the mask only through its support (np.asarray(mask, dtype=bool)) *)
Theorem C11_mode_mask_support_only :
  forall (S : Scalar) (sq : Qc -> S) rowf j normalize (pts1 pts2 : list (Qc * Qc * Qc)),
  Forall2 (fun p q => fst p = fst q /\ mask_bool (snd p) = mask_bool (snd q)) pts1 pts2 ->
  zernike sq rowf j normalize pts1 = zernike sq rowf j normalize pts2.
Proof. exact zernike_support_only. Qed.
Print Assumptions C11_mode_mask_support_only.

(* ---- (d) orthogonality ---- *)
(* radial, weight rho on [0,1] (Riemann integral; bounded: n, n' <= 50: for each (n, m) the kernel evaluates the moments of R_n^m against
   rho^(m+2s), s < (n-m)/2, and its norm in exact rational arithmetic; the pairs follow by bilinearity).  The polynomial is the
   model's term list evaluated on the reals, as [radial] evaluates it on the rationals. *)
Theorem C11_radial_orthogonality :
  let Rpoly := fun (p : list (Z * Qc)) (x : R) =>
                 fold_left (fun acc (t : Z * Qc) => (acc + Q2R (snd t) * x ^ Z.to_nat (fst t))%R) p 0%R in
  (forall m n rho, Z.even (Z.abs n - Z.abs m) = true ->
     Q2R (radial m n rho) = Rpoly (radial_terms (Z.abs m) (Z.abs n)) (Q2R rho))
  /\ (forall m n n', 0 <= m -> m <= n <= 50 -> m <= n' <= 50 -> Z.even (n - m) = true -> Z.even (n' - m) = true ->
     is_RInt (fun rho => (Rpoly (radial_terms m n) rho * Rpoly (radial_terms m n') rho * rho)%R) 0%R 1%R
             (if n =? n' then (/ (2 * IZR (n + 1)))%R else 0%R))
  (* R_n^m is orthogonal to every lower-degree polynomial rho^m q(rho^2): all monomials rho^(m+2s), s < (n-m)/2 *)
  /\ (forall m n s, 0 <= m <= n -> n <= 50 -> Z.even (n - m) = true -> 0 <= s < (n - m) / 2 ->
      is_RInt (fun rho => (Rpoly (radial_terms m n) rho * rho ^ Z.to_nat (m + 2 * s) * rho)%R) 0%R 1%R 0%R).
Proof. exact (conj radial_Reval (conj radial_orthogonality_RInt radial_lower_moments_RInt)). Qed.
Print Assumptions C11_radial_orthogonality.

(* azimuthal, over a full turn, all integers m, m' (the factor as the code has it) *)
Theorem C11_angular_orthogonality :
  let az := fun (m : Z) (theta : R) =>
              if m =? 0 then 1%R else if 0 <? m then cos (IZR m * theta) else sin (IZR m * theta) in
  forall m m',
  is_RInt (fun theta => (az m theta * az m' theta)%R) 0%R (2 * PI)%R
          (if m =? m' then (if m =? 0 then 2 * PI else PI)%R else 0%R).
Proof. exact angular_orthogonality. Qed.
Print Assumptions C11_angular_orthogonality.

(* composed (bounded: j, j' <= 1326, i.e. n <= 50): (1/pi) * integral over the unit disk of Z_j Z_j',
   in separated form N_j N_j' (int_0^1 R R' rho drho) (int_0^2pi A A' dtheta) / pi, is delta_jj':
   unit mean square (piston: the constant 1), vanishing cross products *)
Theorem C11_zernike_orthonormal :
  let Rpoly := fun (p : list (Z * Qc)) (x : R) =>
                 fold_left (fun acc (t : Z * Qc) => (acc + Q2R (snd t) * x ^ Z.to_nat (fst t))%R) p 0%R in
  let az := fun (m : Z) (theta : R) =>
              if m =? 0 then 1%R else if 0 <? m then cos (IZR m * theta) else sin (IZR m * theta) in
  forall j j' m n m' n', 1 <= j <= 1326 -> 1 <= j' <= 1326 -> noll j = (m, n) -> noll j' = (m', n') ->
  exists Ir Ia : R,
    is_RInt (fun rho => (Rpoly (radial_terms (Z.abs m) n) rho * Rpoly (radial_terms (Z.abs m') n') rho * rho)%R) 0%R 1%R Ir /\
    is_RInt (fun theta => (az m theta * az m' theta)%R) 0%R (2 * PI)%R Ia /\
    (sqrt (IZR (norm2 m n true)) * sqrt (IZR (norm2 m' n' true)) * Ir * Ia / PI)%R = if j =? j' then 1%R else 0%R.
Proof. exact zernike_orthonormal. Qed.
Print Assumptions C11_zernike_orthonormal.

(* ---- (e) zernike_coordinates(mask) ----
   [mbit] is the mask as 0/1 (non-zero -> 1); rho is represented by rho^2, theta by the vector
   (c_dirx, c_diry) whose argument it is.  All array sizes: no parity hypothesis anywhere. *)
Theorem C11_coordinates_origin :
  forall (mask : arr QS) (c : coords), zernike_coordinates mask = Ok c ->
  (* the origin is the centroid of the support *)
  c_origin_r c = (sum2 (nr mask) (nc mask) (fun i j => (zQ i * mbit mask i j)%Qc) / mcount mask)%Qc /\
  c_origin_c c = (sum2 (nr mask) (nc mask) (fun i j => (zQ j * mbit mask i j)%Qc) / mcount mask)%Qc /\
  (* rho^2 and the direction of theta are measured from it *)
  forall i j,
    c_rho2 c i j = ((qsqr (zQ i - c_origin_r c) + qsqr (zQ j - c_origin_c c)) / c_rmax2 c)%Qc /\
    c_dirx c i j = (- (zQ j - c_origin_c c))%Qc /\ c_diry c i j = (- (zQ i - c_origin_r c))%Qc.
Proof.
  exact (fun mask c H => conj (proj1 (coords_origin_is_centroid mask c H))
                        (conj (proj2 (coords_origin_is_centroid mask c H)) (coords_about_origin mask c H))).
Qed.
Print Assumptions C11_coordinates_origin.

Theorem C11_rho_one_at_farthest :
  forall (mask : arr QS) (c : coords), zernike_coordinates mask = Ok c ->
  let d2 := fun i j => (qsqr (zQ i - c_origin_r c) + qsqr (zQ j - c_origin_c c))%Qc in
  (* c_rmax2 is the largest squared distance over the masked samples *)
  (forall i j, 0 <= i < nr mask -> 0 <= j < nc mask -> mask_bool (get mask i j) = true -> (d2 i j <= c_rmax2 c)%Qc)
  /\ ((0 < c_rmax2 c)%Qc ->
      (forall i j, 0 <= i < nr mask -> 0 <= j < nc mask -> mask_bool (get mask i j) = true -> (c_rho2 c i j <= 1)%Qc)
      /\ exists i j, 0 <= i < nr mask /\ 0 <= j < nc mask /\ mask_bool (get mask i j) = true /\ c_rho2 c i j = 1%Qc).
Proof. exact (fun mask c H => conj (proj1 (rmax2_is_max mask c H)) (rho_one_at_farthest mask c H)). Qed.
Print Assumptions C11_rho_one_at_farthest.

Theorem C11_coordinates_support_only :
  forall (m1 m2 : arr QS) c1 c2, nr m1 = nr m2 -> nc m1 = nc m2 ->
  (forall i j, 0 <= i < nr m1 -> 0 <= j < nc m1 -> mask_bool (get m1 i j) = mask_bool (get m2 i j)) ->
  zernike_coordinates m1 = Ok c1 -> zernike_coordinates m2 = Ok c2 ->
  c_origin_r c1 = c_origin_r c2 /\ c_origin_c c1 = c_origin_c c2 /\ c_rmax2 c1 = c_rmax2 c2 /\
  (forall i j, c_rho2 c1 i j = c_rho2 c2 i j /\ c_dirx c1 i j = c_dirx c2 i j /\ c_diry c1 i j = c_diry c2 i j).
Proof. exact coords_support_only. Qed.
Print Assumptions C11_coordinates_support_only.

(* ---- the public entry points: optional arguments, refusals, default-coordinate path ---- *)
(* zernike(mask, index, normalize, rho=None, theta=None): rho alone is refused with ValueError (before the
   index is looked at), theta alone is ignored (default coordinates), no index below 1 is accepted on
   either path; every refusal of the default path (empty array, bad index) is a ValueError *)
Theorem C11_entry_branches :
  (forall a, (zernike_branch a = Err ValueError <-> a = ArgRhoOnly) /\
             (zernike_branch a = Ok true <-> (a = ArgNone \/ a = ArgThetaOnly)) /\
             (zernike_branch a = Ok false <-> a = ArgBoth))
  /\ (forall mask j nz, j < 1 -> zernike_default mask j nz = Err ValueError)
  /\ (forall mask j nz e, zernike_default mask j nz = Err e -> e = ValueError)
  /\ (forall j rowf, j < 1 -> noll_code rowf j = Err ValueError).
Proof.
  exact (conj zernike_branch_spec (conj zernike_default_refuses (conj zernike_default_err
          (fun j rowf H => noll_code_error j H rowf)))).
Qed.
Print Assumptions C11_entry_branches.

(* the default-coordinate call, as the extracted model executes it: a rational value per sample plus
   the two irrational factors applied by its caller (sqrt(dm_norm2), and 1/sqrt(dm_rmax2) when dm_odd).
   It is the mode R_n^|m|(rho) * az(m, theta) * mask at the coordinates of zernike_coordinates(mask):
   rho = r / sqrt(rmax2) and theta ANY polar angle of the direction vector (c_dirx, c_diry) = r (cos, sin) *)
Theorem C11_default_mode_at_coordinates :
  let Rpoly := fun (p : list (Z * Qc)) (x : R) =>
                 fold_left (fun acc (t : Z * Qc) => (acc + Q2R (snd t) * x ^ Z.to_nat (fst t))%R) p 0%R in
  let az := fun (m : Z) (theta : R) =>
              if m =? 0 then 1%R else if 0 <? m then cos (IZR m * theta) else sin (IZR m * theta) in
  forall mask j normalize d, zernike_default mask j normalize = Ok d ->
  exists c m n, zernike_coordinates mask = Ok c /\ noll j = (m, n) /\ 1 <= j /\
    dm_norm2 d = norm2 m n normalize /\ dm_rmax2 d = c_rmax2 c /\
    ((0 < c_rmax2 c)%Qc -> forall i k (r theta : R), (0 <= r)%R ->
       Q2R (c_dirx c i k) = (r * cos theta)%R -> Q2R (c_diry c i k) = (r * sin theta)%R ->
       (Q2R (dm_val d i k) / sqrt (Q2R (dm_rmax2 d)) ^ (if dm_odd d then 1 else 0))%R
       = (Rpoly (radial_terms (Z.abs m) n) (r / sqrt (Q2R (c_rmax2 c))) * az m theta
          * (if mask_bool (get mask i k) then 1 else 0))%R).
Proof. exact zernike_default_is_mode. Qed.
Print Assumptions C11_default_mode_at_coordinates.

(* zernike_basis(mask, modes, normalize) with default coordinates: row k is zernike(mask, modes[k]);
   one index below 1 anywhere in the list refuses the whole call; nothing but ValueError is raised *)
Theorem C11_basis_rows :
  (forall mask modes nz ds, zernike_basis_default mask modes nz = Ok ds ->
     Forall2 (fun j d => zernike_default mask j nz = Ok d) modes ds)
  /\ (forall mask modes nz, (exists j, In j modes /\ j < 1) -> zernike_basis_default mask modes nz = Err ValueError)
  /\ (forall mask modes nz e, zernike_basis_default mask modes nz = Err e -> e = ValueError).
Proof. exact (conj zernike_basis_rows (conj zernike_basis_refuses zernike_basis_err)). Qed.
Print Assumptions C11_basis_rows.

(* zernike_coordinates(mask, shift=(sr, sc)): the origin is shape//2 + shift (row, column) for every array
   size, rho^2 and the direction are measured from it, rho <= ... the largest masked distance; and the
   default call is this one with shift = centroid - shape//2 *)
Theorem C11_coordinates_explicit_shift :
  (forall mask sr sc c, zernike_coordinates_shift mask sr sc = Ok c ->
     c_origin_r c = (zQ (nr mask / 2) + sr)%Qc /\ c_origin_c c = (zQ (nc mask / 2) + sc)%Qc /\
     (forall i j,
        c_rho2 c i j = ((qsqr (zQ i - c_origin_r c) + qsqr (zQ j - c_origin_c c)) / c_rmax2 c)%Qc /\
        c_dirx c i j = (- (zQ j - c_origin_c c))%Qc /\ c_diry c i j = (- (zQ i - c_origin_r c))%Qc) /\
     (forall i j, 0 <= i < nr mask -> 0 <= j < nc mask -> mask_bool (get mask i j) = true ->
        ((qsqr (zQ i - c_origin_r c) + qsqr (zQ j - c_origin_c c)) <= c_rmax2 c)%Qc))
  /\ (forall mask c, zernike_coordinates mask = Ok c ->
       exists c', zernike_coordinates_shift mask (centroid_r mask (mcount mask) - zQ (nr mask / 2))%Qc
                                                 (centroid_c mask (mcount mask) - zQ (nc mask / 2))%Qc = Ok c'
         /\ c_origin_r c' = c_origin_r c /\ c_origin_c c' = c_origin_c c /\ c_rmax2 c' = c_rmax2 c
         /\ forall i j, c_rho2 c' i j = c_rho2 c i j /\ c_dirx c' i j = c_dirx c i j /\ c_diry c' i j = c_diry c i j).
Proof. exact (conj coordinates_shift_origin coordinates_default_is_shift). Qed.
Print Assumptions C11_coordinates_explicit_shift.

(* result shapes: zernike -> mask.shape; zernike_basis -> (rows, nr, nc), or (rows, nr*nc) when vectorize
   (a scalar mode is one row): vectorize regroups, it neither drops nor adds samples or rows *)
Theorem C11_result_shape :
  forall basis nmodes nr nc vec,
  fold_right Z.mul 1 (zernike_result_shape basis nmodes nr nc vec) = (if basis then nmodes else 1) * (nr * nc)
  /\ (basis = true -> hd 0 (zernike_result_shape basis nmodes nr nc vec) = nmodes)
  /\ zernike_result_shape false nmodes nr nc vec = [nr; nc]
  /\ zernike_result_shape true nmodes nr nc false = [nmodes; nr; nc]
  /\ zernike_result_shape true nmodes nr nc true = [nmodes; nr * nc].
Proof. exact result_shape_spec. Qed.
Print Assumptions C11_result_shape.

(* (f) |Z| <= 1 without normalisation is NOT proved (a Jacobi-polynomial bound): numeric test in
   harness/props/c11.py:extra, labelled as a test. *)

Example C11_nonvacuous :
  map noll [1; 2; 3; 4; 5; 6; 7; 8; 11] = [(0,0); (1,1); (-1,1); (0,2); (-2,2); (2,2); (-1,3); (1,3); (0,4)]
  /\ noll_exact 7 = Ok (-1, 3) /\ noll_float 7 = Ok (-1, 3) /\ row_float 200000 = 631
  (* R_4^0(1/2) = 6/16 - 6/4 + 1 = -1/8;  a 3x4 mask with an off-centre support of three samples *)
  /\ radial 0 4 (Q2Qc (1 # 2)) = Q2Qc (-1 # 8)
  /\ (match zernike_coordinates (of_list (S := QS) 3 4 (map zQ [0; 0; 0; 0;  0; 0; 2; 5;  0; 0; 0; 7])) with
      | Ok c => c_origin_r c = Q2Qc (4 # 3) /\ c_origin_c c = Q2Qc (8 # 3) /\ (0 < c_rmax2 c)%Qc /\ c_rho2 c 1 2 = 1%Qc
      | Err _ => False end).
Proof. repeat split; try (vm_compute; reflexivity); apply Qc_is_canon; vm_compute; reflexivity. Qed.

(* default path: defocus of the same mask, sample (1,2) is a farthest one (rho = 1): sqrt(3)(2 - 1);
   tilt (|m| odd) leaves the division by sqrt(rmax2) to the caller; refusals *)
Example C11_entry_nonvacuous :
  let mask := of_list (S := QS) 3 4 (map zQ [0; 0; 0; 0;  0; 0; 2; 5;  0; 0; 0; 7]) in
  (match zernike_default mask 4 true with
   | Ok d => dm_norm2 d = 3 /\ dm_odd d = false /\ dm_val d 1 2 = 1%Qc /\ dm_val d 0 0 = 0%Qc
   | Err _ => False end)
  /\ (match zernike_default mask 2 true with Ok d => dm_norm2 d = 4 /\ dm_odd d = true | Err _ => False end)
  /\ zernike_branch ArgRhoOnly = Err ValueError
  /\ (match zernike_basis_default mask [1; 4; 7] false with Ok ds => length ds = 3%nat | Err _ => False end)
  /\ zernike_basis_default mask [2; 0] true = Err ValueError
  /\ zernike_result_shape true 3 5 7 true = [3; 35]
  /\ (match zernike_coordinates_shift mask (Q2Qc (1 # 2)) (Q2Qc (-3 # 4)) with
      | Ok c => c_origin_r c = Q2Qc (3 # 2) /\ c_origin_c c = Q2Qc (5 # 4) | Err _ => False end).
Proof. repeat split; try (vm_compute; reflexivity); apply Qc_is_canon; vm_compute; reflexivity. Qed.
