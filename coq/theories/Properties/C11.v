(* C11 - Zernike modes are the Noll-ordered orthonormal polynomials. *)
From LV Require Import Model.Zernike Proofs.ZernikeP Proofs.ZernikeFloatP.

(* ---- (a) Noll's ordering ----
   [noll j] = (m, n) is the closed form: row n = ceil((-1 + sqrt(1+8j))/2) - 1 computed with the
   exact integer square root, position p = j - n(n+1)/2 - 1 in the row, |m| = 0,2,2,4,4.. (n even)
   or 1,1,3,3,.. (n odd), sign + for even j, - for odd j. *)
Theorem C11_noll_bijection :
  (* well-formed: n - |m| even, |m| <= n, even j <-> cosine (m > 0), odd j <-> sine (m < 0) *)
  (forall j, 1 <= j -> let '(m, n) := noll j in
     0 <= n /\ Z.abs m <= n /\ Z.even (n - Z.abs m) = true /\ (0 < m -> Z.even j = true) /\ (m < 0 -> Z.odd j = true))
  (* one-to-one *)
  /\ (forall j1 j2, 1 <= j1 -> 1 <= j2 -> noll j1 = noll j2 -> j1 = j2)
  (* onto the admissible pairs *)
  /\ (forall m n, 0 <= n -> Z.abs m <= n -> Z.even (n - Z.abs m) = true -> exists j, 1 <= j /\ noll j = (m, n))
  (* rows ordered by n, |m| non-decreasing within a row *)
  /\ (forall j1 j2, 1 <= j1 -> j1 <= j2 ->
        snd (noll j1) <= snd (noll j2) /\
        (snd (noll j1) = snd (noll j2) -> Z.abs (fst (noll j1)) <= Z.abs (fst (noll j2)))).
Proof. exact (conj noll_wf (conj noll_inj (conj noll_surj noll_ordered))). Qed.
Print Assumptions C11_noll_bijection.

(* zernike_index (row formula in exact arithmetic, then the code's list-building and its negative
   Python index) computes the closed form for every j >= 1 and raises ValueError otherwise *)
Theorem C11_index_code_is_noll :
  (forall j, 1 <= j -> noll_exact j = Ok (noll j)) /\
  (forall j rowf, j < 1 -> noll_code rowf j = Err ValueError).
Proof. exact (conj noll_code_closed (fun j rowf H => noll_code_error j H rowf)). Qed.
Print Assumptions C11_index_code_is_noll.

(* the exact row is the real-number expression of the source: row + 1 is the least integer c >= 0
   with 2c + 1 >= sqrt(1 + 8j) *)
Theorem C11_row_is_ceiling :
  forall j c, 1 <= j -> 0 <= c -> (1 + 8 * j <= (2 * c + 1) * (2 * c + 1) <-> row_exact j + 1 <= c).
Proof. exact row_exact_is_ceil. Qed.
Print Assumptions C11_row_is_ceiling.

(* ---- (b) the IEEE-754 double expression of the source,
        n = int(np.ceil((-1 + np.sqrt(1 + 8*j)) / 2) - 1),
   evaluated with the kernel's primitive doubles gives the exact row, hence the same (m, n)
   (bounded: 1 <= j <= 2*10^5, one kernel evaluation) ---- *)
Theorem C11_noll_float_exact :
  forall j, 1 <= j <= 200000 ->
    is_ceil (row_arg_float j) (ceil_float j) = true     (* the search found ceil of the double *)
    /\ row_float j = row_exact j
    /\ noll_float j = noll_exact j.
Proof. exact (fun j H => conj (proj1 (row_float_exact j H)) (conj (proj2 (row_float_exact j H)) (noll_float_exact j H))). Qed.
Print Assumptions C11_noll_float_exact.


Example C11_nonvacuous :
  map noll [1; 2; 3; 4; 5; 6; 7; 8; 11] = [(0,0); (1,1); (-1,1); (0,2); (-2,2); (2,2); (-1,3); (1,3); (0,4)]
  /\ noll_exact 7 = Ok (-1, 3) /\ noll_float 7 = Ok (-1, 3) /\ row_float 200000 = 631.
Proof. repeat split; vm_compute; reflexivity. Qed.
