(* C17 - Resampling a plane changes its sampling, not its optics.
   Only statements: every proof is [exact] of a lemma of Proofs/RescaleP.v.  All numbers are exact
   rationals (Qc, Leibniz equality); [zq] injects Z; scales s > 0, sizes and indices range over all of Z.
   The model (Model/Rescale.v) follows lentil.util.rescale / Plane.rescale / Plane.resample;
   scipy.ndimage.map_coordinates is an oracle: a sample is [Known v] where its contract pins the value
   (integer nodes of the sampling grid, exact zeros of the post-mask, nearest-neighbour mask) and
   [Unknown] elsewhere.  NOT proved here (numeric tests in harness/props/c17.py:extra): the accuracy of
   the spline between nodes, hence conservation of sum|amplitude|^2 and of the propagated image.
   "Original plane untouched" is trivial in a pure model (no heap); the tie observes it on the code. *)
From LV Require Import Model.Rescale Proofs.RescaleP.
Local Open Scope Qc_scope.

(* (e) the ceiling: ceil(n s) is the unique integer in [n s, n s + 1); positive sizes stay positive *)
Theorem C17_ceil_spec :
  forall (n : Z) (s : Qc),
  zq n * s <= zq (rescale_shape n s) /\ zq (rescale_shape n s) < zq n * s + 1 /\
  (forall c : Z, zq n * s <= zq c -> zq c < zq n * s + 1 -> rescale_shape n s = c) /\
  ((0 < n)%Z -> 0 < s -> (0 < rescale_shape n s)%Z).
Proof. exact ceil_spec. Qed.
Print Assumptions C17_ceil_spec.

(* (a) bookkeeping of Plane.rescale: every array gets ceil(n s) samples per axis, a scalar amplitude is divided by s
   (like an array amplitude), a scalar opd is kept, the segment count is kept, the pixel scale is divided by exactly s *)
Theorem C17_rescale_bookkeeping :
  forall (P : plane) (s : Qc) (P' : oplane), plane_rescale P s = Ok P' ->
  (forall a, p_amp P = FArr a -> exists a', o_amp P' = OArr a' /\
      onr a' = rescale_shape (qnr a) s /\ onc a' = rescale_shape (qnc a) s) /\
  (forall v, p_amp P = FScalar v -> o_amp P' = OScalar (v / s)) /\
  (forall a, p_opd P = FArr a -> exists a', o_opd P' = OArr a' /\
      onr a' = rescale_shape (qnr a) s /\ onc a' = rescale_shape (qnc a) s) /\
  (forall v, p_opd P = FScalar v -> o_opd P' = OScalar v) /\
  (forall a, p_mask P = MMono a -> exists a', o_mask P' = OMono a' /\
      onr a' = rescale_shape (qnr a) s /\ onc a' = rescale_shape (qnc a) s) /\
  (forall l, p_mask P = MCube l -> exists l', o_mask P' = OCube l' /\ length l' = length l /\
      Forall2 (fun a a' => onr a' = rescale_shape (qnr a) s /\ onc a' = rescale_shape (qnc a) s) l l') /\
  (forall px py, p_ps P = Some (px, py) -> o_ps P' = Some (px / s, py / s)) /\
  (p_ps P = None -> o_ps P' = None).
Proof. exact rescale_bookkeeping. Qed.
Print Assumptions C17_rescale_bookkeeping.

(* (a) physical extent (samples x pixel scale) never shrinks and grows by less than one new sample *)
Theorem C17_extent_within_one_sample :
  forall (n : Z) (s ps : Qc), 0 < s -> 0 < ps ->
  zq n * ps <= zq (rescale_shape n s) * (ps / s) /\
  zq (rescale_shape n s) * (ps / s) < zq n * ps + ps / s.
Proof. exact extent_within_one_sample. Qed.
Print Assumptions C17_extent_within_one_sample.

(* (a) resample(new) = rescale(ps/new); a missing or non-uniform pixel scale is refused *)
Theorem C17_resample_is_rescale :
  forall (P : plane) (new_ps : Qc),
  (p_ps P = None -> plane_resample P new_ps = Err ValueError) /\
  (forall px py, p_ps P = Some (px, py) -> px <> py -> plane_resample P new_ps = Err NotImplementedErr) /\
  (forall px, p_ps P = Some (px, px) -> plane_resample P new_ps = plane_rescale P (px / new_ps)).
Proof. exact resample_is_rescale. Qed.
Print Assumptions C17_resample_is_rescale.

(* (b) s = 1: same shapes, every sample pinned and equal to the input (mask: its binarisation), same pixel scale,
   same scalar amplitude *)
Theorem C17_identity_at_one :
  forall (P : plane) (P' : oplane), plane_rescale P 1 = Ok P' ->
  (forall a, p_amp P = FArr a -> exists a', o_amp P' = OArr a' /\ onr a' = qnr a /\ onc a' = qnc a /\
      forall i j, (0 <= i < qnr a)%Z -> (0 <= j < qnc a)%Z -> oget a' i j = Known (qget a i j)) /\
  (forall a, p_opd P = FArr a -> exists a', o_opd P' = OArr a' /\ onr a' = qnr a /\ onc a' = qnc a /\
      forall i j, (0 <= i < qnr a)%Z -> (0 <= j < qnc a)%Z -> oget a' i j = Known (qget a i j)) /\
  (forall a, p_mask P = MMono a -> exists a', o_mask P' = OMono a' /\ onr a' = qnr a /\ onc a' = qnc a /\
      forall i j, (0 <= i < qnr a)%Z -> (0 <= j < qnc a)%Z ->
        oget a' i j = Known (if nz (qget a i j) then 1 else Q2Qc 0)) /\
  (forall l, p_mask P = MCube l -> exists l', o_mask P' = OCube l' /\
      Forall2 (fun a a' => onr a' = qnr a /\ onc a' = qnc a /\
        forall i j, (0 <= i < qnr a)%Z -> (0 <= j < qnc a)%Z ->
          oget a' i j = Known (if nz (qget a i j) then 1 else Q2Qc 0)) l l') /\
  o_ps P' = p_ps P /\
  (forall v, p_amp P = FScalar v -> o_amp P' = OScalar v).
Proof. exact identity_at_one. Qed.
Print Assumptions C17_identity_at_one.

(* (c) integer factor s = k: n k samples; output sample j sits at input coordinate j/k, so it is a node
   exactly when j = k i (no parity condition), and there amplitude' = amplitude[i]/k, opd' = opd[i] *)
Theorem C17_nodes_for_integer_factors :
  forall (P : plane) (k : Z) (P' : oplane), (0 < k)%Z -> plane_rescale P (zq k) = Ok P' ->
  (forall n j i, coord n (rescale_shape n (zq k)) (zq k) j = zq i <-> j = (k * i)%Z) /\
  (forall a, p_amp P = FArr a -> exists a', o_amp P' = OArr a' /\
      onr a' = (qnr a * k)%Z /\ onc a' = (qnc a * k)%Z /\
      forall i j, (0 <= i < qnr a)%Z -> (0 <= j < qnc a)%Z ->
        oget a' (k * i) (k * j) = Known (qget a i j / zq k)) /\
  (forall a, p_opd P = FArr a -> exists a', o_opd P' = OArr a' /\
      onr a' = (qnr a * k)%Z /\ onc a' = (qnc a * k)%Z /\
      forall i j, (0 <= i < qnr a)%Z -> (0 <= j < qnc a)%Z ->
        oget a' (k * i) (k * j) = Known (qget a i j)).
Proof. exact nodes_for_integer_factors. Qed.
Print Assumptions C17_nodes_for_integer_factors.

(* (c) unit fraction s = 1/k: sample j sits at k j - (k N - n)/2 (a node only if k N - n is even: "matching
   parity"); when k divides both sizes, N = n/k and EVERY output sample is the node k j *)
Theorem C17_nodes_for_unit_fractions :
  forall (P : plane) (k : Z) (P' : oplane), (0 < k)%Z -> plane_rescale P (/ zq k) = Ok P' ->
  (forall n N j, coord n N (/ zq k) j = zq (k * j) - zq (k * N - n) / zq 2) /\
  (forall N, rescale_shape (k * N) (/ zq k) = N) /\
  (forall a N M, p_amp P = FArr a -> qnr a = (k * N)%Z -> qnc a = (k * M)%Z ->
      exists a', o_amp P' = OArr a' /\ onr a' = N /\ onc a' = M /\
      forall i j, (0 <= i < N)%Z -> (0 <= j < M)%Z ->
        oget a' i j = Known (qget a (k * i) (k * j) / / zq k)) /\
  (forall a N M, p_opd P = FArr a -> qnr a = (k * N)%Z -> qnc a = (k * M)%Z ->
      exists a', o_opd P' = OArr a' /\ onr a' = N /\ onc a' = M /\
      forall i j, (0 <= i < N)%Z -> (0 <= j < M)%Z ->
        oget a' i j = Known (qget a (k * i) (k * j))).
Proof. exact nodes_for_unit_fractions. Qed.
Print Assumptions C17_nodes_for_unit_fractions.

(* (d) every pinned amplitude/opd sample: either its coordinate is a node (y, x) inside the array and
   amplitude' = amplitude[y,x]/s, opd' = opd[y,x]; or it is an exact zero of the post-mask (the four
   neighbouring input samples vanish).  Conversely every node is pinned. *)
Theorem C17_known_samples_spec :
  forall (P : plane) (s : Qc) (P' : oplane), plane_rescale P s = Ok P' ->
  (forall a a' i j v, p_amp P = FArr a -> o_amp P' = OArr a' -> oget a' i j = Known v ->
     (exists y x, coord (qnr a) (onr a') s i = zq y /\ (0 <= y < qnr a)%Z /\
                  coord (qnc a) (onc a') s j = zq x /\ (0 <= x < qnc a)%Z /\ v = qget a y x / s)
     \/ (v = 0 /\ zero_cluster a (coord (qnr a) (onr a') s i) (coord (qnc a) (onc a') s j) = true)) /\
  (forall a a' i j v, p_opd P = FArr a -> o_opd P' = OArr a' -> oget a' i j = Known v ->
     (exists y x, coord (qnr a) (onr a') s i = zq y /\ (0 <= y < qnr a)%Z /\
                  coord (qnc a) (onc a') s j = zq x /\ (0 <= x < qnc a)%Z /\ v = qget a y x)
     \/ (v = 0 /\ zero_cluster a (coord (qnr a) (onr a') s i) (coord (qnc a) (onc a') s j) = true)) /\
  (forall a a' i j y x, p_amp P = FArr a -> o_amp P' = OArr a' ->
     coord (qnr a) (onr a') s i = zq y -> (0 <= y < qnr a)%Z ->
     coord (qnc a) (onc a') s j = zq x -> (0 <= x < qnc a)%Z -> oget a' i j = Known (qget a y x / s)) /\
  (forall a a' i j y x, p_opd P = FArr a -> o_opd P' = OArr a' ->
     coord (qnr a) (onr a') s i = zq y -> (0 <= y < qnr a)%Z ->
     coord (qnc a) (onc a') s j = zq x -> (0 <= x < qnc a)%Z -> oget a' i j = Known (qget a y x)).
Proof. exact known_samples_spec. Qed.
Print Assumptions C17_known_samples_spec.

(* (d) the mask: EVERY sample of every segment is pinned and binary: 1 iff the coordinate lies in
   [0, n-1] x [0, m-1] and the nearest input sample (ties up) is non-zero; the segment count is kept *)
Theorem C17_mask_nearest_neighbour :
  forall (P : plane) (s : Qc) (P' : oplane), plane_rescale P s = Ok P' ->
  (forall a, p_mask P = MMono a -> exists a', o_mask P' = OMono a' /\
     forall i j, oget a' i j =
       Known (if in_closed (qnr a) (coord (qnr a) (onr a') s i) && in_closed (qnc a) (coord (qnc a) (onc a') s j)
                 && nz (qget a (rnd (coord (qnr a) (onr a') s i)) (rnd (coord (qnc a) (onc a') s j)))
              then 1 else Q2Qc 0)) /\
  (forall l, p_mask P = MCube l -> exists l', o_mask P' = OCube l' /\ length l' = length l /\
     Forall2 (fun a a' => forall i j, oget a' i j =
       Known (if in_closed (qnr a) (coord (qnr a) (onr a') s i) && in_closed (qnc a) (coord (qnc a) (onc a') s j)
                 && nz (qget a (rnd (coord (qnr a) (onr a') s i)) (rnd (coord (qnc a) (onc a') s j)))
              then 1 else Q2Qc 0)) l l').
Proof. exact mask_nearest_neighbour. Qed.
Print Assumptions C17_mask_nearest_neighbour.

(* segment structure: no mask or segment vanishes silently. A successful call leaves at least one sample set in the
   mask and in every segment; if the rescaled mask (or a segment) would be empty, the call raises IndexError
   (helper.boundary_slice on an empty mask) *)
Theorem C17_no_segment_vanishes :
  forall (P : plane) (s : Qc),
  (forall P', plane_rescale P s = Ok P' ->
     (forall a', o_mask P' = OMono a' -> exists i j, (0 <= i < onr a')%Z /\ (0 <= j < onc a')%Z /\ oget a' i j = Known 1) /\
     (forall l', o_mask P' = OCube l' -> Forall (fun a' =>
        exists i j, (0 <= i < onr a')%Z /\ (0 <= j < onc a')%Z /\ oget a' i j = Known 1) l')) /\
  (forall fa fo m0, rescale_fld (p_amp P) s (fun v => v / s) = Ok fa -> rescale_fld (p_opd P) s (fun v => v) = Ok fo ->
     rescale_msk0 (p_mask P) s = Ok m0 -> nonempty_msk m0 = false -> plane_rescale P s = Err IndexError).
Proof. exact no_segment_vanishes. Qed.
Print Assumptions C17_no_segment_vanishes.

(* segment structure: two segment masks of equal shape that never overlap do not overlap after rescaling *)
Theorem C17_segments_stay_disjoint :
  forall (a b : qarr) (s : Qc) (a' b' : oarr),
  util_rescale Nearest0 a s = Ok a' -> util_rescale Nearest0 b s = Ok b' ->
  qnr a = qnr b -> qnc a = qnc b ->
  (forall y x, nz (qget a y x) && nz (qget b y x) = false) ->
  forall i j, ~ (oget (omap binarise a') i j = Known 1 /\ oget (omap binarise b') i j = Known 1).
Proof. exact segments_stay_disjoint. Qed.
Print Assumptions C17_segments_stay_disjoint.

(* integer and bool arrays (util.rescale casts them to float, value-preserving): a plane whose mask / amplitude /
   opd arrays carry an integer dtype flag is rescaled and resampled EXACTLY like its float cast - same result or same
   refusal, hence same shapes, pixel scale, re-binarised mask and pinned samples - and util.rescale itself never
   refuses an array.  In particular the integer mask of a rescaled plane can be rescaled again. *)
Theorem C17_integer_arrays_like_float_casts :
  forall (P : plane) (s : Qc),
  plane_rescale (plane_as_float P) s = plane_rescale P s /\
  (forall new_ps, plane_resample (plane_as_float P) new_ps = plane_resample P new_ps) /\
  (forall o a, exists r, util_rescale o a s = Ok r).
Proof. exact integer_arrays_like_float_casts. Qed.
Print Assumptions C17_integer_arrays_like_float_casts.

(* scalar amplitude: Plane(amplitude = v, mask = array) gets amplitude v/s - exactly the value every pinned sample
   of an array amplitude holding the constant v gets, so the transmitted-power bookkeeping sum|amplitude*mask|^2 of
   the two representations agrees at the pinned samples *)
Theorem C17_scalar_amplitude_divided :
  forall (P : plane) (s v : Qc), p_amp P = FScalar v ->
  (forall P', plane_rescale P s = Ok P' -> o_amp P' = OScalar (v / s)) /\
  (forall a Pa' a' i j u, (forall y x, qget a y x = v) ->
     plane_rescale (mkPlane (FArr a) (p_opd P) (p_mask P) (p_ps P) (p_tilt P)) s = Ok Pa' ->
     o_amp Pa' = OArr a' -> oget a' i j = Known u -> u = v / s).
Proof. exact scalar_amplitude_divided. Qed.
Print Assumptions C17_scalar_amplitude_divided.

(* no hidden state (histories of calls): the model has none - plane_rescale / plane_resample are functions of the
   plane's current attributes - and the samples util.rescale produces depend only on the current shape and sample
   values of its input: arrays that agree sample by sample (e.g. a plane edited in place and a fresh plane built
   from the edited values) give results that agree sample by sample.  The tie runs histories of calls with setter
   and in-place updates in between against this model. *)
Theorem C17_result_depends_on_current_samples_only :
  forall (o : interp) (a b : qarr) (s : Qc) (r r' : oarr),
  qnr a = qnr b -> qnc a = qnc b -> (forall i j, qget a i j = qget b i j) ->
  util_rescale o a s = Ok r -> util_rescale o b s = Ok r' ->
  onr r = onr r' /\ onc r = onc r' /\ forall i j, oget r i j = oget r' i j.
Proof. exact result_depends_on_current_samples_only. Qed.
Print Assumptions C17_result_depends_on_current_samples_only.

(* glue: the Tilt terms book-kept by fit_tilt are carried over unchanged (they are angles: optics, not sampling), and
   plane._slice is, for the mask / for every segment, the TIGHT bounding box (r0, r1, c0, c1) of the set samples of the
   rescaled mask: inside the array, containing every set sample, with a set sample in its first and last row and column *)
Theorem C17_tilt_and_slice :
  forall (P : plane) (s : Qc) (P' : oplane), plane_rescale P s = Ok P' ->
  o_tilt P' = p_tilt P /\
  (forall a', o_mask P' = OMono a' -> exists b, o_slice P' = [b] /\
     let '(r0, r1, c0, c1) := b in
     (0 <= r0 < r1)%Z /\ (r1 <= onr a')%Z /\ (0 <= c0 < c1)%Z /\ (c1 <= onc a')%Z /\
     (forall i j, (0 <= i < onr a')%Z -> (0 <= j < onc a')%Z -> is_one (oget a' i j) = true -> (r0 <= i < r1)%Z /\ (c0 <= j < c1)%Z) /\
     row_has a' r0 = true /\ row_has a' (r1 - 1) = true /\ col_has a' c0 = true /\ col_has a' (c1 - 1) = true) /\
  (forall l', o_mask P' = OCube l' -> length (o_slice P') = length l' /\
     Forall2 (fun a' b => let '(r0, r1, c0, c1) := b in
       (0 <= r0 < r1)%Z /\ (r1 <= onr a')%Z /\ (0 <= c0 < c1)%Z /\ (c1 <= onc a')%Z /\
       (forall i j, (0 <= i < onr a')%Z -> (0 <= j < onc a')%Z -> is_one (oget a' i j) = true -> (r0 <= i < r1)%Z /\ (c0 <= j < c1)%Z) /\
       row_has a' r0 = true /\ row_has a' (r1 - 1) = true /\ col_has a' c0 = true /\ col_has a' (c1 - 1) = true) l' (o_slice P')).
Proof. exact tilt_and_slice. Qed.
Print Assumptions C17_tilt_and_slice.
Example C17_tilt_and_slice_nonvacuous :
  let a := mkQ 4 4 (fun i j => if ((1 <=? i) && (i <=? 2) && (j =? 1))%Z then 1 else Q2Qc 0) false in
  let P := mkPlane (FScalar 1) (FScalar (Q2Qc 0)) (MMono a) None [(zq 3, zq 5)] in
  exists P', plane_rescale P (zq 2) = Ok P' /\ o_tilt P' = [(zq 3, zq 5)] /\ o_slice P' = [(1, 5, 1, 3)%Z].
Proof. exact ex_tilt_and_slice. Qed.

(* ================= lentil.rescale with all its arguments (shape, mask, unitary) ================= *)

(* output shape for the three forms of [shape] (None: the image's shape; scalar a: (a, a); pair), each times the scale and
   rounded up; the call never refuses; at default arguments it is the function Plane.rescale uses; an explicit mask or an
   image of integer/bool dtype gives exactly the result of its float cast *)
Theorem C17_rescale_general_shape :
  forall (o : interp) (img : qarr) (s : Qc) (sh : shapearg) (pm : option (qarr * Qc)) (u : bool),
  (forall r, rescale_gen o img s sh pm u = Ok r ->
     match sh with
     | ShNone => onr r = rescale_shape (qnr img) s /\ onc r = rescale_shape (qnc img) s
     | ShScalar a => onr r = rescale_shape a s /\ onc r = rescale_shape a s
     | ShPair a b => onr r = rescale_shape a s /\ onc r = rescale_shape b s
     end) /\
  (exists r, rescale_gen o img s sh pm u = Ok r) /\
  rescale_gen o img s ShNone None false = util_rescale o img s /\
  (forall mk eps, rescale_gen o img s sh (Some (as_float mk, eps)) u = rescale_gen o img s sh (Some (mk, eps)) u) /\
  rescale_gen o (as_float img) s sh pm u = rescale_gen o img s sh pm u.
Proof. exact general_shape. Qed.
Print Assumptions C17_rescale_general_shape.
Example C17_rescale_general_shape_nonvacuous :
  (exists r, rescale_gen Cubic ex_img (zq 3 / zq 2) (ShScalar 5) None false = Ok r /\ onr r = 8%Z /\ onc r = 8%Z) /\
  (exists r, rescale_gen Nearest0 ex_img (zq 3 / zq 2) (ShPair 2 5) None false = Ok r /\ onr r = 3%Z /\ onc r = 8%Z).
Proof. exact ex_general_shape. Qed.

(* explicit mask (same shape as the image), not unitary: whatever [shape] is, the sampling grid is centred on the IMAGE
   (coord (qnr img) ...); at a node (y, x) the sample is img[y,x] times the mask value, the latter replaced by 0 when it is
   below eps (also every negative value); where the four mask samples around a non-node coordinate vanish the sample is 0 *)
Theorem C17_rescale_explicit_mask_spec :
  forall (o : interp) (img : qarr) (s : Qc) (sh : shapearg) (mk : qarr) (eps : Qc) (r : oarr),
  rescale_gen o img s sh (Some (mk, eps)) false = Ok r ->
  qnr mk = qnr img -> qnc mk = qnc img ->
  (forall i j y x, coord (qnr img) (onr r) s i = zq y -> (0 <= y < qnr img)%Z ->
                   coord (qnc img) (onc r) s j = zq x -> (0 <= x < qnc img)%Z ->
     oget r i j = Known (qget img y x * (if qlt (qget mk y x) eps then Q2Qc 0 else qget mk y x))) /\
  (forall i j, zero_cluster mk (coord (qnr img) (onr r) s i) (coord (qnc img) (onc r) s j) = true ->
     node (qnr img) (coord (qnr img) (onr r) s i) = None \/ node (qnc img) (coord (qnc img) (onc r) s j) = None ->
     oget r i j = Known (Q2Qc 0)).
Proof. exact explicit_mask_spec. Qed.
Print Assumptions C17_rescale_explicit_mask_spec.
Example C17_rescale_explicit_mask_spec_nonvacuous :
  exists r, rescale_gen Cubic ex_img (zq 2) ShNone (Some (ex_mask, Q2Qc (1 # 1000))) false = Ok r /\
    oget r 2 2 = Known (zq 12) /\ oget r 0 2 = Known (Q2Qc 0) /\ oget r 2 0 = Known (Q2Qc 0) /\ oget r 3 3 = Unknown.
Proof. exact ex_explicit_mask. Qed.

(* unitary = True: the factor sum(img)/sum(out) is applied to the interpolant BEFORE the post-mask.  When every sample of
   the interpolant is pinned and their total is not 0 the factor f is pinned: the renormalised interpolant has exactly the
   total of the image, every output sample is the non-unitary sample times f (all 0 when f = 0); otherwise (0/0, x/0, or an
   unpinned interpolant) nothing is pinned *)
Theorem C17_rescale_unitary :
  forall (o : interp) (img : qarr) (s : Qc) (sh : shapearg) (pm : option (qarr * Qc)) (r : oarr),
  rescale_gen o img s sh pm true = Ok r ->
  let N := onr r in let M := onc r in
  let pre := fun i j => pre_sample o img (coord (qnr img) N s i) (coord (qnc img) M s j) in
  match unitary_factor img N M pre with
  | Some f =>
      qsum2 N M (fun i j => val0 (pre i j) * f) = qsum2 (qnr img) (qnc img) (qget img) /\
      (nz f = true -> forall i j, oget r i j = smap (fun v => v * f) (sample_gen o img pm (coord (qnr img) N s i) (coord (qnc img) M s j))) /\
      (nz f = false -> forall i j, oget r i j = Known (Q2Qc 0))
  | None => forall i j, oget r i j = Unknown
  end.
Proof. exact unitary_result. Qed.
Print Assumptions C17_rescale_unitary.
Example C17_rescale_unitary_nonvacuous :
  exists r, rescale_gen Cubic ex_img (zq 3 / zq 2) ShNone None true = Ok r /\ oget r 0 0 = Unknown.
Proof. exact ex_unitary_poisoned. Qed.

(* the detector.pixelate configuration: cubic, s = 1/k with k dividing both sizes, default mask, unitary: every output
   sample is the input sample k i, k j times sum(img) / (sum of the retained samples), and the output total is sum(img) *)
Theorem C17_rescale_unit_fraction_unitary :
  forall (img : qarr) (k N M : Z) (r : oarr), (0 < k)%Z -> qnr img = (k * N)%Z -> qnc img = (k * M)%Z ->
  let t := qsum2 N M (fun i j => qget img (k * i) (k * j)) in
  t <> 0 ->
  rescale_gen Cubic img (/ zq k) ShNone None true = Ok r ->
  onr r = N /\ onc r = M /\
  (forall i j, (0 <= i < N)%Z -> (0 <= j < M)%Z ->
     oget r i j = Known (qget img (k * i) (k * j) * (qsum2 (qnr img) (qnc img) (qget img) / t))) /\
  qsum2 N M (fun i j => qget img (k * i) (k * j) * (qsum2 (qnr img) (qnc img) (qget img) / t))
    = qsum2 (qnr img) (qnc img) (qget img).
Proof. exact unit_fraction_unitary. Qed.
Print Assumptions C17_rescale_unit_fraction_unitary.
Example C17_rescale_unit_fraction_unitary_nonvacuous :
  exists r, rescale_gen Cubic ex_img (/ zq 2) ShNone None true = Ok r /\ onr r = 2%Z /\ onc r = 2%Z /\
    oget r 0 0 = Known (zq 1 * (zq 136 / zq 24)) /\ oget r 1 1 = Known (zq 11 * (zq 136 / zq 24)).
Proof. exact ex_unit_fraction_unitary. Qed.

(* non-vacuity: a 2 x 4 float amplitude that is also the mask, scalar opd, s = 3/2: the call succeeds with
   shapes 3 x 6 and pixel scale 2/3; rows 0 and columns 0, 3 are nodes (y_0 = 0, x_0 = 0, x_3 = 2), so
   amplitude'[0,0] = a[0,0]/s, amplitude'[0,3] = a[0,2]/s; sample (1,1) is not pinned; the mask is *)
Example C17_nonvacuous :
  let a := mkQ 2 4 (fun i j => zq (1 + i + 2 * j)) false in
  let P := mkPlane (FArr a) (FScalar (Q2Qc 0)) (MMono a) (Some (1, 1)) [] in
  exists P' a' m', plane_rescale P (zq 3 / zq 2) = Ok P' /\ o_amp P' = OArr a' /\ o_mask P' = OMono m' /\
    onr a' = 3%Z /\ onc a' = 6%Z /\ o_ps P' = Some (zq 2 / zq 3, zq 2 / zq 3) /\
    oget a' 0 0 = Known (zq 1 / (zq 3 / zq 2)) /\ oget a' 0 3 = Known (zq 5 / (zq 3 / zq 2)) /\
    oget a' 1 1 = Unknown /\ oget m' 1 1 = Known 1.
Proof. exact nonvacuous. Qed.
