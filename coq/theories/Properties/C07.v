(* C07 - wavefront views agree with each other and planes act as pointwise phasors.
   Only statements; every proof is [exact] of a lemma of Proofs/PlaneP.v.  [S] ranges over every
   commutative ring with a conjugation symbol (norm2 z = z * conj z) and a kernel [ke];
   exp(+2 pi i opd / lambda) is [phase lambda opd = ke (-(opd / lambda))].  Shapes, offsets and
   coordinates range over all of Z, amplitudes over S, OPDs and wavelengths over the rationals.
   Vocabulary (Model/Plane.v): [embed_sum fs r c] = sum of the fields at plane coordinate (r, c);
   [ec_sum] = the same with 0-d fields (the plane wave of a fresh Wavefront) read as infinite
   constants, which is how Field.__mul__ reads them (an array with one element is one sample); [transmission P lambda n m r c] =
   amplitude * phase * (number of segment masks containing the sample) at coordinate (r, c) of an
   n x m plane whose origin is sample (n/2, m/2).

   Coverage of the plane theorem by attribute combination:
     mask 2-d or 3-d (given, or derived from an array amplitude), amplitude scalar|array, OPD scalar|array
                                   -> C07_plane_multiplies_pointwise  (+ C07_transmission_is_phasor_inside_mask_zero_outside)
     amplitude, OPD and mask all 0-d (incl. the default plane)
                                   -> C07_all_scalar_plane, C07_default_plane_is_identity
     0-d mask with an array amplitude or array OPD: modelled and tied, no theorem (the mask is then not an aperture)
   The statements describe the code after the fix: commits for the findings C07-one-element-array-field,
   C07-one-layer-cube and C07-scalar-mask-ignored: one-sample segments and fields, one-layer mask cubes and
   one-element masks need no exclusion any more.  [origin_consts] (a 0-d field times the 0-d phasor of an
   all-scalar plane needs equal offsets) is the known finding C06-scalar-scalar-offsets. *)
From LV Require Import Model.Plane Proofs.FieldP Proofs.PlaneP Lib.Instances.

(* (a) Wavefront.field is the sum of the fields, sample by sample ... *)
Theorem C07_field_is_sum_of_fields :
  forall (S : Scalar), is_ring S -> forall (fs : list (field S)) (n m : Z), 0 < n -> 0 < m ->
  (forall f, In f fs -> fsized f) ->
  exists Fa, render fs n m = Ok Fa /\ nr Fa = n /\ nc Fa = m /\
  forall i j, 0 <= i < n -> 0 <= j < m -> get Fa i j = embed_sum fs (i - n / 2) (j - m / 2).
Proof. exact render_spec. Qed.
Print Assumptions C07_field_is_sum_of_fields.

(* ... and Wavefront.intensity is |Wavefront.field|^2 at every sample, for every list of sized fields
   (overlapping or not) and every shape *)
Theorem C07_intensity_is_abs2_of_field :
  forall (S : Scalar), is_ring S -> forall (fs : list (field S)) (n m : Z), 0 < n -> 0 < m ->
  (forall f, In f fs -> fsized f /\ fbounded S f) ->
  exists Fa Ia, render fs n m = Ok Fa /\ intensity fs n m = Ok Ia /\
    nr Fa = n /\ nc Fa = m /\ nr Ia = n /\ nc Ia = m /\
    forall i j, 0 <= i < n -> 0 <= j < m -> get Ia i j = norm2 (get Fa i j).
Proof. exact intensity_is_norm2_field. Qed.
Print Assumptions C07_intensity_is_abs2_of_field.

(* (b) Wavefront.insert(out, weight) adds weight * |sum of the fields|^2 to every sample of out (the two
   arrays are aligned on their floor(n/2) origins; out may be smaller or larger than the wavefront) ... *)
Theorem C07_insert_adds_weighted_intensity :
  forall (S : Scalar), is_ring S -> forall (fs : list (field S)) (out : arr S) (w : S),
  0 < nr out -> 0 < nc out -> (forall f, In f fs -> fsized f /\ fbounded S f) ->
  exists o, accumulate fs out w = Ok o /\ nr o = nr out /\ nc o = nc out /\
  forall i j, 0 <= i < nr out -> 0 <= j < nc out ->
    get o i j = (get out i j + norm2 (embed_sum fs (i - nr out / 2) (j - nc out / 2)) * w)%K.
Proof. exact accumulate_spec. Qed.
Print Assumptions C07_insert_adds_weighted_intensity.

(* ... and nothing else *)
Theorem C07_insert_leaves_other_samples :
  forall (S : Scalar), is_ring S -> forall (fs : list (field S)) (out : arr S) (w : S),
  0 < nr out -> 0 < nc out -> (forall f, In f fs -> fsized f /\ fbounded S f) ->
  exists o, accumulate fs out w = Ok o /\
  forall i j, 0 <= i < nr out -> 0 <= j < nc out ->
    embed_sum fs (i - nr out / 2) (j - nc out / 2) = k0 -> get o i j = get out i j.
Proof. exact accumulate_elsewhere. Qed.
Print Assumptions C07_insert_leaves_other_samples.

(* (c) Plane.multiply / Pupil.multiply for a plane with an array mask (monolithic or segmented), amplitude
   and OPD each scalar or array, segments and fields of any size down to a single sample, cubes of any
   number of layers: accepted exactly when the pixel scales are; the result consists of array fields and is the
   incoming field times the transmission, sample by sample; wavelength unchanged; shape = the plane's; a
   Pupil hands over its focal length *)
Theorem C07_plane_multiplies_pointwise :
  forall (S : Scalar), is_ring S -> forall (P : plane S) (w : pwf S) (n m : Z) (px : option (Qc * Qc)),
  plane_ok P n m -> (forall f, In f (pw_data w) -> fwell f) ->
  mul_pixelscale (pl_pix P) (pw_pix w) = Ok px ->
  exists w', plane_multiply P w = Ok w' /\
    pw_lam w' = pw_lam w /\ pw_pix w' = px /\ pw_shape w' = Some (n, m) /\
    pw_focal w' = (match pl_focal P with Some f => f | None => focal_truthy (pw_focal w) end) /\
    (forall f, In f (pw_data w') -> fsized f) /\
    forall r c, embed_sum (pw_data w') r c = (ec_sum (pw_data w) r c * transmission P (pw_lam w) n m r c)%K.
Proof. exact plane_multiply_spec. Qed.
Print Assumptions C07_plane_multiplies_pointwise.

(* the transmission: amplitude * exp(2 pi i opd / lambda) inside the mask (the union of pairwise disjoint
   segment masks), zero outside it - in particular outside the plane's array *)
Theorem C07_transmission_is_phasor_inside_mask_zero_outside :
  forall (S : Scalar), is_ring S -> forall (P : plane S) (lam : Qc) (n m r c : Z),
  disjoint_masks (masks_of (pl_mask P)) ->
  transmission P lam n m r c =
  if existsb (fun a => mask_at a (r + n / 2) (c + m / 2)) (masks_of (pl_mask P))
  then (amp_at (pl_amp P) (r + n / 2) (c + m / 2) * phase lam (opd_at (pl_opd P) (r + n / 2) (c + m / 2)))%K
  else k0.
Proof. exact transmission_inside_outside. Qed.
Print Assumptions C07_transmission_is_phasor_inside_mask_zero_outside.

(* amplitude, OPD and mask all scalars: every field is scaled by amplitude * [mask] * exp(2 pi i opd / lambda)
   (a zero mask blocks everything); wavelength and shape unchanged; Pupil hands over its focal length *)
Theorem C07_all_scalar_plane :
  forall (S : Scalar), is_ring S -> forall (P : plane S) (w : pwf S) (v : S) (q : Qc) (b : bool) (px : option (Qc * Qc)),
  plane_scalar P v q b -> (forall f, In f (pw_data w) -> fwell f) -> origin_consts (pw_data w) ->
  mul_pixelscale (pl_pix P) (pw_pix w) = Ok px ->
  exists w', plane_multiply P w = Ok w' /\
    pw_lam w' = pw_lam w /\ pw_pix w' = px /\ pw_shape w' = pw_shape w /\
    pw_focal w' = (match pl_focal P with Some f => f | None => focal_truthy (pw_focal w) end) /\
    forall r c, embed_sum (pw_data w') r c = (embed_sum (pw_data w) r c * (v * kofb b * phase (pw_lam w) q))%K.
Proof. exact plane_multiply_scalar. Qed.
Print Assumptions C07_all_scalar_plane.

(* a plane with default attributes (amplitude 1, opd 0, no mask) changes nothing *)
Theorem C07_default_plane_is_identity :
  forall (S : Scalar), is_ring S -> forall (P : plane S) (w : pwf S) (px : option (Qc * Qc)),
  kernel_laws S -> plane_scalar P k1 0%Qc true -> (forall f, In f (pw_data w) -> fwell f) ->
  origin_consts (pw_data w) -> mul_pixelscale (pl_pix P) (pw_pix w) = Ok px ->
  exists w', plane_multiply P w = Ok w' /\ pw_lam w' = pw_lam w /\ pw_shape w' = pw_shape w /\
    forall r c, embed_sum (pw_data w') r c = embed_sum (pw_data w) r c.
Proof. exact default_plane_identity. Qed.
Print Assumptions C07_default_plane_is_identity.

(* Plane.__init__: attributes stored as given; the mask binarised (set where the given array - or, without
   one, the amplitude - is non-zero); the slices are the bounding slices of the stored mask (the invariant
   [ok_slices] of the theorems above) *)
Theorem C07_constructor_normalises :
  forall (S : Scalar) (nz : S -> bool) (amp : aattr S) (opd : oattr) (mask : mraw S) (pix : pixraw)
         (foc : option focal) (tl : list tilt) (P : plane S),
  plane_init nz amp opd mask pix foc tl = Ok P ->
  pl_amp P = amp /\ pl_opd P = opd /\ pl_mask P = init_mask nz amp mask /\
  plane_slice (pl_mask P) = Ok (pl_slices P) /\ pl_pix P = pix_broadcast pix /\ pl_tilt P = tl /\ pl_focal P = foc.
Proof. exact plane_init_spec. Qed.
Print Assumptions C07_constructor_normalises.

Theorem C07_mask_is_binarised :
  forall (S : Scalar) (nz : S -> bool) (amp : aattr S),
  (forall a, init_mask nz amp (M2 a) = PM2 (binarise nz a)) /\
  (forall n m l, init_mask nz amp (M3 n m l) = PM3 n m (map (binarise nz) l)) /\
  (forall v, init_mask nz amp (MS v) = PM0 (nz v)) /\
  (forall a i j, pget (binarise nz a) i j = nz (get a i j)) /\
  (match amp with AmpS v => init_mask nz amp MNone = PM0 (nz v)
                | AmpA A => init_mask nz amp MNone = PM2 (binarise nz A) end).
Proof. exact init_mask_binary. Qed.
Print Assumptions C07_mask_is_binarised.

(* a mask derived from an array amplitude does not change the transmission: amplitude * phase inside the
   array, zero outside ([nz] being a correct test for "non-zero") *)
Theorem C07_derived_mask_is_transparent :
  forall (S : Scalar), is_ring S -> forall (nz : S -> bool) (P : plane S) (A : arr S) (lam : Qc) (r c : Z),
  (forall x, nz x = false -> x = k0) -> pl_amp P = AmpA A -> pl_mask P = PM2 (binarise nz A) ->
  transmission P lam (nr A) (nc A) r c =
  (if inr (nr A) (r + nr A / 2) && inr (nc A) (c + nc A / 2)
   then get A (r + nr A / 2) (c + nc A / 2) * phase lam (opd_at (pl_opd P) (r + nr A / 2) (c + nc A / 2)) else k0)%K.
Proof. exact derived_mask_transparent. Qed.
Print Assumptions C07_derived_mask_is_transparent.

(* (d) _mul_pixelscale: None/None, None/x, x/None, equal -> the known scale; unequal in either axis -> ValueError *)
Theorem C07_mul_pixelscale_table :
  mul_pixelscale None None = Ok None /\
  (forall y, mul_pixelscale None (Some y) = Ok (Some y)) /\
  (forall x, mul_pixelscale (Some x) None = Ok (Some x)) /\
  (forall x, mul_pixelscale (Some x) (Some x) = Ok (Some x)) /\
  (forall x y, fst x <> fst y \/ snd x <> snd y -> mul_pixelscale (Some x) (Some y) = Err ValueError) /\
  (forall x y r, mul_pixelscale (Some x) (Some y) = Ok r -> x = y /\ r = Some x).
Proof. exact mul_pixelscale_table. Qed.
Print Assumptions C07_mul_pixelscale_table.

(* inconsistent pixel scales refuse the whole multiplication *)
Theorem C07_inconsistent_pixelscales_refused :
  forall (S : Scalar) (P : plane S) (w : pwf S) x y, pl_pix P = Some x -> pw_pix w = Some y ->
  fst x <> fst y \/ snd x <> snd y -> plane_multiply P w = Err ValueError.
Proof. exact plane_multiply_refused. Qed.
Print Assumptions C07_inconsistent_pixelscales_refused.

(* lentil.Tilt as a plane (TiltInterface.multiply): the default plane, which leaves the field as it is, and every
   field's tilt list grows by exactly this one element - once per field, whatever the number of fields *)
Theorem C07_tilt_plane_appends_itself_once :
  forall (S : Scalar), is_ring S -> forall (t : tilt) (P : plane S) (w : pwf S) (px : option (Qc * Qc)),
  kernel_laws S -> plane_scalar P k1 0%Qc true -> (forall f, In f (pw_data w) -> fwell f) ->
  origin_consts (pw_data w) -> mul_pixelscale (pl_pix P) (pw_pix w) = Ok px ->
  exists w0 w', plane_multiply P w = Ok w0 /\ elem_multiply (CTilt t P) w = Ok w' /\
    pw_lam w' = pw_lam w /\ pw_shape w' = pw_shape w /\
    (forall r c, embed_sum (pw_data w') r c = embed_sum (pw_data w) r c) /\
    map (@ftilt S) (pw_data w') = map (fun f => ftilt f ++ [t]) (pw_data w0).
Proof. exact tilt_plane_spec. Qed.
Print Assumptions C07_tilt_plane_appends_itself_once.

(* assigning an attribute of a live plane object replaces exactly that attribute; the theorems above then speak
   about the plane's CURRENT attributes (nothing of an earlier multiply is remembered: plane_multiply is a function
   of the plane record and the wavefront) *)
Theorem C07_attribute_updates :
  forall (S : Scalar) (P : plane S) a o m,
  pl_amp (set_amp P a) = a /\ pl_opd (set_amp P a) = pl_opd P /\ pl_mask (set_amp P a) = pl_mask P /\
  pl_slices (set_amp P a) = pl_slices P /\
  pl_opd (set_opd P o) = o /\ pl_amp (set_opd P o) = pl_amp P /\ pl_mask (set_opd P o) = pl_mask P /\
  pl_slices (set_opd P o) = pl_slices P /\
  pl_mask (set_mask_inplace P m) = m /\ pl_slices (set_mask_inplace P m) = pl_slices P.
Proof. exact setters_spec. Qed.
Print Assumptions C07_attribute_updates.

(* 0-d mask (no mask given and a scalar amplitude, or mask=scalar) together with an array amplitude and/or array OPD:
   one phasor covering the attribute array - amplitude * [mask] * exp(2 pi i opd / lambda) inside it, nothing outside;
   the plane has shape (), so the wavefront keeps its own shape *)
Theorem C07_scalar_mask_with_array_attributes :
  forall (S : Scalar), is_ring S -> forall (P : plane S) (w : pwf S) (b : bool) (n m : Z) (px : option (Qc * Qc)),
  smask_plane P b n m -> (forall f, In f (pw_data w) -> fwell f) -> mul_pixelscale (pl_pix P) (pw_pix w) = Ok px ->
  exists w', plane_multiply P w = Ok w' /\
    pw_lam w' = pw_lam w /\ pw_pix w' = px /\ pw_shape w' = pw_shape w /\
    pw_focal w' = (match pl_focal P with Some f => f | None => focal_truthy (pw_focal w) end) /\
    (forall f, In f (pw_data w') -> fsized f) /\
    forall r c, embed_sum (pw_data w') r c = (ec_sum (pw_data w) r c * smask_transmission P b (pw_lam w) n m r c)%K.
Proof. exact plane_multiply_scalar_mask. Qed.
Print Assumptions C07_scalar_mask_with_array_attributes.

(* Plane(amplitude=, amp=, opd=, mask=, ...): which calls are refused and with which exception, and what is stored *)
Theorem C07_constructor_outcome :
  forall (S : Scalar) (nz : S -> bool) amplitude alias opd mask pix foc tl,
  match plane_init_kw nz amplitude alias opd mask pix foc tl with
  | Ok P => (alias = None /\ pl_amp P = amplitude \/ exists a', alias = Some a' /\ pl_amp P = a') /\
            mask <> M4 /\ pl_opd P = opd /\ pl_mask P = init_mask nz (pl_amp P) mask /\
            plane_slice (pl_mask P) = Ok (pl_slices P) /\ pl_pix P = pix_broadcast pix /\ pl_tilt P = tl /\ pl_focal P = foc
  | Err TypeError =>
      alias <> None /\ (exists v, amplitude = AmpS v /\ nz (v - k1)%K = true) \/
      alias <> None /\ (exists A, amplitude = AmpA A /\ nr A * nc A = 1 /\ nz (get A 0 0 - k1)%K = true)
  | Err ValueError => (alias <> None /\ exists A, amplitude = AmpA A /\ nr A * nc A <> 1) \/ mask = M4
  | Err IndexError => mask <> M4 /\ exists a, plane_slice (init_mask nz a mask) = Err IndexError
  | Err _ => False
  end.
Proof. exact plane_init_kw_outcome. Qed.
Print Assumptions C07_constructor_outcome.

(* a mask (or segment) without a set sample has no bounding slice: IndexError *)
Theorem C07_empty_mask_refused :
  forall (m : garr bool), 0 < pnr m ->
  (forall i j, 0 <= i < pnr m -> 0 <= j < pnc m -> pget m i j = false) -> boundary_slice m = Err IndexError.
Proof. exact boundary_slice_empty. Qed.
Print Assumptions C07_empty_mask_refused.

(* Wavefront(wavelength, pixelscale, focal_length, tilt=...): a tilt argument must have exactly two entries; it is
   stored as one Tilt with the axes exchanged; the wavefront starts as the 0-d plane wave of shape () *)
Theorem C07_wavefront_tilt_argument :
  forall (S : Scalar) lam pix foc (t : option (list Qc)),
  match pwf_init_kw (S := S) lam pix foc t with
  | Ok w => pw_lam w = lam /\ pw_pix w = pix_broadcast pix /\ pw_shape w = None /\
            (t = None /\ pw_data w = [mkField (D0 k1) 0 0 []] \/
             exists rx ry, t = Some [rx; ry] /\ pw_data w = [mkField (D0 k1) 0 0 [TiltAng ry rx]])
  | Err e => e = ValueError /\ exists l, t = Some l /\ length l <> 2%nat
  end.
Proof. exact pwf_init_kw_outcome. Qed.
Print Assumptions C07_wavefront_tilt_argument.

(* Plane.global_mask of pairwise disjoint segment masks: 1 on their union, 0 elsewhere *)
Theorem C07_global_mask_of_disjoint_segments :
  forall (n m : Z) (l : list (garr bool)) (i j : Z), disjoint_masks l ->
  (forall a, In a l -> inr (pnr a) i && inr (pnc a) j = true) ->
  global_mask (PM3 n m l) i j = if existsb (fun a => pget a i j) l then 1 else 0.
Proof. exact global_mask_disjoint. Qed.
Print Assumptions C07_global_mask_of_disjoint_segments.

(* Plane.shape and Plane.size read off the stored mask: () and 1 for a 0-d mask, the array's shape and 1 for a 2-d
   mask, the trailing two dimensions and the number of layers for a cube of segment masks *)
Theorem C07_shape_and_size :
  forall (S : Scalar) (nz : S -> bool) (amp : aattr S),
  (forall a, plane_dims (init_mask nz amp (M2 a)) = Some (nr a, nc a) /\ psize (init_mask nz amp (M2 a)) = 1%nat) /\
  (forall n m l, plane_dims (init_mask nz amp (M3 n m l)) = Some (n, m) /\ psize (init_mask nz amp (M3 n m l)) = length l) /\
  (forall v, plane_dims (init_mask nz amp (MS v)) = None /\ psize (init_mask nz amp (MS v)) = 1%nat) /\
  (match amp with
   | AmpA A => plane_dims (init_mask nz amp MNone) = Some (nr A, nc A)
   | AmpS v => plane_dims (init_mask nz amp MNone) = None end) /\ psize (init_mask nz amp MNone) = 1%nat.
Proof. exact shape_size_spec. Qed.
Print Assumptions C07_shape_and_size.

(* non-vacuity of the last group: the amp= alias, both keywords, a rank-4 mask, an empty mask, a 3-entry tilt, and a
   plane with OPD array but no mask multiplying a 2x2 wavefront *)
Example C07_constructor_nonvacuous :
  let nzz := fun x : ZS => negb (x =? 0) in
  (match plane_init_kw (S := ZS) nzz (@AmpS ZS 1) (Some (@AmpS ZS 5)) (OpdS 0%Qc) MNone PixNone None [] with
   | Ok P => pl_amp P = @AmpS ZS 5 | Err _ => False end) /\
  plane_init_kw (S := ZS) nzz (@AmpS ZS 2) (Some (@AmpS ZS 5)) (OpdS 0%Qc) MNone PixNone None [] = Err TypeError /\
  plane_init_kw (S := ZS) nzz (@AmpA ZS (@mkArr ZS 2 2 (fun _ _ => 1))) (Some (@AmpS ZS 5)) (OpdS 0%Qc) MNone PixNone None [] = Err ValueError /\
  plane_init_kw (S := ZS) nzz (@AmpS ZS 1) None (OpdS 0%Qc) M4 PixNone None [] = Err ValueError /\
  plane_init_kw (S := ZS) nzz (@AmpS ZS 1) None (OpdS 0%Qc) (M2 (@mkArr ZS 2 2 (fun _ _ => 0))) PixNone None [] = Err IndexError /\
  (match pwf_init_kw (S := ZS) 1%Qc PixNone None (Some [1%Qc; 0%Qc; 1%Qc]) with Err e => e = ValueError | Ok _ => False end) /\
  (match pwf_init_kw (S := ZS) 1%Qc PixNone None (Some [1%Qc; 0%Qc]) with Ok w => length (pw_data w) = 1%nat | Err _ => False end).
Proof. vm_compute. repeat split; reflexivity. Qed.

(* non-vacuity: a segmented 3x4 pupil over Z (two segments with overlapping bounding boxes, array
   amplitude, scalar opd) meets [plane_ok]; multiplying the fresh wavefront by it succeeds, takes the
   pupil's focal length, and intensity = field^2 at a sample of the second segment *)
Definition exM1 : arr ZS := @mkArr ZS 3 4 (fun i j => if (i <=? 1) && (j <=? 1) then 1 else 0).
Definition exM2 : arr ZS := @mkArr ZS 3 4 (fun i j => if ((i =? 2) || (j >=? 2)) && negb ((i =? 0) && (j =? 3)) then 5 else 0).
Definition exAmp : arr ZS := @mkArr ZS 3 4 (fun i j => 1 + i + 2 * j).
Definition exPlane : result (plane ZS) :=
  plane_init (S := ZS) (fun x => negb (x =? 0)) (AmpA exAmp) (OpdS 0%Qc) (M3 3 4 [exM1; exM2]) (Pix1 1%Qc)
             (Some (FVal (Q2Qc 2))) [].
Example C07_nonvacuous :
  match exPlane with
  | Ok P =>
      pl_slices P = [SBox 0 2 0 2; SBox 0 3 0 4] /\
      plane_dims (pl_mask P) = Some (3, 4) /\
      match plane_multiply P (pwf_init (S := ZS) 1%Qc PixNone None []) with
      | Ok w => pw_focal w = FVal (Q2Qc 2) /\ pw_shape w = Some (3, 4) /\ length (pw_data w) = 2%nat /\
                embed_sum (pw_data w) 1 0 = 7 /\ embed_sum (pw_data w) (-1) 1 = 0 /\
                match pwf_field w, pwf_intensity w with
                | Ok (D2 f), Ok (D2 i) => get f 2 2 = 7 /\ get i 2 2 = 49
                | _, _ => False end
      | Err _ => False end
  | Err _ => False end.
Proof. vm_compute. repeat split; reflexivity. Qed.
