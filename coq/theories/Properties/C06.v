(* C06 - Field and extent bookkeeping equals arithmetic on an infinite zero-padded plane.
   Only statements: every proof is [exact] of a lemma of Proofs/. [S] ranges over every
   commutative ring (Leibniz equality); shapes, offsets and coordinates over all of Z. *)
From LV Require Import Model.Field Model.FieldApi Proofs.ExtentP Proofs.FieldP Proofs.FieldApiP Lib.Instances.

(* product of two fields = pointwise product of their embeddings, a 0-d operand (numpy shape ()) being an
   infinite constant and every array operand - a 1x1 array included - its zero-padded embedding
   ([embed_const f = if f is 0-d then its value else embed f]), whenever at least one operand is an array *)
Theorem C06_product_is_product_of_embeddings :
  forall (S : Scalar), is_ring S -> forall (a b : field S) (r c : Z), fvalid S a -> fvalid S b ->
  is0d (fd a) && is0d (fd b) = false ->
  embed_opt (fmul a b) r c = (embed_const a r c * embed_const b r c)%K.
Proof. exact fmul_embed. Qed.
Print Assumptions C06_product_is_product_of_embeddings.

(* in particular an array with a single element is a single sample, not a constant *)
Theorem C06_one_element_array_is_one_sample :
  forall (S : Scalar) (f : field S) (r c : Z), is0d (fd f) = false -> embed_const f r c = embed f r c.
Proof. exact embed_const_sized. Qed.
Print Assumptions C06_one_element_array_is_one_sample.

(* two 0-d operands with equal offsets: the 0-d constant product *)
Theorem C06_product_of_constants :
  forall (S : Scalar) (a b : field S),
  is0d (fd a) = true -> is0d (fd b) = true -> offr a = offr b -> offc a = offc b ->
  exists p, fmul a b = Some p /\ is0d (fd p) = true /\
            dget (fd p) 0 0 = (dget (fd a) 0 0 * dget (fd b) 0 0)%K /\ offr p = offr a /\ offc p = offc a.
Proof. exact mul_scalar_equal_offsets. Qed.
Print Assumptions C06_product_of_constants.

(* the full statement fails for 0-d operands with unequal offsets (known finding
   C06-scalar-scalar-offsets, pinned by tests/test_field.py): the model, like the code, returns the empty field *)
Theorem C06_product_of_constants_unequal_offsets_refuted :
  forall (S : Scalar) (a b : field S),
  is0d (fd a) = true -> is0d (fd b) = true -> (offr a <> offr b \/ offc a <> offc b) ->
  fmul a b = None.
Proof. exact mul_scalar_unequal_offsets_empty. Qed.
Print Assumptions C06_product_of_constants_unequal_offsets_refuted.

(* a merge is the sum of the embeddings *)
Theorem C06_merge_is_sum :
  forall (S : Scalar), is_ring S -> forall (fs : list (field S)) (r c : Z), fs <> [] ->
  (forall f, In f fs -> fvalid S f /\ fbounded S f) -> embed (merge fs) r c = embed_sum fs r c.
Proof. exact merge_embed. Qed.
Print Assumptions C06_merge_is_sum.

(* reducing a collection yields pairwise non-overlapping fields with the same total *)
Theorem C06_reduce_same_total :
  forall (S : Scalar), is_ring S -> forall (fs : list (field S)) (r c : Z),
  (forall f, In f fs -> fok S f) -> embed_sum (reduce fs) r c = embed_sum fs r c.
Proof. exact reduce_total. Qed.
Print Assumptions C06_reduce_same_total.

Theorem C06_reduce_pairwise_disjoint :
  forall (S : Scalar) (fs : list (field S)), (forall f, In f fs -> fok S f) ->
  ForallOrdPairs (fun a b => intersect (fextent a) (fextent b) = false) (reduce fs).
Proof. exact reduce_disjoint. Qed.
Print Assumptions C06_reduce_pairwise_disjoint.

(* insert adds exactly the part of the embedding inside the array: all, some or none of it *)
Theorem C06_insert_adds_embedding :
  forall (S : Scalar), is_ring S -> forall (g : S -> S) (f : field S) (d out : arr S) (w : S),
  fd f = D2 d -> 0 < nr d -> 0 < nc d -> 0 < nr out -> 0 < nc out -> g k0 = k0 ->
  exists o, insert g f out w = Ok o /\ nr o = nr out /\ nc o = nc out /\
  forall i j, 0 <= i < nr out -> 0 <= j < nc out ->
    get o i j = (get out i j + g (embed f (i - nr out / 2) (j - nc out / 2)) * w)%K.
Proof. exact insert_spec. Qed.
Print Assumptions C06_insert_adds_embedding.

(* extent queries agree with the sets of integer pixel coordinates *)
Theorem C06_intersect_iff_common_point :
  forall a b, evalid a -> evalid b ->
  (intersect a b = true <-> exists r c, inE a r c = true /\ inE b r c = true).
Proof. exact intersect_iff_common_point. Qed.
Print Assumptions C06_intersect_iff_common_point.

Theorem C06_intersection_extent_is_set_intersection :
  forall a b r c, inE (intersection_extent a b) r c = inE a r c && inE b r c.
Proof. exact intersection_extent_is_set_intersection. Qed.
Print Assumptions C06_intersection_extent_is_set_intersection.

Theorem C06_intersection_shape_empty_iff :
  forall a b, intersection_shape a b = None <-> forall r c, inE a r c && inE b r c = false.
Proof. exact intersection_shape_none. Qed.
Print Assumptions C06_intersection_shape_empty_iff.

Theorem C06_intersection_shape_is_common_box :
  forall a b n m, intersection_shape a b = Some (n, m) ->
  (n, m) = ext_shape (intersection_extent a b) /\ 0 < n /\ 0 < m.
Proof. exact intersection_shape_some. Qed.
Print Assumptions C06_intersection_shape_is_common_box.

Theorem C06_intersection_slices_select_common_coordinates :
  forall a b i j,
  let '(((ar0, ar1), (ac0, ac1)), ((br0, br1), (bc0, bc1))) := intersection_slices a b in
  let '(armin, _, acmin, _) := a in let '(brmin, _, bcmin, _) := b in
  (((ar0 <=? i) && (i <? ar1) && (ac0 <=? j) && (j <? ac1)) = inE a (armin + i) (acmin + j) && inE b (armin + i) (acmin + j))
  /\ (((br0 <=? i) && (i <? br1) && (bc0 <=? j) && (j <? bc1)) = inE a (brmin + i) (bcmin + j) && inE b (brmin + i) (bcmin + j))
  /\ ar1 - ar0 = br1 - br0 /\ ac1 - ac0 = bc1 - bc0
  /\ armin + ar0 = brmin + br0 /\ acmin + ac0 = bcmin + bc0.
Proof. exact intersection_slices_select. Qed.
Print Assumptions C06_intersection_slices_select_common_coordinates.

Theorem C06_shift_and_centre :
  (forall a b, intersection_shift a b = array_center (intersection_extent a b)) /\
  (forall n m r c, 0 < n -> 0 < m -> array_center (array_extent n m r c) = (r, c)) /\
  (forall e, evalid e -> let '(n, m) := ext_shape e in let '(r, c) := array_center e in array_extent n m r c = e).
Proof. exact (conj intersection_shift_is_center (conj array_center_of_array_extent array_extent_center_roundtrip)). Qed.
Print Assumptions C06_shift_and_centre.

Theorem C06_boundary_is_bounding_box :
  forall (S : Scalar) (fs : list (field S)), fs <> [] -> (forall f, In f fs -> fvalid S f /\ fbounded S f) ->
  let '(b1, b2, b3, b4) := boundary fs in
  (forall f, In f fs -> esub (fextent f) (b1, b2, b3, b4)) /\
  (exists f, In f fs /\ b1 = fst (fst (fst (fextent f)))) /\
  (exists f, In f fs /\ b2 = snd (fst (fst (fextent f)))) /\
  (exists f, In f fs /\ b3 = snd (fst (fextent f))) /\
  (exists f, In f fs /\ b4 = snd (fextent f)).
Proof. exact boundary_is_bounding_box. Qed.
Print Assumptions C06_boundary_is_bounding_box.

(* ---- the public entry points around the kernels (Model/FieldApi.v) ---- *)

(* merge(a, b, enforce_overlap): refused with ValueError exactly when overlap is enforced and the two extents have
   no common sample, or when the two pixelscales differ; otherwise the result carries a's pixelscale, no tilt, and
   the sum of the two embeddings *)
Theorem C06_merge_outcome :
  forall (S : Scalar), is_ring S -> forall (a b : pxfield S) (enforce : bool), fok S (fst a) -> fok S (fst b) ->
  match merge_pub a b enforce with
  | Ok (m, p) =>
      p = snd a /\ snd b = snd a /\
      (enforce = true -> exists r c, inE (fextent (fst a)) r c = true /\ inE (fextent (fst b)) r c = true) /\
      ftilt m = [] /\ forall r c, embed m r c = (embed (fst a) r c + embed (fst b) r c)%K
  | Err ValueError =>
      (enforce = true /\ forall r c, inE (fextent (fst a)) r c && inE (fextent (fst b)) r c = false) \/ snd b <> snd a
  | Err _ => False
  end.
Proof. exact merge_pub_outcome. Qed.
Print Assumptions C06_merge_outcome.

(* _merge(fields): IndexError exactly for the empty collection, ValueError exactly when some pixelscale differs from
   the first one; otherwise the first pixelscale, no tilt, the sum of all embeddings *)
Theorem C06_merge_collection_outcome :
  forall (S : Scalar), is_ring S -> forall (fs : list (pxfield S)), (forall fp, In fp fs -> fok S (fst fp)) ->
  match merge_px fs with
  | Ok (m, p) => (exists f0 r, fs = (f0, p) :: r) /\ (forall fp, In fp fs -> snd fp = p) /\ ftilt m = [] /\
                 forall r c, embed m r c = embed_sum (map fst fs) r c
  | Err IndexError => fs = []
  | Err ValueError => exists f0 p0 r fp, fs = (f0, p0) :: r /\ In fp fs /\ snd fp <> p0
  | Err _ => False
  end.
Proof. exact merge_px_outcome. Qed.
Print Assumptions C06_merge_collection_outcome.

(* overlap(fields) for two fields: a common sample exists ... *)
Theorem C06_overlap_of_two :
  forall (S : Scalar) (a b : field S), fvalid S a -> fvalid S b ->
  (overlap [a; b] = true <-> exists r c, inE (fextent a) r c = true /\ inE (fextent b) r c = true).
Proof. exact overlap_two. Qed.
Print Assumptions C06_overlap_of_two.

(* ... for any other number of fields: reduce() leaves at most one field, and that field carries the whole plane *)
Theorem C06_overlap_of_many :
  forall (S : Scalar), is_ring S -> forall (fs : list (field S)), length fs <> 2%nat -> (forall f, In f fs -> fok S f) ->
  (overlap fs = true <-> (length (reduce fs) <= 1)%nat) /\
  (overlap fs = true -> fs = [] \/ exists g, reduce fs = [g] /\ forall r c, embed g r c = embed_sum fs r c).
Proof. exact overlap_many. Qed.
Print Assumptions C06_overlap_of_many.

(* tilt lists: a product carries the concatenation of the operands' lists, a merge carries none (tilt metadata of
   merged fields is dropped silently - the code has a TODO about it) *)
Theorem C06_tilt_lists :
  forall (S : Scalar),
  (forall (a b p : field S), fmul a b = Some p -> ftilt p = ftilt a ++ ftilt b) /\
  (forall (fs : list (field S)), ftilt (merge fs) = []).
Proof. exact (fun S => conj (fmul_tilt S) (merge_tilt S)). Qed.
Print Assumptions C06_tilt_lists.

(* 0-d data cannot be inserted into a 2-d array, whatever the flags (known finding C06-one-element-insert) *)
Theorem C06_insert_zero_dim_refused :
  forall (S : Scalar) (g : S -> S) (f : field S) (v : S) (out : arr S) (w : S), fd f = D0 v -> insert g f out w = Err ValueError.
Proof. exact insert_zero_dim_refused. Qed.
Print Assumptions C06_insert_zero_dim_refused.

(* array_extent: a shape with fewer than two entries is the single sample at the shift; with parent_shape the same
   samples are indexed from the parent's upper-left corner (origin sample floor(n/2)) *)
Theorem C06_array_extent_short_shape_and_parent :
  (forall (shape : list Z) shr shc, (length shape < 2)%nat ->
     array_extent_any shape shr shc None = array_extent 1 1 shr shc /\
     forall r c, inE (array_extent_any shape shr shc None) r c = (r =? shr) && (c =? shc)) /\
  (forall (shape : list Z) shr shc pr pc i j,
     inE (array_extent_any shape shr shc (Some (pr, pc))) i j
     = inE (array_extent_any shape shr shc None) (i - pr / 2) (j - pc / 2)).
Proof. exact (conj array_extent_any_spec array_extent_parent_spec). Qed.
Print Assumptions C06_array_extent_short_shape_and_parent.

(* empty and one-element collections; Field.shape / .size / .extent *)
Theorem C06_empty_collections_and_attributes :
  forall (S : Scalar),
  (@boundary S [] = (maxsize, - maxsize, maxsize, - maxsize) /\ @reduce S [] = [] /\ @overlap S [] = true /\
   @merge_px S [] = Err IndexError /\ (forall f : field S, reduce [f] = [f] /\ overlap [f] = true)) /\
  (forall f : field S,
   (fshape f = None <-> is0d (fd f) = true) /\
   (forall n m, fshape f = Some (n, m) -> fsize f = n * m /\ fextent f = array_extent_any [n; m] (offr f) (offc f) None) /\
   (fshape f = None -> fsize f = 1 /\ fextent f = array_extent_any [] (offr f) (offc f) None)).
Proof. exact (fun S => conj (empty_collections S) (field_attributes S)). Qed.
Print Assumptions C06_empty_collections_and_attributes.

(* non-vacuity: concrete fields over Z meeting the hypotheses, with a partially overlapping product,
   a reduce that merges two of three fields, and an insert that is clipped *)
Definition exA : field ZS := mkField (D2 (@mkArr ZS 2 3 (fun i j => 1 + i * 3 + j))) 1 (-1) [].
Definition exB : field ZS := mkField (D2 (@mkArr ZS 3 2 (fun i j => 10 + i * 2 + j))) 2 0 [].
Definition exC : field ZS := mkField (D2 (@mkArr ZS 1 1 (fun _ _ => 7))) (-4) 5 [].
Example C06_nonvacuous :
  fvalid ZS exA /\ fvalid ZS exB /\ fbounded ZS exA /\
  is0d (fd exA) && is0d (fd exB) = false /\
  embed_opt (fmul exA exB) 1 0 = 6 * 11 /\ embed_opt (fmul exA exB) 0 0 = 0 /\
  (* a 1x1 array is one sample: times exA it leaves the single product sample, nothing is broadcast *)
  embed_opt (fmul (mkField (D2 (@mkArr ZS 1 1 (fun _ _ => 7))) 1 0 []) exA) 1 0 = 7 * 6 /\
  embed_opt (fmul (mkField (D2 (@mkArr ZS 1 1 (fun _ _ => 7))) 1 0 []) exA) 0 0 = 0 /\
  (* 0-d data is a constant: times exA it scales every sample *)
  embed_opt (fmul (mkField (D0 (7 : ZS)) 0 0 []) exA) 0 (-2) = 7 * 1 /\
  length (reduce [exA; exB; exC]) = 2%nat /\
  (match insert (fun x => x) exA (@mkArr ZS 2 2 (fun _ _ => 100)) 1 with
   | Ok o => get o 1 0 = 102 /\ get o 0 0 = 100 | Err _ => False end).
Proof. vm_compute. repeat split; try discriminate; reflexivity. Qed.

(* non-vacuity of the entry-point theorems: an enforced merge of two overlapping fields with equal pixelscales
   succeeds, a non-overlapping pair is refused, unequal pixelscales are refused, three chained fields overlap *)
Example C06_api_nonvacuous :
  (match merge_pub (exA, PxS 1%Qc) (exB, PxS 1%Qc) true with Ok (m, p) => p = PxS 1%Qc /\ embed m 1 0 = 6 + 11 | Err _ => False end) /\
  merge_pub (exA, PxNone) (exC, PxNone) true = Err ValueError /\
  (match merge_pub (exA, PxNone) (exC, PxNone) false with Ok (m, _) => embed m (-4) 5 = 7 | Err _ => False end) /\
  merge_pub (exA, PxS 1%Qc) (exB, PxP 1%Qc 1%Qc) true = Err ValueError /\
  overlap [exA; exB] = true /\ overlap [exA; exC] = false /\ overlap [exA; exB; exC] = false /\ overlap [exA; exC; exB] = false /\
  @merge_px ZS [] = Err IndexError.
Proof. vm_compute. repeat split; reflexivity. Qed.
