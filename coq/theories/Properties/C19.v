(* C19 - Pixel, jitter and smear blurs are flux-preserving convolutions on any shape.
   Model (Model/Blur.v):  blur K img = |ifft2(fft2 img * K)|,  pixel = blur with K = outer(sinc(fy os), sinc(fx os)),
   jitter / smear = blur with K = gauss(e^2 (fx^2+fy^2)) / sinc((sin a fy + cos a fx) e), e = (scale/pixelscale) oversample,
   followed by  out * sum(img) / sum(out);  fx, fy = np.fft.fftfreq of the column / row count.
   [S] ranges over every commutative ring with a kernel e = [ke] with e(a+b) = e a * e b and e(integer) = 1 (over the
   complex numbers: e t = exp(-2 pi i t)); [CS] is Coquelicot's C.  sinc, gauss are arbitrary functions with value 1
   at 0; the absolute value over C is Cabs z = |z|, the reciprocal Cinv.  Images are m x n for arbitrary m, n. *)
From Coq Require Import Reals.
From Coquelicot Require Import Complex.
From LV Require Import Lib.Cis Model.Blur Model.BlurEntry Proofs.BlurP Proofs.BlurC Proofs.BlurEven Proofs.BlurDeep.
Local Open Scope Z_scope.

(* (a) the three transfer functions have unit gain at zero frequency *)
Theorem C19_unit_dc_gain :
  forall (S : Scalar), is_ring S -> forall (sinc gauss : Qc -> S) (os scale d sn cs ps : Qc) (m n : Z),
  0 < m -> 0 < n -> sinc 0%Qc = k1 -> gauss 0%Qc = k1 ->
  get (pixel_mul sinc os m n) 0 0 = k1
  /\ get (jitter_mul gauss scale ps os m n) 0 0 = k1
  /\ get (smear_mul sinc d sn cs ps os m n) 0 0 = k1.
Proof. intros S R sinc gauss os scale d sn cs ps m n Hm Hn Hs Hg. split; [|split].
  - now apply pixel_mul_dc. - now apply jitter_mul_dc. - now apply smear_mul_dc. Qed.
Print Assumptions C19_unit_dc_gain.

(* (b) for ANY multiplier K, the complex array before the absolute value commutes with np.roll *)
Theorem C19_commutes_with_circular_shift :
  forall (S : Scalar), is_ring S -> kernel_laws S -> (forall z : Z, @ke S (zQ z) = k1) ->
  forall (K img : arr S) (sr sc i j : Z), 0 <= i < nr img -> 0 <= j < nc img ->
  get (ifft2 (force (amul (fft2 (roll img sr sc)) K))) i j
  = get (ifft2 (force (amul (fft2 img) K))) ((i - sr) mod nr img) ((j - sc) mod nc img).
Proof. exact conv_roll. Qed.
Print Assumptions C19_commutes_with_circular_shift.

(* ... hence so do the three blurs: the multipliers depend on the shape only, the absolute value is sample-wise and the
   two totals of the renormalisation are invariant under permutations of the samples *)
Theorem C19_blurs_commute_with_circular_shift :
  forall (S : Scalar), is_ring S -> kernel_laws S -> (forall z : Z, @ke S (zQ z) = k1) ->
  forall (sinc gauss : Qc -> S) (kabs kinv : S -> S) (img : arr S) (os scale d sn cs ps : Qc) (sr sc i j : Z),
  0 <= i < nr img -> 0 <= j < nc img ->
  get (pixel sinc kabs (roll img sr sc) os) i j = get (roll (pixel sinc kabs img os) sr sc) i j
  /\ get (jitter gauss kabs kinv (roll img sr sc) scale ps os) i j = get (roll (jitter gauss kabs kinv img scale ps os) sr sc) i j
  /\ get (smear sinc kabs kinv (roll img sr sc) d sn cs ps os) i j = get (roll (smear sinc kabs kinv img d sn cs ps os) sr sc) i j.
Proof. intros S R Kl P sinc gauss kabs kinv img os scale d sn cs ps sr sc i j Hi Hj. split; [|split].
  - exact (blur_roll S R Kl P kabs _ img sr sc i j Hi Hj).
  - exact (renorm_blur_roll S R Kl P kabs kinv _ img sr sc i j Hi Hj).
  - exact (renorm_blur_roll S R Kl P kabs kinv _ img sr sc i j Hi Hj). Qed.
Print Assumptions C19_blurs_commute_with_circular_shift.

(* the re-indexing lemma behind (b): a sum over one period does not depend on where the period starts *)
Theorem C19_cyclic_reindexing :
  forall (S : Scalar), is_ring S -> forall (n s : Z) (g : Z -> S), 0 < n ->
  sumZ n (fun i => g ((i + s) mod n)) = sumZ n g.
Proof. exact sumZ_cyclic. Qed.
Print Assumptions C19_cyclic_reindexing.

(* (c) the transform pair is exact in both directions over the complex numbers, on every m x n grid *)
Theorem C19_ifft2_fft2_inverse :
  forall (a : arr CS) (i j : Z), 0 <= i < nr a -> 0 <= j < nc a ->
  get (ifft2 (fft2 a)) i j = get a i j /\ get (fft2 (ifft2 a)) i j = get a i j.
Proof. intros a i j Hi Hj. split; [now apply ifft2_fft2|now apply fft2_ifft2]. Qed.
Print Assumptions C19_ifft2_fft2_inverse.

(* (c) zero extent: the multipliers are identically one and the blurs return non-negative images unchanged *)
Theorem C19_zero_extent_identity :
  forall (sinc gauss : Qc -> C), sinc 0%Qc = RtoC 1 -> gauss 0%Qc = RtoC 1 ->
  forall (img : arr CS) (ps os sn cs : Qc) (i j : Z), 0 <= i < nr img -> 0 <= j < nc img ->
  (forall i j, 0 <= i < nr img -> 0 <= j < nc img -> (0 <= fst (get img i j))%R /\ snd (get img i j) = 0%R) ->
  get (@pixel CS sinc Cabs img 0%Qc) i j = get img i j
  /\ (asum img <> RtoC 0 ->
      get (@jitter CS gauss Cabs Cinv img 0%Qc ps os) i j = get img i j
      /\ get (@smear CS sinc Cabs Cinv img 0%Qc sn cs ps os) i j = get img i j).
Proof. exact named_zero_extent. Qed.
Print Assumptions C19_zero_extent_identity.

(* (d) the input shape is returned, whatever the aspect ratio, and no sample is negative *)
Theorem C19_shape_and_nonnegativity :
  forall (sinc gauss : Qc -> C) (img : arr CS) (os scale d sn cs ps : Qc),
  (nr (@pixel CS sinc Cabs img os) = nr img /\ nc (@pixel CS sinc Cabs img os) = nc img
   /\ forall i j, Cnn (get (@pixel CS sinc Cabs img os) i j))
  /\ (nr (@jitter CS gauss Cabs Cinv img scale ps os) = nr img /\ nc (@jitter CS gauss Cabs Cinv img scale ps os) = nc img
      /\ (nonneg_image img -> forall i j, 0 <= i < nr img -> 0 <= j < nc img ->
          Cnn (get (@jitter CS gauss Cabs Cinv img scale ps os) i j)))
  /\ (nr (@smear CS sinc Cabs Cinv img d sn cs ps os) = nr img /\ nc (@smear CS sinc Cabs Cinv img d sn cs ps os) = nc img
      /\ (nonneg_image img -> forall i j, 0 <= i < nr img -> 0 <= j < nc img ->
          Cnn (get (@smear CS sinc Cabs Cinv img d sn cs ps os) i j))).
Proof. exact named_shape_nonneg. Qed.
Print Assumptions C19_shape_and_nonnegativity.

(* (e) the mechanism of jitter / smear: out * sum(img) / sum(out) has the total of img whenever sum(out) is invertible *)
Theorem C19_renormalisation_restores_total :
  forall (S : Scalar), is_ring S -> forall (kinv : S -> S) (out img : arr S),
  (asum out * kinv (asum out))%K = k1 -> asum (renorm kinv out img) = asum img.
Proof. exact renorm_total. Qed.
Print Assumptions C19_renormalisation_restores_total.

(* (e) ... and for non-negative non-zero images sum(out) >= |sum(ifft2(..))| = sum(img) > 0, so jitter and smear keep the total *)
Theorem C19_jitter_smear_keep_total :
  forall (sinc gauss : Qc -> C), sinc 0%Qc = RtoC 1 -> gauss 0%Qc = RtoC 1 ->
  forall (img : arr CS) (scale d sn cs ps os : Qc), 0 < nr img -> 0 < nc img -> asum img <> RtoC 0 ->
  asum (@jitter CS gauss Cabs Cinv img scale ps os) = asum img
  /\ asum (@smear CS sinc Cabs Cinv img d sn cs ps os) = asum img.
Proof. exact named_totals. Qed.
Print Assumptions C19_jitter_smear_keep_total.

(* (e) pixel: the sum of an inverse transform is the DC sample of the spectrum, so before the absolute value the
   total is F[0,0] K[0,0] = sum(img) *)
Theorem C19_sum_of_ifft_is_dc :
  forall (G : arr CS), 0 < nr G -> 0 < nc G -> asum (ifft2 G) = get G 0 0.
Proof. exact sum_of_ifft_is_dc. Qed.
Print Assumptions C19_sum_of_ifft_is_dc.

Theorem C19_total_before_abs :
  forall (K img : arr CS), 0 < nr img -> 0 < nc img -> get K 0 0 = RtoC 1 ->
  asum (ifft2 (force (amul (fft2 img) K))) = asum img.
Proof. exact conv_total. Qed.
Print Assumptions C19_total_before_abs.

(* (f) convolution theorem, ring-generic half: the transform of a circular convolution is the product of the transforms *)
Theorem C19_fft2_of_circular_convolution :
  forall (S : Scalar), is_ring S -> kernel_laws S -> (forall z : Z, @ke S (zQ z) = k1) ->
  forall (a h : arr S) (u v : Z), nr h = nr a -> nc h = nc a -> 0 <= u < nr a -> 0 <= v < nc a ->
  get (fft2 (cconv a h)) u v = (get (fft2 a) u v * get (fft2 h) u v)%K.
Proof. intros S R Kl P a h u v Hr Hc Hu Hv. rewrite (fft2_cconv S R Kl P) by assumption.
  rewrite !fft2_get by lia. now rewrite Hr, Hc. Qed.
Print Assumptions C19_fft2_of_circular_convolution.

(* (f) over C: ifft2(fft2 img * K) IS the circular convolution of img with the point-spread function ifft2 K; where
   that convolution is non-negative the blur returns it unchanged and keeps the total *)
Theorem C19_equals_convolution :
  forall (K img : arr CS), nr K = nr img -> nc K = nc img ->
  (forall i j, 0 <= i < nr img -> 0 <= j < nc img ->
     get (ifft2 (force (amul (fft2 img) K))) i j
     = @sumZ CS (nr img) (fun x => @sumZ CS (nc img) (fun y =>
         Cmult (get img x y) (get (ifft2 K) ((i - x) mod nr img) ((j - y) mod nc img)))))
  /\ ((forall i j, 0 <= i < nr img -> 0 <= j < nc img -> Cnn (get (cconv img (ifft2 K)) i j)) ->
      (forall i j, 0 <= i < nr img -> 0 <= j < nc img -> get (@blur CS Cabs K img) i j = get (cconv img (ifft2 K)) i j)
      /\ (0 < nr img -> 0 < nc img -> get K 0 0 = RtoC 1 -> asum (@blur CS Cabs K img) = asum img)).
Proof. intros K img Hr Hc. split.
  - intros i j Hi Hj. exact (conv_is_cconv_ifft K img i j Hr Hc Hi Hj).
  - exact (blur_is_cconv K img Hr Hc). Qed.
Print Assumptions C19_equals_convolution.

(* (g) physical units: scale, pixelscale and oversample enter the jitter and smear multipliers only through
   (scale / pixelscale) * oversample, so an extent in physical units equals the same extent in samples *)
Theorem C19_physical_units :
  forall (S : Scalar) (sinc gauss : Qc -> S) (kabs kinv : S -> S) (img : arr S) (scale ps os scale' ps' os' sn cs : Qc),
  (scale / ps * os = scale' / ps' * os')%Qc ->
  jitter gauss kabs kinv img scale ps os = jitter gauss kabs kinv img scale' ps' os'
  /\ smear sinc kabs kinv img scale sn cs ps os = smear sinc kabs kinv img scale' sn cs ps' os'
  /\ jitter gauss kabs kinv img scale ps os = jitter gauss kabs kinv img (scale / ps * os)%Qc 1%Qc 1%Qc
  /\ smear sinc kabs kinv img scale sn cs ps os = smear sinc kabs kinv img (scale / ps * os)%Qc sn cs 1%Qc 1%Qc.
Proof. intros S sinc gauss kabs kinv img scale ps os scale' ps' os' sn cs H. unfold jitter, smear.
  rewrite (jitter_mul_units S gauss scale ps os scale' ps' os' _ _ H).
  rewrite (smear_mul_units S sinc scale ps os scale' ps' os' sn cs _ _ H).
  assert (E : extent scale' ps' os' = extent (scale / ps * os)%Qc 1%Qc 1%Qc).
  { symmetry. change (extent (extent scale ps os) 1%Qc 1%Qc = extent scale' ps' os'). rewrite extent_samples. exact H. }
  rewrite (jitter_mul_units S gauss scale' ps' os' _ _ _ _ _ E).
  rewrite (smear_mul_units S sinc scale' ps' os' _ _ _ sn cs _ _ E). repeat split. Qed.
Print Assumptions C19_physical_units.

(* non-vacuity: the complex numbers satisfy the hypotheses on the scalar structure, and a 2 x 3 (non-square) image
   satisfies the hypotheses on images *)
Example C19_nonvacuous :
  is_ring CS /\ kernel_laws CS /\ (forall z : Z, @ke CS (zQ z) = k1)
  /\ nonneg_image img23 /\ asum img23 <> RtoC 0 /\ nr img23 = 2 /\ nc img23 = 3.
Proof. split; [exact CS_ring|split; [exact CS_kernel|split; [exact CS_period|split; [apply img23_ok|split; [apply img23_ok|split; reflexivity]]]]]. Qed.

(* ---------------------------------------------------------------------------------------------------------------
   Deepening: np.fft.fftfreq as a map, symmetry of the multipliers, realness of the array handed to np.abs, and the
   0/0 of the renormalisation *)

(* np.fft.fftfreq(n)[k] = a/n with a the representative of k modulo n in [-(n//2), (n-1)//2]; the opposite frequency
   sits at index refl n k = (n - k) mod n, except that the Nyquist sample of an even axis is its own partner *)
Theorem C19_fftfreq_characterisation :
  forall n k : Z, 0 < n -> 0 <= k < n ->
  fftfreq n k = tq (fftfreq_num n k) n
  /\ - (n / 2) <= fftfreq_num n k <= (n - 1) / 2
  /\ (fftfreq_num n k = k \/ fftfreq_num n k = k - n)
  /\ 0 <= (n - k) mod n < n
  /\ (2 * k <> n -> fftfreq n ((n - k) mod n) = (- fftfreq n k)%Qc)
  /\ (2 * k = n -> (n - k) mod n = k).
Proof. exact fftfreq_characterisation. Qed.
Print Assumptions C19_fftfreq_characterisation.

(* K[-u mod m, -v mod n] = K[u, v]: for the jitter multiplier unconditionally, for the pixel multiplier when sinc is
   even, on EVERY shape (the Nyquist samples of even axes are their own partners); for the smear multiplier at every
   sample that is not on a Nyquist row or column - there the partner is missing ("unpaired Nyquist sample") *)
Theorem C19_multipliers_even :
  forall (S : Scalar) (sinc gauss : Qc -> S) (os scale d sn cs ps : Qc) (m n i j : Z),
  0 < m -> 0 < n -> 0 <= i < m -> 0 <= j < n ->
  get (jitter_mul gauss scale ps os m n) ((m - i) mod m) ((n - j) mod n) = get (jitter_mul gauss scale ps os m n) i j
  /\ ((forall q : Qc, sinc (- q)%Qc = sinc q) ->
      get (pixel_mul sinc os m n) ((m - i) mod m) ((n - j) mod n) = get (pixel_mul sinc os m n) i j
      /\ (2 * i <> m -> 2 * j <> n ->
          get (smear_mul sinc d sn cs ps os m n) ((m - i) mod m) ((n - j) mod n) = get (smear_mul sinc d sn cs ps os m n) i j)).
Proof. exact multipliers_even. Qed.
Print Assumptions C19_multipliers_even.

(* a real image and a real, even multiplier give a REAL array ifft2(fft2 img * K): ring-generic *)
Theorem C19_real_output_of_even_multiplier :
  forall (S : Scalar), is_ring S -> kernel_laws S -> (forall z : Z, @ke S (zQ z) = k1) -> conj_laws S ->
  (forall q : Qc, @kconj S (kofq q) = kofq q) ->
  forall (K img : arr S) (i j : Z), 0 <= i < nr img -> 0 <= j < nc img ->
  (forall x y, 0 <= x < nr img -> 0 <= y < nc img -> kconj (get img x y) = get img x y) ->
  (forall u v, 0 <= u < nr img -> 0 <= v < nc img -> kconj (get K u v) = get K u v) ->
  (forall u v, 0 <= u < nr img -> 0 <= v < nc img ->
     get K ((nr img - u) mod nr img) ((nc img - v) mod nc img) = get K u v) ->
  kconj (get (ifft2 (force (amul (fft2 img) K))) i j) = get (ifft2 (force (amul (fft2 img) K))) i j.
Proof. exact conv_real. Qed.
Print Assumptions C19_real_output_of_even_multiplier.

(* over C: what pixel and jitter hand to np.abs is real on every shape, what smear hands to it is real on odd x odd
   frames (no Nyquist sample) *)
Theorem C19_preabs_real :
  forall (sinc gauss : Qc -> C), (forall q, Cconj (sinc q) = sinc q) -> (forall q, Cconj (gauss q) = gauss q) ->
  (forall q : Qc, sinc (- q)%Qc = sinc q) ->
  forall (img : arr CS) (os scale ps d sn cs : Qc) (i j : Z),
  (forall x y, 0 <= x < nr img -> 0 <= y < nc img -> Cconj (get img x y) = get img x y) ->
  0 <= i < nr img -> 0 <= j < nc img ->
  Cconj (get (conv (@pixel_mul CS sinc os (nr img) (nc img)) img) i j)
    = get (conv (@pixel_mul CS sinc os (nr img) (nc img)) img) i j
  /\ Cconj (get (conv (@jitter_mul CS gauss scale ps os (nr img) (nc img)) img) i j)
    = get (conv (@jitter_mul CS gauss scale ps os (nr img) (nc img)) img) i j
  /\ (Z.odd (nr img) = true -> Z.odd (nc img) = true ->
      Cconj (get (conv (@smear_mul CS sinc d sn cs ps os (nr img) (nc img)) img) i j)
      = get (conv (@smear_mul CS sinc d sn cs ps os (nr img) (nc img)) img) i j).
Proof. exact preabs_real. Qed.
Print Assumptions C19_preabs_real.

(* the renormalisation as executed (weight = sum(out); if weight == 0: return out; else out * sum(img) / weight) is total
   on non-negative inputs with a multiplier of unit DC gain: zeros on the all-zero frame, otherwise the renormalised
   blur; in both cases the image's total is kept and no sample is negative *)
Theorem C19_renormalisation_total_on_nonnegative :
  forall (K img : arr CS), 0 < nr img -> 0 < nc img -> get K 0 0 = RtoC 1 ->
  (forall i j, 0 <= i < nr img -> 0 <= j < nc img -> Cnn (get img i j)) ->
  ((forall i j, 0 <= i < nr img -> 0 <= j < nc img -> get img i j = RtoC 0) ->
     @renorm_checked CS Cis0 Cinv (@blur CS Cabs K img) img = @blur CS Cabs K img
     /\ forall i j, 0 <= i < nr img -> 0 <= j < nc img ->
        get (@renorm_checked CS Cis0 Cinv (@blur CS Cabs K img) img) i j = RtoC 0)
  /\ (~ (forall i j, 0 <= i < nr img -> 0 <= j < nc img -> get img i j = RtoC 0) ->
     @renorm_checked CS Cis0 Cinv (@blur CS Cabs K img) img = @renorm CS Cinv (@blur CS Cabs K img) img)
  /\ asum (@renorm_checked CS Cis0 Cinv (@blur CS Cabs K img) img) = asum img
  /\ (forall i j, 0 <= i < nr img -> 0 <= j < nc img ->
        Cnn (get (@renorm_checked CS Cis0 Cinv (@blur CS Cabs K img) img) i j)).
Proof. exact renorm_checked_total. Qed.
Print Assumptions C19_renormalisation_total_on_nonnegative.

(* non-vacuity of the new hypotheses: C has the conjugation laws, img23 is a real non-negative non-zero image, the
   constant functions 1 are real even "sinc"/"gauss", and 2 x 3 has a Nyquist column but 3 x 5 has none *)
Example C19_deepen_nonvacuous :
  conj_laws CS /\ (forall q : Qc, @kconj CS (kofq q) = kofq q)
  /\ (forall x y, 0 <= x < nr img23 -> 0 <= y < nc img23 -> Cconj (get img23 x y) = get img23 x y)
  /\ (exists k, 0 <= k < 4 /\ 2 * k = 4 /\ (4 - k) mod 4 = k) /\ Z.odd 3 = true /\ Z.odd 5 = true
  /\ Cis0 (RtoC 0) = true /\ Cis0 (asum img23) = false.
Proof. split; [exact CS_conj|split; [exact CS_conj_q|split]].
  - intros x y _ _. cbn [img23 get]. unfold Cconj, RtoC. cbn. f_equal. ring.
  - split; [exists 2; repeat split; lia|]. repeat split.
    + apply Cis0_true. reflexivity.
    + destruct (Cis0 (asum img23)) eqn:E; [|reflexivity]. apply Cis0_true in E. now apply img23_ok in E.
Qed.
