(* C06 (translation layer, WP-T) - the index-bookkeeping models are what the source says NOW.
   [src_<f>] (Gen/ExtentSrc.v) is regenerated from the text of lentil/extent.py, field.py, helper.py and
   util.py by harness/gen_src.py on every check; each theorem states, for ALL integer arguments, that the
   translated integer arithmetic equals the hand-written model used by the theorems of C06 (and, through
   Model/Extent.v and Model/Geometry.v, of C02, C03, C09, C20).  Only statements: every proof is [exact]. *)
From LV Require Import Model.Extent Model.Field Model.Geometry Model.Fft Gen.ExtentSrc Proofs.ExtentSrcP.

(* ---- lentil/extent.py ---- *)
Theorem C06_src_array_extent_is_model : forall shape shift : Z * Z,
  src_array_extent shape shift = array_extent (fst shape) (snd shape) (fst shift) (snd shift).
Proof. exact src_array_extent_ok. Qed.
Print Assumptions C06_src_array_extent_is_model.

(* shape () takes the [len(shape) < 2] guard: the model's callers pass (1, 1) *)
Theorem C06_src_array_extent_0d_is_model : forall shift : Z * Z,
  src_array_extent_0d shift = array_extent 1 1 (fst shift) (snd shift).
Proof. exact src_array_extent_0d_ok. Qed.
Print Assumptions C06_src_array_extent_0d_is_model.

(* with a parent shape: the same box translated by the parent's origin index floor(n/2) *)
Theorem C06_src_array_extent_parent_is_model : forall shape shift parent : Z * Z,
  src_array_extent_parent shape shift parent =
  let '(r0, r1, c0, c1) := array_extent (fst shape) (snd shape) (fst shift) (snd shift) in
  (r0 + fst parent / 2, r1 + fst parent / 2, c0 + snd parent / 2, c1 + snd parent / 2).
Proof. exact src_array_extent_parent_ok. Qed.
Print Assumptions C06_src_array_extent_parent_is_model.

Theorem C06_src_array_center_is_model : forall e : extent, src_array_center e = array_center e.
Proof. exact src_array_center_ok. Qed.
Print Assumptions C06_src_array_center_is_model.

Theorem C06_src_intersect_is_model : forall a b : extent, src_intersect a b = intersect a b.
Proof. exact src_intersect_ok. Qed.
Print Assumptions C06_src_intersect_is_model.

Theorem C06_src_intersection_extent_is_model : forall a b : extent,
  src_intersection_extent a b = intersection_extent a b.
Proof. exact src_intersection_extent_ok. Qed.
Print Assumptions C06_src_intersection_extent_is_model.

Theorem C06_src_intersection_shape_is_model : forall a b : extent,
  src_intersection_shape a b = intersection_shape a b.
Proof. exact src_intersection_shape_ok. Qed.
Print Assumptions C06_src_intersection_shape_is_model.

Theorem C06_src_intersection_slices_is_model : forall a b : extent,
  src_intersection_slices a b = intersection_slices a b.
Proof. exact src_intersection_slices_ok. Qed.
Print Assumptions C06_src_intersection_slices_is_model.

Theorem C06_src_intersection_shift_is_model : forall a b : extent,
  src_intersection_shift a b = intersection_shift a b.
Proof. exact src_intersection_shift_ok. Qed.
Print Assumptions C06_src_intersection_shift_is_model.

(* ---- lentil/field.py ---- *)
(* boundary(fields): the loop, translated to a fold over [f.extent for f in fields] *)
Theorem C06_src_field_boundary_is_model : forall (S : Scalar) (fs : list (field S)),
  src_field_boundary (map fextent fs) = boundary fs.
Proof. exact src_field_boundary_ok. Qed.
Print Assumptions C06_src_field_boundary_is_model.

(* _merge_offset / _merge_shape as functions of boundary(fields): the offset and the shape of the model's merge *)
Theorem C06_src_merge_offset_is_model : forall (S : Scalar) (fs : list (field S)),
  src_merge_offset (boundary fs) = (offr (merge fs), offc (merge fs)).
Proof. exact src_merge_offset_ok. Qed.
Print Assumptions C06_src_merge_offset_is_model.

Theorem C06_src_merge_shape_is_model : forall (S : Scalar) (fs : list (field S)),
  src_merge_shape (boundary fs) (merge_scalars fs) =
  match fd (merge fs) with D0 _ => None | D2 a => Some (nr a, nc a) end.
Proof. exact src_merge_shape_ok. Qed.
Print Assumptions C06_src_merge_shape_is_model.

(* the clipping block of insert(): the per-axis [reconcile] clips of the model ([None] = nothing to add) *)
Theorem C06_src_insert_clip_is_model : forall fshape foffset oshape : Z * Z,
  src_insert_clip fshape foffset oshape =
  let cr := reconcile (fst oshape) (fst fshape) (fst oshape / 2 - fst fshape / 2 + fst foffset) in
  let cc := reconcile (snd oshape) (snd fshape) (snd oshape / 2 - snd fshape / 2 + snd foffset) in
  if negb (clip_nonempty cr) || negb (clip_nonempty cc) then None
  else Some (((o_lo cr, o_hi cr), (o_lo cc, o_hi cc)), ((f_lo cr, f_hi cr), (f_lo cc, f_hi cc))).
Proof. exact src_insert_clip_ok. Qed.
Print Assumptions C06_src_insert_clip_is_model.

(* ---- lentil/helper.py ---- *)
Theorem C06_src_slice_offset_is_model : forall r0 r1 c0 c1 n m : Z,
  src_slice_offset ((r0, r1), (c0, c1)) (n, m) = slice_offset (SlBox r0 r1 c0 c1) n m.
Proof. exact src_slice_offset_ok. Qed.
Print Assumptions C06_src_slice_offset_is_model.

Theorem C06_src_boundary_slice_is_model : forall (n m pr pc : Z) (b : extent),
  src_boundary_slice (n, m) (pr, pc) b =
  let '(r0, r1, c0, c1) := bslice_of n m pr pc b in ((r0, r1), (c0, c1)).
Proof. exact src_boundary_slice_ok. Qed.
Print Assumptions C06_src_boundary_slice_is_model.

(* ---- lentil/util.py ---- *)
Theorem C06_src_pad_bounds_is_model : forall n m N M : Z,
  src_pad_bounds (n, m) (N, M) =
  (pad_src_lo n N, pad_src_hi n N, pad_dst_lo n N, pad_dst_hi n N,
   pad_src_lo m M, pad_src_hi m M, pad_dst_lo m M, pad_dst_hi m M).
Proof. exact src_pad_bounds_ok. Qed.
Print Assumptions C06_src_pad_bounds_is_model.

Theorem C06_src_pad_bounds_is_fft_model : forall n m N M : Z,
  src_pad_bounds (n, m) (N, M) =
  (s_lo (pad_axis n N), s_hi (pad_axis n N), t_lo (pad_axis n N), t_hi (pad_axis n N),
   s_lo (pad_axis m M), s_hi (pad_axis m M), t_lo (pad_axis m M), t_hi (pad_axis m M)).
Proof. exact src_pad_bounds_fft_ok. Qed.
Print Assumptions C06_src_pad_bounds_is_fft_model.

Theorem C06_src_pad_bounds_3d_is_model : forall d n m N M : Z,
  src_pad_bounds_3d (d, n, m) (N, M) =
  (pad_src_lo n N, pad_src_hi n N, pad_dst_lo n N, pad_dst_hi n N,
   pad_src_lo m M, pad_src_hi m M, pad_dst_lo m M, pad_dst_hi m M).
Proof. exact src_pad_bounds_3d_ok. Qed.
Print Assumptions C06_src_pad_bounds_3d_is_model.

(* subarray raises exactly where the model does and otherwise slices with the translated bounds *)
Theorem C06_src_subarray_bounds_is_model : forall (S : Scalar) (a : arr S) (sr sc shr shc : Z),
  subarray a sr sc shr shc =
  match src_subarray_bounds (nr a, nc a) (sr, sc) (shr, shc) with
  | Ok (r0, r1, c0, c1) => Ok (aslice a r0 r1 c0 c1)
  | Err e => Err e
  end.
Proof. exact src_subarray_bounds_ok. Qed.
Print Assumptions C06_src_subarray_bounds_is_model.
