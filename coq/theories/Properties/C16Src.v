(* C16 (translation layer, WP-T2) - the index arithmetic of lentil/detector.py is what the source says NOW.
   [src_<f>] (Gen/DetectorSrc.v) is regenerated from the text of lentil/detector.py by harness/gen_src.py on
   every check; the theorems hold for ALL integer arguments.  Only statements: every proof is [exact]. *)
From LV Require Import Model.Detector Gen.DetectorSrc Proofs.DetectorSrcP.

(* collect_charge_bayer: nrow, ncol and the np.tile repetition counts of the three colour kernels *)
Theorem C16_src_bayer_mosaic_is_model : forall (d R C os : Z) (kr kg kb : Z * Z),
  src_bayer_mosaic (d, R, C) os kr kg kb =
  (R / os, C / os, (R / os / fst kr, C / os / snd kr), (R / os / fst kg, C / os / snd kg),
   (R / os / fst kb, C / os / snd kb)).
Proof. exact src_bayer_mosaic_ok. Qed.
Print Assumptions C16_src_bayer_mosaic_is_model.

(* with the k x k kernels of a pattern p these are the counts the model's [mosaic] tiles with *)
Theorem C16_src_bayer_mosaic_is_mosaic : forall (S : Scalar) (p : pattern) (ch d R C os : Z),
  let k := (pk p, pk p) in
  let '(nrow, ncol, rr, rg, rb) := src_bayer_mosaic (d, R, C) os k k k in
  nrow = R / os /\ ncol = C / os /\ rr = rg /\ rg = rb /\
  mosaic (S := S) p ch nrow ncol os = repeat2 (tile (kernel p ch) (fst rr) (snd rr)) os.
Proof. exact src_bayer_mosaic_model. Qed.
Print Assumptions C16_src_bayer_mosaic_is_mosaic.

(* adc: model_order by the rank of the gain *)
Theorem C16_src_adc_order_0d_is_model : forall g : Qc, src_adc_order_0d = gorder (G0 g).
Proof. exact src_adc_order_0d_ok. Qed.
Print Assumptions C16_src_adc_order_0d_is_model.
Theorem C16_src_adc_order_1d_is_model : forall l : list Qc, src_adc_order_1d (Z.of_nat (length l)) = gorder (G1 l).
Proof. exact src_adc_order_1d_ok. Qed.
Print Assumptions C16_src_adc_order_1d_is_model.
Theorem C16_src_adc_order_2d_is_model : forall a : arr QcS, src_adc_order_2d (nr a, nc a) = gorder (G2 a).
Proof. exact src_adc_order_2d_ok. Qed.
Print Assumptions C16_src_adc_order_2d_is_model.
Theorem C16_src_adc_order_3d_is_model : forall c : cube QcS, src_adc_order_3d (cnk c, cnr c, cnc c) = gorder (G3 c).
Proof. exact src_adc_order_3d_ok. Qed.
Print Assumptions C16_src_adc_order_3d_is_model.
