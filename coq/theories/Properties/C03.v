(* C03 - splitting an aperture into segments or sub-arrays never changes the result.
   Only statements; the proofs are in Proofs/PlaneP.v (planes), Proofs/SegmentP.v (planes + propagation),
   Proofs/DftP.v and Proofs/PropagateP.v (the transform; properties C01/C02).  [S] ranges over every
   commutative ring with conjugation and an additive kernel [ke]; amplitudes over S, OPDs, wavelengths,
   pixel scales over the rationals, shapes/offsets over Z.
   Vocabulary (Model/Plane.v): [partition_of Pseg Pmono n m] - two n x m planes with equal amplitude, OPD,
   pixel scale and focal length, Pseg with a cube of pairwise disjoint segment masks (their bounding slices
   may overlap), Pmono with the 2-d mask that is their union; both satisfy the constructor's invariant
   ([plane_ok]: slices = bounding slices of the masks).  Segments and intermediate fields may be single
   samples and a cube may have a single layer (the code after the fix: commits for the findings
   C03-one-element-array-field and C03-one-layer-cube).
   [chain_multiply ps w] - Wavefront * P1 * ... * Pk. *)
From LV Require Import Model.Segment Model.SegmentFft Proofs.FieldP Proofs.DftP Proofs.PlaneP Proofs.PropagateP Proofs.SegmentP
  Proofs.SegmentFftP Lib.Instances.
From LV Require Proofs.FftP.

(* (a) the transform is linear ... *)
Theorem C03_transform_additive :
  forall (S : Scalar), is_ring S -> forall (f g : arr S) (ar ac : Qc) (offr offc : Z) (U V : Qc),
  nr f = nr g -> nc f = nc g ->
  fourier_sum (mkArr (nr f) (nc f) (fun x y => (get f x y + get g x y)%K)) ar ac offr offc U V
  = (fourier_sum f ar ac offr offc U V + fourier_sum g ar ac offr offc U V)%K.
Proof. exact fourier_sum_add. Qed.
Print Assumptions C03_transform_additive.

Theorem C03_transform_homogeneous :
  forall (S : Scalar), is_ring S -> forall (f : arr S) (c : S) (ar ac : Qc) (offr offc : Z) (U V : Qc),
  fourier_sum (mkArr (nr f) (nc f) (fun x y => (c * get f x y)%K)) ar ac offr offc U V
  = (c * fourier_sum f ar ac offr offc U V)%K.
Proof. exact fourier_sum_scale. Qed.
Print Assumptions C03_transform_homogeneous.

(* ... a cropped sub-array that contains the support, transformed with helper.slice_offset as its offset,
   gives the transform of the whole array ... *)
Theorem C03_cropped_subarray_with_offset :
  forall (S : Scalar), is_ring S -> forall (g : arr S) r0 r1 c0 c1 ar ac offr offc U V,
  0 <= r0 -> r0 <= r1 -> r1 <= nr g -> 0 <= c0 -> c0 <= c1 -> c1 <= nc g ->
  (forall x y, 0 <= x < nr g -> 0 <= y < nc g -> ~ (r0 <= x < r1 /\ c0 <= y < c1) -> get g x y = k0) ->
  fourier_sum (aslice g r0 r1 c0 c1) ar ac
     (offr + fst (slice_offset (SBox r0 r1 c0 c1) (nr g) (nc g)))
     (offc + snd (slice_offset (SBox r0 r1 c0 c1) (nr g) (nc g))) U V
  = fourier_sum g ar ac offr offc U V.
Proof. exact (fun S R => fourier_sum_subarray S R (fun _ => k0)). Qed.
Print Assumptions C03_cropped_subarray_with_offset.

(* ... and the transforms of any collection of offset sub-arrays add up to the transform of the sum of
   their embeddings in the plane (fields inside the box [-B, B]^2) *)
Theorem C03_sum_of_subarray_transforms :
  forall (S : Scalar), is_ring S -> (Qc -> S) -> forall (fs : list (field S)) (B : Z) (ar ac U V : Qc),
  (forall f, In f fs -> (exists d, fd f = D2 d /\ 0 < nr d /\ 0 < nc d) /\
                        (let '(rmin, rmax, cmin, cmax) := fextent f in - B <= rmin /\ rmax <= B /\ - B <= cmin /\ cmax <= B)) ->
  fold_right (fun f acc =>
     (match fd f with
      | D2 a => sumZ (nr a) (fun x => sumZ (nc a) (fun y =>
          (get a x y * ke (ar * zq (x - nr a / 2 + offr f) * U + ac * zq (y - nc a / 2 + offc f) * V)%Qc)%K))
      | D0 _ => k0
      end + acc)%K) k0 fs
  = sumZ (2 * B + 1) (fun x => sumZ (2 * B + 1) (fun y =>
      (embed_sum fs (x - B)%Z (y - B)%Z * ke (ar * zq (x - B) * U + ac * zq (y - B) * V)%Qc)%K)).
Proof. exact fields_sum_is_plane_transform_explicit. Qed.
Print Assumptions C03_sum_of_subarray_transforms.

(* (b) one plane: the segmented and the monolithic description turn every wavefront into the same plane
   function (bounding boxes of the segments may overlap, their supports do not) *)
Theorem C03_plane_multiply_partition :
  forall (S : Scalar), is_ring S -> forall (Pseg Pmono : plane S) (w : pwf S) (n m : Z) (px1 px2 : option (Qc * Qc)),
  partition_of Pseg Pmono n m -> (forall f, In f (pw_data w) -> fwell f) ->
  mul_pixelscale (pl_pix Pseg) (pw_pix w) = Ok px1 -> mul_pixelscale (pl_pix Pmono) (pw_pix w) = Ok px2 ->
  exists ws wm, plane_multiply Pseg w = Ok ws /\ plane_multiply Pmono w = Ok wm /\
    pw_lam ws = pw_lam wm /\ pw_shape ws = pw_shape wm /\
    forall r c, embed_sum (pw_data ws) r c = embed_sum (pw_data wm) r c.
Proof. exact plane_multiply_partition. Qed.
Print Assumptions C03_plane_multiply_partition.

(* the multiplicity of pairwise disjoint segment masks is the indicator of their union *)
Theorem C03_disjoint_segments_cover_once :
  forall (S : Scalar), is_ring S -> forall (l : list (garr bool)) (i j : Z), disjoint_masks l ->
  @cover S l i j = kofb (existsb (fun a => mask_at a i j) l).
Proof. exact cover_disjoint. Qed.
Print Assumptions C03_disjoint_segments_cover_once.

(* chains of planes: all attributes and the plane function stay equal *)
Theorem C03_chain_partition :
  forall (S : Scalar), is_ring S -> forall (segs monos : list (plane S)),
  Forall2 (fun Ps Pm => exists n m, partition_of Ps Pm n m) segs monos ->
  forall w ws wm, (forall f, In f (pw_data w) -> fwell f) ->
  chain_multiply segs w = Ok ws -> chain_multiply monos w = Ok wm ->
  pw_lam ws = pw_lam wm /\ pw_shape ws = pw_shape wm /\ pw_pix ws = pw_pix wm /\ pw_focal ws = pw_focal wm /\
  forall r c, ec_sum (pw_data ws) r c = ec_sum (pw_data wm) r c.
Proof. exact chain_partition. Qed.
Print Assumptions C03_chain_partition.

(* ... and the monolithic chain runs whenever the segmented one does *)
Theorem C03_chain_partition_runs :
  forall (S : Scalar), is_ring S -> forall (segs monos : list (plane S)),
  Forall2 (fun Ps Pm => exists n m, partition_of Ps Pm n m) segs monos ->
  forall w ws, (forall f, In f (pw_data w) -> fwell f) ->
  chain_multiply segs w = Ok ws -> exists wm, chain_multiply monos w = Ok wm.
Proof. exact chain_partition_runs. Qed.
Print Assumptions C03_chain_partition_runs.

(* equal plane functions are indistinguishable through Wavefront.field and Wavefront.intensity,
   however the plane is cut into fields *)
Theorem C03_views_depend_on_the_sum_only :
  forall (S : Scalar), is_ring S -> forall (fs1 fs2 : list (field S)) (n m : Z), 0 < n -> 0 < m ->
  (forall f, In f fs1 -> fsized f /\ fbounded S f) -> (forall f, In f fs2 -> fsized f /\ fbounded S f) ->
  (forall r c, embed_sum fs1 r c = embed_sum fs2 r c) ->
  exists F1 F2 I1 I2, render fs1 n m = Ok F1 /\ render fs2 n m = Ok F2 /\
    intensity fs1 n m = Ok I1 /\ intensity fs2 n m = Ok I2 /\
    forall i j, 0 <= i < n -> 0 <= j < m -> get F1 i j = get F2 i j /\ get I1 i j = get I2 i j.
Proof. exact views_agree. Qed.
Print Assumptions C03_views_depend_on_the_sum_only.

(* (c) contributions landing on the same samples are added as complex amplitudes: the intensity is the
   squared modulus of the SUM of all fields at the sample, never a sum of squared moduli *)
Theorem C03_coherent_addition :
  forall (S : Scalar), is_ring S -> forall (fs : list (field S)) (out : arr S) (w : S),
  0 < nr out -> 0 < nc out -> (forall f, In f fs -> fsized f /\ fbounded S f) ->
  exists o, accumulate fs out w = Ok o /\ nr o = nr out /\ nc o = nc out /\
  forall i j, 0 <= i < nr out -> 0 <= j < nc out ->
    get o i j = (get out i j + norm2 (embed_sum fs (i - nr out / 2) (j - nc out / 2)) * w)%K.
Proof. exact accumulate_spec. Qed.
Print Assumptions C03_coherent_addition.

(* (d) propagation sees the fields only through their sum: two untilted wavefronts with equal attributes whose
   fields add up to the same plane function give the same field and intensity at every output sample, for every
   output sampling, shape, prop_shape, oversampling >= 1 and mask *)
Theorem C03_propagation_depends_on_the_sum_only :
  forall (S : Scalar), is_ring S -> kernel_laws S -> forall (sq : Qc -> S) (shift_of : field S -> Qc * Qc)
    (w1 w2 : wavefront S) (dur duc : Qc) (shape pshape : option (Z * Z)) (os : Z) (mask : option bmask)
    (dxr dxc : Qc) (Sr Sc Pr Pc : Z) (b : extent) (B : Z),
  wwl w1 = wwl w2 -> wfocal w1 = wfocal w2 -> wshape w1 = wshape w2 -> wptype w1 = wptype w2 ->
  wptype w1 <> PtNone -> wps w1 = Some (dxr, dxc) -> wps w2 = Some (dxr, dxc) ->
  (forall f, In f (wdata w1) -> shift_of f = (0%Qc, 0%Qc) /\ (exists d, fd f = D2 d /\ 0 < nr d /\ 0 < nc d) /\
     (let '(rmin, rmax, cmin, cmax) := fextent f in - B <= rmin /\ rmax <= B /\ - B <= cmin /\ cmax <= B)) ->
  (forall f, In f (wdata w2) -> shift_of f = (0%Qc, 0%Qc) /\ (exists d, fd f = D2 d /\ 0 < nr d /\ 0 < nc d) /\
     (let '(rmin, rmax, cmin, cmax) := fextent f in - B <= rmin /\ rmax <= B /\ - B <= cmin /\ cmax <= B)) ->
  (forall r c, embed_sum (wdata w1) r c = embed_sum (wdata w2) r c) ->
  match shape with None => wshape w1 | Some s => s end = (Sr, Sc) ->
  match pshape with None => (Sr, Sc) | Some p => p end = (Pr, Pc) ->
  0 < Sr -> 0 < Sc -> 0 < Pr -> 0 < Pc -> 1 <= os -> Sr * os < maxsize -> Sc * os < maxsize ->
  (forall m, mask = Some m -> mnr m = Sr * os /\ mnc m = Sc * os) ->
  mask_bbox mask (Sr * os) (Sc * os) = Ok b ->
  exists w1' w2' o1 o2 i1 i2,
    propagate_dft sq shift_of w1 dur duc shape pshape os mask = Ok w1' /\
    propagate_dft sq shift_of w2 dur duc shape pshape os mask = Ok w2' /\
    wshape w1' = (Sr * os, Sc * os) /\ wshape w2' = (Sr * os, Sc * os) /\
    wfield w1' = Ok o1 /\ wfield w2' = Ok o2 /\ nr o1 = Sr * os /\ nc o1 = Sc * os /\
    wintensity w1' = Ok i1 /\ wintensity w2' = Ok i2 /\
    forall i j, 0 <= i < Sr * os -> 0 <= j < Sc * os -> get o1 i j = get o2 i j /\ get i1 i j = get i2 i j.
Proof. exact propagate_same_plane. Qed.
Print Assumptions C03_propagation_depends_on_the_sum_only.

(* end to end: Wavefront * P1 * ... * Pk -> propagate_dft.  With every Pi given by its segment masks or by their
   union, both calls succeed and Wavefront.field and Wavefront.intensity of the results agree at every sample *)
Theorem C03_segmented_eq_monolithic :
  forall (S : Scalar), is_ring S -> kernel_laws S -> forall (sq : Qc -> S) (segs monos : list (plane S))
    (w ws wm : pwf S) (dur duc : Qc) (shape pshape : option (Z * Z)) (os : Z) (dxr dxc : Qc) (n m Sr Sc Pr Pc B : Z),
  Forall2 (fun Ps Pm => exists n0 m0, partition_of Ps Pm n0 m0) segs monos -> segs <> [] ->
  (forall f, In f (pw_data w) -> fwell f) ->
  chain_multiply segs w = Ok ws -> chain_multiply monos w = Ok wm ->
  (forall f, In f (pw_data ws) ->
     let '(rmin, rmax, cmin, cmax) := fextent f in - B <= rmin /\ rmax <= B /\ - B <= cmin /\ cmax <= B) ->
  (forall f, In f (pw_data wm) ->
     let '(rmin, rmax, cmin, cmax) := fextent f in - B <= rmin /\ rmax <= B /\ - B <= cmin /\ cmax <= B) ->
  pw_shape ws = Some (n, m) -> pw_pix ws = Some (dxr, dxc) -> pw_focal ws <> FNone ->
  match shape with None => (n, m) | Some s => s end = (Sr, Sc) ->
  match pshape with None => (Sr, Sc) | Some p => p end = (Pr, Pc) ->
  0 < Sr -> 0 < Sc -> 0 < Pr -> 0 < Pc -> 1 <= os -> Sr * os < maxsize -> Sc * os < maxsize ->
  exists v1 v2 o1 o2 i1 i2,
    chain_propagate sq segs w dur duc shape pshape os = Ok v1 /\
    chain_propagate sq monos w dur duc shape pshape os = Ok v2 /\
    wfield v1 = Ok o1 /\ wfield v2 = Ok o2 /\ nr o1 = Sr * os /\ nc o1 = Sc * os /\
    wintensity v1 = Ok i1 /\ wintensity v2 = Ok i2 /\
    forall i j, 0 <= i < Sr * os -> 0 <= j < Sc * os -> get o1 i j = get o2 i j /\ get i1 i j = get i2 i j.
Proof. exact segmented_eq_monolithic. Qed.
Print Assumptions C03_segmented_eq_monolithic.

(* the call executed by the tie also follows angular tilt carried by the fields (per-segment tilts: every
   segment is propagated into its own shifted chip, Model/Segment.v:ang_shift); on wavefronts whose fields
   carry no tilt it is the call of the theorem above *)
Theorem C03_tilt_aware_call_without_tilt :
  forall (S : Scalar) (sq : Qc -> S) (ps : list (plane S)) (w w1 : pwf S) dur duc shape pshape os,
  chain_multiply ps w = Ok w1 -> (forall f, In f (pw_data w1) -> ftilt f = []) ->
  chain_propagate_tilted sq ps w dur duc shape pshape os = chain_propagate sq ps w dur duc shape pshape os.
Proof. exact chain_propagate_tilted_untilted. Qed.
Print Assumptions C03_tilt_aware_call_without_tilt.

(* (h) the same through the FFT propagator (lentil.propagate_fft, model Model/Fft.v of property C09; [N0 x N1] is the FFT
   grid, the same for both descriptions because it is derived from pixel scales, focal length and wavelength).
   Vocabulary of Proofs/FftP.v: [accepted_shape N0 N1 shape os] - no shape given, or a positive one with
   shape * oversample inside the grid; [scratch_ok N0 N1 w scratch] - a scratch buffer at least as large as the grid, or
   none and every field inside the wavefront's (positive) shape; [shape_out] - the grid, or shape * oversample.
   Two untilted wavefronts with equal attributes whose fields add up to the same plane: same result, sample by sample,
   whatever scratch buffers are passed *)
Theorem C03_fft_depends_on_the_sum_only :
  forall (S : Scalar), is_ring S -> kernel_laws S -> (forall z : Z, @ke S (zq z) = k1) ->
  forall (sq : Qc -> S) (N0 N1 : Z) (w1 w2 : Fft.wavefront S) (du : Qc * Qc) (shape : option (Z * Z)) (os : Z)
         (sc1 sc2 : option (arr S)) (pt : Fft.ptype),
  0 < N0 -> 0 < N1 -> 0 < os -> Fft.has_tilt w1 = false -> Fft.has_tilt w2 = false ->
  Fft.wpt w1 = Fft.wpt w2 -> Fft.propagate_ptype (Fft.wpt w1) = Ok pt ->
  Fft.wpix w1 = Fft.wpix w2 -> Fft.wz w1 = Fft.wz w2 ->
  (forall f, In f (Fft.wdata w1) -> fsized f) -> (forall f, In f (Fft.wdata w2) -> fsized f) ->
  FftP.accepted_shape N0 N1 shape os -> FftP.scratch_ok S N0 N1 w1 sc1 -> FftP.scratch_ok S N0 N1 w2 sc2 ->
  (forall r c, embed_sum (Fft.wdata w1) r c = embed_sum (Fft.wdata w2) r c) ->
  exists o1 s1 o2 s2 F1 F2,
    Fft.propagate_fft_N sq N0 N1 w1 du shape os sc1 = Ok (o1, s1) /\
    Fft.propagate_fft_N sq N0 N1 w2 du shape os sc2 = Ok (o2, s2) /\
    Fft.wshape o1 = Fft.wshape o2 /\ Fft.wlam o1 = Fft.wlam o2 /\ Fft.wpt o1 = Fft.wpt o2 /\ Fft.wz o1 = Fft.wz o2 /\
    Fft.wfield o1 = Ok F1 /\ Fft.wfield o2 = Ok F2 /\ nr F1 = nr F2 /\ nc F1 = nc F2 /\
    nr F1 = fst (FftP.shape_out N0 N1 shape os) /\ nc F1 = snd (FftP.shape_out N0 N1 shape os) /\
    forall i j, 0 <= i < nr F1 -> 0 <= j < nc F1 -> get F1 i j = get F2 i j.
Proof. exact fft_same_plane. Qed.
Print Assumptions C03_fft_depends_on_the_sum_only.

(* chains of segmented pupils against the chains of their monolithic descriptions, through propagate_fft:
   both calls succeed and return the same field *)
Theorem C03_fft_segmented_eq_monolithic :
  forall (S : Scalar), is_ring S -> kernel_laws S -> (forall z : Z, @ke S (zq z) = k1) ->
  forall (sq : Qc -> S) (segs monos : list (plane S)) (w ws wm : pwf S) (N0 N1 : Z) (du : Qc * Qc)
         (shape : option (Z * Z)) (os : Z) (sc1 sc2 : option (arr S)) (n m : Z) (px : Qc * Qc) (z : Qc),
  Forall2 (fun Ps Pm => exists n0 m0, partition_of Ps Pm n0 m0) segs monos -> segs <> [] ->
  (forall f, In f (pw_data w) -> fwell f) ->
  chain_multiply segs w = Ok ws -> chain_multiply monos w = Ok wm ->
  pw_shape ws = Some (n, m) -> pw_pix ws = Some px -> pw_focal ws = FVal z ->
  (forall f, In f (pw_data ws) -> ftilt f = []) -> (forall f, In f (pw_data wm) -> ftilt f = []) ->
  0 < N0 -> 0 < N1 -> 0 < os -> FftP.accepted_shape N0 N1 shape os ->
  FftP.scratch_ok S N0 N1 (Fft.mkWf (pw_data ws) (n, m) (pw_lam ws) px z Fft.PPupil) sc1 ->
  FftP.scratch_ok S N0 N1 (Fft.mkWf (pw_data wm) (n, m) (pw_lam wm) px z Fft.PPupil) sc2 ->
  exists o1 s1 o2 s2 F1 F2,
    chain_propagate_fft sq segs w N0 N1 du shape os sc1 = Ok (o1, s1) /\
    chain_propagate_fft sq monos w N0 N1 du shape os sc2 = Ok (o2, s2) /\
    Fft.wshape o1 = Fft.wshape o2 /\ Fft.wlam o1 = Fft.wlam o2 /\ Fft.wpt o1 = Fft.wpt o2 /\ Fft.wz o1 = Fft.wz o2 /\
    Fft.wfield o1 = Ok F1 /\ Fft.wfield o2 = Ok F2 /\ nr F1 = nr F2 /\ nc F1 = nc F2 /\
    nr F1 = fst (FftP.shape_out N0 N1 shape os) /\ nc F1 = snd (FftP.shape_out N0 N1 shape os) /\
    forall i j, 0 <= i < nr F1 -> 0 <= j < nc F1 -> get F1 i j = get F2 i j.
Proof. exact fft_segmented_eq_monolithic. Qed.
Print Assumptions C03_fft_segmented_eq_monolithic.

(* (i) helper.slice_offset(slice, shape), the offset a cropped sub-array is carried with: Ellipsis and (..., :) mean
   the whole array (offset (0, 0)); any other tuple holding Ellipsis is refused with ValueError; a pair of slices gives
   centre of the box minus centre of the parent (floor conventions) *)
Theorem C03_slice_offset_outcome :
  forall (s : slice_arg) (sr sc : Z),
  match slice_offset_any s sr sc with
  | Ok o => ((s = SlEllipsis \/ s = SlEllFull) /\ o = (0, 0)) \/
            exists r0 r1 c0 c1, s = SlPair r0 r1 c0 c1 /\
              o = (r0 + (r1 - r0) / 2 - sr / 2, c0 + (c1 - c0) / 2 - sc / 2)
  | Err e => e = ValueError /\ s = SlEllOther
  end.
Proof. exact slice_offset_any_outcome. Qed.
Print Assumptions C03_slice_offset_outcome.

(* ... and that offset is the right one: the crop g[r0:r1, c0:c1] carried as a Field at slice_offset of its slice pair
   occupies exactly the samples of the box, with the values the whole array (offset (0, 0)) has there *)
Theorem C03_slice_offset_places_crop :
  forall (S : Scalar), is_ring S -> forall (g : arr S) (r0 r1 c0 c1 : Z) (o : Z * Z) (tl : list tilt) (r c : Z),
  slice_offset_any (SlPair r0 r1 c0 c1) (nr g) (nc g) = Ok o ->
  0 <= r0 -> r0 <= r1 -> r1 <= nr g -> 0 <= c0 -> c0 <= c1 -> c1 <= nc g ->
  embed (mkField (D2 (force (aslice g r0 r1 c0 c1))) (fst o) (snd o) tl) r c
  = if (r0 <=? r + nr g / 2) && (r + nr g / 2 <? r1) && (c0 <=? c + nc g / 2) && (c + nc g / 2 <? c1)
    then embed (mkField (D2 (force g)) 0 0 tl) r c else k0.
Proof. exact (fun S R => slice_offset_places_crop S). Qed.
Print Assumptions C03_slice_offset_places_crop.

(* non-vacuity: a 3x4 aperture over Z split into two segments with overlapping bounding boxes, against its
   monolithic description.  Both constructors succeed, the slices are as stated, both multiplications succeed,
   the segmented result holds two overlapping fields, the monolithic one a single field, and they render to the
   same plane; intensities add coherently: the two overlapping fields [ovA], [ovB] give |1 + 2|^2 = 9, not 1 + 4. *)
Definition exL1 : arr ZS := @mkArr ZS 3 4 (fun i j => if (i <=? 1) && (j <=? 1) then 1 else 0).
Definition exL2 : arr ZS := @mkArr ZS 3 4 (fun i j => if ((i =? 2) || (j >=? 2)) && negb ((i =? 0) && (j =? 3)) then 1 else 0).
Definition exG : arr ZS := @mkArr ZS 3 4 (fun i j => if (i =? 0) && (j =? 3) then 0 else 1).
Definition exA : arr ZS := @mkArr ZS 3 4 (fun i j => 1 + i + 2 * j).
Definition exSeg : result (plane ZS) :=
  plane_init (S := ZS) (fun x => negb (x =? 0)) (AmpA exA) (OpdS 0%Qc) (M3 3 4 [exL1; exL2]) (Pix1 1%Qc) (Some (FVal 1%Qc)) [].
Definition exMono : result (plane ZS) :=
  plane_init (S := ZS) (fun x => negb (x =? 0)) (AmpA exA) (OpdS 0%Qc) (M2 exG) (Pix1 1%Qc) (Some (FVal 1%Qc)) [].
Definition ovA : field ZS := mkField (D2 (@mkArr ZS 2 2 (fun _ _ => 1))) 0 0 [].
Definition ovB : field ZS := mkField (D2 (@mkArr ZS 2 2 (fun _ _ => 2))) 1 1 [].
Example C03_nonvacuous :
  match exSeg, exMono with
  | Ok Ps, Ok Pm =>
      pl_slices Ps = [SBox 0 2 0 2; SBox 0 3 0 4] /\ pl_slices Pm = [SBox 0 3 0 4] /\
      pl_amp Ps = pl_amp Pm /\ pl_pix Ps = pl_pix Pm /\
      match plane_multiply Ps (pwf_init (S := ZS) 1%Qc PixNone None []),
            plane_multiply Pm (pwf_init (S := ZS) 1%Qc PixNone None []) with
      | Ok ws, Ok wm =>
          length (pw_data ws) = 2%nat /\ length (pw_data wm) = 1%nat /\
          match pwf_field ws, pwf_field wm with
          | Ok (D2 a), Ok (D2 b) => tabulate a = tabulate b /\ get a 2 2 = 7 /\ get a 0 3 = 0
          | _, _ => False end
      | _, _ => False end
  | _, _ => False end /\
  match intensity [ovA; ovB] 4 4 with Ok i => get i 2 2 = 9 /\ get i 1 1 = 1 /\ get i 3 3 = 4 | Err _ => False end.
Proof. vm_compute. repeat split; reflexivity. Qed.

(* the repaired corners: a segment that is a single sample, and a partition into one segment given as a
   one-layer cube, both agree with the monolithic description (3x3 aperture over Z) *)
Definition exP1 : arr ZS := @mkArr ZS 3 3 (fun i j => if (i <=? 1) && (j <=? 1) then 1 else 0).
Definition exP2 : arr ZS := @mkArr ZS 3 3 (fun i j => if (i =? 2) && (j =? 2) then 1 else 0).     (* one sample *)
Definition exPG : arr ZS := @mkArr ZS 3 3 (fun i j => if ((i <=? 1) && (j <=? 1)) || ((i =? 2) && (j =? 2)) then 1 else 0).
Definition exPA : arr ZS := @mkArr ZS 3 3 (fun i j => 2 + i + 3 * j).
Definition mkEx (m : mraw ZS) : result (plane ZS) :=
  plane_init (S := ZS) (fun x => negb (x =? 0)) (AmpA exPA) (OpdS 0%Qc) m (Pix1 1%Qc) (Some (FVal 1%Qc)) [].
Definition fieldOf (ps : list (result (plane ZS))) : option (list ZS) :=
  match rmapM (fun x => x) ps with
  | Ok l => match chain_multiply l (pwf_init (S := ZS) 1%Qc PixNone None []) with
            | Ok w => match pwf_field w with Ok (D2 a) => Some (tabulate a) | _ => None end
            | Err _ => None end
  | Err _ => None end.
Example C03_single_sample_segment_and_one_layer_cube :
  fieldOf [mkEx (M3 3 3 [exP1; exP2])] = fieldOf [mkEx (M2 exPG)] /\
  fieldOf [mkEx (M3 3 3 [exP1; exP2]); mkEx (M3 3 3 [exP1; exP2])] = fieldOf [mkEx (M2 exPG); mkEx (M2 exPG)] /\
  fieldOf [mkEx (M3 3 3 [exPG])] = fieldOf [mkEx (M2 exPG)] /\
  fieldOf [mkEx (M2 exPG)] = Some [2; 5; 0; 3; 6; 0; 0; 0; 10].
Proof. vm_compute. repeat split; reflexivity. Qed.

(* non-vacuity of (h) and (i): the 3x4 aperture above through the FFT model on a 6x8 grid (over Z the kernel is trivial:
   every output sample is the total of the plane), segmented and monolithic, with and without a scratch buffer; and
   slice_offset on its four kinds of argument *)
Definition fftOf (rp : result (plane ZS)) (sc : option (arr ZS)) : option (list ZS) :=
  match rp with
  | Ok P => match chain_propagate_fft (S := ZS) (fun _ => 1) [P] (pwf_init (S := ZS) 1%Qc PixNone None []) 6 8
                                      (1%Qc, 1%Qc) (Some (2, 3)) 2 sc with
            | Ok (o, _) => match Fft.wfield o with Ok a => Some (tabulate a) | Err _ => None end
            | Err _ => None end
  | Err _ => None end.
Example C03_fft_and_slice_offset_nonvacuous :
  fftOf exSeg None = fftOf exMono None /\ fftOf exSeg (Some (@mkArr ZS 7 9 (fun i j => i + j))) = fftOf exMono None /\
  fftOf exMono None = Some [53; 53; 53; 53; 53; 53; 53; 53; 53; 53; 53; 53; 53; 53; 53; 53; 53; 53; 53; 53; 53; 53; 53; 53] /\
  slice_offset_any SlEllipsis 5 4 = Ok (0, 0) /\ slice_offset_any SlEllFull 5 4 = Ok (0, 0) /\
  slice_offset_any SlEllOther 5 4 = Err ValueError /\ slice_offset_any (SlPair 3 5 0 1) 5 4 = Ok (2, -2).
Proof. vm_compute. repeat split; reflexivity. Qed.
