(* C11 (translation layer, WP-T2) - the integer part of zernike_index is what the source says NOW.
   [src_zernike_index] (Gen/ZernikeSrc.v) is regenerated from the text of lentil/zernike.py by harness/gen_src.py
   on every check, with the row n (the value of the float expression int(np.ceil((-1 + np.sqrt(1 + 8*j)) / 2) - 1))
   as an argument: the ValueError for j < 1, the position in the row (k = (n+1)(n+2)/2 as an exact rational,
   r = int(j - k - 1)), the sign, the list row_m built by the loop over range(int(np.floor(n / 2))), the lookup
   row_m[r] with Python's negative indices (IndexError when out of range).  For ALL integers j and EVERY row function
   this is the model's [noll_code] - hence [noll_float] and [noll_exact] of Model/Zernike.v.
   Only statements: every proof is [exact]. *)
From LV Require Import Model.Zernike Gen.ZernikeSrc Proofs.ZernikeSrcP.

Theorem C11_src_zernike_index_is_model : forall (rowf : Z -> Z) (j : Z),
  src_zernike_index j (rowf j) = noll_code rowf j.
Proof. exact src_zernike_index_ok. Qed.
Print Assumptions C11_src_zernike_index_is_model.

(* one iteration of the loop that builds row_m *)
Theorem C11_src_zernike_index_step_is_model : forall (l : list Z) (i : Z),
  src_zernike_index_step l i = append2 l.
Proof. exact src_zernike_index_step_ok. Qed.
Print Assumptions C11_src_zernike_index_step_is_model.
