(* WP-K - composition theorems for the radiometry chain (C13 o C15 o C14; counted and axiom-checked with C13):
       Spectrum arithmetic on the common grid (C13)  ->  integrate / bin (C15),   Spectrum.to (C13) with C14's factor table
   obtained by composing the theorems of the property packages; no new model code.  Only statements; the proofs are in
   Proofs/ChainRadP.v.  Spectra are tables of exact rationals (every float is one).  C13's model (Model/Spectrum.v:
   [spectrum] = wave, value, wave unit, value unit; [spec_op OAdd s1 s2 sampling fill] = s1.add(s2, sampling, 'linear',
   fill)) and C15's (Model/SpectrumEdit.v: [SpectrumEdit.mkSp wave value], [SpectrumEdit.integrate], [SpectrumEdit.bin])
   have separate records; the result of the arithmetic is read as the table (rwave r, rvalue r) the integration methods
   work on.  [sample_on w v (fillarr f w g) g] = what a spectrum (w, v) contributes at the points of the grid g: its
   linear interpolant inside its own range, the fill value (below, above) outside (the array _interp_common builds). *)
From LV Require Import Model.UnitsBase Gen.UnitTable.
From LV Require Import Model.SpectrumEdit.
From LV Require Import Model.Spectrum Proofs.ChainRadP.
Local Open Scope Qc_scope.

(* 2a. C13 o C15: S1 + S2 for ANY sampling and ANY fill value.  On the common grid g the result holds V1 + V2, V_k
   being what S_k contributes at g (S2 first brought to S1's wavelength unit), and integrate - either rule (trapezoid,
   Simpson), any bounds (None = end of the grid) - of the result is integrate(S1 on g) + integrate(S2 on g); the three
   calls succeed or fail together. *)
Theorem Chain_radiometry_sum_integrates :
  forall (s1 s2 : spectrum) (m : sampling) (f : fillv) (r : rspectrum) (lo hi : option Qc) (rl : rule),
  spec_op OAdd s1 s2 m f = Ok r ->
  let g := rwave r in
  let V1 := sample_on (wave s1) (value s1) (fillarr f (wave s1) g) g in
  let V2 := sample_on (wave (conv s2 (wu s1))) (value (conv s2 (wu s1))) (fillarr f (wave (conv s2 (wu s1))) g) g in
  rvalue r = map XQ (map (fun p => 1 * fst p + 1 * snd p) (combine V1 V2)) /\ length V1 = length g /\ length V2 = length g /\
  match SpectrumEdit.integrate (SpectrumEdit.mkSp g V1) lo hi rl, SpectrumEdit.integrate (SpectrumEdit.mkSp g V2) lo hi rl,
        SpectrumEdit.integrate (SpectrumEdit.mkSp g (map (fun x => match x with XQ q => q | _ => 0 end) (rvalue r))) lo hi rl with
  | Ok i1, Ok i2, Ok i => i = 1 * i1 + 1 * i2
  | Err e1, Err e2, Err e3 => e1 = e2 /\ e2 = e3
  | _, _, _ => False
  end.
Proof. exact sum_integrates. Qed.
Print Assumptions Chain_radiometry_sum_integrates.

(* 2b. C13 o C15: a S1 + S2 (a S1 = the scalar product of C13_scalar_elementwise: same grid, values times a), default
   fill value 0, any sampling: the result holds a V1 + V2 on the common grid and integrates to
   a integrate(S1 on g) + integrate(S2 on g), for both rules and any bounds. *)
Theorem Chain_radiometry_scaled_sum_integrates :
  forall (s1 s2 : spectrum) (a : Qc) (m : sampling) (r : rspectrum) (lo hi : option Qc) (rl : rule),
  spec_op OAdd (mkS (wave s1) (map (fun y => y * a) (value s1)) (wu s1) (vu s1)) s2 m (FScalar 0) = Ok r ->
  let g := rwave r in
  let V1 := sample_on (wave s1) (value s1) (fillarr (FScalar 0) (wave s1) g) g in
  let V2 := sample_on (wave (conv s2 (wu s1))) (value (conv s2 (wu s1))) (fillarr (FScalar 0) (wave (conv s2 (wu s1))) g) g in
  rvalue (scalar_op OMul s1 a) = map XQ (map (fun y => y * a) (value s1)) /\
  rvalue r = map XQ (map (fun p => a * fst p + 1 * snd p) (combine V1 V2)) /\ length V1 = length g /\ length V2 = length g /\
  match SpectrumEdit.integrate (SpectrumEdit.mkSp g V1) lo hi rl, SpectrumEdit.integrate (SpectrumEdit.mkSp g V2) lo hi rl,
        SpectrumEdit.integrate (SpectrumEdit.mkSp g (map (fun x => match x with XQ q => q | _ => 0 end) (rvalue r))) lo hi rl with
  | Ok i1, Ok i2, Ok i => i = a * i1 + 1 * i2
  | Err e1, Err e2, Err e3 => e1 = e2 /\ e2 = e3
  | _, _, _ => False
  end.
Proof. exact scaled_sum_integrates. Qed.
Print Assumptions Chain_radiometry_scaled_sum_integrates.

(* 2c. ... and binning: accepted power-preserving bins (either rule, either end treatment) of a S1 + S2 add up to
   a integrate(S1 on g) + integrate(S2 on g) between the smallest and the largest bin centre - "binning then summing
   equals integrating", through the arithmetic. *)
Theorem Chain_radiometry_bins_sum_to_integral :
  forall (s1 s2 : spectrum) (a : Qc) (m : sampling) (r : rspectrum) (c : list Qc) (rl : rule) (e : endsmode) (b : list Qc),
  spec_op OAdd (mkS (wave s1) (map (fun y => y * a) (value s1)) (wu s1) (vu s1)) s2 m (FScalar 0) = Ok r ->
  SpectrumEdit.bin (SpectrumEdit.mkSp (rwave r) (map (fun x => match x with XQ q => q | _ => 0 end) (rvalue r))) c rl e true = Ok (Some b) ->
  let g := rwave r in
  let V1 := sample_on (wave s1) (value s1) (fillarr (FScalar 0) (wave s1) g) g in
  let V2 := sample_on (wave (conv s2 (wu s1))) (value (conv s2 (wu s1))) (fillarr (FScalar 0) (wave (conv s2 (wu s1))) g) g in
  exists lo hi i1 i2, qminl c = Ok lo /\ qmaxl c = Ok hi /\
    SpectrumEdit.integrate (SpectrumEdit.mkSp g V1) (Some lo) (Some hi) rl = Ok i1 /\
    SpectrumEdit.integrate (SpectrumEdit.mkSp g V2) (Some lo) (Some hi) rl = Ok i2 /\
    length b = length c /\ qsum b = a * i1 + 1 * i2.
Proof. exact scaled_sum_bins. Qed.
Print Assumptions Chain_radiometry_bins_sum_to_integral.

(* 2d. C13 (Spectrum.to) o C15 (integrate) with C14's factor law.  The factor f the C13 model multiplies the
   wavelengths by is the entry of the table C14 observes through the real unit classes (Gen/UnitTable.v, regenerated
   from the source on every C14 check) and is positive; expressing a spectrum in another wavelength unit and integrating
   between the converted bounds gives the SAME number for a density (photlam/flam/wlam: Spectrum.to divides the values by
   f) and f times it for a unitless spectrum - integration commutes with the unit conversion up to the constant factor. *)
Theorem Chain_radiometry_unit_conversion :
  forall (s : spectrum) (u : wunit) (lo hi : Qc),
  let f := ufac (wu s) u in
  f = Q2Qc (wave_factor (match wu s with UM => Wm | UUm => Wum | UNm => Wnm | UAng => Wangstrom end)
                        (match u with UM => Wm | UUm => Wum | UNm => Wnm | UAng => Wangstrom end)) /\ 0 < f /\
  exists I, SpectrumEdit.integrate (SpectrumEdit.mkSp (wave s) (value s)) (Some lo) (Some hi) Trapz = Ok I /\
    SpectrumEdit.integrate (SpectrumEdit.mkSp (wave (to_wu s u)) (value (to_wu s u))) (Some (lo * f)) (Some (hi * f)) Trapz
    = Ok (match vu s with VNone => f * I | _ => I end).
Proof. exact to_wu_integrates. Qed.
Print Assumptions Chain_radiometry_unit_conversion.

(* non-vacuity.  [1..4] + [2..6] (nm, fill 0, finest sampling): grid 1..6, values 1 3 4 7 2 4, integral 37/2 = 21/2 + 8;
   2 [1..4] + [2..6] integrates to 2 * 21/2 + 8 = 29; its power-preserving bins at centres 2..5 add up to
   integrate(2, 5) = 45/2; a flam density on 400, 500, 650 nm integrates to 30 in nm and in um, the same table taken
   as unitless to 30/1000 in um *)
Definition rdA := mkS (map zq [1; 2; 3; 4]%Z) (map zq [1; 2; 3; 5]%Z) UNm VNone.
Definition rdB := mkS (map zq [2; 3; 4; 5; 6]%Z) (map zq [1; 1; 2; 2; 4]%Z) UNm VNone.
Definition rdT (r : rspectrum) : SpectrumEdit.spectrum :=
  SpectrumEdit.mkSp (rwave r) (map (fun x => match x with XQ q => q | _ => 0 end) (rvalue r)).
Definition rdI (x : result Qc) : option Q := match x with Ok i => Some (this i) | Err _ => None end.
Example Chain_radiometry_sum_nonvacuous :
  match spec_op OAdd rdA rdB SMin (FScalar 0) with
  | Ok r => map (fun x : Qc => this x) (rwave r) = [1 # 1; 2 # 1; 3 # 1; 4 # 1; 5 # 1; 6 # 1]%Q /\
            rdI (SpectrumEdit.integrate (rdT r) None None Trapz) = Some (37 # 2)%Q /\
            rdI (SpectrumEdit.integrate (SpectrumEdit.mkSp (rwave r)
                   (sample_on (wave rdA) (value rdA) (fillarr (FScalar 0) (wave rdA) (rwave r)) (rwave r))) None None Trapz) = Some (21 # 2)%Q /\
            rdI (SpectrumEdit.integrate (SpectrumEdit.mkSp (rwave r)
                   (sample_on (wave rdB) (value rdB) (fillarr (FScalar 0) (wave rdB) (rwave r)) (rwave r))) None None Trapz) = Some (8 # 1)%Q
  | Err _ => False end.
Proof. vm_compute. repeat split; reflexivity. Qed.

Example Chain_radiometry_scaled_sum_nonvacuous :
  match spec_op OAdd (mkS (wave rdA) (map (fun y => y * zq 2) (value rdA)) (wu rdA) (vu rdA)) rdB SMin (FScalar 0) with
  | Ok r => rdI (SpectrumEdit.integrate (rdT r) None None Trapz) = Some (29 # 1)%Q /\
            rdI (SpectrumEdit.integrate (rdT r) None None Simps) <> None /\
            match SpectrumEdit.bin (rdT r) (map zq [2; 3; 4; 5]%Z) Trapz Inside true with
            | Ok (Some b) => length b = 4%nat /\ this (qsum b) = (45 # 2)%Q
            | _ => False end
  | Err _ => False end.
Proof. vm_compute. repeat split; try reflexivity; discriminate. Qed.

Example Chain_radiometry_unit_conversion_nonvacuous :
  let w := [Q2Qc 400; Q2Qc 500; Q2Qc 650] in let v := [Q2Qc (1 # 10); Q2Qc (1 # 5); Q2Qc 0] in
  this (ufac UNm UUm) = (1 # 1000)%Q /\
  rdI (SpectrumEdit.integrate (SpectrumEdit.mkSp w v) (Some (Q2Qc 400)) (Some (Q2Qc 650)) Trapz) = Some (30 # 1)%Q /\
  rdI (SpectrumEdit.integrate (SpectrumEdit.mkSp (wave (to_wu (mkS w v UNm VFlam) UUm)) (value (to_wu (mkS w v UNm VFlam) UUm)))
         (Some (Q2Qc 400 * ufac UNm UUm)) (Some (Q2Qc 650 * ufac UNm UUm)) Trapz) = Some (30 # 1)%Q /\
  rdI (SpectrumEdit.integrate (SpectrumEdit.mkSp (wave (to_wu (mkS w v UNm VNone) UUm)) (value (to_wu (mkS w v UNm VNone) UUm)))
         (Some (Q2Qc 400 * ufac UNm UUm)) (Some (Q2Qc 650 * ufac UNm UUm)) Trapz) = Some (3 # 100)%Q.
Proof. vm_compute. repeat split; reflexivity. Qed.
