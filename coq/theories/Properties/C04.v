(* C04 - Tilt carried as metadata is optically identical to tilt in the OPD.
   Model: Model/Tilt.v (plane.py Tilt/DispersiveTilt/ptt_vector/fit_tilt/multiply, field.py Field.shift,
   wavefront.py Wavefront(tilt=), propagate.py fix/sub-pixel split and the per-field window), after the
   fix: commits 367bada and d811417.  Floats are rationals (Qc); [S] ranges over every commutative ring with
   a kernel e = [ke] with e(a+b) = e a * e b (over C: e t = exp(-2 pi i t)); the least-squares statements are
   over the reals ([RS]).  [qsum] is the sum of a list of rationals. *)
From Coq Require Import Permutation Reals.
From LV Require Import Lib.Cis Model.Tilt Proofs.TiltP Proofs.TiltLsqP Proofs.TiltEntryP.
Local Open Scope Qc_scope.

(* (a) Field.shift of angular tilts Tilt(x=a_k, y=b_k): (row, column) displacement in oversampled output
   samples = ( z*sum(a)*os/du_row , -z*sum(b)*os/du_col ): +x tilt moves the image to larger row index,
   +y tilt to smaller column index, each axis with its own pixel size; 'xy' indexing returns (x, y) *)
Theorem C04_field_shift_formula :
  forall (l : list (Qc * Qc)) (z wl dur duc os : Qc), dur <> 0 -> duc <> 0 ->
  field_shift (map (fun ab => mk_tilt (fst ab) (snd ab)) l) z wl (Some (dur, duc)) os IJ
  = Ok (z * qsum (map fst l) * os / dur, - (z * qsum (map snd l) * os / duc))
  /\ field_shift (map (fun ab => mk_tilt (fst ab) (snd ab)) l) z wl (Some (dur, duc)) os XY
  = Ok (- (z * qsum (map snd l) * os / duc), - (z * qsum (map fst l) * os / dur)).
Proof. exact (fun l z wl dur duc os _ _ => conj (field_shift_formula l z wl dur duc os) (field_shift_formula_xy l z wl dur duc os)). Qed.
Print Assumptions C04_field_shift_formula.

(* (b) any list of angular and first-order dispersive elements: the folded displacement is the sum of the
   displacements each element produces alone, and neither it nor Field.shift depends on the order *)
Theorem C04_displacements_add_in_any_order :
  forall (tl tl' : list tilt) (z wl : Qc),
  fold_tilts tl z wl = (qsum (map (fun t => fst (tilt_shift t 0 0 z wl)) tl),
                        qsum (map (fun t => snd (tilt_shift t 0 0 z wl)) tl))
  /\ (Permutation tl tl' ->
      fold_tilts tl z wl = fold_tilts tl' z wl
      /\ forall ps os ix, field_shift tl z wl ps os ix = field_shift tl' z wl ps os ix).
Proof.
  exact (fun tl tl' z wl => conj (fold_tilts_sum tl z wl)
           (fun H => conj (fold_tilts_perm tl tl' z wl H) (fun ps os ix => field_shift_perm tl tl' z wl ps os ix H))).
Qed.
Print Assumptions C04_displacements_add_in_any_order.

(* ... including where Tilt / DispersiveTilt planes stand in the chain relative to the masked (segmented)
   plane: every segment's field receives all of them *)
Theorem C04_chain_order_irrelevant :
  forall (w0 pre post pre' post' : list tilt) (size : nat) (pt : list tilt) z wl ps os ix,
  Permutation (pre ++ post) (pre' ++ post') ->
  map (fun tl => field_shift tl z wl ps os ix) (chain_tilts w0 (map CTilt pre ++ CPlane size pt :: map CTilt post))
  = map (fun tl => field_shift tl z wl ps os ix) (chain_tilts w0 (map CTilt pre' ++ CPlane size pt :: map CTilt post')).
Proof. exact chain_order_irrelevant. Qed.
Print Assumptions C04_chain_order_irrelevant.

(* (c) multiplying the pupil by the phasor exp(+2 pi i opd/lambda) of the OPD ramp a*X*dx_r - b*Y*dx_c that
   Tilt(x=a, y=b) stands for equals shifting the output coordinates of the defining Fourier sum by exactly the
   (row, column) shift Field.shift reports for that Tilt, with alpha = dx*du/(lambda*z*os) per axis *)
Theorem C04_ramp_is_shift :
  forall (S : Scalar), is_ring S -> kernel_laws S ->
  forall (f : arr S) (a b dxr dxc dur duc wl z os : Qc) (offr offc : Z) (U V : Qc),
  dur <> 0 -> duc <> 0 -> wl <> 0 -> z <> 0 -> os <> 0 ->
  exists sr sc,
    field_shift [mk_tilt a b] z wl (Some (dur, duc)) os IJ = Ok (sr, sc)
    /\ sr = z * a * os / dur /\ sc = - (z * b * os / duc)
    /\ fourier_sum (mkArr (nr f) (nc f) (fun x y =>
          (get f x y * ke (- (opd_ramp a b dxr dxc (x - nr f / 2 + offr) (y - nc f / 2 + offc) / wl)))%K))
         (dft_alpha dxr dur wl z os) (dft_alpha dxc duc wl z os) offr offc U V
       = fourier_sum f (dft_alpha dxr dur wl z os) (dft_alpha dxc duc wl z os) offr offc (U - sr) (V - sc).
Proof. exact tilt_metadata_equals_ramp. Qed.
Print Assumptions C04_ramp_is_shift.

(* the same for lentil's dft2: ramp phasor in the input = the shift added to dft2's shift argument *)
Theorem C04_dft2_ramp_is_shift :
  forall (S : Scalar), is_ring S -> kernel_laws S -> forall (sq : Qc -> S)
         (f : arr S) (a b dxr dxc dur duc wl z os : Qc) (offr offc M N : Z) (shr shc : Qc) (unitary : bool) (u v : Z),
  dur <> 0 -> duc <> 0 -> wl <> 0 -> z <> 0 -> os <> 0 -> (0 <= u < M)%Z -> (0 <= v < N)%Z ->
  get (dft2 sq (mkArr (nr f) (nc f) (fun x y =>
          (get f x y * ke (- (opd_ramp a b dxr dxc (x - nr f / 2 + offr) (y - nc f / 2 + offc) / wl)))%K))
         (dft_alpha dxr dur wl z os) (dft_alpha dxc duc wl z os) M N shr shc offr offc unitary) u v
  = get (dft2 sq f (dft_alpha dxr dur wl z os) (dft_alpha dxc duc wl z os) M N
           (shr + z * a * os / dur) (shc + - (z * b * os / duc)) offr offc unitary) u v.
Proof. exact dft2_ramp_is_shift. Qed.
Print Assumptions C04_dft2_ramp_is_shift.

(* (d) np.fix / sub-pixel split: s = fix(s) + r, |r| < 1, r has the sign of s; nothing is dropped *)
Theorem C04_fix_subpx_split :
  forall s : Qc,
  s = zq (fst (fix_subpx s)) + snd (fix_subpx s)
  /\ - (1) < snd (fix_subpx s) /\ snd (fix_subpx s) < 1
  /\ (0 <= s -> 0 <= snd (fix_subpx s)) /\ (s <= 0 -> snd (fix_subpx s) <= 0).
Proof. exact fix_subpx_split. Qed.
Print Assumptions C04_fix_subpx_split.

(* what propagate_dft evaluates for a field with tilt shift (sr, sc): the output field covers the output box
   intersected with the propagation window centred on fix(shift), and its sample (a, b) - plane coordinate
   (a + rmin, b + cmin) - is the defining sum at that coordinate minus the complete shift (times the unitary
   factor): by C04_ramp_is_shift the same value the OPD-ramp representation has at that sample *)
Theorem C04_propagate_tilt_samples :
  forall (S : Scalar), is_ring S -> kernel_laws S -> forall (sq : Qc -> S)
         (f : arr S) (ar ac : Qc) (offr offc : Z) (oe : extent) (Pr Pc : Z) (sr sc : Qc)
         (Ir Ic isr isc : Z) (shr shc : Qc) (a b : Z),
  (0 < Pr)%Z -> (0 < Pc)%Z ->
  tilted_window oe Pr Pc sr sc = Some ((Ir, Ic), (isr, isc), (shr, shc)) ->
  (0 <= a < Ir)%Z -> (0 <= b < Ic)%Z ->
  let ie := intersection_extent oe (array_extent Pr Pc (qfix sr) (qfix sc)) in
  array_extent Ir Ic isr isc = ie
  /\ get (dft2 sq f ar ac Ir Ic shr shc offr offc true) a b
     = (fourier_sum f ar ac offr offc (zq (a + fst (fst (fst ie))) - sr) (zq (b + snd (fst ie)) - sc)
        * sq (qabs (ar * ac)))%K.
Proof.
  exact (fun S R Kn sq f ar ac offr offc oe Pr Pc sr sc Ir Ic isr isc shr shc a b HPr HPc Hw Ha Hb =>
    conj (proj1 (tilted_window_samples oe Pr Pc sr sc Ir Ic isr isc shr shc HPr HPc Hw))
         (propagate_tilt_samples S R Kn sq f ar ac offr offc oe Pr Pc sr sc Ir Ic isr isc shr shc a b HPr HPc Hw Ha Hb)).
Qed.
Print Assumptions C04_propagate_tilt_samples.

(* the first sentence of the property at the level of the model: the OPD-ramp representation (no metadata)
   and the metadata representation - a Tilt(x=a, y=b) plane anywhere in the chain, or Wavefront(tilt=[a, b]),
   which wraps the same Tilt - give the same value at every plane coordinate both evaluate, whatever output box
   and propagation shape each uses.  (For the fit_tilt representation see C04_fit_recovers_ramp.) *)
Theorem C04_representations_agree :
  forall (S : Scalar), is_ring S -> kernel_laws S -> forall (sq : Qc -> S)
    (f : arr S) (a b dxr dxc dur duc wl z os : Qc) (offr offc : Z)
    (oe : extent) (Pr Pc Ir Ic isr isc : Z) (shr shc : Qc)
    (oe' : extent) (Pr' Pc' Ir' Ic' isr' isc' : Z) (shr' shc' sr sc : Qc) (i j i' j' : Z),
  dur <> 0 -> duc <> 0 -> wl <> 0 -> z <> 0 -> os <> 0 ->
  (0 < Pr)%Z -> (0 < Pc)%Z -> (0 < Pr')%Z -> (0 < Pc')%Z ->
  tilted_window oe Pr Pc 0 0 = Some ((Ir, Ic), (isr, isc), (shr, shc)) ->
  field_shift [mk_tilt a b] z wl (Some (dur, duc)) os IJ = Ok (sr, sc) ->
  tilted_window oe' Pr' Pc' sr sc = Some ((Ir', Ic'), (isr', isc'), (shr', shc')) ->
  (0 <= i < Ir)%Z -> (0 <= j < Ic)%Z -> (0 <= i' < Ir')%Z -> (0 <= j' < Ic')%Z ->
  let ie := intersection_extent oe (array_extent Pr Pc (qfix 0) (qfix 0)) in
  let ie' := intersection_extent oe' (array_extent Pr' Pc' (qfix sr) (qfix sc)) in
  (i + fst (fst (fst ie)) = i' + fst (fst (fst ie')))%Z -> (j + snd (fst ie) = j' + snd (fst ie'))%Z ->
  wavefront_tilt (Some [a; b]) = Ok [mk_tilt a b]
  /\ get (dft2 sq (mkArr (nr f) (nc f) (fun x y =>
          (get f x y * ke (- (opd_ramp a b dxr dxc (x - nr f / 2 + offr) (y - nc f / 2 + offc) / wl)))%K))
         (dft_alpha dxr dur wl z os) (dft_alpha dxc duc wl z os) Ir Ic shr shc offr offc true) i j
     = get (dft2 sq f (dft_alpha dxr dur wl z os) (dft_alpha dxc duc wl z os) Ir' Ic' shr' shc' offr offc true) i' j'.
Proof.
  exact (fun S R Kn sq f a b dxr dxc dur duc wl z os offr offc oe Pr Pc Ir Ic isr isc shr shc
             oe' Pr' Pc' Ir' Ic' isr' isc' shr' shc' sr sc i j i' j' H1 H2 H3 H4 H5 P1 P2 P3 P4 W1 Hs W2 Hi Hj Hi' Hj' Er Ec =>
         conj (wavefront_tilt_is_tilt_plane a b)
           (representations_agree S R Kn sq f a b dxr dxc dur duc wl z os offr offc
             oe Pr Pc Ir Ic isr isc shr shc oe' Pr' Pc' Ir' Ic' isr' isc' shr' shc' sr sc i j i' j'
             H1 H2 H3 H4 H5 P1 P2 P3 P4 W1 Hs W2 Hi Hj Hi' Hj' Er Ec)).
Qed.
Print Assumptions C04_representations_agree.

(* (e) fit_tilt on a (segment) mask, over the reals.  b = masked basis {1, r*dx_r, -c*dx_c} (ptt_vector);
   t = what np.linalg.lstsq returns (contract: a solution of the normal equations).  If the masked basis is
   linearly independent: t is the only solution and the unique least-squares minimiser; the new OPD has
   least-squares coefficients (t0, 0, 0) - piston kept, tip/tilt removed exactly; new OPD + ramp of the
   recorded Tilt(x=t1, y=t2) = old OPD on the mask; off the mask the OPD is untouched *)
Theorem C04_fit_tilt_lsq :
  forall (dxr dxc : R) (mask opd : arr RS) (t : R * R * R),
  let m := nr opd in let n := nc opd in
  let b := ptt_masked (S := RS) m n dxr dxc mask in
  (forall d : Z -> R, (forall i j, (0 <= i < m)%Z -> (0 <= j < n)%Z -> lin (S := RS) 3 b d i j = 0%R) ->
                      forall k, (0 <= k < 3)%Z -> d k = 0%R) ->
  NE (S := RS) m n 3 b (cof t) (get opd) ->
  (forall t', NE (S := RS) m n 3 b (cof t') (get opd) -> t' = t)
  /\ (forall c', (sqerr (S := RS) m n 3 b (cof t) (get opd) <= sqerr (S := RS) m n 3 b c' (get opd))%R)
  /\ (forall t', (sqerr (S := RS) m n 3 b (cof t') (get opd) <= sqerr (S := RS) m n 3 b (cof t) (get opd))%R -> t' = t)
  /\ (forall t', NE (S := RS) m n 3 b (cof t') (get (fit_mono (S := RS) dxr dxc mask opd t)) -> t' = (fst (fst t), 0%R, 0%R))
  /\ (forall i j, get mask i j = 1%R ->
        (get (fit_mono (S := RS) dxr dxc mask opd t) i j
         + ramp_s (S := RS) (snd (fst t)) (snd t) dxr dxc (i - m / 2) (j - n / 2))%R = get opd i j)
  /\ (forall i j, get mask i j = 0%R -> get (fit_mono (S := RS) dxr dxc mask opd t) i j = get opd i j).
Proof. exact fit_tilt_lsq. Qed.
Print Assumptions C04_fit_tilt_lsq.

(* the fourth representation: fitting an OPD that is piston + the ramp of Tilt(x=a, y=b) on the mask records
   exactly (a, b) (and piston p) *)
Theorem C04_fit_recovers_ramp :
  forall (dxr dxc p a c : R) (mask opd : arr RS) (t : R * R * R),
  let m := nr opd in let n := nc opd in
  let b := ptt_masked (S := RS) m n dxr dxc mask in
  (forall d : Z -> R, (forall i j, (0 <= i < m)%Z -> (0 <= j < n)%Z -> lin (S := RS) 3 b d i j = 0%R) ->
                      forall k, (0 <= k < 3)%Z -> d k = 0%R) ->
  (forall i j, get mask i j = 0%R \/ get mask i j = 1%R) ->
  (forall i j, get mask i j = 1%R -> get opd i j = (p + ramp_s (S := RS) a c dxr dxc (i - m / 2) (j - n / 2))%R) ->
  NE (S := RS) m n 3 b (cof t) (get opd) ->
  t = (p, a, c).
Proof. exact fit_recovers_ramp. Qed.
Print Assumptions C04_fit_recovers_ramp.

(* segmented planes (any ring): on a sample covered by exactly one segment mask, new OPD + ramp of that
   segment's recorded tilt = old OPD *)
Theorem C04_fit_segmented_on_mask :
  forall (S : Scalar), is_ring S ->
  forall (dxr dxc : S) (opd : arr S) (masks : list (arr S)) (ts : list (S * S * S)) l1 l2 mk t i j,
  combine masks ts = l1 ++ (mk, t) :: l2 ->
  get mk i j = k1 ->
  (forall mt, In mt (l1 ++ l2) -> get (fst mt) i j = k0) ->
  (get (fit_seg dxr dxc masks opd ts) i j
   + ramp_s (snd (fst t)) (snd t) dxr dxc (i - nr opd / 2) (j - nc opd / 2))%K = get opd i j.
Proof. exact (fun S R dxr dxc opd => fit_seg_on_mask S R dxr dxc opd). Qed.
Print Assumptions C04_fit_segmented_on_mask.

(* the executed model's fit (rational Cramer solver, validated) returns a solution of the normal equations,
   records Tilt(x=t1, y=t2) and subtracts the masked ramp *)
Theorem C04_executable_fit_solves_normal_equations :
  forall (dxr dxc : Qc) (mask opd : arr QS) (tl : list tilt) (p' : qplane),
  fit_tilt (mkQPlane (Some (dxr, dxc)) [mask] (Some opd) tl) = Ok p' ->
  exists t : Qc * Qc * Qc,
    NE (S := QS) (nr opd) (nc opd) 3 (ptt_masked (S := QS) (nr opd) (nc opd) dxr dxc mask) (cof t) (get opd)
    /\ qp_tilt p' = tl ++ [mk_tilt (snd (fst t)) (snd t)]
    /\ qp_opd p' = Some (force (fit_mono (S := QS) dxr dxc mask opd t)).
Proof. exact fit_tilt_mono_spec. Qed.
Print Assumptions C04_executable_fit_solves_normal_equations.

(* (f) first-order DispersiveTilt; root = sqrt(1 + trace[0]^2) enters through its defining property.
   The displacement (x, y) lies on y = polyval(trace, x), at arc length |d| from the trace origin (0, trace[1])
   (squared: x^2 + (y - t1)^2 = d^2, on the side given by the sign of d), where polyval(dispersion, d) = lambda *)
Theorem C04_dispersive_first_order :
  forall (t0 t1 d0 d1 root wl z : Qc), d0 <> 0 -> root * root = 1 + t0 * t0 ->
  let xy := tilt_shift (TiltDisp t0 t1 d0 d1 root) 0 0 z wl in
  let d := (wl - d1) / d0 in
  snd xy = t0 * fst xy + t1
  /\ fst xy * fst xy + (snd xy - t1) * (snd xy - t1) = d * d
  /\ d0 * d + d1 = wl
  /\ fst xy * root = d.
Proof. exact dispersive_first_order_q. Qed.
Print Assumptions C04_dispersive_first_order.

(* (g) any history  fit, (OPD update, fit)*  of a plane with [size] segments: plane.tilt is a concatenation of
   1 + #updates blocks of [size] entries; segment n's field receives entry n of every block
   (self.tilt[n::self.size]), and propagation sees that list only through its folded sum *)
Theorem C04_repeated_fit_accumulates :
  forall (p : qplane) (ds : list (arr QS)) (p' : qplane),
  qp_opd p <> None -> qp_tilt p = [] -> fit_history p ds = Ok p' ->
  let size := length (qp_masks p) in
  exists blocks : list (list tilt),
    qp_tilt p' = concat blocks /\ length blocks = Datatypes.S (length ds)
    /\ Forall (fun b => length b = size) blocks
    /\ forall n, (n < size)%nat ->
         stride n size (qp_tilt p') = map (fun b => nth n b (TiltAng 0 0)) blocks
         /\ forall w tl' z wl ps os ix,
              fold_tilts tl' z wl = fold_tilts (stride n size (qp_tilt p')) z wl ->
              field_shift (w ++ tl') z wl ps os ix = field_shift (w ++ stride n size (qp_tilt p')) z wl ps os ix.
Proof. exact repeated_fit_accumulates. Qed.
Print Assumptions C04_repeated_fit_accumulates.

(* non-vacuity: the independence hypothesis of the fit theorems holds for a full 2x2 mask with unit pixels,
   and the root hypothesis of the dispersive theorem for trace slope 3/4 *)
Example C04_nonvacuous :
  (forall d : Z -> R,
     (forall i j, (0 <= i < 2)%Z -> (0 <= j < 2)%Z ->
        lin (S := RS) 3 (ptt_masked (S := RS) 2 2 1%R 1%R (mkArr (S := RS) 2 2 (fun _ _ => 1%R))) d i j = 0%R) ->
     forall k, (0 <= k < 3)%Z -> d k = 0%R)
  /\ (Q2Qc (5 # 4)) * (Q2Qc (5 # 4)) = 1 + (Q2Qc (3 # 4)) * (Q2Qc (3 # 4)).
Proof. exact nonvacuous_example. Qed.

(* ==================================================================================================
   Entry points, refusal paths and early returns (which calls are refused, with which exception, and what
   stays untouched)
   ================================================================================================== *)

(* Field.shift raises ValueError exactly for an unknown indexing or a missing pixel scale, and for nothing else *)
Theorem C04_field_shift_refusals :
  forall (tl : list tilt) (z wl : Qc) (ps : option (Qc * Qc)) (os : Qc) (ix : indexing),
  (forall e, field_shift tl z wl ps os ix = Err e -> e = ValueError /\ (ix = BadIndexing \/ ps = None))
  /\ ((ix = BadIndexing \/ ps = None) -> field_shift tl z wl ps os ix = Err ValueError)
  /\ (ix <> BadIndexing -> forall pr pc, ps = Some (pr, pc) -> exists s, field_shift tl z wl ps os ix = Ok s).
Proof. exact field_shift_refusals. Qed.
Print Assumptions C04_field_shift_refusals.
Example C04_field_shift_refusals_nonvacuous :
  field_shift [mk_tilt (zq 1) (zq 2)] (zq 8) (zq 1) None (zq 2) IJ = Err ValueError
  /\ field_shift [mk_tilt (zq 1) (zq 2)] (zq 8) (zq 1) (Some (zq 1, zq 2)) (zq 2) BadIndexing = Err ValueError
  /\ field_shift [mk_tilt (zq 1) (zq 2)] (zq 8) (zq 1) (Some (zq 1, zq 2)) (zq 2) IJ = Ok (zq 16, zq (-16)).
Proof. exact ex_field_shift_refused. Qed.

(* Wavefront(tilt=...): no tilt bookkeeping for None, one Tilt(x=rx, y=ry) for a pair, ValueError for any other length *)
Theorem C04_wavefront_tilt_entry :
  forall t : option (list Qc),
  match t with
  | None => wavefront_tilt t = Ok []
  | Some l => (length l = 2%nat -> exists rx ry, l = [rx; ry] /\ wavefront_tilt t = Ok [mk_tilt rx ry])
              /\ (length l <> 2%nat -> wavefront_tilt t = Err ValueError)
  end.
Proof. exact wavefront_tilt_spec. Qed.
Print Assumptions C04_wavefront_tilt_entry.
Example C04_wavefront_tilt_entry_nonvacuous :
  wavefront_tilt (Some [zq 1]) = Err ValueError /\ wavefront_tilt (Some [zq 1; zq 2]) = Ok [TiltAng (zq 2) (zq 1)].
Proof. exact ex_wavefront_tilt. Qed.

(* Plane.multiply's self.tilt[n::self.size] for ANY tilt list (also one that is not a whole number of fits):
   entry k of what segment n receives is entry n + k*size of the plane's list; nothing else is received *)
Theorem C04_segment_tilt_slice :
  forall (A : Type) (size : nat), (1 <= size)%nat ->
  forall (l : list A) (n k : nat), nth_error (stride n size l) k = nth_error l (n + k * size).
Proof. exact @stride_spec. Qed.
Print Assumptions C04_segment_tilt_slice.
Example C04_segment_tilt_slice_nonvacuous :
  stride 1 2 [10; 11; 12; 13; 14]%Z = [11; 13]%Z /\ stride 0 3 [10; 11; 12; 13; 14]%Z = [10; 13]%Z.
Proof. exact ex_stride. Qed.

(* propagate_fft (which cannot honour tilt bookkeeping) raises NotImplementedError exactly when some field carries a
   non-empty tilt list, so tilt metadata is never silently dropped; for the chain wavefront-tilt, Tilt planes, one masked
   plane with [size] segments, Tilt planes: refused iff some segment's list is non-empty - in particular whenever the
   wavefront has a tilt or any Tilt/DispersiveTilt plane is present (even of zero angle), accepted for an untilted chain *)
Theorem C04_propagate_fft_guard :
  forall (w0 pre : list tilt) (size : nat) (pt post : list tilt),
  (forall fields : list (list tilt),
     (fft_guard fields = Err NotImplementedErr <-> exists tl, In tl fields /\ tl <> [])
     /\ (fft_guard fields = Ok tt <-> forall tl, In tl fields -> tl = []))
  /\ (fft_guard (chain_tilts w0 (map CTilt pre ++ CPlane size pt :: map CTilt post)) = Err NotImplementedErr
      <-> exists n, (n < size)%nat /\ ((w0 ++ pre) ++ stride n size pt) ++ post <> [])
  /\ ((0 < size)%nat -> w0 ++ pre ++ post <> [] ->
      fft_guard (chain_tilts w0 (map CTilt pre ++ CPlane size pt :: map CTilt post)) = Err NotImplementedErr)
  /\ fft_guard (chain_tilts [] (map CTilt [] ++ CPlane size [] :: map CTilt [])) = Ok tt.
Proof.
  exact (fun w0 pre size pt post =>
    conj fft_guard_spec (conj (fft_guard_chain w0 pre size pt post)
      (conj (fft_guard_any_tilt w0 pre size pt post) (fft_guard_untilted size)))).
Qed.
Print Assumptions C04_propagate_fft_guard.
Example C04_propagate_fft_guard_nonvacuous :
  fft_guard (chain_tilts [] (map CTilt [] ++ CPlane 2 [] :: map CTilt [mk_tilt (zq 0) (zq 0)])) = Err NotImplementedErr
  /\ fft_guard (chain_tilts [] (map CTilt [] ++ CPlane 2 [] :: map CTilt [])) = Ok tt.
Proof. exact ex_fft_guard. Qed.

(* DispersiveTilt(trace, dispersion): AssertionError unless both polynomials have at least two coefficients; the
   modelled (analytic) element exactly when both have order 1; every other order goes to the numeric branch *)
Theorem C04_dispersive_constructor :
  forall (trace disp : list Qc) (root : Qc),
  (mk_disp trace disp root = DispRefused <-> (length trace < 2)%nat \/ (length disp < 2)%nat)
  /\ (forall t, mk_disp trace disp root = DispFirst t <->
        exists t0 t1 d0 d1, trace = [t0; t1] /\ disp = [d0; d1] /\ t = TiltDisp t0 t1 d0 d1 root)
  /\ (mk_disp trace disp root = DispHigher <->
        (2 <= length trace)%nat /\ (2 <= length disp)%nat /\ (2 < length trace \/ 2 < length disp)%nat).
Proof. exact mk_disp_spec. Qed.
Print Assumptions C04_dispersive_constructor.
Example C04_dispersive_constructor_nonvacuous :
  mk_disp [zq 1] [zq 1; zq 2] (zq 1) = DispRefused
  /\ mk_disp [zq 0; zq 1] [zq 1; zq 2] (zq 1) = DispFirst (TiltDisp (zq 0) (zq 1) (zq 1) (zq 2) (zq 1))
  /\ mk_disp [zq 1; zq 0; zq 1] [zq 1; zq 2] (zq 1) = DispHigher.
Proof. exact ex_mk_disp. Qed.

(* the entry of fit_tilt: Image planes and planes without a 2-d mask come back untouched whatever else they hold;
   otherwise a missing pixelscale is refused with ValueError (before the OPD is looked at), an OPD of size 1 is handed
   back as is, and in every other case the result is Plane.fit_tilt's - the receiver keeping its OPD and tilt list
   unless inplace.  The executable fit itself fails only with ValueError (no pixelscale, or a rank-deficient basis) *)
Theorem C04_fit_tilt_entry :
  forall (k : pkind) (has_mask inplace : bool) (p : qplane),
  (k = KImage \/ has_mask = false -> fit_tilt_call k has_mask inplace p = Ok (p, p))
  /\ (k <> KImage -> has_mask = true ->
      (qp_ps p = None -> fit_tilt_call k has_mask inplace p = Err ValueError)
      /\ (qp_ps p <> None -> qp_opd p = None -> fit_tilt_call k has_mask inplace p = Ok (p, p))
      /\ (forall q r, fit_tilt_call k has_mask inplace p = Ok (q, r) ->
            fit_tilt p = Ok q /\ r = (if inplace then q else p))
      /\ (forall e, fit_tilt_call k has_mask inplace p = Err e -> fit_tilt p = Err e))
  /\ (forall e, fit_tilt p = Err e -> e = ValueError).
Proof. exact (fun k hm ip p => let '(conj a b) := fit_tilt_call_spec k hm ip p in conj a (conj b (fit_tilt_errors p))). Qed.
Print Assumptions C04_fit_tilt_entry.
Example C04_fit_tilt_entry_nonvacuous :
  fit_tilt_call KImage true false ex_plane = Ok (ex_plane, ex_plane)
  /\ (exists p', fit_tilt_call KPupil true false ex_plane = Ok (p', ex_plane) /\ qp_tilt p' = [mk_tilt (zq 3) (zq 1)])
  /\ fit_tilt_call KPupil true false (mkQPlane None (qp_masks ex_plane) (qp_opd ex_plane) []) = Err ValueError.
Proof. exact ex_fit_tilt_call. Qed.

(* the validated rational solver behind the executable fit refuses exactly the singular 3x3 systems; its own
   validation never fails *)
Theorem C04_solver_complete :
  forall (G : Z -> Z -> Qc) (r : Z -> Qc),
  let D := det3 (G 0 0)%Z (G 0 1)%Z (G 0 2)%Z (G 1 0)%Z (G 1 1)%Z (G 1 2)%Z (G 2 0)%Z (G 2 1)%Z (G 2 2)%Z in
  (D = 0 -> solve3 G r = Err ValueError) /\ (D <> 0 -> exists t, solve3 G r = Ok t).
Proof. exact solve3_complete. Qed.
Print Assumptions C04_solver_complete.
Example C04_solver_complete_nonvacuous :
  solve3 (fun i j => if (i =? j)%Z then zq 2 else zq 0) (fun i => zq (2 * i)) = Ok (zq 0, zq 1, zq 2)
  /\ solve3 (fun i j => zq 1) (fun i => zq 1) = Err ValueError.
Proof. exact ex_solve3. Qed.

(* (e) for segmented planes, over the reals, segment by segment: [mk] one segment's mask with recorded coefficients [t]
   (what lstsq returned for that segment's masked basis), the masks being 0/1 and disjoint on the grid.  If the segment's
   masked basis is independent: t is the unique solution; the NEW whole-plane OPD has least-squares coefficients
   (t0, 0, 0) on that segment - its piston kept, its tip/tilt removed exactly; and new OPD + ramp of the recorded
   Tilt(x=t1, y=t2) = old OPD on the segment *)
Theorem C04_fit_segmented_lsq :
  forall (dxr dxc : R) (opd : arr RS) (masks : list (arr RS)) (ts : list (R * R * R)) l1 l2 mk (t : R * R * R),
  let m := nr opd in let n := nc opd in
  let b := ptt_masked (S := RS) m n dxr dxc mk in
  combine masks ts = l1 ++ (mk, t) :: l2 ->
  (forall i j, (0 <= i < m)%Z -> (0 <= j < n)%Z ->
     get mk i j = 0%R \/ (get mk i j = 1%R /\ forall mt, In mt (l1 ++ l2) -> get (fst mt) i j = 0%R)) ->
  (forall d : Z -> R, (forall i j, (0 <= i < m)%Z -> (0 <= j < n)%Z -> lin (S := RS) 3 b d i j = 0%R) ->
                      forall k, (0 <= k < 3)%Z -> d k = 0%R) ->
  NE (S := RS) m n 3 b (cof t) (get opd) ->
  (forall t', NE (S := RS) m n 3 b (cof t') (get opd) -> t' = t)
  /\ (forall t', NE (S := RS) m n 3 b (cof t') (get (fit_seg (S := RS) dxr dxc masks opd ts)) -> t' = (fst (fst t), 0%R, 0%R))
  /\ (forall i j, (0 <= i < m)%Z -> (0 <= j < n)%Z -> get mk i j = 1%R ->
        (get (fit_seg (S := RS) dxr dxc masks opd ts) i j
         + ramp_s (S := RS) (snd (fst t)) (snd t) dxr dxc (i - m / 2) (j - n / 2))%R = get opd i j).
Proof. exact fit_seg_lsq. Qed.
Print Assumptions C04_fit_segmented_lsq.
Example C04_fit_segmented_lsq_nonvacuous :
  forall tA tB : R * R * R,
  (forall d : Z -> R,
     (forall i j, (0 <= i < 2)%Z -> (0 <= j < 4)%Z -> lin (S := RS) 3 (ptt_masked (S := RS) 2 4 1%R 1%R ex_maskA) d i j = 0%R) ->
     forall k, (0 <= k < 3)%Z -> d k = 0%R)
  /\ (forall i j, (0 <= i < 2)%Z -> (0 <= j < 4)%Z ->
        get ex_maskA i j = 0%R \/ (get ex_maskA i j = 1%R /\ forall mt, In mt ([] ++ [(ex_maskB, tB)]) -> get (fst mt) i j = 0%R))
  /\ combine [ex_maskA; ex_maskB] [tA; tB] = [] ++ (ex_maskA, tA) :: [(ex_maskB, tB)].
Proof. exact ex_seg_hypotheses. Qed.
