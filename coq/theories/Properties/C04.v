(* C04 - Tilt carried as metadata is optically identical to tilt in the OPD. *)
From Coq Require Import Permutation.
From LV Require Import Model.Tilt Proofs.TiltP.
Local Open Scope Qc_scope.

Theorem C04_field_shift_formula :
  forall (l : list (Qc * Qc)) (z wl dur duc os : Qc),
  field_shift (map (fun ab => mk_tilt (fst ab) (snd ab)) l) z wl (Some (dur, duc)) os IJ
  = Ok (z * qsum (map fst l) * os / dur, - (z * qsum (map snd l) * os / duc)).
Proof. exact field_shift_formula. Qed.
Print Assumptions C04_field_shift_formula.
