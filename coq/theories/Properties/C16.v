(* C16 - Detector chain: right quantum efficiency at every pixel, exact digitisation.
   Only statements: every proof is [exact] of a lemma of Proofs/DetectorP.v.  Charge collection is
   stated for every commutative ring [S] (Leibniz equality); digitisation lives on the rationals
   (every float is a rational).  A Spectrum-valued efficiency enters as its sampled vector (the
   sampling is the business of C13/C14; the tie exercises it through the implementation). *)
From LV Require Import Model.Detector Proofs.DetectorP.
From LV Require Model.Spectrum.
From LV Require Import Model.DetectorQE Proofs.DetectorQEP.
Local Open Scope Z_scope.

(* ---------------------------------------------------------------- (a) collect_charge *)
(* at every pixel the sum over the wavelength slices of photons times efficiency *)
Theorem C16_collect_charge_spec :
  forall (S : Scalar) (img : imgrep S) (nw : Z) (v : vec S),
  cnk (as_cube img) = nw -> vn v = nw ->
  exists a, collect_charge img nw (QVec v) = Ok a /\ nr a = cnr (as_cube img) /\ nc a = cnc (as_cube img) /\
            forall i j, get a i j = sumZ nw (fun k => (cget (as_cube img) k i j * vget v k)%K).
Proof. exact collect_charge_spec. Qed.
Print Assumptions C16_collect_charge_spec.

Theorem C16_collect_charge_additive_in_photons :
  forall (S : Scalar), is_ring S -> forall (a b : cube S) (nw : Z) (v : vec S),
  cnk a = nw -> cnk b = nw -> vn v = nw ->
  exists ra rb rab, collect_charge (Img3 a) nw (QVec v) = Ok ra /\ collect_charge (Img3 b) nw (QVec v) = Ok rb /\
    collect_charge (Img3 (cube_add a b)) nw (QVec v) = Ok rab /\ nr rab = nr ra /\ nc rab = nc ra /\
    forall i j, get rab i j = (get ra i j + get rb i j)%K.
Proof. exact collect_charge_additive_cube. Qed.
Print Assumptions C16_collect_charge_additive_in_photons.

Theorem C16_collect_charge_homogeneous_in_photons :
  forall (S : Scalar), is_ring S -> forall (s : S) (a : cube S) (nw : Z) (v : vec S),
  cnk a = nw -> vn v = nw ->
  exists ra rs, collect_charge (Img3 a) nw (QVec v) = Ok ra /\
    collect_charge (Img3 (cube_scale s a)) nw (QVec v) = Ok rs /\ nr rs = nr ra /\ nc rs = nc ra /\
    forall i j, get rs i j = (s * get ra i j)%K.
Proof. exact collect_charge_homogeneous_cube. Qed.
Print Assumptions C16_collect_charge_homogeneous_in_photons.

Theorem C16_collect_charge_additive_in_efficiency :
  forall (S : Scalar), is_ring S -> forall (img : imgrep S) (nw : Z) (p q : vec S),
  cnk (as_cube img) = nw -> vn p = nw -> vn q = nw ->
  exists rp rq rpq, collect_charge img nw (QVec p) = Ok rp /\ collect_charge img nw (QVec q) = Ok rq /\
    collect_charge img nw (QVec (vec_add p q)) = Ok rpq /\ nr rpq = nr rp /\ nc rpq = nc rp /\
    forall i j, get rpq i j = (get rp i j + get rq i j)%K.
Proof. exact collect_charge_additive_qe. Qed.
Print Assumptions C16_collect_charge_additive_in_efficiency.

Theorem C16_collect_charge_homogeneous_in_efficiency :
  forall (S : Scalar), is_ring S -> forall (s : S) (img : imgrep S) (nw : Z) (q : vec S),
  cnk (as_cube img) = nw -> vn q = nw ->
  exists rq rs, collect_charge img nw (QVec q) = Ok rq /\
    collect_charge img nw (QVec (vec_scale s q)) = Ok rs /\ nr rs = nr rq /\ nc rs = nc rq /\
    forall i j, get rs i j = (s * get rq i j)%K.
Proof. exact collect_charge_homogeneous_qe. Qed.
Print Assumptions C16_collect_charge_homogeneous_in_efficiency.

(* a scalar efficiency gives the same image as the constant vector: q times the sum of the slices *)
Theorem C16_scalar_efficiency_is_constant_vector :
  forall (S : Scalar), is_ring S -> forall (img : imgrep S) (nw : Z) (q : S),
  cnk (as_cube img) = nw ->
  exists a b, collect_charge img nw (QScalar q) = Ok a /\
    collect_charge img nw (QVec (mkVec nw (fun _ => q))) = Ok b /\ arr_eq a b /\
    forall i j, get a i j = (q * sumZ nw (fun k => cget (as_cube img) k i j))%K.
Proof. exact collect_charge_scalar. Qed.
Print Assumptions C16_scalar_efficiency_is_constant_vector.

(* ---------------------------------------------------------------- (b) colour filter array *)
(* for every pattern size k = pk p >= 1, oversampling os >= 1 and image of (k os a) x (k os b) samples:
   sub-pixel (i,j) collects with the efficiency of the colour pattern[(i/os) mod k][(j/os) mod k] *)
Theorem C16_bayer_spec :
  forall (S : Scalar), is_ring S ->
  forall (img : imgrep S) (nw : Z) (qr qg qb : qerep S) (vr vg vb : vec S) (pat : list Z) (p : pattern) (os a b : Z),
  cnk (as_cube img) = nw ->
  qe_asarray qr nw = Ok vr -> qe_asarray qg nw = Ok vg -> qe_asarray qb nw = Ok vb ->
  format_bayer pat = Ok p -> 1 <= pk p -> 1 <= os -> 0 <= a -> 0 <= b ->
  cnr (as_cube img) = pk p * os * a -> cnc (as_cube img) = pk p * os * b ->
  exists o, collect_charge_bayer img nw qr qg qb pat os = Ok o /\
    nr o = cnr (as_cube img) /\ nc o = cnc (as_cube img) /\
    forall i j, 0 <= i < cnr (as_cube img) -> 0 <= j < cnc (as_cube img) ->
      get o i j = charge_at (as_cube img) (qe_of (pch p ((i / os) mod pk p) ((j / os) mod pk p)) vr vg vb) i j.
Proof. exact bayer_spec. Qed.
Print Assumptions C16_bayer_spec.

(* flatten=False: each channel image holds the charge of its own sub-pixels and zero elsewhere *)
Theorem C16_bayer_channels_spec :
  forall (S : Scalar), is_ring S ->
  forall (img : imgrep S) (nw : Z) (qr qg qb : qerep S) (vr vg vb : vec S) (pat : list Z) (p : pattern) (os a b : Z),
  cnk (as_cube img) = nw ->
  qe_asarray qr nw = Ok vr -> qe_asarray qg nw = Ok vg -> qe_asarray qb nw = Ok vb ->
  format_bayer pat = Ok p -> 1 <= pk p -> 1 <= os -> 0 <= a -> 0 <= b ->
  cnr (as_cube img) = pk p * os * a -> cnc (as_cube img) = pk p * os * b ->
  exists r g bl, collect_charge_bayer_channels img nw qr qg qb pat os = Ok (r, g, bl) /\
    (nr r = cnr (as_cube img) /\ nc r = cnc (as_cube img)) /\
    (nr g = cnr (as_cube img) /\ nc g = cnc (as_cube img)) /\
    (nr bl = cnr (as_cube img) /\ nc bl = cnc (as_cube img)) /\
    forall i j, 0 <= i < cnr (as_cube img) -> 0 <= j < cnc (as_cube img) ->
      get r i j = (if pch p ((i / os) mod pk p) ((j / os) mod pk p) =? 0 then charge_at (as_cube img) vr i j else k0) /\
      get g i j = (if pch p ((i / os) mod pk p) ((j / os) mod pk p) =? 1 then charge_at (as_cube img) vg i j else k0) /\
      get bl i j = (if pch p ((i / os) mod pk p) ((j / os) mod pk p) =? 2 then charge_at (as_cube img) vb i j else k0).
Proof. exact bayer_channels_spec. Qed.
Print Assumptions C16_bayer_channels_spec.

(* the separate channel images sum to the flattened one *)
Theorem C16_bayer_channels_sum_to_flattened :
  forall (S : Scalar) (img : imgrep S) (nw : Z) (qr qg qb : qerep S) (pat : list Z) (os : Z) (r g bl : arr S),
  collect_charge_bayer_channels img nw qr qg qb pat os = Ok (r, g, bl) ->
  exists o, collect_charge_bayer img nw qr qg qb pat os = Ok o /\ nr o = nr r /\ nc o = nc r /\
    forall i j, get o i j = (get r i j + get g i j + get bl i j)%K.
Proof. exact bayer_channels_sum. Qed.
Print Assumptions C16_bayer_channels_sum_to_flattened.

(* equal efficiencies in all channels reproduce the monochrome result *)
Theorem C16_bayer_equal_efficiencies_is_monochrome :
  forall (S : Scalar), is_ring S ->
  forall (img : imgrep S) (nw : Z) (q : qerep S) (v : vec S) (pat : list Z) (p : pattern) (os a b : Z),
  cnk (as_cube img) = nw -> qe_asarray q nw = Ok v ->
  format_bayer pat = Ok p -> 1 <= pk p -> 1 <= os -> 0 <= a -> 0 <= b ->
  cnr (as_cube img) = pk p * os * a -> cnc (as_cube img) = pk p * os * b ->
  exists o m, collect_charge_bayer img nw q q q pat os = Ok o /\ collect_charge img nw q = Ok m /\ arr_eq o m.
Proof. exact bayer_equal_qe_is_mono. Qed.
Print Assumptions C16_bayer_equal_efficiencies_is_monochrome.

(* the pattern string: letters R/G/B only (codes 0..2), a perfect square of them, read row by row *)
Theorem C16_format_bayer_spec :
  forall (l : list Z) (k : Z), forallb chan_ok l = true -> 0 <= k -> Z.of_nat (length l) = k * k ->
  exists p, format_bayer l = Ok p /\ pk p = k /\
    forall i j, pch p i j = nth (Z.to_nat (i * k + j)) l 0.
Proof. exact format_bayer_spec. Qed.
Print Assumptions C16_format_bayer_spec.

Theorem C16_format_bayer_rejects :
  forall (l : list Z), forallb chan_ok l = false \/ (forall k, Z.of_nat (length l) <> k * k) ->
  format_bayer l = Err ValueError.
Proof. exact format_bayer_rejects. Qed.
Print Assumptions C16_format_bayer_rejects.

(* ---------------------------------------------------------------- (c) adc *)
(* all four gain forms (scalar, polynomial, per-pixel, per-pixel polynomial; [gain_poly] = the
   coefficients of the pixel, highest power first, no constant term):
     DN = max(0, floor(poly(min(e, sat))))  at every pixel, never negative,
     warning <-> warn_saturate and some pixel exceeds the capacity;
   for every capacity (0 and negative ones included) and for no capacity. *)
Theorem C16_adc_spec :
  forall (img : arr QcS) (g : gainrep) (sat : option Qc) (warn : bool),
  gain_fits g (nr img) (nc img) ->
  exists w dn, adc img g sat warn = Ok (w, dn) /\ nr dn = nr img /\ nc dn = nc img /\
    (forall i j, 0 <= i < nr img -> 0 <= j < nc img ->
       get dn i j = Z.max 0 (qfloor (polyval (gain_poly g i j ++ [Q2Qc 0]) (clip_spec sat (get img i j)))) /\
       0 <= get dn i j) /\
    (w = true <-> warn = true /\ exceeds sat img).
Proof. exact adc_spec. Qed.
Print Assumptions C16_adc_spec.

(* non-decreasing in the electron count for gain curves with non-negative coefficients *)
Theorem C16_adc_monotone :
  forall (img1 img2 : arr QcS) (g : gainrep) (sat : option Qc) (warn1 warn2 : bool),
  gain_fits g (nr img1) (nc img1) -> nr img2 = nr img1 -> nc img2 = nc img1 ->
  (forall i j, 0 <= i < nr img1 -> 0 <= j < nc img1 ->
     Forall (fun c => (Q2Qc 0 <= c)%Qc) (gain_poly g i j) /\
     (Q2Qc 0 <= get img1 i j)%Qc /\ (get img1 i j <= get img2 i j)%Qc) ->
  exists w1 w2 d1 d2, adc img1 g sat warn1 = Ok (w1, d1) /\ adc img2 g sat warn2 = Ok (w2, d2) /\
    forall i j, 0 <= i < nr img1 -> 0 <= j < nc img1 -> get d1 i j <= get d2 i j.
Proof. exact adc_monotone. Qed.
Print Assumptions C16_adc_monotone.

Theorem C16_digital_number_monotone :
  forall (coefs : list Qc) (sat : option Qc) (e1 e2 : Qc),
  Forall (fun c => (Q2Qc 0 <= c)%Qc) coefs -> (Q2Qc 0 <= e1)%Qc -> (e1 <= e2)%Qc ->
  Z.max 0 (qfloor (polyval (coefs ++ [Q2Qc 0]) (clip_spec sat e1))) <=
  Z.max 0 (qfloor (polyval (coefs ++ [Q2Qc 0]) (clip_spec sat e2))).
Proof. exact dn_spec_mono. Qed.
Print Assumptions C16_digital_number_monotone.

(* the four gain forms alike: a scalar g, the one-coefficient polynomial [g], a frame filled with g and a
   one-slice cube filled with g digitise every frame identically (and warn identically) *)
Theorem C16_adc_gain_forms_agree :
  forall (img : arr QcS) (v : Qc) (a : arr QcS) (c : cube QcS) (sat : option Qc) (warn : bool),
  nr a = nr img -> nc a = nc img -> (forall i j, get a i j = v) ->
  cnk c = 1 -> cnr c = nr img -> cnc c = nc img -> (forall i j, cget c 0 i j = v) ->
  exists w d0 d1 d2 d3,
    adc img (G0 v) sat warn = Ok (w, d0) /\ adc img (G1 [v]) sat warn = Ok (w, d1) /\
    adc img (G2 a) sat warn = Ok (w, d2) /\ adc img (G3 c) sat warn = Ok (w, d3) /\
    forall i j, 0 <= i < nr img -> 0 <= j < nc img ->
      get d1 i j = get d0 i j /\ get d2 i j = get d0 i j /\ get d3 i j = get d0 i j.
Proof. exact adc_gain_forms_agree. Qed.
Print Assumptions C16_adc_gain_forms_agree.

(* a gain of rank > 3, or pixel axes that do not broadcast against the frame: ValueError *)
Theorem C16_adc_rejects :
  forall (img : arr QcS) (g : gainrep) (sat : option Qc) (warn : bool),
  g = GN \/ (exists gr gc, gdims g = Some (gr, gc) /\
             ((nr img <> gr /\ nr img <> 1 /\ gr <> 1) \/ (nc img <> gc /\ nc img <> 1 /\ gc <> 1))) ->
  adc img g sat warn = Err ValueError.
Proof. exact adc_rejects. Qed.
Print Assumptions C16_adc_rejects.

(* capacity 0 (`if saturation_capacity is not None:`, after the repair of finding C16-zero-capacity): every
   positive count is clipped to 0 and the warning fires exactly when some pixel holds a positive count;
   e.g. a 5 e- pixel with unit gain digitises to 0 and warns *)
Theorem C16_adc_zero_capacity :
  forall (img : arr QcS) (g : gainrep) (warn : bool), gain_fits g (nr img) (nc img) ->
  exists w dn, adc img g (Some (Q2Qc 0)) warn = Ok (w, dn) /\
    (forall i j, 0 <= i < nr img -> 0 <= j < nc img ->
       get dn i j = Z.max 0 (qfloor (polyval (gain_poly g i j ++ [Q2Qc 0]) (qmin (get img i j) (Q2Qc 0))))) /\
    (w = true <-> warn = true /\ exists i j, 0 <= i < nr img /\ 0 <= j < nc img /\ (Q2Qc 0 < get img i j)%Qc).
Proof. exact adc_zero_capacity. Qed.
Print Assumptions C16_adc_zero_capacity.

Theorem C16_adc_zero_capacity_example :
  exists dn, adc (@mkArr QcS 1 1 (fun _ _ => Q2Qc 5)) (G0 (Q2Qc 1)) (Some (Q2Qc 0)) true = Ok (true, dn) /\ get dn 0 0 = 0.
Proof. exact adc_zero_capacity_example. Qed.
Print Assumptions C16_adc_zero_capacity_example.

(* ---------------------------------------------------------------- (e) Spectrum-valued efficiency *)
(* qe_asarray's Spectrum branch composed with the collection (Model/DetectorQE.v; Spectrum.sample is the
   model of C13).  [wv] = the cube's wavelengths as numbers in unit [u].  At every pixel the charge is the sum
   over the slices of photons times the efficiency the table denotes at that slice's wavelength: the value of
   the piecewise-linear interpolant of the table expressed in unit u, 0 outside the table. *)
Theorem C16_spectrum_efficiency_spec :
  forall (img : imgrep QcS) (wv : list Qc) (u : Spectrum.wunit) (s : Spectrum.spectrum),
  Spectrum.wf s -> cnk (as_cube img) = Z.of_nat (length wv) ->
  exists a q, collect_charge_any img wv u (QEspec s) = Ok a /\
    nr a = cnr (as_cube img) /\ nc a = cnc (as_cube img) /\ length q = length wv /\
    (forall k, (k < length wv)%nat -> qe_at s u (nth k wv (Q2Qc 0)) (nth k q (Q2Qc 0))) /\
    (forall i j, get a i j = @sumZ QcS (Z.of_nat (length wv))
                               (fun k => (cget (as_cube img) k i j * nth (Z.to_nat k) q (Q2Qc 0))%Qc)).
Proof. exact collect_spectrum_spec. Qed.
Print Assumptions C16_spectrum_efficiency_spec.

(* "in any wavelength unit", the cube side: the same cube with its wavelengths given in another unit u'
   (numbers multiplied by the unit factor) collects exactly the same image, errors included *)
Theorem C16_spectrum_any_cube_unit :
  forall (img : imgrep QcS) (wv : list Qc) (u u' : Spectrum.wunit) (s : Spectrum.spectrum),
  Spectrum.vu s = Spectrum.VNone ->
  collect_charge_any img (map (fun x => (x * Spectrum.ufac u u')%Qc) wv) u' (QEspec s)
  = collect_charge_any img wv u (QEspec s).
Proof. exact collect_any_unit. Qed.
Print Assumptions C16_spectrum_any_cube_unit.

(* "in any wavelength unit", the table side: the same efficiency tabulated in another unit t *)
Theorem C16_spectrum_any_table_unit :
  forall (img : imgrep QcS) (wv : list Qc) (u t : Spectrum.wunit) (s : Spectrum.spectrum),
  Spectrum.vu s = Spectrum.VNone ->
  collect_charge_any img wv u (QEspec (Spectrum.to_wu s t)) = collect_charge_any img wv u (QEspec s).
Proof. exact collect_retabulated. Qed.
Print Assumptions C16_spectrum_any_table_unit.

Theorem C16_bayer_spectrum_any_cube_unit :
  forall (img : imgrep QcS) (wv : list Qc) (u u' : Spectrum.wunit) (sr sg sb : Spectrum.spectrum) (pat : list Z) (os : Z),
  Spectrum.vu sr = Spectrum.VNone -> Spectrum.vu sg = Spectrum.VNone -> Spectrum.vu sb = Spectrum.VNone ->
  collect_charge_bayer_channels_any img (map (fun x => (x * Spectrum.ufac u u')%Qc) wv) u' (QEspec sr) (QEspec sg) (QEspec sb) pat os
  = collect_charge_bayer_channels_any img wv u (QEspec sr) (QEspec sg) (QEspec sb) pat os.
Proof. exact bayer_any_unit. Qed.
Print Assumptions C16_bayer_spectrum_any_cube_unit.

(* the colour filter array with three spectra: every sub-pixel collects with the sampled efficiencies of the
   spectrum of its own colour (qlist_of ch qr qg qb = the list of channel ch) *)
Theorem C16_bayer_spectrum_spec :
  forall (img : imgrep QcS) (wv : list Qc) (u : Spectrum.wunit) (sr sg sb : Spectrum.spectrum)
         (pat : list Z) (p : pattern) (os a b : Z),
  Spectrum.wf sr -> Spectrum.wf sg -> Spectrum.wf sb -> cnk (as_cube img) = Z.of_nat (length wv) ->
  format_bayer pat = Ok p -> 1 <= pk p -> 1 <= os -> 0 <= a -> 0 <= b ->
  cnr (as_cube img) = pk p * os * a -> cnc (as_cube img) = pk p * os * b ->
  exists o qr qg qb, collect_charge_bayer_any img wv u (QEspec sr) (QEspec sg) (QEspec sb) pat os = Ok o /\
    nr o = cnr (as_cube img) /\ nc o = cnc (as_cube img) /\
    (length qr = length wv /\ length qg = length wv /\ length qb = length wv) /\
    (forall k, (k < length wv)%nat ->
       qe_at sr u (nth k wv (Q2Qc 0)) (nth k qr (Q2Qc 0)) /\ qe_at sg u (nth k wv (Q2Qc 0)) (nth k qg (Q2Qc 0)) /\
       qe_at sb u (nth k wv (Q2Qc 0)) (nth k qb (Q2Qc 0))) /\
    (forall i j, 0 <= i < cnr (as_cube img) -> 0 <= j < cnc (as_cube img) ->
       get o i j = @sumZ QcS (Z.of_nat (length wv)) (fun k => (cget (as_cube img) k i j *
         nth (Z.to_nat k) (qlist_of (pch p ((i / os) mod pk p) ((j / os) mod pk p)) qr qg qb) (Q2Qc 0))%Qc)).
Proof. exact bayer_spectrum_spec. Qed.
Print Assumptions C16_bayer_spectrum_spec.

(* a table given exactly on the cube's wavelengths (end points included), the cube in any unit u: the
   spectrum acts as the vector of its tabulated values - no slice is lost, none is interpolated *)
Theorem C16_spectrum_on_cube_wavelengths :
  forall (img : imgrep QcS) (u : Spectrum.wunit) (s : Spectrum.spectrum),
  Spectrum.wf s -> Spectrum.vu s = Spectrum.VNone ->
  collect_charge_any img (map (fun x => (x * Spectrum.ufac (Spectrum.wu s) u)%Qc) (Spectrum.wave s)) u (QEspec s)
  = collect_charge img (Z.of_nat (length (Spectrum.wave s))) (QVec (vec_of_list QcS (Spectrum.value s))).
Proof. exact collect_on_table. Qed.
Print Assumptions C16_spectrum_on_cube_wavelengths.

(* slices whose wavelengths all lie outside the table collect nothing (fill value 0), whatever the numbers *)
Theorem C16_spectrum_outside_table_collects_nothing :
  forall (img : imgrep QcS) (wv : list Qc) (u : Spectrum.wunit) (s : Spectrum.spectrum),
  cnk (as_cube img) = Z.of_nat (length wv) ->
  (forall x, In x wv -> (x < Spectrum.wmin (Spectrum.wave (Spectrum.conv s u)))%Qc \/
                        (Spectrum.wmax (Spectrum.wave (Spectrum.conv s u)) < x)%Qc) ->
  exists a, collect_charge_any img wv u (QEspec s) = Ok a /\ nr a = cnr (as_cube img) /\ nc a = cnc (as_cube img) /\
            forall i j, get a i j = Q2Qc 0.
Proof. exact collect_outside_table. Qed.
Print Assumptions C16_spectrum_outside_table_collects_nothing.

(* ---------------------------------------------------------------- (f) refusals of the collection entry points *)
(* `assert qe.size == wave.size` *)
Theorem C16_collect_vector_length_refused :
  forall (S : Scalar) (img : imgrep S) (nw : Z) (v : vec S), vn v <> nw ->
  collect_charge img nw (QVec v) = Err AssertionErr.
Proof. exact collect_vector_length_refused. Qed.
Print Assumptions C16_collect_vector_length_refused.

(* a cube whose number of slices differs from the number of wavelengths (neither being 1): ValueError *)
Theorem C16_collect_slice_count_refused :
  forall (S : Scalar) (img : imgrep S) (nw : Z) (q : qerep S) (v : vec S),
  qe_asarray q nw = Ok v -> cnk (as_cube img) <> nw -> cnk (as_cube img) <> 1 -> nw <> 1 ->
  collect_charge img nw q = Err ValueError.
Proof. exact collect_slice_count_refused. Qed.
Print Assumptions C16_collect_slice_count_refused.

(* collect_charge_bayer looks at the efficiencies first (red, green, blue), then at the pattern string:
   the first failure in that order is the one raised *)
Theorem C16_bayer_refusal_order :
  forall (S : Scalar) (img : imgrep S) (nw : Z) (qr qg qb : qerep S) (pat : list Z) (os : Z),
  (forall e, qe_asarray qr nw = Err e -> collect_charge_bayer_channels img nw qr qg qb pat os = Err e) /\
  (forall vr e, qe_asarray qr nw = Ok vr -> qe_asarray qg nw = Err e ->
     collect_charge_bayer_channels img nw qr qg qb pat os = Err e) /\
  (forall vr vg e, qe_asarray qr nw = Ok vr -> qe_asarray qg nw = Ok vg -> qe_asarray qb nw = Err e ->
     collect_charge_bayer_channels img nw qr qg qb pat os = Err e) /\
  (forall vr vg vb e, qe_asarray qr nw = Ok vr -> qe_asarray qg nw = Ok vg -> qe_asarray qb nw = Ok vb ->
     format_bayer pat = Err e -> collect_charge_bayer_channels img nw qr qg qb pat os = Err e).
Proof. exact bayer_refusal_order. Qed.
Print Assumptions C16_bayer_refusal_order.

(* a frame that does not consist of whole tiles of pattern x oversample (mr x mc = the size of the mosaic that
   np.tile + np.repeat build; no axis of length 1): the product with the mosaic is refused with ValueError *)
Theorem C16_bayer_frame_not_tiled_refused :
  forall (S : Scalar) (img : imgrep S) (nw : Z) (qr qg qb : qerep S) (vr vg vb : vec S) (pat : list Z) (p : pattern) (os : Z),
  cnk (as_cube img) = nw ->
  qe_asarray qr nw = Ok vr -> qe_asarray qg nw = Ok vg -> qe_asarray qb nw = Ok vb ->
  format_bayer pat = Ok p -> 1 <= pk p -> 1 <= os ->
  let c := as_cube img in
  let mr := pk p * (cnr c / os / pk p) * os in let mc := pk p * (cnc c / os / pk p) * os in
  (cnr c <> mr /\ cnr c <> 1 /\ mr <> 1) \/ (cnc c <> mc /\ cnc c <> 1 /\ mc <> 1) ->
  collect_charge_bayer_channels img nw qr qg qb pat os = Err ValueError.
Proof. exact bayer_frame_not_tiled_refused. Qed.
Print Assumptions C16_bayer_frame_not_tiled_refused.

(* oversample = 0 and the empty pattern string ('' is ACCEPTED by format_bayer_string: a 0 x 0 pattern): once the
   efficiencies and the pattern have passed, the call ends in ZeroDivisionError (both channel tuple and flattened) *)
Theorem C16_bayer_zero_division :
  forall (img : imgrep QcS) (wv : list Qc) (u : Spectrum.wunit) (qr qg qb : qeany) (vr vg vb : vec QcS)
         (pat : list Z) (p : pattern) (os : Z),
  qe_asarray_any qr wv u = Ok vr -> qe_asarray_any qg wv u = Ok vg -> qe_asarray_any qb wv u = Ok vb ->
  format_bayer pat = Ok p -> (os = 0 \/ pk p = 0) ->
  collect_charge_bayer_channels_entry img wv u qr qg qb pat os = RaisedZeroDivision /\
  collect_charge_bayer_entry img wv u qr qg qb pat os = RaisedZeroDivision.
Proof. exact bayer_entry_zero_division. Qed.
Print Assumptions C16_bayer_zero_division.

Theorem C16_format_bayer_empty_string_accepted : exists p, format_bayer [] = Ok p /\ pk p = 0.
Proof. exact format_bayer_empty. Qed.
Print Assumptions C16_format_bayer_empty_string_accepted.

(* a negative oversample gives negative repetition counts: ValueError *)
Theorem C16_bayer_negative_oversample_refused :
  forall (img : imgrep QcS) (wv : list Qc) (u : Spectrum.wunit) (qr qg qb : qeany) (vr vg vb : vec QcS)
         (pat : list Z) (p : pattern) (os : Z),
  qe_asarray_any qr wv u = Ok vr -> qe_asarray_any qg wv u = Ok vg -> qe_asarray_any qb wv u = Ok vb ->
  format_bayer pat = Ok p -> pk p <> 0 -> os < 0 ->
  collect_charge_bayer_channels_entry img wv u qr qg qb pat os = Raised ValueError.
Proof. exact bayer_entry_negative_oversample. Qed.
Print Assumptions C16_bayer_negative_oversample_refused.

(* everywhere else the call is the model of (b)/(e): what must not change *)
Theorem C16_bayer_entry_is_the_model :
  forall (img : imgrep QcS) (wv : list Qc) (u : Spectrum.wunit) (qr qg qb : qeany) (pat : list Z) (os : Z),
  (forall p, format_bayer pat = Ok p -> os <> 0 /\ pk p <> 0) ->
  collect_charge_bayer_channels_entry img wv u qr qg qb pat os
  = lift (collect_charge_bayer_channels_any img wv u qr qg qb pat os).
Proof. exact bayer_entry_regular. Qed.
Print Assumptions C16_bayer_entry_is_the_model.

Example C16_zero_division_nonvacuous :
  let c := @mkCube QcS 1 2 2 (fun _ i j => Q2Qc (inject_Z (i + j))) in
  let q := QEplain (@QScalar QcS (Q2Qc 1)) in
  collect_charge_bayer_entry (Img3 c) [Q2Qc 500] Spectrum.UNm q q q [0; 1; 1; 2] 0 = RaisedZeroDivision /\
  collect_charge_bayer_entry (Img3 c) [Q2Qc 500] Spectrum.UNm q q q [] 1 = RaisedZeroDivision /\
  collect_charge_bayer_entry (Img3 c) [Q2Qc 500] Spectrum.UNm q q q [0; 1; 1; 2] (-1) = Raised ValueError /\
  collect_charge_bayer_entry (Img3 c) [Q2Qc 500] Spectrum.UNm q q q [0; 1; 9; 2] 0 = Raised ValueError.
Proof. repeat split. Qed.

(* non-vacuity of (e): an efficiency tabulated at 1/2, 3/4, 1 um, a two-pixel cube at 500, 750, 1000 nm:
   well-formed, on the cube's wavelengths, pixel (0,1) collects 4/4 + 5/2 + 6*1 *)
Example C16_spectrum_nonvacuous :
  let s := Spectrum.mkS [Spectrum.qq 1 2; Spectrum.qq 3 4; Spectrum.qq 1 1] [Spectrum.qq 1 4; Spectrum.qq 1 2; Spectrum.qq 1 1]
                        Spectrum.UUm Spectrum.VNone in
  let c := @mkCube QcS 3 1 2 (fun k i j => Q2Qc (inject_Z (1 + k + 3 * j))) in
  let wv := [Spectrum.qq 500 1; Spectrum.qq 750 1; Spectrum.qq 1000 1] in
  Spectrum.wf s /\ wv = map (fun x => (x * Spectrum.ufac (Spectrum.wu s) Spectrum.UNm)%Qc) (Spectrum.wave s) /\
  exists a, collect_charge_any (Img3 c) wv Spectrum.UNm (QEspec s) = Ok a /\ get a 0 1 = Spectrum.qq 19 2 /\
            get a 0 0 = Spectrum.qq 17 4.
Proof.
  cbv zeta. split; [|split].
  - repeat split; try discriminate; apply Qclt_alt; reflexivity.
  - cbn [map Spectrum.wave Spectrum.wu].
    repeat (apply f_equal2; [apply Qc_is_canon; vm_compute; reflexivity|]). reflexivity.
  - eexists. split; [reflexivity|]. split; apply Qc_is_canon; vm_compute; reflexivity.
Qed.

(* non-vacuity of (f): a 3x3 frame under a 2x2 pattern; a two-slice cube with three wavelengths *)
Example C16_refusals_nonvacuous :
  collect_charge_bayer_channels (Img3 (@mkCube ZS 1 3 3 (fun _ i j => i + j))) 1 (@QScalar ZS 1) (@QScalar ZS 2) (@QScalar ZS 3) [0; 1; 1; 2] 1
    = Err ValueError /\
  collect_charge (Img3 (@mkCube ZS 2 2 2 (fun _ i j => i + j))) 3 (@QScalar ZS 1) = Err ValueError /\
  collect_charge (Img3 (@mkCube ZS 2 2 2 (fun _ i j => i + j))) 2 (QVec (@mkVec ZS 3 (fun k => k))) = Err AssertionErr.
Proof. repeat split. Qed.

(* non-vacuity: a 2x2 'RGGB' pattern at oversample 3 on a 6x12 two-wavelength cube satisfies the
   hypotheses of C16_bayer_spec, and sub-pixel (4,7) (native pixel (1,2), pattern cell (1,0) = G)
   collects with the green efficiency *)
Example C16_nonvacuous :
  let c := @mkCube ZS 2 6 12 (fun k i j => k + 2 * i + j) in
  let vr := @mkVec ZS 2 (fun k => 1 + k) in let vg := @mkVec ZS 2 (fun k => 3 + k) in
  let vb := @mkVec ZS 2 (fun k => 7 - k) in
  exists p o, format_bayer [0; 1; 1; 2] = Ok p /\ pk p = 2 /\ cnr c = pk p * 3 * 1 /\ cnc c = pk p * 3 * 2 /\
    collect_charge_bayer (Img3 c) 2 (QVec vr) (QVec vg) (QVec vb) [0; 1; 1; 2] 3 = Ok o /\
    get o 4 7 = charge_at c vg 4 7 /\ get o 4 7 = 109 /\ get o 0 0 = 2.
Proof. eexists. eexists. repeat split. Qed.
