(* C15 - Spectrum integration, binning and resizing keep the spectrum well-formed.
   Only statements: every proof is [exact] of a lemma of Proofs/SpectrumEditP.v (witnesses by vm_compute).
   Spectra are tables of exact rationals (every float is a rational); [wf] = positive, strictly increasing
   grid with one value per wavelength; [exec s o] = (object left behind by the call, exception raised). *)
From LV Require Import Model.SpectrumEdit Proofs.SpectrumEditP.
Local Open Scope Qc_scope.

(* ---- (e) resizing: the invariant, by induction over call sequences ---- *)
(* after ANY sequence of crop/trim/pad/append/resample calls - accepted or refused - that contains no
   resample refused for its grid, the object is well-formed, and so is every intermediate state *)
Theorem C15_wellformed_invariant :
  forall (ops : list op) (s : spectrum), wf s -> Forall op_ok ops -> no_bad_resample s ops ->
  wf (run s ops) /\ Forall (fun r => wf (fst r)) (trace s ops).
Proof. exact (fun ops s W O B => conj (run_wf ops s W O B) (trace_wf ops s W O B)). Qed.
Print Assumptions C15_wellformed_invariant.

(* one call: a wavelength present before and after keeps its value *)
Theorem C15_retained_samples_unaltered :
  forall (s : spectrum) (o : op), wf s -> op_ok o -> ~ bad_resample s o ->
  forall x y y', lookup (samples (fst (exec s o))) x = Some y' -> lookup (samples s) x = Some y -> y' = y.
Proof. exact exec_retained. Qed.
Print Assumptions C15_retained_samples_unaltered.

(* crop keeps exactly the samples inside the closed range (also when it raises IndexError on an emptied object) *)
Theorem C15_crop_keeps_closed_range :
  forall (s : spectrum) (a b : Qc), wf s ->
  wf (fst (crop s a b)) /\
  samples (fst (crop s a b)) = filter (fun q => qle a (fst q) && qle (fst q) b) (samples s).
Proof. exact crop_spec. Qed.
Print Assumptions C15_crop_keeps_closed_range.

(* trim: nothing to do for an all-zero spectrum, otherwise exactly the samples ends(tol) delimits; refused = untouched *)
Theorem C15_trim_keeps_first_to_last :
  forall (s : spectrum) (tol : Qc), wf s ->
  match trim s tol with
  | (s', None) => wf s' /\
      ((forall v, In v (value s) -> v = 0) /\ s' = s \/
       exists i j, ends s tol = Ok (i, j) /\ samples s' = slice (samples s) i (Datatypes.S j))
  | (s', Some e) => s' = s
  end.
Proof. exact trim_spec. Qed.
Print Assumptions C15_trim_keeps_first_to_last.

(* ends(tol) = (first, last) index whose value relative to the maximum exceeds the tolerance *)
Theorem C15_ends_first_last_above_tolerance :
  forall (s : spectrum) (tol : Qc) (i j : nat), ends s tol = Ok (i, j) ->
  exists m, qmaxl (value s) = Ok m /\ 0 < m /\ (i <= j)%nat /\ (j < length (value s))%nat /\
    tol < nth i (value s) 0 / m /\ tol < nth j (value s) 0 / m /\
    forall k, (k < i)%nat \/ ((j < k)%nat /\ (k < length (value s))%nat) -> ~ tol < nth k (value s) 0 / m.
Proof. exact ends_spec. Qed.
Print Assumptions C15_ends_first_last_above_tolerance.

(* pad and append only add samples around / behind the old ones; a refused call leaves the object untouched *)
Theorem C15_pad_append_keep_old_block :
  (forall s e0 e1 sm md, wf s ->
     match pad s e0 e1 sm md with
     | (s', None) => wf s' /\ exists l r, samples s' = l ++ samples s ++ r
     | (s', Some e) => s' = s end) /\
  (forall s o, wf s -> length (wave o) = length (value o) ->
     match append s o with
     | (s', None) => wf s' /\ samples s' = samples s ++ samples o
     | (s', Some e) => s' = s end).
Proof. exact (conj pad_spec append_spec). Qed.
Print Assumptions C15_pad_append_keep_old_block.

(* an accepted resample installs the requested grid with the interpolated values; a refused one has either
   done nothing or - grid rejected by the wave setter - has ALREADY replaced the values *)
Theorem C15_resample_outcomes :
  forall (s : spectrum) (g : list Qc), wf s ->
  match resample s g with
  | (s', None) => wf s' /\ wave s' = g /\ value s' = map (interp (wave s) (value s)) g
  | (s', Some e) => s' = s \/ (wave s' = wave s /\ value s' = map (interp (wave s) (value s)) g /\ wave_check g = Err e)
  end.
Proof. exact resample_spec. Qed.
Print Assumptions C15_resample_outcomes.

(* what a refused call leaves behind *)
Theorem C15_refused_calls :
  forall (s : spectrum) (o : op) (e : errkind), wf s -> op_ok o -> snd (exec s o) = Some e ->
  match o with
  | OCrop a b => samples (fst (exec s o)) = select a b (samples s)
  | OResample g => fst (exec s o) = s \/
      (wave (fst (exec s o)) = wave s /\ value (fst (exec s o)) = map (interp (wave s) (value s)) g)
  | _ => fst (exec s o) = s
  end.
Proof. exact refused_unchanged. Qed.
Print Assumptions C15_refused_calls.
