(* C15 - Spectrum integration, binning and resizing keep the spectrum well-formed.
   Only statements: every proof is [exact] of a lemma of Proofs/SpectrumEditP.v (witnesses by vm_compute).
   Spectra are tables of exact rationals (every float is a rational); [wf] = positive, strictly increasing
   grid with one value per wavelength; [exec s o] = (object left behind by the call, exception raised). *)
From LV Require Import Model.SpectrumEdit Proofs.SpectrumEditP.
Local Open Scope Qc_scope.

(* ---- (e) resizing: the invariant, by induction over call sequences ---- *)
(* after ANY sequence of crop/trim/pad/append/resample calls - accepted or refused, in any mix - the object is
   well-formed, and so is every intermediate state ([op_ok]: an appended spectrum has one value per wavelength) *)
Theorem C15_wellformed_invariant :
  forall (ops : list op) (s : spectrum), wf s -> Forall op_ok ops ->
  wf (run s ops) /\ Forall (fun r => wf (fst r)) (trace s ops).
Proof. exact (fun ops s W O => conj (run_wf ops s W O) (trace_wf ops s W O)). Qed.
Print Assumptions C15_wellformed_invariant.

(* one call, accepted or refused: a wavelength present before and after keeps its value *)
Theorem C15_retained_samples_unaltered :
  forall (s : spectrum) (o : op), wf s -> op_ok o ->
  forall x y y', lookup (samples (fst (exec s o))) x = Some y' -> lookup (samples s) x = Some y -> y' = y.
Proof. exact exec_retained. Qed.
Print Assumptions C15_retained_samples_unaltered.

(* crop keeps exactly the samples inside the closed range (also when it raises IndexError on an emptied object) *)
Theorem C15_crop_keeps_closed_range :
  forall (s : spectrum) (a b : Qc), wf s ->
  wf (fst (crop s a b)) /\
  samples (fst (crop s a b)) = filter (fun q => qle a (fst q) && qle (fst q) b) (samples s).
Proof. exact crop_spec. Qed.
Print Assumptions C15_crop_keeps_closed_range.

(* trim: nothing to do for an all-zero spectrum, otherwise exactly the samples ends(tol) delimits; refused = untouched *)
Theorem C15_trim_keeps_first_to_last :
  forall (s : spectrum) (tol : Qc), wf s ->
  match trim s tol with
  | (s', None) => wf s' /\
      ((forall v, In v (value s) -> v = 0) /\ s' = s \/
       exists i j, ends s tol = Ok (i, j) /\ samples s' = slice (samples s) i (Datatypes.S j))
  | (s', Some e) => s' = s
  end.
Proof. exact trim_spec. Qed.
Print Assumptions C15_trim_keeps_first_to_last.

(* ends(tol) = (first, last) index whose value relative to the maximum exceeds the tolerance *)
Theorem C15_ends_first_last_above_tolerance :
  forall (s : spectrum) (tol : Qc) (i j : nat), ends s tol = Ok (i, j) ->
  exists m, qmaxl (value s) = Ok m /\ 0 < m /\ (i <= j)%nat /\ (j < length (value s))%nat /\
    tol < nth i (value s) 0 / m /\ tol < nth j (value s) 0 / m /\
    forall k, (k < i)%nat \/ ((j < k)%nat /\ (k < length (value s))%nat) -> ~ tol < nth k (value s) 0 / m.
Proof. exact ends_spec. Qed.
Print Assumptions C15_ends_first_last_above_tolerance.

(* pad and append only add samples around / behind the old ones; a refused call leaves the object untouched *)
Theorem C15_pad_append_keep_old_block :
  (forall s e0 e1 sm md, wf s ->
     match pad s e0 e1 sm md with
     | (s', None) => wf s' /\ exists l r, samples s' = l ++ samples s ++ r
     | (s', Some e) => s' = s end) /\
  (forall s o, wf s -> length (wave o) = length (value o) ->
     match append s o with
     | (s', None) => wf s' /\ samples s' = samples s ++ samples o
     | (s', Some e) => s' = s end).
Proof. exact (conj pad_spec append_spec). Qed.
Print Assumptions C15_pad_append_keep_old_block.

(* an accepted resample installs the requested grid with the interpolated values; a refused one (empty table, or a
   grid rejected by the wave setter) leaves the object untouched: the grid is validated before anything is assigned *)
Theorem C15_resample_outcomes :
  forall (s : spectrum) (g : list Qc), wf s ->
  match resample s g with
  | (s', None) => wf s' /\ wave s' = g /\ value s' = map (interp (wave s) (value s)) g
  | (s', Some e) => s' = s
  end.
Proof. exact resample_spec. Qed.
Print Assumptions C15_resample_outcomes.

(* a pad whose left AND right sample counts are both refused, with different exception classes: the code raises the
   left one; [pad_other_refusal] names the class the right side would raise. Either way the object is untouched - the
   property does not pin which of two refusals fires, and the tie accepts both classes *)
Theorem C15_pad_two_refusals :
  forall (s : spectrum) (e0 e1 : Qc) (sm : option Qc) (md : padmode) (e' : errkind),
  pad_other_refusal s e0 e1 sm md = Some e' ->
  exists e, pad s e0 e1 sm md = (s, Some e) /\ e <> e' /\ (e' = ValueError \/ e' = IndexError).
Proof. exact pad_other_refusal_spec. Qed.
Print Assumptions C15_pad_two_refusals.

(* what a refused call leaves behind: the object as it was - except crop above the range, which has emptied the
   object (exactly the samples inside the range) before it raises IndexError *)
Theorem C15_refused_calls :
  forall (s : spectrum) (o : op) (e : errkind), wf s -> op_ok o -> snd (exec s o) = Some e ->
  match o with
  | OCrop a b => samples (fst (exec s o)) = select a b (samples s)
  | _ => fst (exec s o) = s
  end.
Proof. exact refused_unchanged. Qed.
Print Assumptions C15_refused_calls.

(* ---- sessions on one live object: resizing calls, assignments of new values on the same grid, integrate / bin
   queries in any order. The invariant survives every session whose value assignments have the length of the grid;
   a query leaves the object alone and its answer is integrate / bin of the object it is applied to (the model carries
   no other state: the tie compares every query inside a session with this, so a memo kept by the implementation
   between calls must be invisible); new values k*v on the same grid multiply every integral by k ---- *)
Theorem C15_session_invariant :
  forall (cs : list call) (s : spectrum), wf s -> session_ok s cs ->
  wf (after_session s cs) /\ Forall (fun r => wf (fst (fst r))) (session s cs).
Proof. exact session_wf. Qed.
Print Assumptions C15_session_invariant.

Theorem C15_queries_answer_from_the_current_object :
  forall (s : spectrum),
  (forall a b r, fst (fst (do_call s (CIntegrate a b r))) = s /\
     match integrate s a b r with
     | Ok x => do_call s (CIntegrate a b r) = ((s, None), ANum x)
     | Err e => do_call s (CIntegrate a b r) = ((s, Some e), ANone) end) /\
  (forall c r e pp, fst (fst (do_call s (CBin c r e pp))) = s /\
     match bin s c r e pp with
     | Ok b => do_call s (CBin c r e pp) = ((s, None), ABins b)
     | Err e' => do_call s (CBin c r e pp) = ((s, Some e'), ANone) end).
Proof. exact query_pure. Qed.
Print Assumptions C15_queries_answer_from_the_current_object.

Theorem C15_integrate_after_value_scaling :
  forall (s : spectrum) (k : Qc) (lo hi : option Qc) (r : rule), length (value s) = length (wave s) ->
  match integrate s lo hi r, integrate (set_value s (map (Qcmult k) (value s))) lo hi r with
  | Ok i, Ok j => j = k * i
  | Err e1, Err e2 => e1 = e2
  | _, _ => False
  end.
Proof. exact integrate_scaled. Qed.
Print Assumptions C15_integrate_after_value_scaling.

Definition q (n d : Z) : Qc := Q2Qc (n # Z.to_pos d).

(* ---- (a) integrate is linear in the values, for both rules, any bounds (None = the end of the grid) ---- *)
Theorem C15_integrate_linear :
  forall (w v u : list Qc) (a b : Qc) (lo hi : option Qc) (r : rule),
  length v = length w -> length u = length w ->
  match integrate (mkSp w v) lo hi r, integrate (mkSp w u) lo hi r, integrate (mkSp w (lincomb a v b u)) lo hi r with
  | Ok iv, Ok iu, Ok il => il = a * iv + b * iu
  | Err e1, Err e2, Err e3 => e1 = e2 /\ e2 = e3
  | _, _, _ => False
  end.
Proof. exact integrate_linear. Qed.
Print Assumptions C15_integrate_linear.

(* ---- (b) trapezoid integrate is additive over adjacent intervals that meet at a sample point ---- *)
Theorem C15_integrate_additive_at_sample :
  forall (s : spectrum) (lo mid hi : Qc), wf s -> In mid (wave s) -> lo <= mid -> mid <= hi ->
  exists i1 i2 i, integrate s (Some lo) (Some mid) Trapz = Ok i1 /\ integrate s (Some mid) (Some hi) Trapz = Ok i2 /\
                  integrate s (Some lo) (Some hi) Trapz = Ok i /\ i = i1 + i2.
Proof. exact integrate_additive. Qed.
Print Assumptions C15_integrate_additive_at_sample.

(* ---- (c) trapezoid integrate = the integral of the piecewise-linear interpolant ([pl_integral]: sum of the
   antiderivative differences of the linear pieces, defined for ARBITRARY bounds) when the bounds are sample
   points, or lie at/beyond the two ends of the grid ---- *)
Theorem C15_integrate_exact_piecewise_linear :
  forall (s : spectrum) (lo hi : Qc), wf s ->
  (In lo (wave s) /\ In hi (wave s) /\ lo <= hi) \/ (forall x, In x (wave s) -> lo <= x /\ x <= hi) ->
  integrate s (Some lo) (Some hi) Trapz = Ok (pl_integral (samples s) lo hi).
Proof. exact integrate_exact. Qed.
Print Assumptions C15_integrate_exact_piecewise_linear.

(* ARBITRARY bounds: integrate is the integral of the interpolant between the FIRST and the LAST sample inside the
   closed range [lo, hi]; nothing is interpolated at the bounds themselves, so a bound lying strictly between two
   samples is moved inward to the next sample. C15 pins the quadrature rule (linear, additive where the intervals
   meet at a sample point, exact for piecewise-linear data between the samples it uses); it makes no claim about
   bounds between samples, so this is documented behaviour of the model, not a refuted clause *)
Theorem C15_integrate_any_bounds :
  forall (s : spectrum) (lo hi : Qc), wf s ->
  integrate s (Some lo) (Some hi) Trapz =
  Ok (match select lo hi (samples s) with
      | [] => 0
      | (a, ya) :: t => pl_integral (samples s) a (last (map fst ((a, ya) :: t)) 0)
      end).
Proof. exact integrate_any_bounds. Qed.
Print Assumptions C15_integrate_any_bounds.

(* illustration: unit spectrum on 1,2,3,4: integrate(3/2, 7/2) = 1 = the integral over [2, 3] (the integral over
   [3/2, 7/2] is 2); the power-preserved bins for centres 3/2, 5/2, 7/2 are normalised to that number *)
Definition sp1234 : spectrum := mkSp [q 1 1; q 2 1; q 3 1; q 4 1] [q 1 1; q 1 1; q 1 1; q 1 1].
Theorem C15_integrate_bounds_between_samples_witness :
  wf sp1234 /\
  integrate sp1234 (Some (q 3 2)) (Some (q 7 2)) Trapz = Ok (q 1 1) /\
  pl_integral (samples sp1234) (q 3 2) (q 7 2) = q 2 1 /\
  bin sp1234 [q 3 2; q 5 2; q 7 2] Trapz Inside false = Ok (Some [q 1 2; q 1 1; q 1 2]) /\
  bin sp1234 [q 3 2; q 5 2; q 7 2] Trapz Inside true = Ok (Some [q 1 4; q 1 2; q 1 4]).
Proof. exact integrate_truncation_witness. Qed.
Print Assumptions C15_integrate_bounds_between_samples_witness.

(* ---- (d) bins ---- *)
(* one value per centre (both rules, both end treatments); with power preservation and a non-zero raw sum the
   bins are the raw ones rescaled and sum to integrate(min centre, max centre) with the same rule *)
Theorem C15_bin_spec :
  forall (s : spectrum) (c : list Qc) (r : rule) (e : endsmode) (pp : bool) (b : list Qc),
  bin s c r e pp = Ok (Some b) ->
  length b = length c /\
  (pp = true -> exists raw lo hi tot, raw_bins s c r e = Ok raw /\ qminl c = Ok lo /\ qmaxl c = Ok hi /\
                 integrate s (Some lo) (Some hi) r = Ok tot /\ qsum raw <> 0 /\
                 b = map (fun x => x * (tot / qsum raw)) raw /\ qsum b = tot) /\
  (pp = false -> raw_bins s c r e = Ok b).
Proof. exact bin_spec. Qed.
Print Assumptions C15_bin_spec.

(* trapezoid bins of a non-negative spectrum are non-negative: any increasing centres, both end treatments,
   with or without power preservation *)
Theorem C15_bin_nonnegative_trapz :
  forall (s : spectrum) (c : list Qc) (e : endsmode) (pp : bool) (b : list Qc),
  wf s -> Forall (fun y => 0 <= y) (value s) -> increasing c ->
  bin s c Trapz e pp = Ok (Some b) -> Forall (fun y => 0 <= y) b.
Proof. exact bin_trapz_nonneg. Qed.
Print Assumptions C15_bin_nonnegative_trapz.

(* Simpson bins of a non-negative, UNIFORMLY SAMPLED spectrum are non-negative for any increasing centres, with or
   without power preservation: scipy's composite Simpson weights are positive on uniform data, for an odd and for
   an even number of samples (corrected last interval) *)
Theorem C15_bin_nonnegative_simpson :
  forall (s : spectrum) (c : list Qc) (e : endsmode) (pp : bool) (b : list Qc) (h : Qc),
  wf s -> 0 < h -> uniform_step h (wave s) -> Forall (fun y => 0 <= y) (value s) -> increasing c ->
  bin s c Simps e pp = Ok (Some b) -> Forall (fun y => 0 <= y) b.
Proof. exact bin_simps_nonneg. Qed.
Print Assumptions C15_bin_nonnegative_simpson.

(* without power preservation no uniformity is needed at all: the weights (1,4,1)*width/6 of the chained rule are
   positive whether or not the node is the bin middle *)
Theorem C15_bin_nonnegative_simpson_raw_any_grid :
  forall (s : spectrum) (c : list Qc) (e : endsmode) (b : list Qc),
  length (wave s) = length (value s) -> Forall (fun y => 0 <= y) (value s) -> increasing c ->
  raw_bins s c Simps e = Ok b -> Forall (fun y => 0 <= y) b.
Proof. exact raw_bins_simps_nonneg. Qed.
Print Assumptions C15_bin_nonnegative_simpson_raw_any_grid.

(* a spectrum that is the straight line al*x + be over a range containing all bin edges/nodes: every raw bin is
   the exact integral of the line over the bin - trapezoid rule for ANY centres, Simpson's rule for uniformly
   spaced centres (only then is the node the middle of its bin) *)
Theorem C15_bin_exact_for_linear_spectrum :
  forall (s : spectrum) (c : list Qc) (e : endsmode) (al be h : Qc),
  wf s -> wave s <> [] -> (2 <= length c)%nat ->
  (forall a y, In (a, y) (samples s) -> y = al * a + be) ->
  ((forall t, In t (bin_edges_trapz e c) -> hd 0 (wave s) <= t /\ t <= last (wave s) 0) ->
   raw_bins s c Trapz e = Ok (line_bins al be (bin_edges_trapz e c))) /\
  (uniform_step h c -> (forall t, In t (bin_nodes_simps e c) -> hd 0 (wave s) <= t /\ t <= last (wave s) 0) ->
   raw_bins s c Simps e = Ok (line_bins2 al be (bin_nodes_simps e c))).
Proof. exact bin_exact_line. Qed.
Print Assumptions C15_bin_exact_for_linear_spectrum.

(* piecewise-linear spectra, bin by bin: a trapezoid bin whose two edges lie in ONE interval [x0, x1] of the table (the
   spectrum is linear across that bin) equals the integral of the interpolant over the bin, whatever the other bins do *)
Theorem C15_bin_exact_when_linear_across_the_bin :
  forall (s : spectrum) (c : list Qc) (e : endsmode) (b : list Qc) (k : nat)
         (A : list (Qc * Qc)) (x0 y0 x1 y1 : Qc) (B : list (Qc * Qc)),
  raw_bins s c Trapz e = Ok b -> wf s -> samples s = A ++ (x0, y0) :: (x1, y1) :: B -> (k < length c)%nat ->
  let x := bin_edges_trapz e c in
  x0 <= nth k x 0 -> nth k x 0 <= nth (Datatypes.S k) x 0 -> nth (Datatypes.S k) x 0 <= x1 ->
  nth k b 0 = pl_integral (samples s) (nth k x 0) (nth (Datatypes.S k) x 0).
Proof. exact raw_bins_trapz_interval. Qed.
Print Assumptions C15_bin_exact_when_linear_across_the_bin.

(* ---- refusal paths and exactness ("deepen"): exactly which inputs are refused, with which exception, and what an
   accepted call produces ---- *)
(* the wave setter accepts exactly the positive strictly increasing grids; it never raises anything but ValueError *)
Theorem C15_wave_setter_exact :
  forall (w : list Qc),
  (wave_check w = Ok w <-> increasing w /\ Forall (fun x => 0 < x) w) /\
  (wave_check w = Ok w \/ wave_check w = Err ValueError).
Proof. exact wave_check_exact. Qed.
Print Assumptions C15_wave_setter_exact.

(* Spectrum(wave, value) succeeds exactly on well-formed tables and then holds them unchanged; else ValueError *)
Theorem C15_constructor_exact :
  forall (w v : list Qc),
  (forall s, make w v = Ok s <-> s = mkSp w v /\ wf (mkSp w v)) /\
  (make w v = Ok (mkSp w v) \/ make w v = Err ValueError).
Proof. exact make_exact. Qed.
Print Assumptions C15_constructor_exact.

(* integrate: the trapezoid rule never refuses explicit bounds; Simpson refuses exactly an empty selection; a missing
   bound is refused on an empty spectrum; every refusal is a ValueError *)
Theorem C15_integrate_refusals :
  forall (s : spectrum),
  (forall lo hi, exists x, integrate s (Some lo) (Some hi) Trapz = Ok x) /\
  (forall lo hi, (integrate s (Some lo) (Some hi) Simps = Err ValueError <-> select lo hi (samples s) = []) /\
                 (select lo hi (samples s) <> [] -> exists x, integrate s (Some lo) (Some hi) Simps = Ok x)) /\
  (wave s = [] -> forall a b r, (a = None \/ b = None) -> integrate s a b r = Err ValueError) /\
  (forall a b r e, integrate s a b r = Err e -> e = ValueError).
Proof. exact integrate_refusals. Qed.
Print Assumptions C15_integrate_refusals.

(* ends (hence trim): ValueError exactly without a positive value; IndexError exactly when the maximum is positive
   but no value relative to it exceeds the tolerance; nothing else is raised *)
Theorem C15_ends_refusals :
  forall (s : spectrum) (tol : Qc),
  (ends s tol = Err ValueError <-> value s = [] \/ exists m, qmaxl (value s) = Ok m /\ m <= 0) /\
  (ends s tol = Err IndexError <-> exists m, qmaxl (value s) = Ok m /\ 0 < m /\ forall v, In v (value s) -> ~ tol < v / m) /\
  (forall e, ends s tol = Err e -> e = ValueError \/ e = IndexError).
Proof. exact ends_refusals. Qed.
Print Assumptions C15_ends_refusals.

(* sample: refused exactly for an empty table or unequal lengths (ValueError), otherwise the interpolant at every
   requested point; the interpolant returns the stored value at a sample, the chord between two neighbouring
   samples, and 0 outside the table *)
Theorem C15_sample_exact :
  forall (s : spectrum) (xs : list Qc),
  (sample s xs = Err ValueError <-> wave s = [] \/ length (wave s) <> length (value s)) /\
  (wave s <> [] -> length (wave s) = length (value s) -> sample s xs = Ok (map (interp (wave s) (value s)) xs)) /\
  (forall e, sample s xs = Err e -> e = ValueError).
Proof. exact sample_exact. Qed.
Print Assumptions C15_sample_exact.

Theorem C15_interpolant :
  (forall w v x y, increasing w -> length w = length v -> In (x, y) (combine w v) -> interp w v x = y) /\
  (forall A x0 y0 x1 y1 B x, increasing (map fst (A ++ (x0, y0) :: (x1, y1) :: B)) -> x0 <= x -> x <= x1 ->
     interp (map fst (A ++ (x0, y0) :: (x1, y1) :: B)) (map snd (A ++ (x0, y0) :: (x1, y1) :: B)) x
     = y0 + ((y1 - y0) / (x1 - x0)) * (x - x0)) /\
  (forall w v x, increasing w -> length w = length v -> (w = [] \/ x < hd 0 w \/ last w 0 < x) -> interp w v x = 0).
Proof. exact (conj interp_node (conj interp_interval interp_outside)). Qed.
Print Assumptions C15_interpolant.

(* bin: refused (ValueError, nothing else) exactly for fewer than two centres, an empty or ragged table, or - Simpson
   with power preservation - when no sample lies inside the span of the centres *)
Theorem C15_bin_refusals :
  forall (s : spectrum) (c : list Qc) (r : rule) (e : endsmode) (pp : bool),
  (bin s c r e pp = Err ValueError <->
     (length c < 2)%nat \/ wave s = [] \/ length (wave s) <> length (value s) \/
     (pp = true /\ r = Simps /\ exists lo hi, qminl c = Ok lo /\ qmaxl c = Ok hi /\ select lo hi (samples s) = [])) /\
  (forall err, bin s c r e pp = Err err -> err = ValueError).
Proof. exact bin_refusals. Qed.
Print Assumptions C15_bin_refusals.

(* append: accepted exactly when the two grids broadcast (equal lengths, or one of them has a single sample) and the
   appended grid starts above the caller's last wavelength; every refusal is a ValueError and leaves the caller as it was *)
Theorem C15_append_accepts_exactly :
  forall (s o : spectrum), wf s -> wf o ->
  (snd (append s o) = None <->
     (length (wave o) = length (wave s) \/ length (wave o) = 1%nat \/ length (wave s) = 1%nat) /\
     (wave s = [] \/ wave o = [] \/ last (wave s) 0 < hd 0 (wave o))) /\
  (forall e, snd (append s o) = Some e -> e = ValueError /\ fst (append s o) = s).
Proof. exact append_accepts_exactly. Qed.
Print Assumptions C15_append_accepts_exactly.

(* pad, exactly: ceil((first - e0)/sampling) samples are added on the left and ceil((e1 - last)/sampling) on the right
   (sampling = the smallest spacing for 'min'); the added samples start at e0 / stop at e1, lie strictly outside the old
   grid, carry the requested constants (or the edge values), the old samples sit unchanged in between, and the
   result is well-formed *)
Theorem C15_pad_exact :
  forall (s : spectrum) (e0 e1 : Qc) (sm : option Qc) (md : padmode) (s' : spectrum),
  wf s -> pad s e0 e1 sm md = (s', None) ->
  exists v0 v1 dw w0 L R,
    (match md with PadConst a b => v0 = a /\ v1 = b | PadEdge => v0 = hd 0 (value s) /\ v1 = last (value s) 0 end) /\
    (match sm with Some d => dw = d | None => min_diff (wave s) = Ok dw end) /\
    hd_error (wave s) = Some w0 /\
    let nl := (Qceiling ((w0 - e0) / dw) + 1)%Z in
    let nr := (Qceiling ((e1 - last (wave s) 0%Qc) / dw) + 1)%Z in
    (1 <= nl)%Z /\ (1 <= nr)%Z /\
    wave s' = L ++ wave s ++ R /\ value s' = repeat v0 (length L) ++ value s ++ repeat v1 (length R) /\
    Z.of_nat (length L) = (nl - 1)%Z /\ Z.of_nat (length R) = (nr - 1)%Z /\
    (L <> [] -> hd 0 L = e0) /\ (R <> [] -> last R 0 = e1) /\
    (forall x, In x L -> x < w0) /\ (forall x, In x R -> last (wave s) 0 < x) /\ wf s'.
Proof. exact pad_exact. Qed.
Print Assumptions C15_pad_exact.

(* append(other, copy=True) and asarray() inside a session: the caller is not touched; the returned copy is exactly what
   the in-place append would have left (well-formed, old samples followed by the new ones), a refusal is the same
   refusal; asarray returns the current (wave, value) *)
Theorem C15_copy_calls :
  forall (s : spectrum), wf s ->
  (forall o, length (wave o) = length (value o) ->
     fst (fst (do_call s (CAppendCopy o))) = s /\
     match append s o with
     | (s', None) => do_call s (CAppendCopy o) = ((s, None), ASpec s') /\ wf s' /\ samples s' = samples s ++ samples o
     | (_, Some e) => do_call s (CAppendCopy o) = ((s, Some e), ANone)
     end) /\
  do_call s CAsArray = ((s, None), ASpec s).
Proof. exact copy_calls. Qed.
Print Assumptions C15_copy_calls.

(* non-vacuity: a concrete spectrum with a non-uniform grid; a call sequence mixing accepted calls, a refused
   pad and a resample refused for its grid meets the hypotheses of the invariant and ends in the expected state; a concrete integral and bins *)
Definition spx : spectrum := mkSp [q 1 1; q 3 2; q 5 2; q 9 2; q 5 1] [q 0 1; q 2 1; q 4 1; q 1 1; q 0 1].
Definition opsx : list op :=
  [OTrim (q 1 8); OPad (q 1 2) (q 11 2) None PadEdge; OPad (q 3 1) (q 6 1) None (PadConst 0 0);
   OCrop (q 1 1) (q 9 2); OAppend (mkSp [q 6 1] [q 3 1]); OResample [q 3 1; q 2 1; q 1 1; q 1 2];
   OResample [q 1 1; q 2 1; q 5 2; q 6 1; q 7 1]].
Example C15_nonvacuous :
  wf spx /\ Forall op_ok opsx /\
  map snd (trace spx opsx) = [None; None; Some ValueError; None; None; Some ValueError; None] /\
  run spx opsx = mkSp [q 1 1; q 2 1; q 5 2; q 6 1; q 7 1] [q 0 1; q 3 1; q 4 1; q 3 1; q 0 1] /\
  integrate spx (Some (q 3 2)) (Some (q 9 2)) Trapz = Ok (q 8 1) /\
  pl_integral (samples spx) (q 3 2) (q 9 2) = q 8 1 /\
  bin spx [q 3 2; q 5 2; q 9 2] Trapz Inside true = Ok (Some [q 80 57; q 88 19; q 112 57]).
Proof. exact nonvacuous_example. Qed.

(* non-vacuity of the refusal / exactness statements: concrete refused and accepted instances of every kind *)
Example C15_refusals_nonvacuous :
  let sp := mkSp [q 1 1; q 2 1; q 4 1; q 8 1] [q 1 1; q 3 1; q 7 1; q 2 1] in
  let e := mkSp [] [] in
  wave_check [q 2 1; q 1 1] = Err ValueError /\ wave_check [q 1 1; q 1 1] = Err ValueError /\
  wave_check [q 0 1; q 1 1] = Err ValueError /\ (exists w, wave_check [q 1 1; q 2 1; q 4 1] = Ok w) /\
  make [q 1 1; q 2 1] [q 5 1] = Err ValueError /\ (exists s, make [q 1 1; q 2 1] [q 5 1; q 6 1] = Ok s) /\
  integrate sp (Some (q 5 2)) (Some (q 3 1)) Simps = Err ValueError /\ select (q 5 2) (q 3 1) (samples sp) = [] /\
  (exists x, integrate sp (Some (q 5 2)) (Some (q 3 1)) Trapz = Ok x) /\
  integrate e None (Some (q 3 1)) Trapz = Err ValueError /\
  ends (mkSp [q 1 1; q 2 1; q 3 1] [q (-1) 1; q 0 1; q (-2) 1]) (q 0 1) = Err ValueError /\
  ends (mkSp [q 1 1; q 2 1; q 3 1] [q 1 1; q 0 1; q 2 1]) (q 1 1) = Err IndexError /\
  ends (mkSp [q 1 1; q 2 1; q 3 1] [q 1 1; q 0 1; q 2 1]) (q 1 4) = Ok (0%nat, 2%nat) /\
  sample e [q 1 1] = Err ValueError /\ (exists f, sample sp [q 3 1; q 9 1] = Ok f) /\
  bin sp [q 2 1] Trapz Inside false = Err ValueError /\
  bin sp [q 5 1; q 6 1; q 7 1] Simps Inside true = Err ValueError /\
  (exists b, bin sp [q 5 1; q 6 1; q 7 1] Simps Inside false = Ok b) /\
  snd (append (mkSp [q 1 1; q 2 1; q 13 2] [q 1 1; q 1 1; q 1 1]) (mkSp [q 5 1; q 6 1; q 7 1] [q 2 1; q 2 1; q 2 1]))
    = Some ValueError /\
  snd (append (mkSp [q 1 1; q 2 1; q 3 1] [q 1 1; q 1 1; q 1 1]) (mkSp [q 4 1; q 5 1] [q 2 1; q 2 1])) = Some ValueError /\
  snd (append (mkSp [q 1 1; q 2 1; q 3 1] [q 1 1; q 1 1; q 1 1]) (mkSp [q 4 1; q 5 1; q 6 1] [q 2 1; q 2 1; q 2 1])) = None /\
  (exists s', pad (mkSp [q 3 2; q 5 2; q 9 2] [q 2 1; q 4 1; q 1 1]) (q 1 2) (q 11 2) None PadEdge = (s', None) /\
              length (wave s') = 5%nat) /\
  pad_other_refusal (mkSp [q 2 1; q 3 1; q 4 1] [q 1 1; q 1 1; q 1 1]) (q 4 1) (q 3 1) None (PadConst 0 0) = Some IndexError.
Proof. exact deepen_examples. Qed.
