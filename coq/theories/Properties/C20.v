(* C20 - array geometry helpers share one centre convention (index floor(n/2) = [ctr n]).
   Only statements: every proof is [exact] of a lemma of Proofs/.  [S] ranges over every scalar
   structure (a commutative ring where sums are involved); shapes and indices over all of Z. *)
From LV Require Import Model.Field Model.Geometry Proofs.GeometryP Lib.Instances.

(* ---------------------------------------------------------------- (a) pad *)
(* pad_centre: sample i of the result is sample i - floor(N/2) + floor(n/2) of the source when that
   index exists, zero otherwise -- for every mix of growing and shrinking axes and every parity *)
Theorem C20_pad_centre :
  forall (S : Scalar) (a : arr S) (N M : Z), 0 <= nr a -> 0 <= nc a ->
  (0 <= N -> 0 <= M ->
     exists b, pad2 a N M = Ok b /\ nr b = N /\ nc b = M /\
       forall i j, 0 <= i < N -> 0 <= j < M ->
         get b i j = if inr (nr a) (i - ctr N + ctr (nr a)) && inr (nc a) (j - ctr M + ctr (nc a))
                     then get a (i - ctr N + ctr (nr a)) (j - ctr M + ctr (nc a)) else k0) /\
  (N < 0 \/ M < 0 -> pad2 a N M = Err ValueError).
Proof. exact pad2_spec. Qed.
Print Assumptions C20_pad_centre.

Theorem C20_pad_keeps_origin_sample :
  forall (S : Scalar) (a : arr S) (N M : Z) (b : arr S),
  0 < nr a -> 0 < nc a -> 0 < N -> 0 < M -> pad2 a N M = Ok b ->
  get b (ctr N) (ctr M) = get a (ctr (nr a)) (ctr (nc a)).
Proof. exact pad2_origin. Qed.
Print Assumptions C20_pad_keeps_origin_sample.

Theorem C20_pad_then_crop_is_identity :
  forall (S : Scalar) (a : arr S) (N M : Z), 0 <= nr a -> 0 <= nc a -> nr a <= N -> nc a <= M ->
  exists b c, pad2 a N M = Ok b /\ pad2 b (nr a) (nc a) = Ok c /\ nr c = nr a /\ nc c = nc a /\
    forall i j, 0 <= i < nr a -> 0 <= j < nc a -> get c i j = get a i j.
Proof. exact pad2_roundtrip. Qed.
Print Assumptions C20_pad_then_crop_is_identity.

Theorem C20_pad_cube_centre :
  forall (S : Scalar) (c : cube S) (N M : Z), 0 <= cr c -> 0 <= cc c ->
  (0 <= N -> 0 <= M ->
     exists b, pad3 c N M = Ok b /\ cd b = cd c /\ cr b = N /\ cc b = M /\
       forall k i j, 0 <= i < N -> 0 <= j < M ->
         cget b k i j = if inr (cr c) (i - ctr N + ctr (cr c)) && inr (cc c) (j - ctr M + ctr (cc c))
                        then cget c k (i - ctr N + ctr (cr c)) (j - ctr M + ctr (cc c)) else k0) /\
  (N < 0 \/ M < 0 -> pad3 c N M = Err ValueError).
Proof. exact pad3_spec. Qed.
Print Assumptions C20_pad_cube_centre.

Theorem C20_pad_cube_then_crop_is_identity :
  forall (S : Scalar) (c : cube S) (N M : Z), 0 <= cr c -> 0 <= cc c -> cr c <= N -> cc c <= M ->
  exists b e, pad3 c N M = Ok b /\ pad3 b (cr c) (cc c) = Ok e /\ cd e = cd c /\ cr e = cr c /\ cc e = cc c /\
    forall k i j, 0 <= i < cr c -> 0 <= j < cc c -> cget e k i j = cget c k i j.
Proof. exact pad3_roundtrip. Qed.
Print Assumptions C20_pad_cube_then_crop_is_identity.

(* ---------------------------------------------------------------- (b) subarray, boundary, slices, centroid *)
(* the window is the box of the requested shape whose origin sample sits [shift] away from the
   origin sample of the source; a window that sticks outside is refused with ValueError *)
Theorem C20_subarray_is_centred_window :
  forall (S : Scalar) (a : arr S) (sr sc shr shc : Z),
  let inside := 0 <= ctr (nr a) - ctr sr + shr /\ ctr (nr a) - ctr sr + shr + sr <= nr a /\
                0 <= ctr (nc a) - ctr sc + shc /\ ctr (nc a) - ctr sc + shc + sc <= nc a in
  (inside -> exists b, subarray a sr sc shr shc = Ok b /\ nr b = sr /\ nc b = sc /\
     forall i j, get b i j = get a (i - ctr sr + shr + ctr (nr a)) (j - ctr sc + shc + ctr (nc a))) /\
  (~ inside -> subarray a sr sc shr shc = Err ValueError).
Proof. exact subarray_spec. Qed.
Print Assumptions C20_subarray_is_centred_window.

Theorem C20_subarray_agrees_with_pad :
  forall (S : Scalar) (a : arr S) (sr sc : Z), 0 <= sr <= nr a -> 0 <= sc <= nc a ->
  exists b c, subarray a sr sc 0 0 = Ok b /\ pad2 a sr sc = Ok c /\ nr b = nr c /\ nc b = nc c /\
    forall i j, 0 <= i < sr -> 0 <= j < sc -> get b i j = get c i j.
Proof. exact subarray_is_pad_crop. Qed.
Print Assumptions C20_subarray_agrees_with_pad.

(* boundary is the exact bounding box of the samples that pass the threshold test [p]: every such
   sample is inside, every side is touched; with no such sample numpy raises IndexError *)
Theorem C20_boundary_is_exact_bounding_box :
  forall (S : Scalar) (p : S -> bool) (a : arr S),
  match boundary p a with
  | Ok (r0, r1, c0, c1) =>
      (forall i j, passes S p a i j -> r0 <= i <= r1 /\ c0 <= j <= c1) /\
      (exists j, passes S p a r0 j) /\ (exists j, passes S p a r1 j) /\
      (exists i, passes S p a i c0) /\ (exists i, passes S p a i c1)
  | Err e => e = IndexError /\ forall i j, ~ passes S p a i j
  end.
Proof. exact boundary_spec. Qed.
Print Assumptions C20_boundary_is_exact_bounding_box.

(* slice_offset = origin sample of the slice - origin sample of the array, with the floor(./2)
   convention of array_extent: the extent of Field(x[s], offset) is the box of the slice *)
Theorem C20_slice_offset_matches_array_extent :
  forall (r0 r1 c0 c1 n m : Z),
  slice_offset (SlBox r0 r1 c0 c1) n m = (r0 + ctr (r1 - r0) - ctr n, c0 + ctr (c1 - c0) - ctr m) /\
  let off := slice_offset (SlBox r0 r1 c0 c1) n m in
  array_extent (r1 - r0) (c1 - c0) (fst off) (snd off) = (r0 - ctr n, r1 - 1 - ctr n, c0 - ctr m, c1 - 1 - ctr m).
Proof. exact (fun r0 r1 c0 c1 n m => conj (slice_offset_is_centre r0 r1 c0 c1 n m) (slice_offset_extent r0 r1 c0 c1 n m)). Qed.
Print Assumptions C20_slice_offset_matches_array_extent.

(* the lemma C03 uses: Field(x[boundary_slice x], slice_offset ...) embeds back onto x (samples not
   passing the threshold being zero: a mask, or non-negative data with threshold 0) *)
Theorem C20_boundary_slice_field_embeds_back :
  forall (S : Scalar) (p : S -> bool) (x : arr S) (pr pc r0 r1 c0 c1 : Z), 0 <= pr -> 0 <= pc ->
  (forall i j, 0 <= i < nr x -> 0 <= j < nc x -> p (get x i j) = false -> get x i j = k0) ->
  boundary_slice p x pr pc = Ok (r0, r1, c0, c1) ->
  0 <= r0 < r1 /\ r1 <= nr x /\ 0 <= c0 < c1 /\ c1 <= nc x /\
  let off := slice_offset (SlBox r0 r1 c0 c1) (nr x) (nc x) in
  forall i j, 0 <= i < nr x -> 0 <= j < nc x ->
    get x i j = embed (mkField (D2 (aslice x r0 r1 c0 c1)) (fst off) (snd off) [])
                      (i - ctr (nr x)) (j - ctr (nc x)).
Proof. exact boundary_slice_embeds. Qed.
Print Assumptions C20_boundary_slice_field_embeds_back.

Theorem C20_centroid_of_impulse_is_its_index :
  forall (a : arr QS) (i0 j0 : Z) (v : Qc), 0 <= i0 < nr a -> 0 <= j0 < nc a -> v <> 0%Qc ->
  (forall i j, 0 <= i < nr a -> 0 <= j < nc a -> get a i j = if (i =? i0) && (j =? j0) then v else 0%Qc) ->
  centroid a = (zq i0, zq j0).
Proof. exact centroid_impulse. Qed.
Print Assumptions C20_centroid_of_impulse_is_its_index.

(* ---------------------------------------------------------------- (c) rebin *)
Theorem C20_rebin_preserves_sum :
  forall (S : Scalar), is_ring S -> forall (a : arr S) (f : Z) (b : arr S),
  0 <= nr a -> 0 <= nc a -> rebin2 a f = Ok b ->
  0 < f /\ nr b = nr a / f /\ nc b = nc a / f /\ asum b = asum a.
Proof. exact rebin2_sum. Qed.
Print Assumptions C20_rebin_preserves_sum.

Theorem C20_rebin_cube_preserves_sum :
  forall (S : Scalar), is_ring S -> forall (c : cube S) (f : Z) (b : cube S),
  0 <= cr c -> 0 <= cc c -> rebin3 c f = Ok b ->
  0 < f /\ cd b = cd c /\ cr b = cr c / f /\ cc b = cc c / f /\
  (forall k, 0 <= k < cd c -> asum (cslice b k) = asum (cslice c k)) /\ csum b = csum c.
Proof. exact rebin3_sum. Qed.
Print Assumptions C20_rebin_cube_preserves_sum.

Theorem C20_rebin_accepts_exactly_divisible_shapes :
  forall (S : Scalar) (a : arr S) (f : Z), 0 < f -> 0 < nr a -> 0 < nc a ->
  ((nr a mod f = 0 /\ nc a mod f = 0) <-> exists b, rebin2 a f = Ok b).
Proof. exact rebin2_accepts. Qed.
Print Assumptions C20_rebin_accepts_exactly_divisible_shapes.

(* ---------------------------------------------------------------- non-vacuity *)
Definition exA : arr ZS := @mkArr ZS 3 4 (fun i j => 1 + i * 4 + j).
Example C20_nonvacuous :
  (match pad2 exA 6 3 with Ok b => get b 3 1 = get exA 1 2 /\ get b 0 0 = 0 /\ get b 2 0 = 2 | Err _ => False end) /\
  (match subarray exA 2 2 0 1 with Ok b => get b 0 0 = 3 | Err _ => False end) /\
  subarray exA 2 2 2 0 = Err ValueError /\
  @boundary ZS (fun v => 6 <? v) exA = Ok (1, 2, 0, 3) /\
  (match rebin2 (@mkArr ZS 2 4 (get exA)) 2 with Ok b => asum b = 36 /\ get b 0 1 = 3 + 4 + 7 + 8 | Err _ => False end) /\
  centroid (@mkArr QS 3 3 (fun i j => if (i =? 2) && (j =? 1) then Q2Qc (5 # 2) else 0%Qc)) = (zq 2, zq 1).
Proof. vm_compute. repeat split; reflexivity. Qed.
