(* C20 - array geometry helpers share one centre convention (index floor(n/2) = [ctr n]).
   Only statements: every proof is [exact] of a lemma of Proofs/.  [S] ranges over every scalar
   structure (a commutative ring where sums are involved); shapes and indices over all of Z. *)
From Coq Require Import Reals.
From LV Require Import Lib.Cis Model.Field Model.Geometry Model.Shapes Proofs.GeometryP Proofs.ShapesP Proofs.ShapesR Proofs.HexLatticeP Proofs.HexSegR Proofs.CentroidP Lib.Instances.
#[local] Open Scope Z_scope.

(* ---------------------------------------------------------------- (a) pad *)
(* pad_centre: sample i of the result is sample i - floor(N/2) + floor(n/2) of the source when that
   index exists, zero otherwise -- for every mix of growing and shrinking axes and every parity *)
Theorem C20_pad_centre :
  forall (S : Scalar) (a : arr S) (N M : Z), 0 <= nr a -> 0 <= nc a ->
  (0 <= N -> 0 <= M ->
     exists b, pad2 a N M = Ok b /\ nr b = N /\ nc b = M /\
       forall i j, 0 <= i < N -> 0 <= j < M ->
         get b i j = if inr (nr a) (i - ctr N + ctr (nr a)) && inr (nc a) (j - ctr M + ctr (nc a))
                     then get a (i - ctr N + ctr (nr a)) (j - ctr M + ctr (nc a)) else k0) /\
  (N < 0 \/ M < 0 -> pad2 a N M = Err ValueError).
Proof. exact pad2_spec. Qed.
Print Assumptions C20_pad_centre.

Theorem C20_pad_keeps_origin_sample :
  forall (S : Scalar) (a : arr S) (N M : Z) (b : arr S),
  0 < nr a -> 0 < nc a -> 0 < N -> 0 < M -> pad2 a N M = Ok b ->
  get b (ctr N) (ctr M) = get a (ctr (nr a)) (ctr (nc a)).
Proof. exact pad2_origin. Qed.
Print Assumptions C20_pad_keeps_origin_sample.

Theorem C20_pad_then_crop_is_identity :
  forall (S : Scalar) (a : arr S) (N M : Z), 0 <= nr a -> 0 <= nc a -> nr a <= N -> nc a <= M ->
  exists b c, pad2 a N M = Ok b /\ pad2 b (nr a) (nc a) = Ok c /\ nr c = nr a /\ nc c = nc a /\
    forall i j, 0 <= i < nr a -> 0 <= j < nc a -> get c i j = get a i j.
Proof. exact pad2_roundtrip. Qed.
Print Assumptions C20_pad_then_crop_is_identity.

Theorem C20_pad_cube_centre :
  forall (S : Scalar) (c : cube S) (N M : Z), 0 <= cr c -> 0 <= cc c ->
  (0 <= N -> 0 <= M ->
     exists b, pad3 c N M = Ok b /\ cd b = cd c /\ cr b = N /\ cc b = M /\
       forall k i j, 0 <= i < N -> 0 <= j < M ->
         cget b k i j = if inr (cr c) (i - ctr N + ctr (cr c)) && inr (cc c) (j - ctr M + ctr (cc c))
                        then cget c k (i - ctr N + ctr (cr c)) (j - ctr M + ctr (cc c)) else k0) /\
  (N < 0 \/ M < 0 -> pad3 c N M = Err ValueError).
Proof. exact pad3_spec. Qed.
Print Assumptions C20_pad_cube_centre.

Theorem C20_pad_cube_then_crop_is_identity :
  forall (S : Scalar) (c : cube S) (N M : Z), 0 <= cr c -> 0 <= cc c -> cr c <= N -> cc c <= M ->
  exists b e, pad3 c N M = Ok b /\ pad3 b (cr c) (cc c) = Ok e /\ cd e = cd c /\ cr e = cr c /\ cc e = cc c /\
    forall k i j, 0 <= i < cr c -> 0 <= j < cc c -> cget e k i j = cget c k i j.
Proof. exact pad3_roundtrip. Qed.
Print Assumptions C20_pad_cube_then_crop_is_identity.

(* ---------------------------------------------------------------- (b) subarray, boundary, slices, centroid *)
(* the window is the box of the requested shape whose origin sample sits [shift] away from the
   origin sample of the source; a window that sticks outside is refused with ValueError *)
Theorem C20_subarray_is_centred_window :
  forall (S : Scalar) (a : arr S) (sr sc shr shc : Z),
  let inside := 0 <= ctr (nr a) - ctr sr + shr /\ ctr (nr a) - ctr sr + shr + sr <= nr a /\
                0 <= ctr (nc a) - ctr sc + shc /\ ctr (nc a) - ctr sc + shc + sc <= nc a in
  (inside -> exists b, subarray a sr sc shr shc = Ok b /\ nr b = sr /\ nc b = sc /\
     forall i j, get b i j = get a (i - ctr sr + shr + ctr (nr a)) (j - ctr sc + shc + ctr (nc a))) /\
  (~ inside -> subarray a sr sc shr shc = Err ValueError).
Proof. exact subarray_spec. Qed.
Print Assumptions C20_subarray_is_centred_window.

Theorem C20_subarray_agrees_with_pad :
  forall (S : Scalar) (a : arr S) (sr sc : Z), 0 <= sr <= nr a -> 0 <= sc <= nc a ->
  exists b c, subarray a sr sc 0 0 = Ok b /\ pad2 a sr sc = Ok c /\ nr b = nr c /\ nc b = nc c /\
    forall i j, 0 <= i < sr -> 0 <= j < sc -> get b i j = get c i j.
Proof. exact subarray_is_pad_crop. Qed.
Print Assumptions C20_subarray_agrees_with_pad.

(* window: pad when only a shape is given, the numpy view when a slice is given, AssertionError when
   both are given and disagree *)
Theorem C20_window_is_pad_or_view :
  forall (S : Scalar) (a : arr S), nr a * nc a <> 1 ->
  (forall h w, window a (Some (h, w)) None = pad2 a h w) /\
  window a None None = Ok a /\
  (forall r0 r1 c0 c1, 0 <= r0 <= r1 -> r1 <= nr a -> 0 <= c0 <= c1 -> c1 <= nc a ->
     exists b, window a None (Some (r0, r1, c0, c1)) = Ok b /\ nr b = r1 - r0 /\ nc b = c1 - c0 /\
       forall i j, get b i j = get a (i + r0) (j + c0)) /\
  (forall h w r0 r1 c0 c1, (r1 - r0 <> h \/ c1 - c0 <> w) ->
     window a (Some (h, w)) (Some (r0, r1, c0, c1)) = Err AssertionErr).
Proof. exact window_spec. Qed.
Print Assumptions C20_window_is_pad_or_view.

(* window(cube, shape=...) is pad on the image axes (1, 2) -- in particular a cube whose (depth, rows)
   happens to equal the requested (rows, cols) is still padded / cropped *)
Theorem C20_window_cube_shape_is_pad :
  forall (S : Scalar) (c : cube S) (h w : Z), cd c * cr c * cc c <> 1 ->
  window3 c (Some (h, w)) None = pad3 c h w /\ window3 c None None = Ok c.
Proof. exact window3_shape_is_pad. Qed.
Print Assumptions C20_window_cube_shape_is_pad.

(* window(cube, slice=(r0, r1, c0, c1)) in the model (= the code with proposed fix c20-window-slice-cube.patch;
   the committed code slices the leading axes of the cube: known finding C20-window-slice-cube-axes, recognised by
   the check): every layer is the 2-D window of that layer *)
Theorem C20_window_cube_slice_is_layerwise :
  forall (S : Scalar) (c : cube S) (r0 r1 c0 c1 k : Z), cd c * cr c * cc c <> 1 ->
  exists b, window3 c None (Some (r0, r1, c0, c1)) = Ok b /\ cd b = cd c /\
    cr b = nr (np_slice (cslice c k) r0 r1 c0 c1) /\ cc b = nc (np_slice (cslice c k) r0 r1 c0 c1) /\
    forall i j, cget b k i j = get (np_slice (cslice c k) r0 r1 c0 c1) i j.
Proof. exact window3_slice_layers. Qed.
Print Assumptions C20_window_cube_slice_is_layerwise.

(* boundary is the exact bounding box of the samples that pass the threshold test [p]: every such
   sample is inside, every side is touched; with no such sample numpy raises IndexError *)
Theorem C20_boundary_is_exact_bounding_box :
  forall (S : Scalar) (p : S -> bool) (a : arr S),
  match boundary p a with
  | Ok (r0, r1, c0, c1) =>
      (forall i j, passes S p a i j -> r0 <= i <= r1 /\ c0 <= j <= c1) /\
      (exists j, passes S p a r0 j) /\ (exists j, passes S p a r1 j) /\
      (exists i, passes S p a i c0) /\ (exists i, passes S p a i c1)
  | Err e => e = IndexError /\ forall i j, ~ passes S p a i j
  end.
Proof. exact boundary_spec. Qed.
Print Assumptions C20_boundary_is_exact_bounding_box.

(* slice_offset = origin sample of the slice - origin sample of the array, with the floor(./2)
   convention of array_extent: the extent of Field(x[s], offset) is the box of the slice *)
Theorem C20_slice_offset_matches_array_extent :
  forall (r0 r1 c0 c1 n m : Z),
  slice_offset (SlBox r0 r1 c0 c1) n m = (r0 + ctr (r1 - r0) - ctr n, c0 + ctr (c1 - c0) - ctr m) /\
  let off := slice_offset (SlBox r0 r1 c0 c1) n m in
  array_extent (r1 - r0) (c1 - c0) (fst off) (snd off) = (r0 - ctr n, r1 - 1 - ctr n, c0 - ctr m, c1 - 1 - ctr m).
Proof. exact (fun r0 r1 c0 c1 n m => conj (slice_offset_is_centre r0 r1 c0 c1 n m) (slice_offset_extent r0 r1 c0 c1 n m)). Qed.
Print Assumptions C20_slice_offset_matches_array_extent.

(* the lemma C03 uses: Field(x[boundary_slice x], slice_offset ...) embeds back onto x (samples not
   passing the threshold being zero: a mask, or non-negative data with threshold 0) *)
Theorem C20_boundary_slice_field_embeds_back :
  forall (S : Scalar) (p : S -> bool) (x : arr S) (pr pc r0 r1 c0 c1 : Z), 0 <= pr -> 0 <= pc ->
  (forall i j, 0 <= i < nr x -> 0 <= j < nc x -> p (get x i j) = false -> get x i j = k0) ->
  boundary_slice p x pr pc = Ok (r0, r1, c0, c1) ->
  0 <= r0 < r1 /\ r1 <= nr x /\ 0 <= c0 < c1 /\ c1 <= nc x /\
  let off := slice_offset (SlBox r0 r1 c0 c1) (nr x) (nc x) in
  forall i j, 0 <= i < nr x -> 0 <= j < nc x ->
    get x i j = embed (mkField (D2 (aslice x r0 r1 c0 c1)) (fst off) (snd off) [])
                      (i - ctr (nr x)) (j - ctr (nc x)).
Proof. exact boundary_slice_embeds. Qed.
Print Assumptions C20_boundary_slice_field_embeds_back.

Theorem C20_centroid_of_impulse_is_its_index :
  forall (a : arr QS) (i0 j0 : Z) (v : Qc), 0 <= i0 < nr a -> 0 <= j0 < nc a -> v <> 0%Qc ->
  (forall i j, 0 <= i < nr a -> 0 <= j < nc a -> get a i j = if (i =? i0) && (j =? j0) then v else 0%Qc) ->
  centroid a = (zq i0, zq j0).
Proof. exact centroid_impulse. Qed.
Print Assumptions C20_centroid_of_impulse_is_its_index.

(* ---------------------------------------------------------------- (c) rebin *)
Theorem C20_rebin_preserves_sum :
  forall (S : Scalar), is_ring S -> forall (a : arr S) (f : Z) (b : arr S),
  0 <= nr a -> 0 <= nc a -> rebin2 a f = Ok b ->
  0 < f /\ nr b = nr a / f /\ nc b = nc a / f /\ asum b = asum a.
Proof. exact rebin2_sum. Qed.
Print Assumptions C20_rebin_preserves_sum.

Theorem C20_rebin_cube_preserves_sum :
  forall (S : Scalar), is_ring S -> forall (c : cube S) (f : Z) (b : cube S),
  0 <= cr c -> 0 <= cc c -> rebin3 c f = Ok b ->
  0 < f /\ cd b = cd c /\ cr b = cr c / f /\ cc b = cc c / f /\
  (forall k, 0 <= k < cd c -> asum (cslice b k) = asum (cslice c k)) /\ csum b = csum c.
Proof. exact rebin3_sum. Qed.
Print Assumptions C20_rebin_cube_preserves_sum.

Theorem C20_rebin_accepts_exactly_divisible_shapes :
  forall (S : Scalar) (a : arr S) (f : Z), 0 < f -> 0 < nr a -> 0 < nc a ->
  ((nr a mod f = 0 /\ nc a mod f = 0) <-> exists b, rebin2 a f = Ok b).
Proof. exact rebin2_accepts. Qed.
Print Assumptions C20_rebin_accepts_exactly_divisible_shapes.

(* ---------------------------------------------------------------- (d) drawn shapes *)
(* [S] is any commutative ring with a total order compatible with + ([ord_laws]) into which the
   integers inject additively ([zinj_laws]); [sq] is ANY function standing for the square root; the
   rotation cosine/sine, sqrt 3 and the hexagon normals are arbitrary scalars.  The reals (with the
   real sqrt/sin/cos) and the rationals (the executed instance) are such structures. *)
Theorem C20_reals_and_rationals_are_ordered_scalars :
  ord_laws RS Rleb /\ zinj_laws RS /\ ord_laws QS qle /\ zinj_laws QS.
Proof. exact (conj RS_ord (conj RS_zinj (conj QS_ord QS_zinj))). Qed.
Print Assumptions C20_reals_and_rationals_are_ordered_scalars.

(* values in [0,1]; exactly 0 or 1 without antialiasing *)
Theorem C20_shapes_in_unit_interval_and_binary :
  forall (S : Scalar) (leb : S -> S -> bool) (sq : S -> S), is_ring S -> ord_laws S leb -> zinj_laws S ->
  forall (n m : Z) (radius w h s3 sh0 sh1 co si : S) (ns : list (S * S)) (aa : bool) (i j : Z),
  let unit v := leb k0 v = true /\ leb v k1 = true in
  let binary v := v = k0 \/ v = k1 in
  (unit (circle_val leb sq n m radius sh0 sh1 aa i j) /\
   (aa = false -> binary (circle_val leb sq n m radius sh0 sh1 aa i j))) /\
  (unit (rect_val leb n m w h sh0 sh1 co si aa i j) /\
   (aa = false -> binary (rect_val leb n m w h sh0 sh1 co si aa i j))) /\
  (unit (hex_val leb n m radius s3 sh0 sh1 ns aa i j) /\
   (aa = false -> binary (hex_val leb n m radius s3 sh0 sh1 ns aa i j))).
Proof.
  exact (fun S leb sq R O Zi n m radius w h s3 sh0 sh1 co si ns aa i j =>
    conj (circle_range S leb sq R O Zi n m radius sh0 sh1 aa i j)
   (conj (rect_range S leb sq R O Zi n m w h sh0 sh1 co si aa i j)
         (hex_range S leb sq R O Zi n m radius s3 sh0 sh1 ns aa i j))).
Qed.
Print Assumptions C20_shapes_in_unit_interval_and_binary.

(* exact translation: the value depends only on (index - floor(n/2) - shift); in particular an
   integer change (d0, d1) of the shift moves the drawing by exactly (d0, d1) samples, in any array *)
Theorem C20_shapes_translate_exactly :
  forall (S : Scalar) (leb : S -> S -> bool) (sq : S -> S), is_ring S -> ord_laws S leb -> zinj_laws S ->
  forall (n m n' m' : Z) (radius w h s3 sh0 sh1 co si : S) (ns : list (S * S)) (aa : bool) (i j i' j' d0 d1 : Z),
  i' - n' / 2 = i - n / 2 + d0 -> j' - m' / 2 = j - m / 2 + d1 ->
  circle_val leb sq n' m' radius (sh0 + kofz d0)%K (sh1 + kofz d1)%K aa i' j' = circle_val leb sq n m radius sh0 sh1 aa i j /\
  rect_val leb n' m' w h (sh0 + kofz d0)%K (sh1 + kofz d1)%K co si aa i' j' = rect_val leb n m w h sh0 sh1 co si aa i j /\
  hex_val leb n' m' radius s3 (sh0 + kofz d0)%K (sh1 + kofz d1)%K ns aa i' j' = hex_val leb n m radius s3 sh0 sh1 ns aa i j.
Proof.
  exact (fun S leb sq R O Zi n m n' m' radius w h s3 sh0 sh1 co si ns aa i j i' j' d0 d1 H0 H1 =>
    conj (circle_translate S leb sq R O Zi n m n' m' radius sh0 sh1 aa i j i' j' d0 d1 H0 H1)
   (conj (rect_translate S leb sq R O Zi n m n' m' w h sh0 sh1 co si aa i j i' j' d0 d1 H0 H1)
         (hex_translate S leb sq R O Zi n m n' m' radius s3 sh0 sh1 ns aa i j i' j' d0 d1 H0 H1))).
Qed.
Print Assumptions C20_shapes_translate_exactly.

(* circle: half-turn i |-> 2*floor(n/2) - i about the origin sample, and both mirrors *)
Theorem C20_circle_half_turn_and_mirrors :
  forall (S : Scalar) (leb : S -> S -> bool) (sq : S -> S), is_ring S -> ord_laws S leb -> zinj_laws S ->
  forall (n m : Z) (radius : S) (aa : bool) (i j : Z),
  circle_val leb sq n m radius k0 k0 aa (2 * (n / 2) - i) (2 * (m / 2) - j) = circle_val leb sq n m radius k0 k0 aa i j /\
  circle_val leb sq n m radius k0 k0 aa (2 * (n / 2) - i) j = circle_val leb sq n m radius k0 k0 aa i j /\
  circle_val leb sq n m radius k0 k0 aa i (2 * (m / 2) - j) = circle_val leb sq n m radius k0 k0 aa i j.
Proof.
  exact (fun S leb sq R O Zi n m radius aa i j =>
    conj (circle_half_turn S leb sq R O Zi n m radius aa i j) (circle_mirror S leb sq R O Zi n m radius aa i j)).
Qed.
Print Assumptions C20_circle_half_turn_and_mirrors.

(* rectangle: half-turn for every rotation (co, si arbitrary); mirrors when not rotated (co = 1, si = 0) *)
Theorem C20_rectangle_half_turn_and_mirrors :
  forall (S : Scalar) (leb : S -> S -> bool) (sq : S -> S), is_ring S -> ord_laws S leb -> zinj_laws S ->
  forall (n m : Z) (w h co si : S) (aa : bool) (i j : Z),
  rect_val leb n m w h k0 k0 co si aa (2 * (n / 2) - i) (2 * (m / 2) - j) = rect_val leb n m w h k0 k0 co si aa i j /\
  rect_val leb n m w h k0 k0 k1 k0 aa (2 * (n / 2) - i) j = rect_val leb n m w h k0 k0 k1 k0 aa i j /\
  rect_val leb n m w h k0 k0 k1 k0 aa i (2 * (m / 2) - j) = rect_val leb n m w h k0 k0 k1 k0 aa i j.
Proof.
  exact (fun S leb sq R O Zi n m w h co si aa i j =>
    conj (rect_half_turn S leb sq R O Zi n m w h co si aa i j) (rect_mirror S leb sq R O Zi n m w h aa i j)).
Qed.
Print Assumptions C20_rectangle_half_turn_and_mirrors.

(* hexagon: invariant under a symmetry as soon as the list of normals is closed under its dual *)
Theorem C20_hexagon_symmetric_when_normals_closed :
  forall (S : Scalar) (leb : S -> S -> bool) (sq : S -> S), is_ring S -> ord_laws S leb -> zinj_laws S ->
  forall (n m : Z) (radius s3 : S) (ns : list (S * S)) (aa : bool) (i j : Z),
  ((forall p, In p ns -> In ((- fst p)%K, (- snd p)%K) ns) ->
   hex_val leb n m radius s3 k0 k0 ns aa (2 * (n / 2) - i) (2 * (m / 2) - j) = hex_val leb n m radius s3 k0 k0 ns aa i j) /\
  ((forall p, In p ns -> In ((- fst p)%K, snd p) ns) ->
   hex_val leb n m radius s3 k0 k0 ns aa (2 * (n / 2) - i) j = hex_val leb n m radius s3 k0 k0 ns aa i j) /\
  ((forall p, In p ns -> In (fst p, (- snd p)%K) ns) ->
   hex_val leb n m radius s3 k0 k0 ns aa i (2 * (m / 2) - j) = hex_val leb n m radius s3 k0 k0 ns aa i j).
Proof.
  exact (fun S leb sq R O Zi n m radius s3 ns aa i j =>
    conj (hex_half_turn S leb sq R O Zi n m radius s3 ns aa i j) (hex_mirror S leb sq R O Zi n m radius s3 ns aa i j)).
Qed.
Print Assumptions C20_hexagon_symmetric_when_normals_closed.

(* over the reals the six normals (sin theta_k, cos theta_k), theta_k = k pi/3 (+ pi/6), come in
   opposite pairs, so the real hexagon is invariant under the half-turn (both orientations) *)
Theorem C20_hexagon_normals_opposite_pairs :
  forall (rotate : bool) (p : R * R), In p (hex_normals_R rotate) -> In ((- fst p)%R, (- snd p)%R) (hex_normals_R rotate).
Proof. exact hex_normals_opposite. Qed.
Print Assumptions C20_hexagon_normals_opposite_pairs.

Theorem C20_hexagon_half_turn_real :
  forall (n m : Z) (radius : R) (rotate aa : bool) (i j : Z),
  @hex_val RS Rleb n m radius (sqrt 3) 0%R 0%R (hex_normals_R rotate) aa (2 * (n / 2) - i) (2 * (m / 2) - j) =
  @hex_val RS Rleb n m radius (sqrt 3) 0%R 0%R (hex_normals_R rotate) aa i j.
Proof. exact hexagon_half_turn_R. Qed.
Print Assumptions C20_hexagon_half_turn_real.

(* ... and under both mirrors (theta |-> pi - theta and theta |-> -theta permute the six normals) *)
Theorem C20_hexagon_mirrors_real :
  forall (n m : Z) (radius : R) (rotate aa : bool) (i j : Z),
  @hex_val RS Rleb n m radius (sqrt 3) 0%R 0%R (hex_normals_R rotate) aa (2 * (n / 2) - i) j =
  @hex_val RS Rleb n m radius (sqrt 3) 0%R 0%R (hex_normals_R rotate) aa i j /\
  @hex_val RS Rleb n m radius (sqrt 3) 0%R 0%R (hex_normals_R rotate) aa i (2 * (m / 2) - j) =
  @hex_val RS Rleb n m radius (sqrt 3) 0%R 0%R (hex_normals_R rotate) aa i j.
Proof. exact hexagon_mirror_R. Qed.
Print Assumptions C20_hexagon_mirrors_real.

(* ---------------------------------------------------------------- (e) hexagonal segments *)
Theorem C20_hex_ring_has_6r_segments :
  forall r : Z, Z.of_nat (length (hex_ring r)) = 6 * Z.max r 0.
Proof. exact hex_ring_length. Qed.
Print Assumptions C20_hex_ring_has_6r_segments.

(* k rings hold 1 + 3k(k+1) segments minus the segment numbers of the aperture found in the drop list *)
Theorem C20_hex_segment_count :
  forall (rings : Z) (drop : list Z), 0 <= rings ->
  Z.of_nat (length (hex_kept rings drop)) =
  1 + 3 * rings * (rings + 1) - Z.of_nat (length (filter (fun p => in_drop drop (fst p)) (hex_numbered rings))).
Proof. exact hex_count. Qed.
Print Assumptions C20_hex_segment_count.

(* separating axis on the lattice: two distinct lattice points differ by at least 2 half-steps along
   one of the three hexagon axes *)
Theorem C20_hex_lattice_separation :
  forall dq dr : Z, (dq, dr) <> (0, 0) ->
  2 <= Z.abs (2 * dq + dr) \/ 2 <= Z.abs (dq + 2 * dr) \/ 2 <= Z.abs (dr - dq).
Proof. exact hex_lattice_separation. Qed.
Print Assumptions C20_hex_lattice_separation.

(* non-overlap (non-antialiased masks): two hexagons whose centres (a0,a1), (b0,b1) are further apart
   along a normal p (with -p also a normal) than twice the inner radius share no sample *)
Theorem C20_hex_masks_disjoint_when_separated :
  forall (S : Scalar) (leb : S -> S -> bool) (sq : S -> S), is_ring S -> ord_laws S leb -> zinj_laws S ->
  forall (n m : Z) (radius s3 : S) (ns : list (S * S)) (a0 a1 b0 b1 : S) (p : S * S) (i j : Z),
  k1 <> @k0 S -> In p ns -> In ((- fst p)%K, (- snd p)%K) ns ->
  gtb leb ((b0 - a0) * fst p + (b1 - a1) * snd p)%K (radius * s3 * khalf + radius * s3 * khalf)%K = true ->
  ~ (hex_val leb n m radius s3 a0 a1 ns false i j = k1 /\ hex_val leb n m radius s3 b0 b1 ns false i j = k1).
Proof. exact hex_masks_disjoint. Qed.
Print Assumptions C20_hex_masks_disjoint_when_separated.

(* the ring as the code builds it: no repetitions, every member on the plane q + r + s = 0 at hex distance r *)
Theorem C20_hex_ring_members_distinct_at_distance_r :
  forall r : Z, NoDup (hex_ring r) /\
  forall x, 0 <= r -> In x (hex_ring r) -> hq x + hr x + hs x = 0 /\ hnorm x = r.
Proof. exact (fun r => conj (hex_ring_nodup r) (fun x => hex_ring_plane_norm r x)). Qed.
Print Assumptions C20_hex_ring_members_distinct_at_distance_r.

(* the segments (centre + all rings) sit on pairwise distinct lattice points, and two different kept
   segments are separated by >= 2 half-steps along one of the three hexagon axes *)
Theorem C20_hex_segments_pairwise_separated :
  forall (rings : Z) (drop : list Z),
  NoDup (map snd (hex_numbered rings)) /\
  forall a b, In a (hex_kept rings drop) -> In b (hex_kept rings drop) -> a <> b ->
  let dq := hq (snd b) - hq (snd a) in let dr := hr (snd b) - hr (snd a) in
  hs (snd b) - hs (snd a) = - dq - dr /\
  (2 <= Z.abs (2 * dq + dr) \/ 2 <= Z.abs (dq + 2 * dr) \/ 2 <= Z.abs (dr - dq)).
Proof. exact (fun rings drop => conj (hex_numbered_nodup rings) (hex_kept_pairwise_separated rings drop)). Qed.
Print Assumptions C20_hex_segments_pairwise_separated.

(* non-overlap, judged on non-antialiased masks, for seg_gap > 0: over the reals (real sqrt 3, real
   normals, the shifts hex_segments computes) no sample belongs to two different segments *)
Theorem C20_hex_segments_do_not_overlap_for_positive_gap :
  forall (rings : Z) (radius gap : R) (rotate : bool) (drop : list Z) (n m : Z) (a b : Z * (R * R)) (i j : Z),
  (0 <= radius)%R -> (0 < gap)%R ->
  In a (@hex_shifts RS rings radius gap (sqrt 3) rotate drop) ->
  In b (@hex_shifts RS rings radius gap (sqrt 3) rotate drop) -> a <> b ->
  ~ (@hex_val RS Rleb n m radius (sqrt 3) (fst (snd a)) (snd (snd a)) (hex_normals_R rotate) false i j = 1%R /\
     @hex_val RS Rleb n m radius (sqrt 3) (fst (snd b)) (snd (snd b)) (hex_normals_R rotate) false i j = 1%R).
Proof. exact hex_segments_disjoint_R. Qed.
Print Assumptions C20_hex_segments_do_not_overlap_for_positive_gap.

(* seg_gap = 0 (known finding C20-hex-gap0-shared-edge): segments 3 and 4 of a one-ring aperture of radius 2
   both contain the sample 3 columns right of the origin sample -- their common edge row *)
Theorem C20_hex_segments_gap0_shared_edge_refuted :
  forall n m : Z, exists a b,
    In a (@hex_shifts RS 1 2%R 0%R (sqrt 3) false [0]) /\ In b (@hex_shifts RS 1 2%R 0%R (sqrt 3) false [0]) /\
    fst a <> fst b /\
    @hex_val RS Rleb n m 2%R (sqrt 3) (fst (snd a)) (snd (snd a)) (hex_normals_R false) false (n / 2) (m / 2 + 3) = 1%R /\
    @hex_val RS Rleb n m 2%R (sqrt 3) (fst (snd b)) (snd (snd b)) (hex_normals_R false) false (n / 2) (m / 2 + 3) = 1%R.
Proof. exact hex_gap0_shared_edge_R. Qed.
Print Assumptions C20_hex_segments_gap0_shared_edge_refuted.

(* ---------------------------------------------------------------- deepen: entry points, mesh, spider, centroid *)
(* rebin refuses complex data (ValueError) before anything else; real data go to the reshape-and-sum *)
Theorem C20_rebin_refuses_complex :
  forall (S : Scalar) (a : arr S) (c : cube S) (f : Z),
  rebin2_entry true a f = Err ValueError /\ rebin3_entry true c f = Err ValueError /\
  rebin2_entry false a f = rebin2 a f /\ rebin3_entry false c f = rebin3 c f.
Proof. exact rebin_entry_spec. Qed.
Print Assumptions C20_rebin_refuses_complex.

(* sanitize_shape: a scalar s is the square shape (s, s), a sequence (also the empty one) is kept; idempotent *)
Theorem C20_sanitize_shape :
  (forall s, sanitize_shape (ShScalar s) = [s; s]) /\ (forall l, sanitize_shape (ShSeq l) = l) /\
  (forall a, sanitize_shape (ShSeq (sanitize_shape a)) = sanitize_shape a).
Proof. exact sanitize_shape_spec. Qed.
Print Assumptions C20_sanitize_shape.

(* slice_offset on the Ellipsis forms: `...` and `(..., :)` are the whole array (offset (0, 0) whatever the shape),
   any other tuple with an Ellipsis is refused with ValueError (the code since fix 394c6f4) *)
Theorem C20_slice_offset_ellipsis_forms :
  forall n m : Z,
  slice_offset_ell EllBare = Ok (slice_offset SlEllipsis n m) /\ slice_offset_ell EllAll = Ok (0, 0) /\
  slice_offset_ell EllOther = Err ValueError.
Proof. exact slice_offset_ell_spec. Qed.
Print Assumptions C20_slice_offset_ellipsis_forms.

(* helper.mesh: both rotated coordinates vanish on the origin sample moved by the integer shift, for every
   rotation; the grid moves with the shift and changes sign under the half-turn about the origin sample *)
Theorem C20_mesh_origin_translation_half_turn :
  forall (S : Scalar) (leb : S -> S -> bool) (sq : S -> S), is_ring S -> ord_laws S leb -> zinj_laws S ->
  forall (n m n' m' : Z) (sh0 sh1 co si : S) (i j i' j' d0 d1 : Z),
  mesh_val n m (kofz d0) (kofz d1) co si (n / 2 + d0) (m / 2 + d1) = (@k0 S, @k0 S) /\
  (i' - n' / 2 = i - n / 2 + d0 -> j' - m' / 2 = j - m / 2 + d1 ->
   mesh_val n' m' (sh0 + kofz d0)%K (sh1 + kofz d1)%K co si i' j' = mesh_val n m sh0 sh1 co si i j) /\
  mesh_val n m k0 k0 co si (2 * (n / 2) - i) (2 * (m / 2) - j) =
    ((- fst (mesh_val n m k0 k0 co si i j))%K, (- snd (mesh_val n m k0 k0 co si i j))%K).
Proof.
  exact (fun S leb sq R O Zi n m n' m' sh0 sh1 co si i j i' j' d0 d1 =>
    conj (mesh_origin S leb sq R O Zi n m d0 d1 co si)
   (conj (mesh_translate S leb sq R O Zi n m n' m' sh0 sh1 co si i j i' j' d0 d1)
         (mesh_half_turn S leb sq R O Zi n m co si i j))).
Qed.
Print Assumptions C20_mesh_origin_translation_half_turn.

(* spider = 1 - rectangle(len, width) pushed out by len/2 along the angle: values in [0,1], binary without
   antialiasing, spider + its arm = 1 everywhere, exact translation under integer shifts *)
Theorem C20_spider_complement_range_translation :
  forall (S : Scalar) (leb : S -> S -> bool) (sq : S -> S), is_ring S -> ord_laws S leb -> zinj_laws S ->
  forall (n m : Z) (width s2 sh0 sh1 co si : S) (aa : bool) (i j d0 d1 : Z),
  let v := spider_val leb n m width s2 sh0 sh1 co si aa i j in
  (leb k0 v = true /\ leb v k1 = true) /\ (aa = false -> v = k0 \/ v = k1) /\
  (v + rect_val leb n m (spider_len n m s2) width (sh0 + - (spider_len n m s2 * khalf) * si)%K
                (sh1 + spider_len n m s2 * khalf * co)%K co si aa i j = k1)%K /\
  spider_val leb n m width s2 (sh0 + kofz d0)%K (sh1 + kofz d1)%K co si aa (i + d0) (j + d1) = v.
Proof.
  exact (fun S leb sq R O Zi n m width s2 sh0 sh1 co si aa i j d0 d1 =>
    conj (proj1 (spider_range S leb sq R O Zi n m width s2 sh0 sh1 co si aa i j))
   (conj (proj2 (spider_range S leb sq R O Zi n m width s2 sh0 sh1 co si aa i j))
   (conj (spider_is_complement S leb sq R O Zi n m width s2 sh0 sh1 co si aa i j)
         (spider_translate S leb sq R O Zi n m width s2 sh0 sh1 co si aa i j d0 d1)))).
Qed.
Print Assumptions C20_spider_complement_range_translation.

(* centroid is scale free (no absolute threshold can enter) ... *)
Theorem C20_centroid_scale_free :
  forall (a : arr QS) (k : Qc), k <> 0%Qc ->
  centroid (@mkArr QS (nr a) (nc a) (fun i j => (k * get a i j)%Qc)) = centroid a.
Proof. exact centroid_scale. Qed.
Print Assumptions C20_centroid_scale_free.

(* ... and consistent with pad: zero-padding moves it by the difference of the origin indices floor(N/2) - floor(n/2) *)
Theorem C20_centroid_moves_with_pad :
  forall (a : arr QS) (N M : Z) (b : arr QS),
  0 <= nr a <= N -> 0 <= nc a <= M -> asum a <> 0%Qc -> pad2 a N M = Ok b ->
  centroid b = ((fst (centroid a) + zq (ctr N - ctr (nr a)))%Qc, (snd (centroid a) + zq (ctr M - ctr (nc a)))%Qc).
Proof. exact centroid_pad_shift. Qed.
Print Assumptions C20_centroid_moves_with_pad.

(* the array hex_segments allocates is at least as wide as the (2k+1) segments, the 2k gaps and the padding *)
Theorem C20_hex_segments_array_covers_aperture :
  forall (rings : Z) (radius gap s3 : Qc) (pad : Z),
  (zq (rings * 2 + 1) * (radius * s3 * Q2Qc (1 # 2)) * zq 2 + zq (rings * 2) * gap + zq (pad * 2)
   <= zq (hex_size rings radius gap s3 pad))%Qc.
Proof. exact hex_size_covers. Qed.
Print Assumptions C20_hex_segments_array_covers_aperture.

(* ---------------------------------------------------------------- non-vacuity *)
Definition exA : arr ZS := @mkArr ZS 3 4 (fun i j => 1 + i * 4 + j).
Example C20_nonvacuous :
  (match pad2 exA 6 3 with Ok b => get b 3 1 = get exA 1 2 /\ get b 0 0 = 0 /\ get b 2 0 = 2 | Err _ => False end) /\
  (match subarray exA 2 2 0 1 with Ok b => get b 0 0 = 3 | Err _ => False end) /\
  subarray exA 2 2 2 0 = Err ValueError /\
  @boundary ZS (fun v => 6 <? v) exA = Ok (1, 2, 0, 3) /\
  (match rebin2 (@mkArr ZS 2 4 (get exA)) 2 with Ok b => asum b = 36 /\ get b 0 1 = 3 + 4 + 7 + 8 | Err _ => False end) /\
  centroid (@mkArr QS 3 3 (fun i j => if (i =? 2) && (j =? 1) then Q2Qc (5 # 2) else 0%Qc)) = (zq 2, zq 1) /\
  (* an antialiased circle of radius 3/2 on the rationals: 1 at the origin sample, a proper fraction on the rim *)
  get (@circle QS qle qsqrt 7 7 (Q2Qc (3 # 2)) 0%Qc 0%Qc true) 3 3 = 1%Qc /\
  get (@circle QS qle qsqrt 7 7 (Q2Qc (3 # 2)) 0%Qc 0%Qc true) 3 5 = 0%Qc /\
  qlt 0%Qc (get (@circle QS qle qsqrt 7 7 (Q2Qc (7 # 4)) 0%Qc 0%Qc true) 3 5) = true /\
  length (hex_ring 2) = 12%nat /\ length (hex_kept 2 [0; 5]) = 17%nat.
Proof. vm_compute. repeat split; reflexivity. Qed.

(* non-vacuity of the deepen statements: a spider arm on the rationals, a centroid that moves with pad, the size of a
   one-ring aperture (sqrt 3 ~ 26/15, sqrt 2 ~ 7/5) *)
Definition exQ : arr QS := @mkArr QS 2 3 (fun i j => zq (1 + i * 3 + j)).
Example C20_nonvacuous_deepen :
  get (@spider QS qle 9 9 1%Qc (Q2Qc (7 # 5)) 0%Qc 0%Qc 1%Qc 0%Qc false) 4 6 = 0%Qc /\
  get (@spider QS qle 9 9 1%Qc (Q2Qc (7 # 5)) 0%Qc 0%Qc 1%Qc 0%Qc false) 2 6 = 1%Qc /\
  @mesh_val QS 7 8 (zq 1) (zq (-2)) (Q2Qc (3 # 5)) (Q2Qc (4 # 5)) 4 2 = (0%Qc, 0%Qc) /\
  asum exQ <> 0%Qc /\
  (match pad2 exQ 5 4 with Ok b => centroid b = ((fst (centroid exQ) + zq 1)%Qc, (snd (centroid exQ) + zq 1)%Qc) | Err _ => False end) /\
  hex_size 1 (zq 4) (zq 1) (Q2Qc (26 # 15)) 2 = 27 /\
  sanitize_shape (ShScalar 5) = [5; 5] /\ @rebin2_entry QS true exQ 1 = Err ValueError.
Proof. vm_compute. repeat split; try reflexivity; discriminate. Qed.
