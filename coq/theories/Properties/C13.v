(* C13 - Spectrum arithmetic is pointwise, commutative and unit-agnostic.
   Model: Model/Spectrum.v (lentil.radiometry.Spectrum._ufunc, _interp_common, _sampling, _intersect,
   sample, to; numpy.linspace; scipy interp1d kind='linear'), on exact rationals Qc.
   [spec_op o s1 s2 m f] is  s1.<o>(s2, sampling=m, method='linear', fill_value=f)
   (the code after fix bbdee10: a two-element fill value is (below, above) each operand's own range).
   [wf s]: strictly increasing wavelengths, as many values, at least one sample (what the
   constructor enforces).  The specification vocabulary ([incr wf is_min_of on_interpolant denotes
   rmap_res]) is defined at the end of Model/Spectrum.v.
   Quadratic/cubic interpolation (scipy splines) are not modelled: every statement is for 'linear'. *)
From LV Require Import Model.Spectrum Proofs.SpectrumP.
Open Scope Qc_scope.

(* (a) the common grid: with mn/mx the min/max of the union of the two ranges (right operand brought to
   the left operand's unit) and dw the finer / left / right / requested sampling, the result grid has
   num + 1 = ceil((mx - mn)/dw) + 1 points  mn + i (mx - mn)/num,  starts at mn, ends at mx, and its step
   does not exceed dw *)
Theorem C13_common_grid :
  forall (o : binop) (s1 s2 : spectrum) (m : sampling) (f : fillv) (r : rspectrum),
  wf s1 -> wf s2 -> match m with SNum d => 0 < d | _ => True end -> spec_op o s1 s2 m f = Ok r ->
  let w1 := wave s1 in let w2 := wave (conv s2 (wu s1)) in
  let mn := qmin (wmin w1) (wmin w2) in let mx := qmax (wmax w1) (wmax w2) in
  exists (dw : Qc) (num : Z),
    match m with
    | SMin => is_min_of (diffs w1 ++ diffs w2) dw
    | SLeft => is_min_of (diffs w1) dw
    | SRight => is_min_of (diffs w2) dw
    | SNum d => dw = d /\ 0 < d
    end /\ 0 < dw /\
    zq num - 1 < (mx - mn) / dw /\ (mx - mn) / dw <= zq num /\ (0 <= num)%Z /\
    length (rwave r) = Z.to_nat (num + 1) /\
    (forall i, (i <= Z.to_nat num)%nat -> nth i (rwave r) 0 = mn + zq (Z.of_nat i) * ((mx - mn) / zq num)) /\
    wmin (rwave r) = mn /\ wmax (rwave r) = mx /\ ((0 < num)%Z -> (mx - mn) / zq num <= dw).
Proof. exact spec_op_common_grid. Qed.
Print Assumptions C13_common_grid.

(* (b) pointwise: every value of the result is the operator applied to what the two operands denote at
   that grid wavelength - the piecewise-linear interpolant inside an operand's range, the fill value
   (below, above) outside; the result carries the left operand's units *)
Theorem C13_pointwise :
  forall (o : binop) (s1 s2 : spectrum) (m : sampling) (f : fillv) (r : rspectrum),
  wf s1 -> wf s2 -> spec_op o s1 s2 m f = Ok r ->
  let s2' := conv s2 (wu s1) in
  rwu r = wu s1 /\ rvu r = vu s1 /\ length (rvalue r) = length (rwave r) /\
  forall i, (i < length (rwave r))%nat -> exists y1 y2,
    denotes (wave s1) (value s1) f (nth i (rwave r) 0) y1 /\
    denotes (wave s2') (value s2') f (nth i (rwave r) 0) y2 /\
    nth i (rvalue r) XUnmodelled = apply o y1 y2.
Proof. exact spec_op_pointwise. Qed.
Print Assumptions C13_pointwise.

(* the model's interp1d agrees with the separately stated interpolant on the whole data range ... *)
Theorem C13_interp_is_the_interpolant :
  forall (w v : list Qc) (x : Qc), incr w -> length w = length v -> w <> [] ->
  wmin w <= x -> x <= wmax w -> on_interpolant w v x (interp w v x).
Proof. exact interp_on. Qed.
Print Assumptions C13_interp_is_the_interpolant.

(* ... and [denotes] is a total function of the wavelength: the specification of (b) pins the values *)
Theorem C13_denotation_is_a_function :
  forall (w v : list Qc) (f : fillv) (x : Qc), incr w -> length w = length v -> w <> [] ->
  (exists y, denotes w v f x y) /\ (forall y y', denotes w v f x y -> denotes w v f x y' -> y = y').
Proof. intros w v f x Hi Hl Hn. split. apply denotes_total; auto. intros y y'. apply denotes_unique, Hi. Qed.
Print Assumptions C13_denotation_is_a_function.

(* the operation fails exactly when the sampling is undefined (an operand with a single sample whose
   spacing is needed) - whatever the fill value *)
Theorem C13_raises_only_for_undefined_sampling :
  forall (o : binop) (s1 s2 : spectrum) (m : sampling) (f : fillv),
  wf s1 -> wf s2 -> match m with SNum d => 0 < d | _ => True end ->
  match spec_op o s1 s2 m f with
  | Ok _ => exists dw, sampling_of (wave s1) (wave (conv s2 (wu s1))) m = Ok dw
  | Err e => sampling_of (wave s1) (wave (conv s2 (wu s1))) m = Err e
  end.
Proof. exact spec_op_errors_pos. Qed.
Print Assumptions C13_raises_only_for_undefined_sampling.

(* the two-element fill value: at every grid wavelength each operand contributes lo below its OWN range,
   hi above it, and its interpolant inside (the instance of C13_pointwise for fill_value = (lo, hi),
   spelled out; before fix bbdee10 such a call raised ValueError) *)
Theorem C13_fill_pair_below_above :
  forall (o : binop) (s1 s2 : spectrum) (m : sampling) (lo hi : Qc) (r : rspectrum),
  wf s1 -> wf s2 -> spec_op o s1 s2 m (FPair lo hi) = Ok r ->
  let s2' := conv s2 (wu s1) in
  forall i, (i < length (rwave r))%nat -> let x := nth i (rwave r) 0 in exists y1 y2,
    nth i (rvalue r) XUnmodelled = apply o y1 y2 /\
    (x < wmin (wave s1) -> y1 = lo) /\ (wmax (wave s1) < x -> y1 = hi) /\
    (wmin (wave s1) <= x -> x <= wmax (wave s1) -> on_interpolant (wave s1) (value s1) x y1) /\
    (x < wmin (wave s2') -> y2 = lo) /\ (wmax (wave s2') < x -> y2 = hi) /\
    (wmin (wave s2') <= x -> x <= wmax (wave s2') -> on_interpolant (wave s2') (value s2') x y2).
Proof. exact spec_op_fill_pair. Qed.
Print Assumptions C13_fill_pair_below_above.

(* (c) a + b = b + a and a * b = b * a as spectra (same grid, same values, same units), for the
   symmetric samplings 'min' and numeric ... *)
Theorem C13_add_mul_commutative :
  forall (o : binop) (s1 s2 : spectrum) (m : sampling) (f : fillv),
  wu s1 = wu s2 -> vu s1 = vu s2 -> (o = OAdd \/ o = OMul) -> (m = SMin \/ exists d, m = SNum d) ->
  spec_op o s1 s2 m f = spec_op o s2 s1 m f.
Proof. exact spec_op_comm. Qed.
Print Assumptions C13_add_mul_commutative.

(* ... and, for operands in different wavelength units, b.a is a.b re-expressed in b's unit (a numeric
   sampling is given in the left operand's unit) *)
Theorem C13_add_mul_commutative_across_units :
  forall (o : binop) (a b : spectrum) (m : sampling) (f : fillv),
  vu a = VNone -> vu b = VNone -> (o = OAdd \/ o = OMul) -> (m = SMin \/ exists d, m = SNum d) ->
  spec_op o b a (scale_sampling (ufac (wu a) (wu b)) m) f
  = rmap_res (fun r => rto r (wu b)) (spec_op o a b m f).
Proof. exact spec_op_comm_units. Qed.
Print Assumptions C13_add_mul_commutative_across_units.

(* (d) a scalar acts element-wise on the unchanged grid *)
Theorem C13_scalar_elementwise :
  forall (o : binop) (s : spectrum) (c : Qc),
  rwave (scalar_op o s c) = wave s /\ rwu (scalar_op o s c) = wu s /\ rvu (scalar_op o s c) = vu s /\
  length (rvalue (scalar_op o s c)) = length (value s) /\
  forall i, (i < length (value s))%nat ->
    nth i (rvalue (scalar_op o s c)) XUnmodelled = apply o (nth i (value s) 0) c.
Proof. exact scalar_elementwise. Qed.
Print Assumptions C13_scalar_elementwise.

(* (d) an equal-length vector acts element-wise on the unchanged grid; a one-element vector is a scalar;
   any other length is refused *)
Theorem C13_vector_elementwise :
  forall (o : binop) (s : spectrum) (l : list Qc),
  (length l = length (value s) ->
     exists r, vector_op o s l = Ok r /\ rwave r = wave s /\ rwu r = wu s /\ rvu r = vu s /\
       length (rvalue r) = length (value s) /\
       forall i, (i < length (value s))%nat ->
         nth i (rvalue r) XUnmodelled = apply o (nth i (value s) 0) (nth i l 0)) /\
  (forall c, l = [c] -> vector_op o s l = Ok (scalar_op o s c) \/ length (value s) = 1%nat) /\
  (length l <> length (value s) -> length l <> 1%nat -> vector_op o s l = Err ValueError).
Proof. exact vector_elementwise. Qed.
Print Assumptions C13_vector_elementwise.

(* (d) dispatch as it is in the code: x * s is s * x, the other reflected forms do not exist, an
   unsupported operand type raises TypeError *)
Theorem C13_reflected_and_unsupported :
  forall (o : binop) (s : spectrum) (x : operand),
  rdunder OMul s x = dunder OMul s x /\ (o <> OMul -> rdunder o s x = Err TypeError) /\
  dunder o s POther = Err TypeError.
Proof. exact reflected_forms. Qed.
Print Assumptions C13_reflected_and_unsupported.

(* (e) unit-agnostic, exactly: express the operands in any other wavelength units u1, u2 (valueunit None;
   a numeric sampling converted along with the left operand): the result is the old result with its grid
   multiplied by the unit factor, the values unchanged, error cases included *)
Theorem C13_unit_agnostic :
  forall (o : binop) (s1 s2 : spectrum) (m : sampling) (f : fillv) (u1 u2 : wunit),
  vu s1 = VNone -> vu s2 = VNone ->
  spec_op o (to_wu s1 u1) (to_wu s2 u2) (scale_sampling (ufac (wu s1) u1) m) f
  = rmap_res (fun r => rto r u1) (spec_op o s1 s2 m f).
Proof. exact spec_op_unit_agnostic. Qed.
Print Assumptions C13_unit_agnostic.

(* (e) operands with a density value unit (photlam/flam/wlam: Spectrum.to divides the values by the unit
   factor).  Sums and differences of two densities, and a density times / over a unitless spectrum with the
   default fill value 0, are again unit-covariant: grid times the factor, values divided by it.
   _partial: products, quotients and powers of two densities are not densities and are not covered. *)
Theorem C13_unit_agnostic_density_partial :
  forall (o : binop) (s1 s2 : spectrum) (m : sampling) (f : fillv) (u1 u2 : wunit),
  vu s1 <> VNone -> vu s2 <> VNone -> (o = OAdd \/ o = OSub) ->
  spec_op o (to_wu s1 u1) (to_wu s2 u2) (scale_sampling (ufac (wu s1) u1) m) (fscale (/ ufac (wu s1) u1) f)
  = rmap_res (fun r => rto_density r u1) (spec_op o s1 s2 m f).
Proof. exact spec_op_unit_agnostic_density. Qed.
Print Assumptions C13_unit_agnostic_density_partial.

Theorem C13_unit_agnostic_density_times_unitless_partial :
  forall (o : binop) (s1 s2 : spectrum) (m : sampling) (u1 u2 : wunit),
  vu s1 <> VNone -> vu s2 = VNone -> (o = OMul \/ o = ODiv) ->
  spec_op o (to_wu s1 u1) (to_wu s2 u2) (scale_sampling (ufac (wu s1) u1) m) (FScalar 0)
  = rmap_res (fun r => rto_density r u1) (spec_op o s1 s2 m (FScalar 0)).
Proof. exact spec_op_unit_agnostic_density_left. Qed.
Print Assumptions C13_unit_agnostic_density_times_unitless_partial.

(* the 16 wavelength factors of the source are ratios of metres-per-unit: conversions compose and are
   positive, so [to_wu] denotes the same physical spectrum *)
Theorem C13_unit_factors_consistent :
  forall a b c : wunit, ufac a b = mscale a / mscale b /\ ufac a b * ufac b c = ufac a c /\ ufac a a = 1 /\ 0 < ufac a b.
Proof. intros a b c. repeat split. apply ufac_mscale. apply ufac_trans. apply ufac_refl. apply ufac_pos. Qed.
Print Assumptions C13_unit_factors_consistent.

(* Spectrum.sample in a requested unit: the interpolant of the converted copy, (below, above) outside *)
Theorem C13_sample_pointwise :
  forall (s : spectrum) (pts : list Qc) (f : fillv) (u : wunit) (i : nat), wf s -> (i < length pts)%nat ->
  let s' := conv s u in
  length (sample s pts f u) = length pts /\
  denotes (wave s') (value s') f (nth i pts 0) (nth i (sample s pts f u) 0).
Proof. exact sample_denotes. Qed.
Print Assumptions C13_sample_pointwise.

(* a concrete instance: [1..4] + [2..6] in nm, and the same with the right operand given in um *)
Definition exA := mkS (map zq [1; 2; 3; 4]%Z) (map zq [1; 2; 3; 5]%Z) UNm VNone.
Definition exB := mkS (map zq [2; 3; 4; 5; 6]%Z) (map zq [1; 1; 2; 2; 4]%Z) UNm VNone.
Definition xnum (x : xval) : Z := match x with XQ q => Qnum q | _ => (-1)%Z end.
Example C13_nonvacuous :
  wf exA /\ wf exB /\
  match spec_op OAdd exA exB SMin (FScalar 0) with
  | Ok r => map (fun q : Qc => Qnum q) (rwave r) = [1; 2; 3; 4; 5; 6]%Z /\ map xnum (rvalue r) = [1; 3; 4; 7; 2; 4]%Z
  | Err _ => False end /\
  match spec_op OMul exA (to_wu exB UUm) (SNum (qq 1 2)) (FScalar 1) with
  | Ok r => length (rwave r) = 11%nat /\ nth 3 (rvalue r) XUnmodelled = XQ (qq 5 2)
  | Err _ => False end.
Proof. unfold wf. simpl incr. repeat split; try discriminate; try reflexivity.
  all: vm_compute; repeat split; try reflexivity; f_equal; apply Qc_is_canon; reflexivity. Qed.

(* ================================================================== the public entry points with all their arguments
   [spec_call mt o s1 s2 a f] is  s1.<o>(s2, sampling=a, method=mt, fill_value=f)  for every argument FORM:
   a = AOk m (a valid sampling: 'min' / 'left' / 'right' / a non-zero number), ABadStr (any other string), ABadOther
   (None, tuple, list, array); mt one of the documented kinds or a name scipy does not know.  [method_call] adds the
   dispatch on the operand kind.  Proofs in Proofs/SpectrumCallP.v. *)
From LV Require Import Proofs.SpectrumCallP.

(* on well-formed operands, linear interpolation and a valid sampling the entry point IS the operation of the
   theorems above *)
Theorem C13_call_is_spec_op :
  forall (o : binop) (s1 s2 : spectrum) (m : sampling) (f : fillv), wf s1 -> wf s2 ->
  spec_call MLinear o s1 s2 (AOk m) f = spec_op o s1 s2 m f.
Proof. exact call_is_spec_op. Qed.
Print Assumptions C13_call_is_spec_op.

(* the complete refusal table, in the order the code meets the arguments; the seven cases are exhaustive and
   mutually exclusive, so they determine for EVERY input whether the call returns and which exception it raises:
   empty operand -> ValueError; sampling of another type -> ValueError; unknown sampling string -> TypeError;
   undefined sampling (a one-sample operand whose spacing is needed, or 0) -> ValueError; sample count
   ceil(range/sampling) + 1 < 0 -> ValueError; unknown method -> NotImplementedError; fewer samples than the spline
   order + 1 in either operand -> ValueError; otherwise a result on linspace(mn, mx, num + 1) in the left operand's
   units with one value per grid point *)
Theorem C13_call_refusal_table :
  forall (mt : meth) (o : binop) (s1 s2 : spectrum) (a : sampling_arg) (f : fillv),
  let w1 := wave s1 in let w2 := wave (conv s2 (wu s1)) in
  let mn := qmin (wmin w1) (wmin w2) in let mx := qmax (wmax w1) (wmax w2) in
  let E := spec_call mt o s1 s2 a f in
  (w1 = [] \/ w2 = [] -> E = Err ValueError) /\
  (w1 <> [] -> w2 <> [] ->
     (a = ABadOther -> E = Err ValueError) /\
     (a = ABadStr -> E = Err TypeError) /\
     (forall m, a = AOk m ->
        (forall e, sampling_of w1 w2 m = Err e -> e = ValueError /\ E = Err ValueError) /\
        (forall dw, sampling_of w1 w2 m = Ok dw ->
           let num := qceil ((mx - mn) / dw) in
           ((num < -1)%Z -> E = Err ValueError) /\
           ((-1 <= num)%Z ->
              (mt = MUnknown -> E = Err NotImplementedErr) /\
              (mt <> MUnknown -> (length w1 < meth_min_points mt)%nat \/ (length w2 < meth_min_points mt)%nat ->
                 E = Err ValueError) /\
              (mt <> MUnknown -> (meth_min_points mt <= length w1)%nat -> (meth_min_points mt <= length w2)%nat ->
                 exists r, E = Ok r /\ rwave r = linspace mn mx num /\ rwu r = wu s1 /\ rvu r = vu s1 /\
                           length (rvalue r) = length (rwave r)))))).
Proof. exact refusal_table. Qed.
Print Assumptions C13_call_refusal_table.

(* "all interpolation options": the grid, the units and every value at a wavelength where neither operand is
   defined are the same for the quadratic and cubic kinds as for the linear one (for which C13_common_grid and
   C13_pointwise hold); the spline values inside an operand's range are scipy's and stay unmodelled *)
Theorem C13_grid_independent_of_method :
  forall (mt : meth) (o : binop) (s1 s2 : spectrum) (m : sampling) (f : fillv) (r : rspectrum),
  wave s1 <> [] -> wave (conv s2 (wu s1)) <> [] ->
  spec_call mt o s1 s2 (AOk m) f = Ok r ->
  exists r', spec_call MLinear o s1 s2 (AOk m) f = Ok r' /\
    rwave r = rwave r' /\ rwu r = rwu r' /\ rvu r = rvu r' /\
    length (rvalue r) = length (rwave r) /\ length (rvalue r') = length (rwave r) /\
    forall i, (i < length (rwave r))%nat ->
      nth i (rvalue r) XUnmodelled = nth i (rvalue r') XUnmodelled \/
      (mt <> MLinear /\ nth i (rvalue r) XUnmodelled = XUnmodelled /\
       (inrange (wave s1) (nth i (rwave r) 0) = true \/ inrange (wave (conv s2 (wu s1))) (nth i (rwave r) 0) = true)).
Proof. exact call_grid_any_method. Qed.
Print Assumptions C13_grid_independent_of_method.

(* a NEGATIVE numeric sampling is not refused as such: the count ceil(range/d) is <= 0; below -1 numpy.linspace
   refuses it (ValueError), -1 gives an EMPTY spectrum, 0 a one-point spectrum at the lower end of the union
   (whose value is still pointwise by C13_pointwise) *)
Theorem C13_negative_sampling :
  forall (o : binop) (s1 s2 : spectrum) (d : Qc) (f : fillv), wf s1 -> wf s2 -> d < 0 ->
  let w1 := wave s1 in let w2 := wave (conv s2 (wu s1)) in
  let mn := qmin (wmin w1) (wmin w2) in let mx := qmax (wmax w1) (wmax w2) in
  let num := qceil ((mx - mn) / d) in
  (num <= 0)%Z /\
  ((num < -1)%Z -> spec_op o s1 s2 (SNum d) f = Err ValueError) /\
  (num = (-1)%Z -> spec_op o s1 s2 (SNum d) f = Ok (mkR [] [] (wu s1) (vu s1))) /\
  (num = 0%Z -> exists r, spec_op o s1 s2 (SNum d) f = Ok r /\ rwave r = [mn] /\ length (rvalue r) = 1%nat).
Proof. exact negative_sampling. Qed.
Print Assumptions C13_negative_sampling.

(* a scalar or vector operand never looks at sampling, method or fill_value - not even at invalid ones; an
   unsupported operand type is refused before them *)
Theorem C13_scalar_vector_ignore_options :
  forall (mt : meth) (o : binop) (s : spectrum) (a : sampling_arg) (f : fillv) (c : Qc) (l : list Qc),
  method_call mt o s (PScalar c) a f = Ok (scalar_op o s c) /\
  method_call mt o s (PVector l) a f = vector_op o s l /\
  method_call mt o s POther a f = Err TypeError.
Proof. exact method_call_ignores. Qed.
Print Assumptions C13_scalar_vector_ignore_options.

(* the constructor: accepted exactly for positive, strictly increasing wavelengths with as many values; the
   object then holds exactly what was given; every refusal is a ValueError *)
Theorem C13_constructor :
  forall (w v : list Qc) (u : wunit) (y : vunit),
  ((forall x, In x w -> 0 < x) /\ incr w /\ length w = length v -> mk_spectrum w v u y = Ok (mkS w v u y)) /\
  (~ ((forall x, In x w -> 0 < x) /\ incr w /\ length w = length v) -> mk_spectrum w v u y = Err ValueError) /\
  (forall s, mk_spectrum w v u y = Ok s -> wave s = w /\ value s = v /\ wu s = u /\ vu s = y /\
     (forall x, In x (wave s) -> 0 < x) /\ incr (wave s) /\ length (wave s) = length (value s)).
Proof. exact mk_spectrum_spec. Qed.
Print Assumptions C13_constructor.

(* Spectrum.to(<wave unit>) - "the operands still describe the same physical spectrum": conversions compose,
   converting to the unit the spectrum is in changes nothing, a round trip restores the spectrum exactly (wave,
   density values, units), and well-formedness is kept *)
Theorem C13_to_composes_and_round_trips :
  forall (s : spectrum) (u v : wunit),
  to_wu (to_wu s u) v = to_wu s v /\ to_wu s (wu s) = s /\ to_wu (to_wu s u) (wu s) = s /\ (wf s -> wf (to_wu s u)).
Proof. exact to_wu_laws. Qed.
Print Assumptions C13_to_composes_and_round_trips.

(* non-vacuity of the new statements: one concrete call per row of the refusal table, a spline call, a negative
   sampling, the constructor *)
Definition exE := mkS [] [] UNm VNone.
Definition exOne := mkS [zq 3] [zq 7] UNm VNone.
Example C13_entry_points_nonvacuous :
  spec_call MLinear OAdd exE exB (AOk SMin) (FScalar 0) = Err ValueError /\
  spec_call MLinear OAdd exA exB ABadStr (FScalar 0) = Err TypeError /\
  spec_call MLinear OAdd exA exB ABadOther (FScalar 0) = Err ValueError /\
  spec_call MLinear OAdd exA exOne (AOk SMin) (FScalar 0) = Err ValueError /\
  spec_call MUnknown OAdd exA exB (AOk SMin) (FScalar 0) = Err NotImplementedErr /\
  spec_call MCubic OAdd exA exOne (AOk SLeft) (FScalar 0) = Err ValueError /\
  spec_call MLinear OAdd exA exB (AOk (SNum (- zq 1))) (FScalar 0) = Err ValueError /\
  spec_call MLinear OAdd exA exB (AOk (SNum (- zq 3))) (FScalar 0) = Ok (mkR [] [] UNm VNone) /\
  match spec_call MCubic OAdd exA exB (AOk SMin) (FScalar 0) with
  | Ok r => length (rwave r) = 6%nat /\ nth 0 (rvalue r) (XQ 0) = XUnmodelled | Err _ => False end /\
  match spec_call MLinear OAdd exA exB (AOk (SNum (- zq 100))) (FScalar 0) with
  | Ok r => map (fun q : Qc => Qnum q) (rwave r) = [1]%Z /\ map xnum (rvalue r) = [1]%Z | Err _ => False end /\
  mk_spectrum (map zq [1; 1; 2]%Z) (map zq [1; 2; 3]%Z) UNm VNone = Err ValueError /\
  (exists s, mk_spectrum (map zq [1; 2]%Z) (map zq [5; 6]%Z) UUm VFlam = Ok s).
Proof. repeat split; try (vm_compute; reflexivity); try (vm_compute; repeat split; reflexivity).
  vm_compute. eexists. reflexivity. Qed.

(* Spectrum.sample(wave, method, fill_value, waveunit) with every argument form: an unknown kind is refused first
   (NotImplementedError); an empty table, fewer samples than the spline order + 1, or a fill value interp1d cannot
   broadcast (two-element list / array, longer tuple) give ValueError; otherwise one value per requested wavelength:
   the fill value (below, above) outside the table's range whatever the kind, the linear interpolant inside for
   'linear', scipy's spline (unmodelled) inside for the other kinds.  The table is the spectrum converted to the
   requested unit on a copy. *)
Theorem C13_sample_call_table :
  forall (mt : meth) (s : spectrum) (pts : list Qc) (fa : fill_arg) (u : wunit),
  let s' := conv s u in
  (mt = MUnknown -> sample_call mt s pts fa u = Err NotImplementedErr) /\
  (mt <> MUnknown -> (length (wave s') < meth_min_points mt)%nat \/ fa = FBadShape ->
     sample_call mt s pts fa u = Err ValueError) /\
  (mt <> MUnknown -> (meth_min_points mt <= length (wave s'))%nat -> forall f, fa = FOk f ->
     exists vals, sample_call mt s pts fa u = Ok vals /\ length vals = length pts /\
       forall i, (i < length pts)%nat -> let x := nth i pts 0 in
         (x < wmin (wave s') -> incr (wave s') -> nth i vals XUnmodelled = XQ (fill_below f)) /\
         (wmax (wave s') < x -> incr (wave s') -> nth i vals XUnmodelled = XQ (fill_above f)) /\
         (inrange (wave s') x = true -> mt = MLinear -> nth i vals XUnmodelled = XQ (interp (wave s') (value s') x)) /\
         (inrange (wave s') x = true -> mt <> MLinear -> nth i vals XUnmodelled = XUnmodelled)).
Proof. exact sample_call_table. Qed.
Print Assumptions C13_sample_call_table.

(* for the linear kind and a usable fill value this is the [sample] of C13_sample_pointwise *)
Theorem C13_sample_call_linear :
  forall (s : spectrum) (pts : list Qc) (f : fillv) (u : wunit), wave (conv s u) <> [] ->
  sample_call MLinear s pts (FOk f) u = Ok (map XQ (sample s pts f u)).
Proof. exact sample_call_linear. Qed.
Print Assumptions C13_sample_call_linear.

Example C13_sample_call_nonvacuous :
  sample_call MUnknown exA (map zq [1; 2]%Z) (FOk (FScalar 0)) UNm = Err NotImplementedErr /\
  sample_call MCubic exOne (map zq [3]%Z) (FOk (FScalar 0)) UNm = Err ValueError /\
  sample_call MLinear exE (map zq [3]%Z) (FOk (FScalar 0)) UNm = Err ValueError /\
  sample_call MLinear exA (map zq [3]%Z) FBadShape UNm = Err ValueError /\
  match sample_call MQuadratic exA [zq 0; zq 2; zq 9] (FOk (FPair (zq 5) (zq 7))) UNm with
  | Ok vals => vals = [XQ (zq 5); XUnmodelled; XQ (zq 7)] | Err _ => False end /\
  match sample_call MLinear exA [qq 5 2] (FOk (FScalar 0)) UNm with
  | Ok vals => map xnum vals = [5]%Z | Err _ => False end.
Proof. repeat split; vm_compute; reflexivity. Qed.
