(* C13 - Spectrum arithmetic is pointwise, commutative and unit-agnostic.
   Model: Model/Spectrum.v (lentil.radiometry.Spectrum._ufunc, _interp_common, _sampling, _intersect,
   sample, to; numpy.linspace; scipy interp1d kind='linear'), on exact rationals Qc.
   [spec_op o s1 s2 m f] is  s1.<o>(s2, sampling=m, method='linear', fill_value=f)
   (the code after fix bbdee10: a two-element fill value is (below, above) each operand's own range).
   [wf s]: strictly increasing wavelengths, as many values, at least one sample (what the
   constructor enforces).  The specification vocabulary ([incr wf is_min_of on_interpolant denotes
   rmap_res]) is defined at the end of Model/Spectrum.v.
   Quadratic/cubic interpolation (scipy splines) are not modelled: every statement is for 'linear'. *)
From LV Require Import Model.Spectrum Proofs.SpectrumP.
Open Scope Qc_scope.

(* (a) the common grid: with mn/mx the min/max of the union of the two ranges (right operand brought to
   the left operand's unit) and dw the finer / left / right / requested sampling, the result grid has
   num + 1 = ceil((mx - mn)/dw) + 1 points  mn + i (mx - mn)/num,  starts at mn, ends at mx, and its step
   does not exceed dw *)
Theorem C13_common_grid :
  forall (o : binop) (s1 s2 : spectrum) (m : sampling) (f : fillv) (r : rspectrum),
  wf s1 -> wf s2 -> spec_op o s1 s2 m f = Ok r ->
  let w1 := wave s1 in let w2 := wave (conv s2 (wu s1)) in
  let mn := qmin (wmin w1) (wmin w2) in let mx := qmax (wmax w1) (wmax w2) in
  exists (dw : Qc) (num : Z),
    match m with
    | SMin => is_min_of (diffs w1 ++ diffs w2) dw
    | SLeft => is_min_of (diffs w1) dw
    | SRight => is_min_of (diffs w2) dw
    | SNum d => dw = d /\ 0 < d
    end /\ 0 < dw /\
    zq num - 1 < (mx - mn) / dw /\ (mx - mn) / dw <= zq num /\ (0 <= num)%Z /\
    length (rwave r) = Z.to_nat (num + 1) /\
    (forall i, (i <= Z.to_nat num)%nat -> nth i (rwave r) 0 = mn + zq (Z.of_nat i) * ((mx - mn) / zq num)) /\
    wmin (rwave r) = mn /\ wmax (rwave r) = mx /\ ((0 < num)%Z -> (mx - mn) / zq num <= dw).
Proof. exact spec_op_common_grid. Qed.
Print Assumptions C13_common_grid.

(* (b) pointwise: every value of the result is the operator applied to what the two operands denote at
   that grid wavelength - the piecewise-linear interpolant inside an operand's range, the fill value
   (below, above) outside; the result carries the left operand's units *)
Theorem C13_pointwise :
  forall (o : binop) (s1 s2 : spectrum) (m : sampling) (f : fillv) (r : rspectrum),
  wf s1 -> wf s2 -> spec_op o s1 s2 m f = Ok r ->
  let s2' := conv s2 (wu s1) in
  rwu r = wu s1 /\ rvu r = vu s1 /\ length (rvalue r) = length (rwave r) /\
  forall i, (i < length (rwave r))%nat -> exists y1 y2,
    denotes (wave s1) (value s1) f (nth i (rwave r) 0) y1 /\
    denotes (wave s2') (value s2') f (nth i (rwave r) 0) y2 /\
    nth i (rvalue r) XUnmodelled = apply o y1 y2.
Proof. exact spec_op_pointwise. Qed.
Print Assumptions C13_pointwise.

(* the model's interp1d agrees with the separately stated interpolant on the whole data range ... *)
Theorem C13_interp_is_the_interpolant :
  forall (w v : list Qc) (x : Qc), incr w -> length w = length v -> w <> [] ->
  wmin w <= x -> x <= wmax w -> on_interpolant w v x (interp w v x).
Proof. exact interp_on. Qed.
Print Assumptions C13_interp_is_the_interpolant.

(* ... and [denotes] is a total function of the wavelength: the specification of (b) pins the values *)
Theorem C13_denotation_is_a_function :
  forall (w v : list Qc) (f : fillv) (x : Qc), incr w -> length w = length v -> w <> [] ->
  (exists y, denotes w v f x y) /\ (forall y y', denotes w v f x y -> denotes w v f x y' -> y = y').
Proof. intros w v f x Hi Hl Hn. split. apply denotes_total; auto. intros y y'. apply denotes_unique, Hi. Qed.
Print Assumptions C13_denotation_is_a_function.

(* the operation fails exactly when the sampling is undefined (an operand with a single sample whose
   spacing is needed) - whatever the fill value *)
Theorem C13_raises_only_for_undefined_sampling :
  forall (o : binop) (s1 s2 : spectrum) (m : sampling) (f : fillv),
  match spec_op o s1 s2 m f with
  | Ok _ => exists dw, sampling_of (wave s1) (wave (conv s2 (wu s1))) m = Ok dw
  | Err e => sampling_of (wave s1) (wave (conv s2 (wu s1))) m = Err e
  end.
Proof. exact spec_op_errors. Qed.
Print Assumptions C13_raises_only_for_undefined_sampling.

(* the two-element fill value: at every grid wavelength each operand contributes lo below its OWN range,
   hi above it, and its interpolant inside (the instance of C13_pointwise for fill_value = (lo, hi),
   spelled out; before fix bbdee10 such a call raised ValueError) *)
Theorem C13_fill_pair_below_above :
  forall (o : binop) (s1 s2 : spectrum) (m : sampling) (lo hi : Qc) (r : rspectrum),
  wf s1 -> wf s2 -> spec_op o s1 s2 m (FPair lo hi) = Ok r ->
  let s2' := conv s2 (wu s1) in
  forall i, (i < length (rwave r))%nat -> let x := nth i (rwave r) 0 in exists y1 y2,
    nth i (rvalue r) XUnmodelled = apply o y1 y2 /\
    (x < wmin (wave s1) -> y1 = lo) /\ (wmax (wave s1) < x -> y1 = hi) /\
    (wmin (wave s1) <= x -> x <= wmax (wave s1) -> on_interpolant (wave s1) (value s1) x y1) /\
    (x < wmin (wave s2') -> y2 = lo) /\ (wmax (wave s2') < x -> y2 = hi) /\
    (wmin (wave s2') <= x -> x <= wmax (wave s2') -> on_interpolant (wave s2') (value s2') x y2).
Proof. exact spec_op_fill_pair. Qed.
Print Assumptions C13_fill_pair_below_above.

(* (c) a + b = b + a and a * b = b * a as spectra (same grid, same values, same units), for the
   symmetric samplings 'min' and numeric ... *)
Theorem C13_add_mul_commutative :
  forall (o : binop) (s1 s2 : spectrum) (m : sampling) (f : fillv),
  wu s1 = wu s2 -> vu s1 = vu s2 -> (o = OAdd \/ o = OMul) -> (m = SMin \/ exists d, m = SNum d) ->
  spec_op o s1 s2 m f = spec_op o s2 s1 m f.
Proof. exact spec_op_comm. Qed.
Print Assumptions C13_add_mul_commutative.

(* ... and, for operands in different wavelength units, b.a is a.b re-expressed in b's unit (a numeric
   sampling is given in the left operand's unit) *)
Theorem C13_add_mul_commutative_across_units :
  forall (o : binop) (a b : spectrum) (m : sampling) (f : fillv),
  vu a = VNone -> vu b = VNone -> (o = OAdd \/ o = OMul) -> (m = SMin \/ exists d, m = SNum d) ->
  spec_op o b a (scale_sampling (ufac (wu a) (wu b)) m) f
  = rmap_res (fun r => rto r (wu b)) (spec_op o a b m f).
Proof. exact spec_op_comm_units. Qed.
Print Assumptions C13_add_mul_commutative_across_units.

(* (d) a scalar acts element-wise on the unchanged grid *)
Theorem C13_scalar_elementwise :
  forall (o : binop) (s : spectrum) (c : Qc),
  rwave (scalar_op o s c) = wave s /\ rwu (scalar_op o s c) = wu s /\ rvu (scalar_op o s c) = vu s /\
  length (rvalue (scalar_op o s c)) = length (value s) /\
  forall i, (i < length (value s))%nat ->
    nth i (rvalue (scalar_op o s c)) XUnmodelled = apply o (nth i (value s) 0) c.
Proof. exact scalar_elementwise. Qed.
Print Assumptions C13_scalar_elementwise.

(* (d) an equal-length vector acts element-wise on the unchanged grid; a one-element vector is a scalar;
   any other length is refused *)
Theorem C13_vector_elementwise :
  forall (o : binop) (s : spectrum) (l : list Qc),
  (length l = length (value s) ->
     exists r, vector_op o s l = Ok r /\ rwave r = wave s /\ rwu r = wu s /\ rvu r = vu s /\
       length (rvalue r) = length (value s) /\
       forall i, (i < length (value s))%nat ->
         nth i (rvalue r) XUnmodelled = apply o (nth i (value s) 0) (nth i l 0)) /\
  (forall c, l = [c] -> vector_op o s l = Ok (scalar_op o s c) \/ length (value s) = 1%nat) /\
  (length l <> length (value s) -> length l <> 1%nat -> vector_op o s l = Err ValueError).
Proof. exact vector_elementwise. Qed.
Print Assumptions C13_vector_elementwise.

(* (d) dispatch as it is in the code: x * s is s * x, the other reflected forms do not exist, an
   unsupported operand type raises TypeError *)
Theorem C13_reflected_and_unsupported :
  forall (o : binop) (s : spectrum) (x : operand),
  rdunder OMul s x = dunder OMul s x /\ (o <> OMul -> rdunder o s x = Err TypeError) /\
  dunder o s POther = Err TypeError.
Proof. exact reflected_forms. Qed.
Print Assumptions C13_reflected_and_unsupported.

(* (e) unit-agnostic, exactly: express the operands in any other wavelength units u1, u2 (valueunit None;
   a numeric sampling converted along with the left operand): the result is the old result with its grid
   multiplied by the unit factor, the values unchanged, error cases included *)
Theorem C13_unit_agnostic :
  forall (o : binop) (s1 s2 : spectrum) (m : sampling) (f : fillv) (u1 u2 : wunit),
  vu s1 = VNone -> vu s2 = VNone ->
  spec_op o (to_wu s1 u1) (to_wu s2 u2) (scale_sampling (ufac (wu s1) u1) m) f
  = rmap_res (fun r => rto r u1) (spec_op o s1 s2 m f).
Proof. exact spec_op_unit_agnostic. Qed.
Print Assumptions C13_unit_agnostic.

(* (e) operands with a density value unit (photlam/flam/wlam: Spectrum.to divides the values by the unit
   factor).  Sums and differences of two densities, and a density times / over a unitless spectrum with the
   default fill value 0, are again unit-covariant: grid times the factor, values divided by it.
   _partial: products, quotients and powers of two densities are not densities and are not covered. *)
Theorem C13_unit_agnostic_density_partial :
  forall (o : binop) (s1 s2 : spectrum) (m : sampling) (f : fillv) (u1 u2 : wunit),
  vu s1 <> VNone -> vu s2 <> VNone -> (o = OAdd \/ o = OSub) ->
  spec_op o (to_wu s1 u1) (to_wu s2 u2) (scale_sampling (ufac (wu s1) u1) m) (fscale (/ ufac (wu s1) u1) f)
  = rmap_res (fun r => rto_density r u1) (spec_op o s1 s2 m f).
Proof. exact spec_op_unit_agnostic_density. Qed.
Print Assumptions C13_unit_agnostic_density_partial.

Theorem C13_unit_agnostic_density_times_unitless_partial :
  forall (o : binop) (s1 s2 : spectrum) (m : sampling) (u1 u2 : wunit),
  vu s1 <> VNone -> vu s2 = VNone -> (o = OMul \/ o = ODiv) ->
  spec_op o (to_wu s1 u1) (to_wu s2 u2) (scale_sampling (ufac (wu s1) u1) m) (FScalar 0)
  = rmap_res (fun r => rto_density r u1) (spec_op o s1 s2 m (FScalar 0)).
Proof. exact spec_op_unit_agnostic_density_left. Qed.
Print Assumptions C13_unit_agnostic_density_times_unitless_partial.

(* the 16 wavelength factors of the source are ratios of metres-per-unit: conversions compose and are
   positive, so [to_wu] denotes the same physical spectrum *)
Theorem C13_unit_factors_consistent :
  forall a b c : wunit, ufac a b = mscale a / mscale b /\ ufac a b * ufac b c = ufac a c /\ ufac a a = 1 /\ 0 < ufac a b.
Proof. intros a b c. repeat split. apply ufac_mscale. apply ufac_trans. apply ufac_refl. apply ufac_pos. Qed.
Print Assumptions C13_unit_factors_consistent.

(* Spectrum.sample in a requested unit: the interpolant of the converted copy, (below, above) outside *)
Theorem C13_sample_pointwise :
  forall (s : spectrum) (pts : list Qc) (f : fillv) (u : wunit) (i : nat), wf s -> (i < length pts)%nat ->
  let s' := conv s u in
  length (sample s pts f u) = length pts /\
  denotes (wave s') (value s') f (nth i pts 0) (nth i (sample s pts f u) 0).
Proof. exact sample_denotes. Qed.
Print Assumptions C13_sample_pointwise.

(* a concrete instance: [1..4] + [2..6] in nm, and the same with the right operand given in um *)
Definition exA := mkS (map zq [1; 2; 3; 4]%Z) (map zq [1; 2; 3; 5]%Z) UNm VNone.
Definition exB := mkS (map zq [2; 3; 4; 5; 6]%Z) (map zq [1; 1; 2; 2; 4]%Z) UNm VNone.
Definition xnum (x : xval) : Z := match x with XQ q => Qnum q | _ => (-1)%Z end.
Example C13_nonvacuous :
  wf exA /\ wf exB /\
  match spec_op OAdd exA exB SMin (FScalar 0) with
  | Ok r => map (fun q : Qc => Qnum q) (rwave r) = [1; 2; 3; 4; 5; 6]%Z /\ map xnum (rvalue r) = [1; 3; 4; 7; 2; 4]%Z
  | Err _ => False end /\
  match spec_op OMul exA (to_wu exB UUm) (SNum (qq 1 2)) (FScalar 1) with
  | Ok r => length (rwave r) = 11%nat /\ nth 3 (rvalue r) XUnmodelled = XQ (qq 5 2)
  | Err _ => False end.
Proof. unfold wf. simpl incr. repeat split; try discriminate; try reflexivity.
  all: vm_compute; repeat split; try reflexivity; f_equal; apply Qc_is_canon; reflexivity. Qed.
