(* WP-K - composition theorems: statements about the whole optical chain
       Wavefront(wavelength, ...) * Pupil(amplitude, opd, mask, pixelscale, focal_length)  ->  propagate_dft / propagate_fft
       ->  Wavefront.field / Wavefront.intensity
   obtained by composing the theorems of the property packages (C02, C03, C04, C05, C07, C09); no new model code.
   Only statements; the proofs are in Proofs/ChainP.v.  [S] ranges over every commutative ring with an additive
   kernel e = [ke] (over the complex numbers e t = exp(-2 pi i t): instance [CS]); [sq] is the square root of the
   unitary factor; wavelengths, focal lengths, pixel scales, OPDs range over all rationals (every float is one),
   amplitudes over S, masks over all boolean arrays, shapes and oversampling over the integers in the stated ranges.
   Vocabulary: [pwf_init lam pix foc []] = a fresh Wavefront (one 0-d field 1+0j, no tilt); [plane_ok P n m] = the
   constructor's invariant of an n x m plane (slices = bounding slices of the mask(s), array attributes of the mask's
   shape); [chain_propagate sq ps w du_r du_c shape prop_shape os] = propagate_dft(w * P1 * ... * Pk, pixelscale=du,
   shape, prop_shape, oversample) without mask; [wfield]/[wintensity] = Wavefront.field / Wavefront.intensity;
   exp(+2 pi i W / lambda) = ke (-(W / lambda)); [kofb b] = 1 if b else 0; [maxsize] = sys.maxsize. *)
From LV Require Import Model.Segment Proofs.FieldP Proofs.PlaneP Proofs.PropagateP Proofs.SegmentP Proofs.ChainP
                       Lib.Instances.

(* 1. "The PSF is the squared modulus of the Fourier transform of the pupil function" (C07 o C02).
   A fresh plane wave times a Pupil with amplitude A, OPD W, 2-d mask M and focal length z, propagated with
   propagate_dft (no tilt, no output mask): the call succeeds, and every sample (i, j) of Wavefront.field, at output
   coordinate (u, v) = (i - floor(S_r os/2), j - floor(S_c os/2)), equals
       sqrt|a_r a_c| * sum_{x,y} A[x,y] M[x,y] exp(2 pi i W[x,y]/lambda) e(a_r (x - floor(n/2)) u + a_c (y - floor(m/2)) v)
   with a = dx du / (lambda z os) per axis, inside the centred prop_shape*os window, and exactly 0 outside it;
   Wavefront.intensity is its squared modulus (norm2 t = t * conj t) at every sample. *)
Theorem Chain_image_of_pupil :
  forall (S : Scalar), is_ring S -> kernel_laws S -> forall (sq : Qc -> S)
    (P : plane S) (g : garr bool) (lam : Qc) (pix : pixraw) (foc : option Qc) (z dur duc : Qc)
    (shape pshape : option (Z * Z)) (os : Z) (dxr dxc : Qc) (n m Sr Sc Pr Pc : Z),
  plane_ok P n m -> pl_mask P = PM2 g -> 0 < n -> 0 < m ->
  mul_pixelscale (pl_pix P) (pix_broadcast pix) = Ok (Some (dxr, dxc)) ->
  pl_focal P = Some (FVal z) ->
  match shape with None => (n, m) | Some s => s end = (Sr, Sc) ->
  match pshape with None => (Sr, Sc) | Some p => p end = (Pr, Pc) ->
  0 < Sr -> 0 < Sc -> 0 < Pr -> 0 < Pc -> 1 <= os -> Sr * os < maxsize -> Sc * os < maxsize ->
  let ar := ((dxr * dur) / (lam * z * zq os))%Qc in
  let ac := ((dxc * duc) / (lam * z * zq os))%Qc in
  exists v o oi, chain_propagate sq [P] (pwf_init lam pix foc []) dur duc shape pshape os = Ok v /\
    wfield v = Ok o /\ wintensity v = Ok oi /\
    nr o = Sr * os /\ nc o = Sc * os /\ nr oi = Sr * os /\ nc oi = Sc * os /\
    forall i j, 0 <= i < Sr * os -> 0 <= j < Sc * os ->
      let u := i - (Sr * os) / 2 in let v := j - (Sc * os) / 2 in
      get o i j =
        (if inE (array_extent (Pr * os) (Pc * os) 0 0) u v
         then (sumZ n (fun x => sumZ m (fun y =>
                 (amp_at (pl_amp P) x y * kofb (pget g x y) * ke (- (opd_at (pl_opd P) x y / lam))%Qc
                  * ke (ar * zq (x - n / 2) * zq u + ac * zq (y - m / 2) * zq v)%Qc)%K))
               * sq (qabs (ar * ac)%Qc))%K
         else k0)
      /\ get oi i j = norm2 (get o i j).
Proof. exact image_of_pupil. Qed.
Print Assumptions Chain_image_of_pupil.

(* ... and the segmented description of the same aperture gives the same image (C03 o C07 o C02): [Pseg] carries
   a cube of pairwise disjoint segment masks (bounding boxes may overlap) whose union is the 2-d mask [g] of the
   monolithic description [Pmono] with the same amplitude, OPD, pixel scale and focal length ([partition_of]).
   Every segment is propagated separately (its own dft2 call with its own offset); the rendered field is still the
   transform of the whole pupil function. *)
Theorem Chain_image_of_segmented_pupil :
  forall (S : Scalar), is_ring S -> kernel_laws S -> forall (sq : Qc -> S)
    (Pseg Pmono : plane S) (g : garr bool) (lam : Qc) (pix : pixraw) (foc : option Qc) (z dur duc : Qc)
    (shape pshape : option (Z * Z)) (os : Z) (dxr dxc : Qc) (n m Sr Sc Pr Pc : Z),
  partition_of Pseg Pmono n m -> pl_mask Pmono = PM2 g -> 0 < n -> 0 < m ->
  mul_pixelscale (pl_pix Pseg) (pix_broadcast pix) = Ok (Some (dxr, dxc)) ->
  pl_focal Pseg = Some (FVal z) ->
  match shape with None => (n, m) | Some s => s end = (Sr, Sc) ->
  match pshape with None => (Sr, Sc) | Some p => p end = (Pr, Pc) ->
  0 < Sr -> 0 < Sc -> 0 < Pr -> 0 < Pc -> 1 <= os -> Sr * os < maxsize -> Sc * os < maxsize ->
  let ar := ((dxr * dur) / (lam * z * zq os))%Qc in
  let ac := ((dxc * duc) / (lam * z * zq os))%Qc in
  exists v o oi, chain_propagate sq [Pseg] (pwf_init lam pix foc []) dur duc shape pshape os = Ok v /\
    wfield v = Ok o /\ wintensity v = Ok oi /\
    nr o = Sr * os /\ nc o = Sc * os /\ nr oi = Sr * os /\ nc oi = Sc * os /\
    forall i j, 0 <= i < Sr * os -> 0 <= j < Sc * os ->
      let u := i - (Sr * os) / 2 in let v := j - (Sc * os) / 2 in
      get o i j =
        (if inE (array_extent (Pr * os) (Pc * os) 0 0) u v
         then (sumZ n (fun x => sumZ m (fun y =>
                 (amp_at (pl_amp Pseg) x y * kofb (pget g x y) * ke (- (opd_at (pl_opd Pseg) x y / lam))%Qc
                  * ke (ar * zq (x - n / 2) * zq u + ac * zq (y - m / 2) * zq v)%Qc)%K))
               * sq (qabs (ar * ac)%Qc))%K
         else k0)
      /\ get oi i j = norm2 (get o i j).
Proof. exact image_of_segmented_pupil. Qed.
Print Assumptions Chain_image_of_segmented_pupil.
