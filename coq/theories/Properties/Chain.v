(* WP-K - composition theorems: statements about the whole optical chain
       Wavefront(wavelength, ...) * Pupil(amplitude, opd, mask, pixelscale, focal_length)  ->  propagate_dft / propagate_fft
       ->  Wavefront.field / Wavefront.intensity
   obtained by composing the theorems of the property packages (C02, C03, C04, C05, C07, C09); no new model code.
   Only statements; the proofs are in Proofs/ChainP.v.  [S] ranges over every commutative ring with an additive
   kernel e = [ke] (over the complex numbers e t = exp(-2 pi i t): instance [CS]); [sq] is the square root of the
   unitary factor; wavelengths, focal lengths, pixel scales, OPDs range over all rationals (every float is one),
   amplitudes over S, masks over all boolean arrays, shapes and oversampling over the integers in the stated ranges.
   Vocabulary: [pwf_init lam pix foc []] = a fresh Wavefront (one 0-d field 1+0j, no tilt); [plane_ok P n m] = the
   constructor's invariant of an n x m plane (slices = bounding slices of the mask(s), array attributes of the mask's
   shape); [chain_propagate sq ps w du_r du_c shape prop_shape os] = propagate_dft(w * P1 * ... * Pk, pixelscale=du,
   shape, prop_shape, oversample) without mask; [wfield]/[wintensity] = Wavefront.field / Wavefront.intensity;
   exp(+2 pi i W / lambda) = ke (-(W / lambda)); [kofb b] = 1 if b else 0; [maxsize] = sys.maxsize. *)
From Coq Require Import Reals QArith Qreals Qcanon.
From Coquelicot Require Import Complex.
(* Model.Fft and Model.Tilt are imported first: the names they share with the propagate_dft model (wavefront, wfield,
   wshape, qfix, ...) then refer to Model/Propagate.v and theirs are written qualified (Fft.wavefront, ...) *)
From LV Require Import Lib.Cis Model.Tilt Model.Fft Proofs.FftP.
From LV Require Import Model.Segment Proofs.FieldP Proofs.PlaneP Proofs.PropagateP Proofs.SegmentP Proofs.ChainP
                       Lib.Instances.
Local Open Scope Z_scope.

(* 1. "The PSF is the squared modulus of the Fourier transform of the pupil function" (C07 o C02).
   A fresh plane wave times a Pupil with amplitude A, OPD W, 2-d mask M and focal length z, propagated with
   propagate_dft (no tilt, no output mask): the call succeeds, and every sample (i, j) of Wavefront.field, at output
   coordinate (u, v) = (i - floor(S_r os/2), j - floor(S_c os/2)), equals
       sqrt|a_r a_c| * sum_{x,y} A[x,y] M[x,y] exp(2 pi i W[x,y]/lambda) e(a_r (x - floor(n/2)) u + a_c (y - floor(m/2)) v)
   with a = dx du / (lambda z os) per axis, inside the centred prop_shape*os window, and exactly 0 outside it;
   Wavefront.intensity is its squared modulus (norm2 t = t * conj t) at every sample. *)
Theorem Chain_image_of_pupil :
  forall (S : Scalar), is_ring S -> kernel_laws S -> forall (sq : Qc -> S)
    (P : plane S) (g : garr bool) (lam : Qc) (pix : pixraw) (foc : option Qc) (z dur duc : Qc)
    (shape pshape : option (Z * Z)) (os : Z) (dxr dxc : Qc) (n m Sr Sc Pr Pc : Z),
  plane_ok P n m -> pl_mask P = PM2 g -> 0 < n -> 0 < m ->
  mul_pixelscale (pl_pix P) (pix_broadcast pix) = Ok (Some (dxr, dxc)) ->
  pl_focal P = Some (FVal z) ->
  match shape with None => (n, m) | Some s => s end = (Sr, Sc) ->
  match pshape with None => (Sr, Sc) | Some p => p end = (Pr, Pc) ->
  0 < Sr -> 0 < Sc -> 0 < Pr -> 0 < Pc -> 1 <= os -> Sr * os < maxsize -> Sc * os < maxsize ->
  let ar := ((dxr * dur) / (lam * z * zq os))%Qc in
  let ac := ((dxc * duc) / (lam * z * zq os))%Qc in
  exists v o oi, chain_propagate sq [P] (pwf_init lam pix foc []) dur duc shape pshape os = Ok v /\
    wfield v = Ok o /\ wintensity v = Ok oi /\
    nr o = Sr * os /\ nc o = Sc * os /\ nr oi = Sr * os /\ nc oi = Sc * os /\
    forall i j, 0 <= i < Sr * os -> 0 <= j < Sc * os ->
      let u := i - (Sr * os) / 2 in let v := j - (Sc * os) / 2 in
      get o i j =
        (if inE (array_extent (Pr * os) (Pc * os) 0 0) u v
         then (sumZ n (fun x => sumZ m (fun y =>
                 (amp_at (pl_amp P) x y * kofb (pget g x y) * ke (- (opd_at (pl_opd P) x y / lam))%Qc
                  * ke (ar * zq (x - n / 2) * zq u + ac * zq (y - m / 2) * zq v)%Qc)%K))
               * sq (qabs (ar * ac)%Qc))%K
         else k0)
      /\ get oi i j = norm2 (get o i j).
Proof. exact image_of_pupil. Qed.
Print Assumptions Chain_image_of_pupil.

(* ... and the segmented description of the same aperture gives the same image (C03 o C07 o C02): [Pseg] carries
   a cube of pairwise disjoint segment masks (bounding boxes may overlap) whose union is the 2-d mask [g] of the
   monolithic description [Pmono] with the same amplitude, OPD, pixel scale and focal length ([partition_of]).
   Every segment is propagated separately (its own dft2 call with its own offset); the rendered field is still the
   transform of the whole pupil function. *)
Theorem Chain_image_of_segmented_pupil :
  forall (S : Scalar), is_ring S -> kernel_laws S -> forall (sq : Qc -> S)
    (Pseg Pmono : plane S) (g : garr bool) (lam : Qc) (pix : pixraw) (foc : option Qc) (z dur duc : Qc)
    (shape pshape : option (Z * Z)) (os : Z) (dxr dxc : Qc) (n m Sr Sc Pr Pc : Z),
  partition_of Pseg Pmono n m -> pl_mask Pmono = PM2 g -> 0 < n -> 0 < m ->
  mul_pixelscale (pl_pix Pseg) (pix_broadcast pix) = Ok (Some (dxr, dxc)) ->
  pl_focal Pseg = Some (FVal z) ->
  match shape with None => (n, m) | Some s => s end = (Sr, Sc) ->
  match pshape with None => (Sr, Sc) | Some p => p end = (Pr, Pc) ->
  0 < Sr -> 0 < Sc -> 0 < Pr -> 0 < Pc -> 1 <= os -> Sr * os < maxsize -> Sc * os < maxsize ->
  let ar := ((dxr * dur) / (lam * z * zq os))%Qc in
  let ac := ((dxc * duc) / (lam * z * zq os))%Qc in
  exists v o oi, chain_propagate sq [Pseg] (pwf_init lam pix foc []) dur duc shape pshape os = Ok v /\
    wfield v = Ok o /\ wintensity v = Ok oi /\
    nr o = Sr * os /\ nc o = Sc * os /\ nr oi = Sr * os /\ nc oi = Sc * os /\
    forall i j, 0 <= i < Sr * os -> 0 <= j < Sc * os ->
      let u := i - (Sr * os) / 2 in let v := j - (Sc * os) / 2 in
      get o i j =
        (if inE (array_extent (Pr * os) (Pc * os) 0 0) u v
         then (sumZ n (fun x => sumZ m (fun y =>
                 (amp_at (pl_amp Pseg) x y * kofb (pget g x y) * ke (- (opd_at (pl_opd Pseg) x y / lam))%Qc
                  * ke (ar * zq (x - n / 2) * zq u + ac * zq (y - m / 2) * zq v)%Qc)%K))
               * sq (qabs (ar * ac)%Qc))%K
         else k0)
      /\ get oi i j = norm2 (get o i j).
Proof. exact image_of_segmented_pupil. Qed.
Print Assumptions Chain_image_of_segmented_pupil.

(* ... and "after any chain of planes and a propagation" (C07 o C02): a fresh plane wave through k >= 1 planes with
   array masks of one shape n x m (each monolithic or segmented; [cover] = number of the plane's segment masks that
   contain the sample, 0 or 1 for disjoint segments), whose product the code accepts (consistent pixel scales) and which
   leaves pixel scale (dx_r, dx_c) and focal length z on the wavefront: the image is the transform of the PRODUCT of
   the planes' pupil functions, sample by sample, and the intensity its squared modulus *)
Theorem Chain_image_of_plane_chain :
  forall (S : Scalar), is_ring S -> kernel_laws S -> forall (sq : Qc -> S)
    (ps : list (plane S)) (w1 : pwf S) (lam : Qc) (pix : pixraw) (foc : option Qc) (z dur duc : Qc)
    (shape pshape : option (Z * Z)) (os : Z) (dxr dxc : Qc) (n m Sr Sc Pr Pc : Z),
  ps <> [] -> (forall P, In P ps -> plane_ok P n m) -> 0 < n -> 0 < m ->
  chain_multiply ps (pwf_init lam pix foc []) = Ok w1 ->
  pw_pix w1 = Some (dxr, dxc) -> pw_focal w1 = FVal z ->
  match shape with None => (n, m) | Some s => s end = (Sr, Sc) ->
  match pshape with None => (Sr, Sc) | Some p => p end = (Pr, Pc) ->
  0 < Sr -> 0 < Sc -> 0 < Pr -> 0 < Pc -> 1 <= os -> Sr * os < maxsize -> Sc * os < maxsize ->
  let ar := ((dxr * dur) / (lam * z * zq os))%Qc in
  let ac := ((dxc * duc) / (lam * z * zq os))%Qc in
  exists v o oi, chain_propagate sq ps (pwf_init lam pix foc []) dur duc shape pshape os = Ok v /\
    wfield v = Ok o /\ wintensity v = Ok oi /\
    nr o = Sr * os /\ nc o = Sc * os /\ nr oi = Sr * os /\ nc oi = Sc * os /\
    forall i j, 0 <= i < Sr * os -> 0 <= j < Sc * os ->
      let u := i - (Sr * os) / 2 in let v := j - (Sc * os) / 2 in
      get o i j =
        (if inE (array_extent (Pr * os) (Pc * os) 0 0) u v
         then (sumZ n (fun x => sumZ m (fun y =>
                 (fold_right (fun P acc =>
                    (amp_at (pl_amp P) x y * ke (- (opd_at (pl_opd P) x y / lam))%Qc * cover (masks_of (pl_mask P)) x y
                     * acc)%K) k1 ps
                  * ke (ar * zq (x - n / 2) * zq u + ac * zq (y - m / 2) * zq v)%Qc)%K))
               * sq (qabs (ar * ac)%Qc))%K
         else k0)
      /\ get oi i j = norm2 (get o i j).
Proof. exact image_of_chain. Qed.
Print Assumptions Chain_image_of_plane_chain.

(* 2. FFT path = DFT path on a whole wavefront (C09 o C02).  [wF] is the wavefront as propagate_fft reads it (FFT model,
   Model/Fft.v), [wD] the same wavefront (same fields, shape, pixel scale, focal length, plane type) as propagate_dft
   reads it (Model/Propagate.v), carrying the wavelength propagate_fft REPORTS for its result.  Side conditions:
   isotropic pixel scales d (pupil plane) and u (image plane), hence a square grid N x N = _fft_shape(...); every field
   an array lying on the grid (pupil no larger than the grid: [fits]); requested shape * oversample <= N; no field
   carries tilt (propagate_fft refuses tilt; [no_shift] is Field.shift of such fields); prop_shape defaulted and no
   mask (the FFT path has neither); scratch buffer absent or at least N x N ([scratch_ok]); the kernel is 1-periodic.
   Then both calls succeed, report the same wavelength and shape, and Wavefront.field agrees sample by sample - both
   are the unitary defining sum at alpha = 1/N. *)
Theorem Chain_fft_equals_dft :
  forall (S : Scalar), is_ring S -> kernel_laws S -> (forall k : Z, @ke S (zq k) = k1) -> forall (sq : Qc -> S)
    (wF : Fft.wavefront S) (N : Z) (d u z : Qc) (os s0 s1 : Z) (scratch : option (arr S)),
  0 < N -> 0 < os -> d <> 0%Qc -> u <> 0%Qc -> z <> 0%Qc ->
  Fft.wpix wF = (d, d) -> Fft.wz wF = z ->
  fft_grid (d, d) (u, u) z (Fft.wlam wF) os = (N, N) ->
  Fft.has_tilt wF = false -> Fft.wpt wF <> PNone ->
  (forall f, In f (Fft.wdata wF) ->
     match fd f with
     | D2 a => (0 < nr a /\ 0 < nc a) /\
               0 <= N / 2 - nr a / 2 + offr f /\ N / 2 - nr a / 2 + offr f + nr a <= N /\
               0 <= N / 2 - nc a / 2 + offc f /\ N / 2 - nc a / 2 + offc f + nc a <= N
     | D0 _ => False
     end) ->
  0 < s0 -> 0 < s1 -> s0 * os <= N -> s1 * os <= N ->
  match scratch with
  | Some buf => N <= nr buf /\ N <= nc buf
  | None => 0 < fst (Fft.wshape wF) /\ 0 < snd (Fft.wshape wF) /\
            forall f r c, In f (Fft.wdata wF) ->
              inr (fst (Fft.wshape wF)) (r + fst (Fft.wshape wF) / 2) && inr (snd (Fft.wshape wF)) (c + snd (Fft.wshape wF) / 2) = false ->
              embed f r c = k0
  end ->
  let lamF := prop_wavelength N N (d, d) (u, u) z os in
  let wD := mkWf lamF (Some (d, d)) (Some z) (Fft.wshape wF)
                 (match Fft.wpt wF with PNone => PtNone | PPupil => PtPupil | PImage => PtImage end) (Fft.wdata wF) in
  exists outF sc oF outD oD,
    propagate_fft sq wF (u, u) (Some (s0, s1)) os scratch = Ok (outF, sc) /\
    Fft.wfield outF = Ok oF /\ Fft.wlam outF = lamF /\ Fft.wshape outF = (s0 * os, s1 * os) /\
    propagate_dft sq (@no_shift S) wD u u (Some (s0, s1)) None os None = Ok outD /\
    wfield outD = Ok oD /\ wwl outD = lamF /\ wshape outD = (s0 * os, s1 * os) /\
    nr oF = s0 * os /\ nc oF = s1 * os /\ nr oD = s0 * os /\ nc oD = s1 * os /\
    forall i j, 0 <= i < s0 * os -> 0 <= j < s1 * os ->
      get oF i j = get oD i j /\
      get oF i j =
        (fold_right (fun f acc =>
           (match fd f with
            | D2 a => sumZ (nr a) (fun x => sumZ (nc a) (fun y =>
                (get a x y * ke (/ zq N * zq (x - nr a / 2 + offr f) * zq (i - (s0 * os) / 2)
                                 + / zq N * zq (y - nc a / 2 + offc f) * zq (j - (s1 * os) / 2))%Qc)%K))
            | D0 _ => k0
            end + acc)%K) k0 (Fft.wdata wF)
         * sq (/ zq (N * N))%Qc)%K.
Proof. exact fft_equals_dft_explicit. Qed.
Print Assumptions Chain_fft_equals_dft.

(* 3. Parseval through the whole chain (C05 o C02 o C07), over the complex numbers.  Commensurate sampling: the DFT
   sampling ratio dx du/(lambda z os) is 1/(shape*os) per axis, the pupil array is no larger than that period, and the
   whole period is evaluated (prop_shape defaulted to shape, no mask).  Then the total of Wavefront.intensity equals
   sum |A M exp(2 pi i W/lambda)|^2 - which is the power of the amplitude inside the mask, whatever the OPD.
   [sq] is any square root on the non-negative rationals. *)
Theorem Chain_energy :
  forall (sq : Qc -> C), (forall q : Qc, (0 <= q)%Qc -> Cmult (sq q) (sq q) = RtoC (Q2R q)) ->
  forall (P : plane CS) (g : garr bool) (lam : Qc) (pix : pixraw) (foc : option Qc) (z dur duc : Qc)
         (shape : option (Z * Z)) (os : Z) (dxr dxc : Qc) (n m Sr Sc : Z),
  plane_ok P n m -> pl_mask P = PM2 g -> 0 < n -> 0 < m ->
  mul_pixelscale (pl_pix P) (pix_broadcast pix) = Ok (Some (dxr, dxc)) ->
  pl_focal P = Some (FVal z) ->
  match shape with None => (n, m) | Some s => s end = (Sr, Sc) ->
  0 < Sr -> 0 < Sc -> 1 <= os -> Sr * os < maxsize -> Sc * os < maxsize ->
  ((dxr * dur) / (lam * z * zq os))%Qc = (/ zq (Sr * os))%Qc ->
  ((dxc * duc) / (lam * z * zq os))%Qc = (/ zq (Sc * os))%Qc ->
  n <= Sr * os -> m <= Sc * os ->
  exists v oi, chain_propagate (S := CS) sq [P] (pwf_init lam pix foc []) dur duc shape None os = Ok v /\
    wintensity v = Ok oi /\ nr oi = Sr * os /\ nc oi = Sc * os /\
    @sumZ CS (Sr * os) (fun i => @sumZ CS (Sc * os) (fun j => get oi i j))
    = @sumZ CS n (fun x => @sumZ CS m (fun y => @norm2 CS
        (amp_at (pl_amp P) x y * kofb (pget g x y) * ke (- (opd_at (pl_opd P) x y / lam))%Qc)%K)) /\
    @sumZ CS (Sr * os) (fun i => @sumZ CS (Sc * os) (fun j => get oi i j))
    = @sumZ CS n (fun x => @sumZ CS m (fun y => (@norm2 CS (amp_at (pl_amp P) x y) * kofb (pget g x y))%K)).
Proof. exact chain_energy. Qed.
Print Assumptions Chain_energy.

(* 4. Tilt as metadata = tilt in the OPD, through the whole chain (C04 o C07 o C02).
   A: Wavefront * Pupil * Tilt(x=a, y=b)  ([CTilt (TiltAng b a) Pd]: lentil stores Tilt(x, y) as (self.x, self.y) = (y, x);
      [Pd] is the default plane TiltInterface.multiply multiplies by), propagated with Field.shift for angular tilt
      ([ang_shift]): the tilt moves the evaluation window by fix(shift) and the sampling coordinates by the full shift
      (sr, sc) = (z a os/du_r, - z b os/du_c).
   B: Wavefront * Pupil', Pupil' = the same pupil with the ramp a X dx_r - b Y dx_c added to its OPD
      ((X, Y) = sample coordinates relative to floor(n/2), floor(m/2)), no metadata, ordinary propagation.
   Both rendered fields are the same function X of the sample, each inside its own window; they are therefore equal on
   every sample both evaluate. *)
Theorem Chain_tilt_plane_equals_opd_ramp :
  forall (S : Scalar), is_ring S -> kernel_laws S -> forall (sq : Qc -> S)
    (P Pd : plane S) (g : garr bool) (a b lam : Qc) (pix : pixraw) (foc : option Qc) (z dur duc : Qc)
    (shape pshape : option (Z * Z)) (os : Z) (dxr dxc : Qc) (n m Sr Sc Pr Pc : Z),
  plane_ok P n m -> pl_mask P = PM2 g -> pl_tilt P = [] -> 0 < n -> 0 < m ->
  mul_pixelscale (pl_pix P) (pix_broadcast pix) = Ok (Some (dxr, dxc)) -> pl_focal P = Some (FVal z) ->
  plane_scalar Pd k1 0%Qc true -> pl_tilt Pd = [] -> pl_pix Pd = None -> pl_focal Pd = None ->
  dur <> 0%Qc -> duc <> 0%Qc -> lam <> 0%Qc -> z <> 0%Qc ->
  match shape with None => (n, m) | Some s => s end = (Sr, Sc) ->
  match pshape with None => (Sr, Sc) | Some p => p end = (Pr, Pc) ->
  0 < Sr -> 0 < Sc -> 0 < Pr -> 0 < Pc -> 1 <= os -> Sr * os < maxsize -> Sc * os < maxsize ->
  let w0 := pwf_init (S := S) lam pix foc [] in
  let Pramp := set_opd P (OpdA (mkP n m (fun x y =>
                 (opd_at (pl_opd P) x y + (a * (zq (x - n / 2) * dxr) - b * (zq (y - m / 2) * dxc)))%Qc))) in
  let sr := (z * a * zq os / dur)%Qc in let sc := (- (z * b * zq os / duc))%Qc in
  let ar := ((dxr * dur) / (lam * z * zq os))%Qc in
  let ac := ((dxc * duc) / (lam * z * zq os))%Qc in
  exists vA oA vB oB,
    rbind (plane_multiply P w0) (fun w1 => rbind (elem_multiply (CTilt (TiltAng b a) Pd) w1) (fun w2 =>
      rbind (to_wavefront w2 PtPupil) (fun w3 =>
        propagate_dft sq (ang_shift (wfocal w3) dur duc os) w3 dur duc shape pshape os None))) = Ok vA /\
    wfield vA = Ok oA /\
    chain_propagate sq [Pramp] w0 dur duc shape pshape os = Ok vB /\ wfield vB = Ok oB /\
    nr oA = Sr * os /\ nc oA = Sc * os /\ nr oB = Sr * os /\ nc oB = Sc * os /\
    forall i j, 0 <= i < Sr * os -> 0 <= j < Sc * os ->
      let u := i - (Sr * os) / 2 in let v := j - (Sc * os) / 2 in
      let X := (sumZ n (fun x => sumZ m (fun y =>
                  (amp_at (pl_amp P) x y * kofb (pget g x y) * ke (- (opd_at (pl_opd P) x y / lam))%Qc
                   * ke (ar * zq (x - n / 2) * (zq u - sr) + ac * zq (y - m / 2) * (zq v - sc))%Qc)%K))
                * sq (qabs (ar * ac)%Qc))%K in
      get oA i j = (if inE (array_extent (Pr * os) (Pc * os) (qfix sr) (qfix sc)) u v then X else k0) /\
      get oB i j = (if inE (array_extent (Pr * os) (Pc * os) 0 0) u v then X else k0) /\
      (inE (array_extent (Pr * os) (Pc * os) (qfix sr) (qfix sc)) u v = true ->
       inE (array_extent (Pr * os) (Pc * os) 0 0) u v = true -> get oA i j = get oB i j).
Proof. exact tilt_plane_equals_opd_ramp. Qed.
Print Assumptions Chain_tilt_plane_equals_opd_ramp.

(* ... and the same for the tilt handed to the constructor, Wavefront(wavelength, tilt=[a, b]) (wrapped by wavefront.py
   as the one Tilt(x=a, y=b) of the plane-wave field), propagated by the tilt-aware call of C03 *)
Theorem Chain_wavefront_tilt_equals_opd_ramp :
  forall (S : Scalar), is_ring S -> kernel_laws S -> forall (sq : Qc -> S)
    (P : plane S) (g : garr bool) (a b lam : Qc) (pix : pixraw) (foc : option Qc) (z dur duc : Qc)
    (shape pshape : option (Z * Z)) (os : Z) (dxr dxc : Qc) (n m Sr Sc Pr Pc : Z),
  plane_ok P n m -> pl_mask P = PM2 g -> pl_tilt P = [] -> 0 < n -> 0 < m ->
  mul_pixelscale (pl_pix P) (pix_broadcast pix) = Ok (Some (dxr, dxc)) -> pl_focal P = Some (FVal z) ->
  dur <> 0%Qc -> duc <> 0%Qc -> lam <> 0%Qc -> z <> 0%Qc ->
  match shape with None => (n, m) | Some s => s end = (Sr, Sc) ->
  match pshape with None => (Sr, Sc) | Some p => p end = (Pr, Pc) ->
  0 < Sr -> 0 < Sc -> 0 < Pr -> 0 < Pc -> 1 <= os -> Sr * os < maxsize -> Sc * os < maxsize ->
  let Pramp := set_opd P (OpdA (mkP n m (fun x y =>
                 (opd_at (pl_opd P) x y + (a * (zq (x - n / 2) * dxr) - b * (zq (y - m / 2) * dxc)))%Qc))) in
  let sr := (z * a * zq os / dur)%Qc in let sc := (- (z * b * zq os / duc))%Qc in
  let ar := ((dxr * dur) / (lam * z * zq os))%Qc in
  let ac := ((dxc * duc) / (lam * z * zq os))%Qc in
  exists vA oA vB oB,
    wavefront_tilt (Some [a; b]) = Ok [TiltAng b a] /\
    chain_propagate_tilted sq [P] (pwf_init lam pix foc [TiltAng b a]) dur duc shape pshape os = Ok vA /\
    wfield vA = Ok oA /\
    chain_propagate sq [Pramp] (pwf_init lam pix foc []) dur duc shape pshape os = Ok vB /\ wfield vB = Ok oB /\
    nr oA = Sr * os /\ nc oA = Sc * os /\ nr oB = Sr * os /\ nc oB = Sc * os /\
    forall i j, 0 <= i < Sr * os -> 0 <= j < Sc * os ->
      let u := i - (Sr * os) / 2 in let v := j - (Sc * os) / 2 in
      let X := (sumZ n (fun x => sumZ m (fun y =>
                  (amp_at (pl_amp P) x y * kofb (pget g x y) * ke (- (opd_at (pl_opd P) x y / lam))%Qc
                   * ke (ar * zq (x - n / 2) * (zq u - sr) + ac * zq (y - m / 2) * (zq v - sc))%Qc)%K))
                * sq (qabs (ar * ac)%Qc))%K in
      get oA i j = (if inE (array_extent (Pr * os) (Pc * os) (qfix sr) (qfix sc)) u v then X else k0) /\
      get oB i j = (if inE (array_extent (Pr * os) (Pc * os) 0 0) u v then X else k0) /\
      (inE (array_extent (Pr * os) (Pc * os) (qfix sr) (qfix sc)) u v = true ->
       inE (array_extent (Pr * os) (Pc * os) 0 0) u v = true -> get oA i j = get oB i j).
Proof. exact wavefront_tilt_equals_opd_ramp. Qed.
Print Assumptions Chain_wavefront_tilt_equals_opd_ramp.

(* 5. Polychromatic images (C07 o C02 over a sampled spectrum).  The loop
       for (wavelength, weight) in spec:  propagate_dft(Wavefront(wavelength) * Pupil, ...).insert(out, weight)
   started from a zero array: every call succeeds, and the image is, sample by sample, the weighted sum over the
   wavelengths of the squared moduli of the monochromatic fields F(lambda) of Chain_image_of_pupil - each the transform of
   the pupil function at its own wavelength (phasor exp(2 pi i W/lambda), sampling ratio alpha(lambda)); consequently the
   total of the image is the weighted sum of the monochromatic totals (linearity of the intensity sum; each
   monochromatic total is the pupil power whenever that wavelength is commensurate: Chain_energy). *)
Theorem Chain_broadband :
  forall (S : Scalar), is_ring S -> kernel_laws S -> forall (sq : Qc -> S)
    (P : plane S) (g : garr bool) (pix : pixraw) (foc : option Qc) (z dur duc : Qc)
    (shape pshape : option (Z * Z)) (os : Z) (dxr dxc : Qc) (n m Sr Sc Pr Pc : Z) (spec : list (Qc * S)),
  plane_ok P n m -> pl_mask P = PM2 g -> 0 < n -> 0 < m ->
  mul_pixelscale (pl_pix P) (pix_broadcast pix) = Ok (Some (dxr, dxc)) ->
  pl_focal P = Some (FVal z) ->
  match shape with None => (n, m) | Some s => s end = (Sr, Sc) ->
  match pshape with None => (Sr, Sc) | Some p => p end = (Pr, Pc) ->
  0 < Sr -> 0 < Sc -> 0 < Pr -> 0 < Pc -> 1 <= os -> Sr * os < maxsize -> Sc * os < maxsize ->
  let F := fun (lam : Qc) (i j : Z) =>
    let ar := ((dxr * dur) / (lam * z * zq os))%Qc in let ac := ((dxc * duc) / (lam * z * zq os))%Qc in
    let u := i - (Sr * os) / 2 in let v := j - (Sc * os) / 2 in
    if inE (array_extent (Pr * os) (Pc * os) 0 0) u v
    then (sumZ n (fun x => sumZ m (fun y =>
            (amp_at (pl_amp P) x y * kofb (pget g x y) * ke (- (opd_at (pl_opd P) x y / lam))%Qc
             * ke (ar * zq (x - n / 2) * zq u + ac * zq (y - m / 2) * zq v)%Qc)%K))
          * sq (qabs (ar * ac)%Qc))%K
    else k0 in
  exists o,
    fold_left (fun acc lw => rbind acc (fun o' =>
                 rbind (chain_propagate sq [P] (pwf_init (fst lw) pix foc []) dur duc shape pshape os) (fun v =>
                 accumulate (wdata v) o' (snd lw))))
              spec (Ok (azeros (Sr * os) (Sc * os))) = Ok o /\
    nr o = Sr * os /\ nc o = Sc * os /\
    (forall i j, 0 <= i < Sr * os -> 0 <= j < Sc * os ->
       get o i j = fold_right (fun lw acc => (norm2 (F (fst lw) i j) * snd lw + acc)%K) k0 spec) /\
    sumZ (Sr * os) (fun i => sumZ (Sc * os) (fun j => get o i j))
    = fold_right (fun lw acc =>
        (sumZ (Sr * os) (fun i => sumZ (Sc * os) (fun j => norm2 (F (fst lw) i j))) * snd lw + acc)%K) k0 spec.
Proof. exact broadband_of_pupil. Qed.
Print Assumptions Chain_broadband.

(* 6. Per-segment tilts (C03 o C04 o C07 o C02).  A segmented Pupil (cube of K pairwise disjoint masks) whose .tilt holds
   one Tilt(x=a_k, y=b_k) per segment - what Plane.fit_tilt leaves behind; Plane.multiply hands segment k the entries
   tilt[k::K], i.e. its own - propagated with Field.shift ([chain_propagate_tilted]), against the same Pupil with every
   segment's ramp a_k X dx_r - b_k Y dx_c written into the OPD on that segment's mask and no metadata.  Both calls
   succeed and both rendered fields are built from the same per-segment terms X_k = the transform of segment k's pupil
   function at the sample's coordinate minus segment k's shift (z a_k os/du_r, - z b_k os/du_c):
       metadata:  sum_k [window centred at fix(shift_k)] X_k        OPD ramps:  [window centred at 0] sum_k X_k
   - equal wherever all windows agree; the metadata form evaluates each segment in its own translated window. *)
Theorem Chain_segmented_tilt :
  forall (S : Scalar), is_ring S -> kernel_laws S -> forall (sq : Qc -> S)
    (P : plane S) (ms : list (garr bool)) (abs : list (Qc * Qc)) (lam : Qc) (pix : pixraw) (foc : option Qc) (z dur duc : Qc)
    (shape pshape : option (Z * Z)) (os : Z) (dxr dxc : Qc) (n m Sr Sc Pr Pc : Z),
  plane_ok P n m -> pl_mask P = PM3 n m ms -> disjoint_masks ms ->
  pl_tilt P = map (fun ab => TiltAng (snd ab) (fst ab)) abs -> length abs = length ms -> 0 < n -> 0 < m ->
  mul_pixelscale (pl_pix P) (pix_broadcast pix) = Ok (Some (dxr, dxc)) -> pl_focal P = Some (FVal z) ->
  dur <> 0%Qc -> duc <> 0%Qc -> lam <> 0%Qc -> z <> 0%Qc ->
  match shape with None => (n, m) | Some s => s end = (Sr, Sc) ->
  match pshape with None => (Sr, Sc) | Some p => p end = (Pr, Pc) ->
  0 < Sr -> 0 < Sc -> 0 < Pr -> 0 < Pc -> 1 <= os ->
  let w0 := pwf_init (S := S) lam pix foc [] in
  let L := combine ms abs in
  let Pramp := mkPlane (pl_amp P)
     (OpdA (mkP n m (fun x y => (opd_at (pl_opd P) x y +
        fold_right (fun gab acc =>
          ((if mask_at (fst gab) x y
            then fst (snd gab) * (zq (x - n / 2) * dxr) - snd (snd gab) * (zq (y - m / 2) * dxc) else 0) + acc)%Qc) 0%Qc L)%Qc)))
     (pl_mask P) (pl_slices P) (pl_pix P) [] (pl_focal P) in
  let ar := ((dxr * dur) / (lam * z * zq os))%Qc in
  let ac := ((dxc * duc) / (lam * z * zq os))%Qc in
  let shr := fun gab : garr bool * (Qc * Qc) => (z * fst (snd gab) * zq os / dur)%Qc in
  let shc := fun gab : garr bool * (Qc * Qc) => (- (z * snd (snd gab) * zq os / duc))%Qc in
  let X := fun (gab : garr bool * (Qc * Qc)) (i j : Z) =>
    (sumZ n (fun x => sumZ m (fun y =>
       (amp_at (pl_amp P) x y * kofb (pget (fst gab) x y) * ke (- (opd_at (pl_opd P) x y / lam))%Qc
        * ke (ar * zq (x - n / 2) * (zq (i - (Sr * os) / 2) - shr gab)
              + ac * zq (y - m / 2) * (zq (j - (Sc * os) / 2) - shc gab))%Qc)%K))
     * sq (qabs (ar * ac)%Qc))%K in
  exists vA oA vB oB,
    chain_propagate_tilted sq [P] w0 dur duc shape pshape os = Ok vA /\ wfield vA = Ok oA /\
    chain_propagate sq [Pramp] w0 dur duc shape pshape os = Ok vB /\ wfield vB = Ok oB /\
    nr oA = Sr * os /\ nc oA = Sc * os /\ nr oB = Sr * os /\ nc oB = Sc * os /\
    forall i j, 0 <= i < Sr * os -> 0 <= j < Sc * os ->
      let u := i - (Sr * os) / 2 in let v := j - (Sc * os) / 2 in
      get oA i j = fold_right (fun gab acc =>
         ((if inE (array_extent (Pr * os) (Pc * os) (qfix (shr gab)) (qfix (shc gab))) u v then X gab i j else k0) + acc)%K) k0 L /\
      get oB i j = (if inE (array_extent (Pr * os) (Pc * os) 0 0) u v
                    then fold_right (fun gab acc => (X gab i j + acc)%K) k0 L else k0).
Proof. exact segmented_tilt_equals_ramps. Qed.
Print Assumptions Chain_segmented_tilt.

(* non-vacuity: the integers with kernel 1 satisfy the hypotheses on the scalars; a 3 x 4 pupil over Z (array amplitude
   1 + i + 2 j, scalar OPD, a mask that blocks sample (0, 3), pixel scale 1/2, focal length 4) built by the
   constructor satisfies the hypotheses of Chain_image_of_pupil / Chain_tilt_plane_equals_opd_ramp; the chain runs with
   shape (2, 3), prop_shape (1, 2), oversample 2: a sample inside the 2 x 4 window carries the sum of the amplitude
   over the mask (60 - 7 = 53), its intensity is 53^2, a sample outside the window is 0 *)
Definition exAmp : arr ZS := @mkArr ZS 3 4 (fun i j => 1 + i + 2 * j).
Definition exMask : arr ZS := @mkArr ZS 3 4 (fun i j => if (i =? 0) && (j =? 3) then 0 else 1).
Definition exNz : ZS -> bool := fun x => negb (x =? 0).
Definition exPupil : result (plane ZS) :=
  plane_init (S := ZS) exNz (AmpA exAmp) (OpdS 0%Qc) (M2 exMask) (Pix1 (Q2Qc (1 # 2))) (Some (FVal (Q2Qc 4))) [].
Example Chain_nonvacuous :
  is_ring ZS /\ kernel_laws ZS /\
  match exPupil with
  | Ok P =>
      plane_ok P 3 4 /\ pl_mask P = PM2 (binarise exNz exMask) /\ pl_tilt P = [] /\
      mul_pixelscale (pl_pix P) (pix_broadcast PixNone) = Ok (Some (Q2Qc (1 # 2), Q2Qc (1 # 2))) /\
      pl_focal P = Some (FVal (Q2Qc 4)) /\
      match chain_propagate (S := ZS) (fun _ => 1) [P] (pwf_init (S := ZS) 1%Qc PixNone None [])
                            (Q2Qc (1 # 4)) (Q2Qc (1 # 4)) (Some (2, 3)) (Some (1, 2)) 2 with
      | Ok v => match wfield v, wintensity v with
                | Ok o, Ok oi => get o 2 3 = 53 /\ get oi 2 3 = 53 * 53 /\ get o 1 1 = 53 /\ get o 0 0 = 0 /\ get o 2 5 = 0
                | _, _ => False end
      | Err _ => False end
  | Err _ => False end.
Proof.
  split; [exact ZS_ring|]. split; [split; reflexivity|].
  vm_compute. split.
  { constructor; try reflexivity.
    - intros a [<-|[]]. split; reflexivity.
    - repeat split. }
  repeat split; reflexivity.
Qed.

(* the hypotheses of Chain_fft_equals_dft are satisfiable as well: a 2 x 3 integer field, unit pixel scales and focal
   length, wavelength 5 (so that _fft_shape gives the 5 x 5 grid), shape (2, 2), no scratch buffer; both propagators
   run and every sample is the sum of the field (kernel 1) *)
Example Chain_fft_nonvacuous :
  let wF : Fft.wavefront ZS :=
    Fft.mkWf [mkField (D2 (mkArr (S := ZS) 2 3 (fun i j => (i + 2 * j + 1 : ZS)))) 0 0 []] (2, 3) (Q2Qc 5) (1%Qc, 1%Qc) 1%Qc PPupil in
  (forall k : Z, @ke ZS (zq k) = k1) /\
  fft_grid (1%Qc, 1%Qc) (1%Qc, 1%Qc) 1%Qc (Fft.wlam wF) 1 = (5, 5) /\
  Fft.has_tilt wF = false /\ Fft.wpt wF <> PNone /\
  (forall f r c, In f (Fft.wdata wF) ->
     inr (fst (Fft.wshape wF)) (r + fst (Fft.wshape wF) / 2) && inr (snd (Fft.wshape wF)) (c + snd (Fft.wshape wF) / 2) = false ->
     embed f r c = k0) /\
  match propagate_fft (S := ZS) (fun _ => 1) wF (1%Qc, 1%Qc) (Some (2, 2)) 1 None,
        propagate_dft (S := ZS) (fun _ => 1) (@no_shift ZS)
          (mkWf (prop_wavelength 5 5 (1%Qc, 1%Qc) (1%Qc, 1%Qc) 1%Qc 1) (Some (1%Qc, 1%Qc)) (Some 1%Qc) (2, 3) PtPupil (Fft.wdata wF))
          1%Qc 1%Qc (Some (2, 2)) None 1 None with
  | Ok (outF, _), Ok outD =>
      match Fft.wfield outF, wfield outD with
      | Ok oF, Ok oD => get oF 1 1 = 21 /\ get oD 1 1 = 21 /\ get oF 0 1 = get oD 0 1
      | _, _ => False end
  | _, _ => False end.
Proof.
  cbv zeta. split; [reflexivity|]. split; [vm_compute; reflexivity|]. split; [reflexivity|]. split; [discriminate|]. split.
  { intros f r c [<-|[]] H. cbn [Fft.wshape fst snd] in H. rewrite embed_D2. unfold embedA. cbn [nr nc get].
    change (2 / 2) with 1 in *. change (3 / 2) with 1 in *.
    replace (r - 0 + 1) with (r + 1) by ring. replace (c - 0 + 1) with (c + 1) by ring. rewrite H. reflexivity. }
  vm_compute. repeat split; reflexivity.
Qed.

(* the polychromatic loop on the same pupil: two wavelengths (1 with weight 2, 2 with weight 3): with kernel 1 both
   monochromatic fields are 53 inside the window, the image is 2 * 53^2 + 3 * 53^2 there and 0 outside *)
Example Chain_broadband_nonvacuous :
  match exPupil with
  | Ok P =>
      match fold_left (fun acc lw => rbind acc (fun o' =>
                 rbind (chain_propagate (S := ZS) (fun _ => 1) [P] (pwf_init (S := ZS) (fst lw) PixNone None [])
                                        (Q2Qc (1 # 4)) (Q2Qc (1 # 4)) (Some (2, 3)) (Some (1, 2)) 2) (fun v =>
                 accumulate (wdata v) o' (snd lw))))
              [(1%Qc, 2); (Q2Qc 2, 3)] (Ok (azeros (S := ZS) 4 6)) with
      | Ok o => get o 2 3 = 5 * (53 * 53) /\ get o 1 1 = 5 * (53 * 53) /\ get o 0 0 = 0
      | Err _ => False end
  | Err _ => False end.
Proof. vm_compute. repeat split; reflexivity. Qed.

(* per-segment tilts on a 3 x 4 pupil over Z split into the left and the right two columns; the left segment carries
   Tilt(x = 1/32, y = 0): shift z a os/du = 4 * (1/32) * 2 / (1/4) = 1 output row, the right one no tilt.  The
   hypotheses of Chain_segmented_tilt hold; with kernel 1 the left segment contributes 18 = sum of its amplitudes inside
   its window moved down by one row, the right one 42 inside the centred window *)
Definition exSegL : arr ZS := @mkArr ZS 3 4 (fun i j => if j <? 2 then 1 else 0).
Definition exSegR : arr ZS := @mkArr ZS 3 4 (fun i j => if j <? 2 then 0 else 1).
Definition exSegPupil : result (plane ZS) :=
  plane_init (S := ZS) exNz (AmpA exAmp) (OpdS 0%Qc) (M3 3 4 [exSegL; exSegR]) (Pix1 (Q2Qc (1 # 2))) (Some (FVal (Q2Qc 4)))
             [TiltAng 0%Qc (Q2Qc (1 # 32)); TiltAng 0%Qc 0%Qc].
Example Chain_segmented_tilt_nonvacuous :
  disjoint_masks [binarise exNz exSegL; binarise exNz exSegR] /\
  match exSegPupil with
  | Ok P =>
      plane_ok P 3 4 /\ pl_mask P = PM3 3 4 [binarise exNz exSegL; binarise exNz exSegR] /\
      pl_tilt P = map (fun ab => TiltAng (snd ab) (fst ab)) [(Q2Qc (1 # 32), 0%Qc); (0%Qc, 0%Qc)] /\
      match chain_propagate_tilted (S := ZS) (fun _ => 1) [P] (pwf_init (S := ZS) 1%Qc PixNone None [])
                                   (Q2Qc (1 # 4)) (Q2Qc (1 # 4)) (Some (2, 3)) (Some (1, 2)) 2 with
      | Ok v => match wfield v with
                | Ok o => get o 1 2 = 42 /\ get o 2 2 = 18 + 42 /\ get o 3 2 = 18 /\ get o 0 2 = 0
                | Err _ => False end
      | Err _ => False end
  | Err _ => False end.
Proof.
  split.
  { constructor; [|constructor; [constructor|constructor]]. constructor; [|constructor].
    intros i j. unfold mask_at, binarise, exSegL, exSegR, exNz. cbn [pnr pnc pget get nr nc].
    destruct (inr 3 i); [|reflexivity]. destruct (inr 4 j); [|reflexivity]. cbn [andb]. destruct (j <? 2); reflexivity. }
  vm_compute. split.
  { constructor; try reflexivity.
    - intros a [<-|[<-|[]]]; split; reflexivity.
    - repeat split. }
  repeat split; reflexivity.
Qed.
