(* C09 (translation layer, WP-T2) - the integer shape checks of propagate_fft are what the source says NOW.
   [src_<f>] (Gen/FftSrc.v) is regenerated from the text of lentil/propagate.py by harness/gen_src.py on every
   check, with the grid fft_shape = N (the float part, _fft_shape) and has_tilt as arguments; the theorems hold for
   ALL integers.  The model side is spelled out with Model/Fft.v's [out_shape]; the scratch test is the one of
   [fft_field].  Only statements: every proof is [exact]. *)
From LV Require Import Model.Fft Gen.FftSrc Proofs.FftSrcP.

Theorem C09_src_fft_out_shape_is_model : forall (shape : Z * Z) (os : Z) (tilt : bool) (N : Z * Z),
  src_fft_out_shape shape os tilt N =
  if tilt then Err NotImplementedErr else
  match out_shape (fst N) (snd N) (Some shape) os with Err e => Err e | Ok so => Ok (so, shape) end.
Proof. exact src_fft_out_shape_ok. Qed.
Print Assumptions C09_src_fft_out_shape_is_model.

Theorem C09_src_fft_out_shape_default_is_model : forall (os : Z) (tilt : bool) (N : Z * Z),
  src_fft_out_shape_default os tilt N =
  if tilt then Err NotImplementedErr else
  match out_shape (fst N) (snd N) None os with
  | Err e => Err e
  | Ok so => Ok (so, (fst N / os, snd N / os))
  end.
Proof. exact src_fft_out_shape_default_ok. Qed.
Print Assumptions C09_src_fft_out_shape_default_is_model.

Theorem C09_src_fft_out_shape_scratch_is_model : forall (shape : Z * Z) (os : Z) (scr : Z * Z) (tilt : bool) (N : Z * Z),
  src_fft_out_shape_scratch shape os scr tilt N =
  if tilt then Err NotImplementedErr else
  match out_shape (fst N) (snd N) (Some shape) os with
  | Err e => Err e
  | Ok so => if negb ((fst N <=? fst scr) && (snd N <=? snd scr)) then Err ValueError else Ok (so, shape)
  end.
Proof. exact src_fft_out_shape_scratch_ok. Qed.
Print Assumptions C09_src_fft_out_shape_scratch_is_model.

(* /repo 1b12b57: before the Field is stored the transformed grid is cropped, lentil.pad(field, shape_out): the shape
   handed to that call is the [out_shape] the model gives the Wavefront (times oversample: the stored Field and
   Wavefront.shape agree), and the whole grid when shape is None *)
Theorem C09_src_fft_crop_shape_is_model : forall (shape : Z * Z) (os : Z) (tilt : bool) (N : Z * Z),
  src_fft_crop_shape shape os tilt N =
  if tilt then Err NotImplementedErr else out_shape (fst N) (snd N) (Some shape) os.
Proof. exact src_fft_crop_shape_stmt. Qed.
Print Assumptions C09_src_fft_crop_shape_is_model.

Theorem C09_src_fft_crop_shape_default_is_model : forall (os : Z) (tilt : bool) (N : Z * Z),
  src_fft_crop_shape_default os tilt N = if tilt then Err NotImplementedErr else Ok N.
Proof. exact src_fft_crop_shape_default_stmt. Qed.
Print Assumptions C09_src_fft_crop_shape_default_is_model.

Theorem C09_src_fft_crop_shape_scratch_is_model : forall (shape : Z * Z) (os : Z) (scr : Z * Z) (tilt : bool) (N : Z * Z),
  src_fft_crop_shape_scratch shape os scr tilt N =
  if tilt then Err NotImplementedErr else
  match out_shape (fst N) (snd N) (Some shape) os with
  | Err e => Err e
  | Ok so => if negb ((fst N <=? fst scr) && (snd N <=? snd scr)) then Err ValueError else Ok so
  end.
Proof. exact src_fft_crop_shape_scratch_stmt. Qed.
Print Assumptions C09_src_fft_crop_shape_scratch_is_model.
