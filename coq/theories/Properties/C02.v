(* C02 - Far-field propagation puts the Fraunhofer field on the right output samples.
   [S] ranges over every commutative ring with an additive kernel e = [ke] (over the complex numbers
   e t = exp(-2 pi i t)); [sq] is the square root used by the unitary factor; wavelengths, focal
   lengths, pixel scales over all rationals; shapes, offsets, oversampling over all integers in the
   stated ranges; masks over all boolean arrays.  [shift_of] is Field.shift (the tilt shift of a
   field, property C04): a wavefront "without tilt" is one whose fields it maps to (0, 0). *)
From LV Require Import Model.Propagate Proofs.FieldP Proofs.PropagateP Proofs.PropagateOutcomeP Proofs.PropagateInsertP Lib.Instances.
From Coq Require Import Permutation.

(* Every sample (i, j) of Wavefront.field of the propagated wavefront, at plane coordinate
   (u, v) = (i - floor(S_r os / 2), j - floor(S_c os / 2)), is
     sqrt|alpha_r alpha_c| * sum over the fields of their Fraunhofer sums at (u, v)
   (input coordinates x - floor(m/2) + offset: the optical axis is sample floor(n/2) of both
   planes; alpha = dx du / (wavelength z oversample) per axis) when (i, j) lies in the bounding box [b]
   of the requested samples (whole array, or util.boundary of the mask) and (u, v) in the centred
   prop_shape*oversample box -- and exactly zero otherwise.  The call succeeds. *)
Theorem C02_propagate_dft_samples :
  forall (S : Scalar), is_ring S -> kernel_laws S -> forall (sq : Qc -> S)
    (shift_of : field S -> Qc * Qc) (w : wavefront S) (dur duc : Qc) (shape pshape : option (Z * Z)) (os : Z)
    (mask : option bmask) (dxr dxc : Qc) (Sr Sc Pr Pc : Z) (b : extent),
  wptype w <> PtNone -> wps w = Some (dxr, dxc) ->
  (forall f, In f (wdata w) -> shift_of f = (0%Qc, 0%Qc) /\ exists a, fd f = D2 a) ->
  match shape with None => wshape w | Some s => s end = (Sr, Sc) ->
  match pshape with None => (Sr, Sc) | Some p => p end = (Pr, Pc) ->
  0 < Sr -> 0 < Sc -> 0 < Pr -> 0 < Pc -> 1 <= os ->
  (forall m, mask = Some m -> mnr m = Sr * os /\ mnc m = Sc * os) ->
  mask_bbox mask (Sr * os) (Sc * os) = Ok b ->
  let ar := ((dxr * dur) / (wwl w * match wfocal w with Some z => z | None => 0 end * zq os))%Qc in
  let ac := ((dxc * duc) / (wwl w * match wfocal w with Some z => z | None => 0 end * zq os))%Qc in
  exists w' o, propagate_dft sq shift_of w dur duc shape pshape os mask = Ok w' /\
    wshape w' = (Sr * os, Sc * os) /\
    render (wdata w') (Sr * os) (Sc * os) = Ok o /\ nr o = Sr * os /\ nc o = Sc * os /\
    (forall i j, 0 <= i < Sr * os -> 0 <= j < Sc * os ->
      let u := i - (Sr * os) / 2 in let v := j - (Sc * os) / 2 in
      get o i j =
        if inE b i j && inE (array_extent (Pr * os) (Pc * os) 0 0) u v
        then (fold_right (fun f acc =>
                (match fd f with
                 | D2 a => sumZ (nr a) (fun x => sumZ (nc a) (fun y =>
                     (get a x y * ke (ar * zq (x - nr a / 2 + offr f) * zq u + ac * zq (y - nc a / 2 + offc f) * zq v)%Qc)%K))
                 | D0 _ => k0
                 end + acc)%K) k0 (wdata w)
              * sq (qabs (ar * ac)%Qc))%K
        else k0).
Proof. exact propagate_dft_samples_explicit. Qed.
Print Assumptions C02_propagate_dft_samples.

(* shape, prop_shape and the mask only choose which samples are evaluated: two calls that differ in
   nothing else agree on every sample (same plane coordinate) both of them evaluate *)
Theorem C02_window_only_selects :
  forall (S : Scalar), is_ring S -> kernel_laws S -> forall (sq : Qc -> S)
    (shift_of : field S -> Qc * Qc) (w : wavefront S) (dur duc : Qc) (os : Z) (dxr dxc : Qc)
    shape1 pshape1 mask1 Sr1 Sc1 Pr1 Pc1 b1 w1 o1 shape2 pshape2 mask2 Sr2 Sc2 Pr2 Pc2 b2 w2 o2,
  wps w = Some (dxr, dxc) ->
  (forall f, In f (wdata w) -> shift_of f = (0%Qc, 0%Qc) /\ exists a, fd f = D2 a) -> 1 <= os ->
  match shape1 with None => wshape w | Some s => s end = (Sr1, Sc1) ->
  match pshape1 with None => (Sr1, Sc1) | Some p => p end = (Pr1, Pc1) ->
  0 < Sr1 -> 0 < Sc1 -> 0 < Pr1 -> 0 < Pc1 ->
  (forall m, mask1 = Some m -> mnr m = Sr1 * os /\ mnc m = Sc1 * os) ->
  mask_bbox mask1 (Sr1 * os) (Sc1 * os) = Ok b1 ->
  match shape2 with None => wshape w | Some s => s end = (Sr2, Sc2) ->
  match pshape2 with None => (Sr2, Sc2) | Some p => p end = (Pr2, Pc2) ->
  0 < Sr2 -> 0 < Sc2 -> 0 < Pr2 -> 0 < Pc2 ->
  (forall m, mask2 = Some m -> mnr m = Sr2 * os /\ mnc m = Sc2 * os) ->
  mask_bbox mask2 (Sr2 * os) (Sc2 * os) = Ok b2 ->
  propagate_dft sq shift_of w dur duc shape1 pshape1 os mask1 = Ok w1 -> wfield w1 = Ok o1 ->
  propagate_dft sq shift_of w dur duc shape2 pshape2 os mask2 = Ok w2 -> wfield w2 = Ok o2 ->
  forall i1 j1 i2 j2, 0 <= i1 < Sr1 * os -> 0 <= j1 < Sc1 * os -> 0 <= i2 < Sr2 * os -> 0 <= j2 < Sc2 * os ->
    i1 - (Sr1 * os) / 2 = i2 - (Sr2 * os) / 2 -> j1 - (Sc1 * os) / 2 = j2 - (Sc2 * os) / 2 ->
    inE b1 i1 j1 && inE (array_extent (Pr1 * os) (Pc1 * os) 0 0) (i1 - (Sr1 * os) / 2) (j1 - (Sc1 * os) / 2) = true ->
    inE b2 i2 j2 && inE (array_extent (Pr2 * os) (Pc2 * os) 0 0) (i2 - (Sr2 * os) / 2) (j2 - (Sc2 * os) / 2) = true ->
    get o1 i1 j1 = get o2 i2 j2.
Proof. exact window_only_selects. Qed.
Print Assumptions C02_window_only_selects.

(* the mask's window is its bounding box: it contains every sample with mask > 0 and each side
   touches one; an all-zero mask is refused *)
Theorem C02_mask_window_is_bounding_box :
  forall m rmin rmax cmin cmax, mask_boundary m = Ok (rmin, rmax, cmin, cmax) ->
  0 <= rmin /\ rmin <= rmax /\ rmax < mnr m /\ 0 <= cmin /\ cmin <= cmax /\ cmax < mnc m /\
  (forall i j, 0 <= i < mnr m -> 0 <= j < mnc m -> mget m i j = true -> rmin <= i <= rmax /\ cmin <= j <= cmax) /\
  (exists j, 0 <= j < mnc m /\ mget m rmin j = true) /\ (exists j, 0 <= j < mnc m /\ mget m rmax j = true) /\
  (exists i, 0 <= i < mnr m /\ mget m i cmin = true) /\ (exists i, 0 <= i < mnr m /\ mget m i cmax = true).
Proof. exact mask_boundary_spec. Qed.
Print Assumptions C02_mask_window_is_bounding_box.

(* the result carries the input wavelength and focal length, an output sampling of du/oversample,
   the other plane type and the shape shape*oversample; a wavefront of type none is refused *)
Theorem C02_propagate_metadata :
  forall (S : Scalar) (sq : Qc -> S) (shift_of : field S -> Qc * Qc) (w w' : wavefront S) dur duc shape pshape os mask,
  propagate_dft sq shift_of w dur duc shape pshape os mask = Ok w' ->
  wwl w' = wwl w /\
  (forall z, wfocal w = Some z -> z <> 0%Qc -> wfocal w' = Some z) /\
  wps w' = Some ((dur / zq os)%Qc, (duc / zq os)%Qc) /\
  ((wptype w = PtPupil /\ wptype w' = PtImage) \/ (wptype w = PtImage /\ wptype w' = PtPupil)) /\
  wshape w' = (let '(Sr, Sc) := match shape with None => wshape w | Some s => s end in (Sr * os, Sc * os)).
Proof.
  intros S sq shift_of w w' dur duc shape pshape os mask H.
  destruct (propagate_metadata S sq shift_of w w' dur duc shape pshape os mask H) as (A & _ & C & D & E).
  repeat split; try assumption. intros z Hz Hne.
  exact (propagate_focal_copied S sq shift_of w w' dur duc shape pshape os mask z H Hz Hne).
Qed.
Print Assumptions C02_propagate_metadata.

Theorem C02_none_type_refused :
  forall (S : Scalar) (sq : Qc -> S) (shift_of : field S -> Qc * Qc) (w : wavefront S) dur duc shape pshape os mask,
  wptype w = PtNone -> propagate_dft sq shift_of w dur duc shape pshape os mask = Err TypeError.
Proof. exact propagate_none_refused. Qed.
Print Assumptions C02_none_type_refused.

(* the sum over the fields in C02_propagate_dft_samples is the Fraunhofer sum of the input-plane
   field sum_f embed f (the plane the fields tile, zero elsewhere) with the optical axis at plane
   coordinate (0, 0), i.e. at index floor(n/2) of an n-sample plane; [B] is any half-width that
   contains all fields *)
Theorem C02_fields_sum_is_input_plane_transform :
  forall (S : Scalar), is_ring S -> forall (fs : list (field S)) (B : Z) (ar ac U V : Qc),
  (forall f, In f fs -> (exists d, fd f = D2 d /\ 0 < nr d /\ 0 < nc d) /\
                        (let '(rmin, rmax, cmin, cmax) := fextent f in - B <= rmin /\ rmax <= B /\ - B <= cmin /\ cmax <= B)) ->
  fold_right (fun f acc =>
     (match fd f with
      | D2 a => sumZ (nr a) (fun x => sumZ (nc a) (fun y =>
          (get a x y * ke (ar * zq (x - nr a / 2 + offr f) * U + ac * zq (y - nc a / 2 + offc f) * V)%Qc)%K))
      | D0 _ => k0
      end + acc)%K) k0 fs
  = sumZ (2 * B + 1) (fun x => sumZ (2 * B + 1) (fun y =>
      (embed_sum fs (x - B)%Z (y - B)%Z * ke (ar * zq (x - B) * U + ac * zq (y - B) * V)%Qc)%K)).
Proof. exact (fun S R => fields_sum_is_plane_transform_explicit S R (fun _ => k0)). Qed.
Print Assumptions C02_fields_sum_is_input_plane_transform.

(* Wavefront.intensity of the result is the squared modulus of Wavefront.field at every sample
   (the output fields are merged coherently where they overlap), for any per-field shifts;
   [maxsize] = sys.maxsize bounds the output size as in lentil.field.boundary *)
Theorem C02_intensity_is_squared_modulus_of_field :
  forall (S : Scalar), is_ring S -> kernel_laws S -> forall (sq : Qc -> S)
    (shift_of : field S -> Qc * Qc) (w : wavefront S) (dur duc : Qc) (shape pshape : option (Z * Z)) (os : Z)
    (mask : option bmask) (dxr dxc : Qc) (Sr Sc Pr Pc : Z) (b : extent),
  wptype w <> PtNone -> wps w = Some (dxr, dxc) ->
  (forall f, In f (wdata w) -> exists a, fd f = D2 a) ->
  match shape with None => wshape w | Some s => s end = (Sr, Sc) ->
  match pshape with None => (Sr, Sc) | Some p => p end = (Pr, Pc) ->
  0 < Sr -> 0 < Sc -> 0 < Pr -> 0 < Pc -> 1 <= os -> Sr * os < maxsize -> Sc * os < maxsize ->
  (forall m, mask = Some m -> mnr m = Sr * os /\ mnc m = Sc * os) ->
  mask_bbox mask (Sr * os) (Sc * os) = Ok b ->
  exists w' o oi, propagate_dft sq shift_of w dur duc shape pshape os mask = Ok w' /\
    wfield w' = Ok o /\ wintensity w' = Ok oi /\ nr oi = Sr * os /\ nc oi = Sc * os /\
    (forall i j, 0 <= i < Sr * os -> 0 <= j < Sc * os -> get oi i j = (get o i j * kconj (get o i j))%K).
Proof. exact propagate_dft_intensity. Qed.
Print Assumptions C02_intensity_is_squared_modulus_of_field.

(* the general form used by C04: whatever shift Field.shift assigns to a field, its chip is the
   prop_shape*oversample box centred at fix(shift), and its samples are its Fraunhofer sum at the
   sample's coordinate minus the (whole) shift *)
Theorem C02_samples_with_field_shifts :
  forall (S : Scalar), is_ring S -> kernel_laws S -> forall (sq : Qc -> S)
    (shift_of : field S -> Qc * Qc) (w : wavefront S) (dur duc : Qc) (shape pshape : option (Z * Z)) (os : Z)
    (mask : option bmask) (dxr dxc : Qc) (Sr Sc Pr Pc : Z) (b : extent),
  wptype w <> PtNone -> wps w = Some (dxr, dxc) ->
  (forall f, In f (wdata w) -> exists a, fd f = D2 a) ->
  match shape with None => wshape w | Some s => s end = (Sr, Sc) ->
  match pshape with None => (Sr, Sc) | Some p => p end = (Pr, Pc) ->
  0 < Sr -> 0 < Sc -> 0 < Pr -> 0 < Pc -> 1 <= os ->
  (forall m, mask = Some m -> mnr m = Sr * os /\ mnc m = Sc * os) ->
  mask_bbox mask (Sr * os) (Sc * os) = Ok b ->
  let ar := dft_alpha1 dxr dur (wwl w) (wfocal w) os in
  let ac := dft_alpha1 dxc duc (wwl w) (wfocal w) os in
  exists w' o, propagate_dft sq shift_of w dur duc shape pshape os mask = Ok w' /\
    wshape w' = (Sr * os, Sc * os) /\
    wfield w' = Ok o /\ nr o = Sr * os /\ nc o = Sc * os /\
    (forall i j, 0 <= i < Sr * os -> 0 <= j < Sc * os ->
      let u := i - (Sr * os) / 2 in let v := j - (Sc * os) / 2 in
      get o i j = fold_right (fun x acc => (x + acc)%K) k0 (map (fun f =>
        if inE b i j && inE (array_extent (Pr * os) (Pc * os) (qfix (fst (shift_of f))) (qfix (snd (shift_of f)))) u v
        then match fd f with
             | D2 a => (fourier_sum a ar ac (offr f) (offc f) (zq u - fst (shift_of f))%Qc (zq v - snd (shift_of f))%Qc
                        * sq (qabs (ar * ac)%Qc))%K
             | D0 _ => k0
             end
        else k0) (wdata w))).
Proof. exact propagate_dft_chips. Qed.
Print Assumptions C02_samples_with_field_shifts.

(* non-vacuity: a two-field wavefront on the integers (kernel = 1), shape (2,3), prop_shape (1,2),
   oversample 2, a two-pixel mask: the hypotheses of C02_propagate_dft_samples hold, the window is
   rows 1..2 x columns 2..4 of the 4 x 6 output, a sample inside carries the sum of all input
   samples (16) and a sample outside is 0 *)
Example C02_nonvacuous :
  let w := mkWf (S := ZS) (Q2Qc (1 # 2)) (Some (Q2Qc (1 # 2), Q2Qc (1 # 4))) (Some (Q2Qc 4)) (3, 4) PtPupil
             [mkField (S := ZS) (D2 (mkArr (S := ZS) 2 2 (fun i j => 1 + i + 2 * j))) 1 (-1) [];
              mkField (S := ZS) (D2 (mkArr (S := ZS) 1 3 (fun _ j => j + 1))) 0 1 []] in
  let mask := Some (mkMask 4 6 (fun i j => (i =? 1) && (j =? 4) || (i =? 2) && (j =? 2))) in
  wptype w <> PtNone /\ wps w = Some (Q2Qc (1 # 2), Q2Qc (1 # 4)) /\
  (forall f, In f (wdata w) -> no_shift f = (0%Qc, 0%Qc) /\ exists a, fd f = D2 a) /\
  (forall m, mask = Some m -> mnr m = 2 * 2 /\ mnc m = 3 * 2) /\
  mask_bbox mask (2 * 2) (3 * 2) = Ok (1, 2, 2, 4) /\
  exists w' o, propagate_dft (S := ZS) (fun _ => 1) no_shift w (Q2Qc (1 # 4)) (Q2Qc (1 # 8)) (Some (2, 3)) (Some (1, 2)) 2 mask = Ok w'
    /\ wfield w' = Ok o /\ get o 1 2 = 16 /\ get o 2 4 = 16 /\ get o 0 0 = 0 /\ get o 1 1 = 0 /\ get o 3 3 = 0.
Proof.
  cbv zeta. split; [discriminate|]. split; [reflexivity|]. split.
  { intros f [<-|[<-|[]]]; (split; [reflexivity|eexists; reflexivity]). }
  split. { intros m H. injection H as <-. split; reflexivity. }
  split; [reflexivity|].
  eexists. eexists. split; [vm_compute; reflexivity|]. split; [vm_compute; reflexivity|].
  repeat split; vm_compute; reflexivity.
Qed.

(* ------------------------------------------------------------------------------------------------
   Refusals (deepen).  The complete decision of the outcome of propagate_dft, for every wavefront
   (fields with 0-d or 2-d data, pixelscale set or not), any per-field shifts and any mask:
   - a wavefront of type none is refused first (TypeError);
   - then a mask whose shape differs from shape*oversample in BOTH dimensions (ValueError; a mask wrong in
     one dimension only is accepted by the code), then a mask without a sample > 0 (IndexError);
   - then, field by field in order, only for fields whose chip (prop_shape*oversample box centred at
     fix(shift)) meets the window: a wavefront without pixelscale (TypeError), then 0-d data (ValueError);
   - in every other case the call succeeds; in particular fields that miss the window are skipped
     silently, whatever they hold.  Nothing else is ever raised. *)
Theorem C02_outcome_decided :
  forall (S : Scalar) (sq : Qc -> S) (shift_of : field S -> Qc * Qc) (w : wavefront S) (dur duc : Qc)
         (shape pshape : option (Z * Z)) (os : Z) (mask : option bmask) (Sr Sc Pr Pc : Z),
  match shape with None => wshape w | Some s => s end = (Sr, Sc) ->
  match pshape with None => (Sr, Sc) | Some p => p end = (Pr, Pc) ->
  0 < Sr -> 0 < Sc -> 0 < Pr -> 0 < Pc -> 1 <= os ->
  match propagate_dft sq shift_of w dur duc shape pshape os mask with
  | Ok w' =>
      wptype w <> PtNone /\
      exists oe, out_extent (Sr * os) (Sc * os) mask = Ok oe /\
        (forall m, mask = Some m -> (mnr m = Sr * os \/ mnc m = Sc * os) /\
                                    exists i j, 0 <= i < mnr m /\ 0 <= j < mnc m /\ mget m i j = true) /\
        (forall f, In f (wdata w) ->
           intersect oe (array_extent (Pr * os) (Pc * os) (qfix (fst (shift_of f))) (qfix (snd (shift_of f)))) = true ->
           wps w <> None /\ exists a, fd f = D2 a)
  | Err e =>
      (wptype w = PtNone /\ e = TypeError) \/
      (wptype w <> PtNone /\ exists m, mask = Some m /\
         ((mnr m <> Sr * os /\ mnc m <> Sc * os /\ e = ValueError) \/
          ((mnr m = Sr * os \/ mnc m = Sc * os) /\ e = IndexError /\
           forall i j, 0 <= i < mnr m -> 0 <= j < mnc m -> mget m i j = false))) \/
      (wptype w <> PtNone /\ exists oe, out_extent (Sr * os) (Sc * os) mask = Ok oe /\
         exists f, In f (wdata w) /\
           intersect oe (array_extent (Pr * os) (Pc * os) (qfix (fst (shift_of f))) (qfix (snd (shift_of f)))) = true /\
           ((wps w = None /\ e = TypeError) \/ (wps w <> None /\ e = ValueError /\ exists v, fd f = D0 v)))
  end.
Proof. exact propagate_dft_outcome. Qed.
Print Assumptions C02_outcome_decided.

(* non-vacuity: a wavefront WITHOUT pixelscale holding a 0-d field.  With a mask whose bounding box misses
   the centred 2x2 propagation window the call succeeds (no field evaluated); without the mask it is
   refused with TypeError; with a pixelscale, with ValueError; an all-zero mask gives IndexError and a
   5x5 mask for the 6x6 output ValueError - each before the fields are looked at *)
Example C02_outcome_nonvacuous :
  let f0 := mkField (S := ZS) (D0 (2 : ZS)) 0 0 [] in
  let w := mkWf (S := ZS) (Q2Qc (1 # 2)) None (Some (Q2Qc 1)) (1, 1) PtPupil [f0] in
  let wp := mkWf (S := ZS) (Q2Qc (1 # 2)) (Some (Q2Qc (1 # 2), Q2Qc (1 # 2))) (Some (Q2Qc 1)) (1, 1) PtPupil [f0] in
  let corner := Some (mkMask 6 6 (fun i j => (i =? 0) && (j =? 0))) in
  let run := fun w m => propagate_dft (S := ZS) (fun _ => 1) no_shift w (Q2Qc (1 # 4)) (Q2Qc (1 # 4)) (Some (6, 6)) (Some (2, 2)) 1 m in
  (exists w', run w corner = Ok w' /\ wdata w' = []) /\
  run w None = Err TypeError /\ run wp None = Err ValueError /\
  run wp (Some (mkMask 6 6 (fun _ _ => false))) = Err IndexError /\
  run wp (Some (mkMask 5 5 (fun _ _ => true))) = Err ValueError.
Proof. cbv zeta. split; [eexists; split; vm_compute; reflexivity|]. repeat split; vm_compute; reflexivity. Qed.

(* ------------------------------------------------------------------------------------------------
   Wavefront.insert (deepen).  For ANY collection of sized fields (any wavefront: pupil, image, segmented,
   overlapping fields) and any caller array [out] of any positive shape and any weight, insert returns
   out + weight * |field|^2, where field is the wavefront laid centre on centre over an array of out's shape
   (Wavefront.field for that shape); overlapping fields add coherently, nothing outside is touched, the
   shape of out is kept.  ([fextent] bounded by sys.maxsize as in lentil.field.boundary.) *)
Theorem C02_wavefront_insert_adds_weighted_intensity :
  forall (S : Scalar), is_ring S -> forall (fs : list (field S)) (out : arr S) (weight : S),
  0 < nr out -> 0 < nc out ->
  (forall f, In f fs -> (exists d, fd f = D2 d /\ 0 < nr d /\ 0 < nc d) /\
                        (let '(a1, a2, a3, a4) := fextent f in
                         - maxsize < a1 /\ a2 < maxsize /\ - maxsize < a3 /\ a4 < maxsize)) ->
  exists o r, render fs (nr out) (nc out) = Ok o /\
    accumulate fs out weight = Ok r /\ nr r = nr out /\ nc r = nc out /\
    (forall i j, 0 <= i < nr out -> 0 <= j < nc out ->
      get r i j = (get out i j + (get o i j * kconj (get o i j)) * weight)%K).
Proof. exact wavefront_insert_explicit. Qed.
Print Assumptions C02_wavefront_insert_adds_weighted_intensity.

(* ... and in particular for the wavefront propagate_dft returns (its fields are sized and bounded) *)
Theorem C02_insert_after_propagation :
  forall (S : Scalar), is_ring S -> kernel_laws S -> forall (sq : Qc -> S)
    (shift_of : field S -> Qc * Qc) (w : wavefront S) (dur duc : Qc) (shape pshape : option (Z * Z)) (os : Z)
    (mask : option bmask) (dxr dxc : Qc) (Sr Sc Pr Pc : Z) (b : extent) (out : arr S) (weight : S),
  wptype w <> PtNone -> wps w = Some (dxr, dxc) ->
  (forall f, In f (wdata w) -> exists a, fd f = D2 a) ->
  match shape with None => wshape w | Some s => s end = (Sr, Sc) ->
  match pshape with None => (Sr, Sc) | Some p => p end = (Pr, Pc) ->
  0 < Sr -> 0 < Sc -> 0 < Pr -> 0 < Pc -> 1 <= os -> Sr * os < maxsize -> Sc * os < maxsize ->
  (forall m, mask = Some m -> mnr m = Sr * os /\ mnc m = Sc * os) ->
  mask_bbox mask (Sr * os) (Sc * os) = Ok b ->
  0 < nr out -> 0 < nc out ->
  exists w' o r, propagate_dft sq shift_of w dur duc shape pshape os mask = Ok w' /\
    render (wdata w') (nr out) (nc out) = Ok o /\
    winsert w' out weight = Ok r /\ nr r = nr out /\ nc r = nc out /\
    (forall i j, 0 <= i < nr out -> 0 <= j < nc out ->
      get r i j = (get out i j + (get o i j * kconj (get o i j)) * weight)%K).
Proof. exact propagate_dft_insert. Qed.
Print Assumptions C02_insert_after_propagation.

(* non-vacuity: two overlapping fields inserted with weight 3 into a 3x5 array of sevens: where both fields
   lie the sum is squared (coherent), where only one lies its square, elsewhere out is unchanged *)
Example C02_insert_nonvacuous :
  let fs := [mkField (S := ZS) (D2 (mkArr (S := ZS) 1 2 (fun _ j => 1 + j))) 0 0 [];
             mkField (S := ZS) (D2 (mkArr (S := ZS) 1 1 (fun _ _ => 5))) 0 0 []] in
  let out := mkArr (S := ZS) 3 5 (fun _ _ => 7) in
  (forall f, In f fs -> (exists d, fd f = D2 d /\ 0 < nr d /\ 0 < nc d) /\
                        (let '(a1, a2, a3, a4) := fextent f in
                         - maxsize < a1 /\ a2 < maxsize /\ - maxsize < a3 /\ a4 < maxsize)) /\
  exists r, accumulate fs out 3 = Ok r /\ get r 1 1 = 7 + 1 * 3 /\ get r 1 2 = 7 + (2 + 5) * (2 + 5) * 3 /\
            get r 1 3 = 7 /\ get r 0 2 = 7.
Proof.
  cbv zeta. split.
  { intros f [<-|[<-|[]]]; (split; [eexists; split; [reflexivity|split; reflexivity]|vm_compute; repeat split; reflexivity]). }
  eexists. split; [vm_compute; reflexivity|]. repeat split; vm_compute; reflexivity.
Qed.

(* the focal length of the result: copied, except that 0 is replaced by infinity (None) by
   Wavefront.__init__ ("focal_length if focal_length else np.inf") *)
Theorem C02_focal_length_rule :
  forall (S : Scalar) (sq : Qc -> S) (shift_of : field S -> Qc * Qc) (w w' : wavefront S) dur duc shape pshape os mask,
  propagate_dft sq shift_of w dur duc shape pshape os mask = Ok w' ->
  wfocal w' = match wfocal w with Some z => if Qc_eq_bool z 0%Qc then None else Some z | None => None end.
Proof. exact propagate_focal_rule. Qed.
Print Assumptions C02_focal_length_rule.

(* the order in which a wavefront holds its fields (the order of the segments of a plane, of the loop in
   propagate_dft) is irrelevant: two wavefronts that differ only by a permutation of their fields propagate
   to the same Wavefront.field, sample by sample, for any per-field shifts, window and mask *)
Theorem C02_field_order_irrelevant :
  forall (S : Scalar), is_ring S -> kernel_laws S -> forall (sq : Qc -> S)
    (shift_of : field S -> Qc * Qc) (w1 w2 : wavefront S) (dur duc : Qc) (shape pshape : option (Z * Z)) (os : Z)
    (mask : option bmask) (dxr dxc : Qc) (Sr Sc Pr Pc : Z) (b : extent),
  Permutation (wdata w1) (wdata w2) ->
  wwl w1 = wwl w2 -> wfocal w1 = wfocal w2 -> wshape w1 = wshape w2 ->
  wptype w1 <> PtNone -> wptype w2 <> PtNone -> wps w1 = Some (dxr, dxc) -> wps w2 = Some (dxr, dxc) ->
  (forall f, In f (wdata w1) -> exists a, fd f = D2 a) ->
  match shape with None => wshape w1 | Some s => s end = (Sr, Sc) ->
  match pshape with None => (Sr, Sc) | Some p => p end = (Pr, Pc) ->
  0 < Sr -> 0 < Sc -> 0 < Pr -> 0 < Pc -> 1 <= os ->
  (forall m, mask = Some m -> mnr m = Sr * os /\ mnc m = Sc * os) ->
  mask_bbox mask (Sr * os) (Sc * os) = Ok b ->
  exists w1' w2' o1 o2,
    propagate_dft sq shift_of w1 dur duc shape pshape os mask = Ok w1' /\ wfield w1' = Ok o1 /\
    propagate_dft sq shift_of w2 dur duc shape pshape os mask = Ok w2' /\ wfield w2' = Ok o2 /\
    nr o1 = nr o2 /\ nc o1 = nc o2 /\
    (forall i j, 0 <= i < Sr * os -> 0 <= j < Sc * os -> get o1 i j = get o2 i j).
Proof. exact propagate_dft_field_order. Qed.
Print Assumptions C02_field_order_irrelevant.

(* non-vacuity: the two-field wavefront of C02_nonvacuous and the same with its fields exchanged *)
Example C02_field_order_nonvacuous :
  let f1 := mkField (S := ZS) (D2 (mkArr (S := ZS) 2 2 (fun i j => 1 + i + 2 * j))) 1 (-1) [] in
  let f2 := mkField (S := ZS) (D2 (mkArr (S := ZS) 1 3 (fun _ j => j + 1))) 0 1 [] in
  let mk := fun fs => mkWf (S := ZS) (Q2Qc (1 # 2)) (Some (Q2Qc (1 # 2), Q2Qc (1 # 4))) (Some (Q2Qc 4)) (3, 4) PtPupil fs in
  Permutation (wdata (mk [f1; f2])) (wdata (mk [f2; f1])) /\
  exists wa wb oa ob,
    propagate_dft (S := ZS) (fun _ => 1) no_shift (mk [f1; f2]) (Q2Qc (1 # 4)) (Q2Qc (1 # 8)) (Some (2, 3)) None 2 None = Ok wa /\
    propagate_dft (S := ZS) (fun _ => 1) no_shift (mk [f2; f1]) (Q2Qc (1 # 4)) (Q2Qc (1 # 8)) (Some (2, 3)) None 2 None = Ok wb /\
    wfield wa = Ok oa /\ wfield wb = Ok ob /\ get oa 1 2 = 16 /\ get ob 1 2 = 16 /\ length (wdata wa) = 2%nat.
Proof.
  cbv zeta. split; [apply perm_swap|].
  eexists. eexists. eexists. eexists. split; [vm_compute; reflexivity|]. split; [vm_compute; reflexivity|].
  split; [vm_compute; reflexivity|]. split; [vm_compute; reflexivity|].
  split; [vm_compute; reflexivity|]. split; [vm_compute; reflexivity|]. vm_compute. reflexivity.
Qed.

(* scale covariance (nothing in propagate_dft knows an absolute scale): multiply every sample of every field of
   the wavefront by a constant c - amplitudes of 1e-12 or 1e+6 alike - and every sample of Wavefront.field of
   the result is multiplied by c; window, success and metadata are unaffected.  [fscale c f] is the field f with
   data c * data (offset and tilt list kept); the shift of a field depends on its tilt list only *)
Theorem C02_scale_covariant :
  forall (S : Scalar), is_ring S -> kernel_laws S -> forall (sq : Qc -> S)
    (shift_of : field S -> Qc * Qc) (c : S) (w1 w2 : wavefront S) (dur duc : Qc) (shape pshape : option (Z * Z)) (os : Z)
    (mask : option bmask) (dxr dxc : Qc) (Sr Sc Pr Pc : Z) (b : extent),
  wdata w2 = map (fscale c) (wdata w1) ->
  (forall f, In f (wdata w1) -> shift_of (fscale c f) = shift_of f) ->
  wwl w1 = wwl w2 -> wfocal w1 = wfocal w2 -> wshape w1 = wshape w2 ->
  wptype w1 <> PtNone -> wptype w2 <> PtNone -> wps w1 = Some (dxr, dxc) -> wps w2 = Some (dxr, dxc) ->
  (forall f, In f (wdata w1) -> exists a, fd f = D2 a) ->
  match shape with None => wshape w1 | Some s => s end = (Sr, Sc) ->
  match pshape with None => (Sr, Sc) | Some p => p end = (Pr, Pc) ->
  0 < Sr -> 0 < Sc -> 0 < Pr -> 0 < Pc -> 1 <= os ->
  (forall m, mask = Some m -> mnr m = Sr * os /\ mnc m = Sc * os) ->
  mask_bbox mask (Sr * os) (Sc * os) = Ok b ->
  exists w1' w2' o1 o2,
    propagate_dft sq shift_of w1 dur duc shape pshape os mask = Ok w1' /\ wfield w1' = Ok o1 /\
    propagate_dft sq shift_of w2 dur duc shape pshape os mask = Ok w2' /\ wfield w2' = Ok o2 /\
    (forall i j, 0 <= i < Sr * os -> 0 <= j < Sc * os -> get o2 i j = (c * get o1 i j)%K).
Proof. exact propagate_dft_scale_covariant. Qed.
Print Assumptions C02_scale_covariant.

(* non-vacuity: the wavefront of C02_nonvacuous and the same with all data multiplied by -3 *)
Example C02_scale_nonvacuous :
  let f1 := mkField (S := ZS) (D2 (mkArr (S := ZS) 2 2 (fun i j => 1 + i + 2 * j))) 1 (-1) [] in
  let f2 := mkField (S := ZS) (D2 (mkArr (S := ZS) 1 3 (fun _ j => j + 1))) 0 1 [] in
  let mk := fun fs => mkWf (S := ZS) (Q2Qc (1 # 2)) (Some (Q2Qc (1 # 2), Q2Qc (1 # 4))) (Some (Q2Qc 4)) (3, 4) PtPupil fs in
  exists wa wb oa ob,
    propagate_dft (S := ZS) (fun _ => 1) no_shift (mk [f1; f2]) (Q2Qc (1 # 4)) (Q2Qc (1 # 8)) (Some (2, 3)) None 2 None = Ok wa /\
    propagate_dft (S := ZS) (fun _ => 1) no_shift (mk (map (fscale (S := ZS) (-3)) [f1; f2])) (Q2Qc (1 # 4)) (Q2Qc (1 # 8)) (Some (2, 3)) None 2 None = Ok wb /\
    wfield wa = Ok oa /\ wfield wb = Ok ob /\ get oa 1 2 = 16 /\ get ob 1 2 = -48.
Proof.
  cbv zeta. eexists. eexists. eexists. eexists. split; [vm_compute; reflexivity|]. split; [vm_compute; reflexivity|].
  split; [vm_compute; reflexivity|]. split; [vm_compute; reflexivity|]. split; vm_compute; reflexivity.
Qed.
