(* C15 (translation layer, WP-T3) - the padding sample counts of Spectrum.pad are what the source says NOW.
   [src_pad_linspace] (Gen/SpectrumSrc.v) is regenerated from the text of lentil/radiometry.py by harness/gen_src.py
   on every check, for an INTEGER wavelength grid: dwave = _sampling(self.wave, sampling) > 0 and minwave, maxwave =
   self.wave.min(), self.wave.max() are integer arguments, true divisions are exact rationals.  For ALL integers the
   (start, stop, num) handed to the two np.linspace calls are those of the model (Model/SpectrumEdit.v, [pad]:
   nleft = Qceiling ((w0 - e0) / dw) + 1, nright = Qceiling ((e1 - wl) / dw) + 1).
   Only statements: every proof is [exact]. *)
From LV Require Import Model.SpectrumEdit Gen.SpectrumSrc Proofs.SpectrumSrcP.
Open Scope Z_scope.

Theorem C15_src_pad_linspace_is_model : forall e0 e1 d w0 wl : Z, 0 < d ->
  src_pad_linspace (e0, e1) d w0 wl =
  ((e0, w0, Qceiling ((ofZ w0 - ofZ e0) / ofZ d)%Qc + 1), (wl, e1, Qceiling ((ofZ e1 - ofZ wl) / ofZ d)%Qc + 1)).
Proof. exact src_pad_linspace_ok. Qed.
Print Assumptions C15_src_pad_linspace_is_model.

Theorem C15_src_pad_linspace_edge_is_model : forall e0 e1 d w0 wl : Z, 0 < d ->
  src_pad_linspace_edge (e0, e1) d w0 wl =
  ((e0, w0, Qceiling ((ofZ w0 - ofZ e0) / ofZ d)%Qc + 1), (wl, e1, Qceiling ((ofZ e1 - ofZ wl) / ofZ d)%Qc + 1)).
Proof. exact src_pad_linspace_edge_ok. Qed.
Print Assumptions C15_src_pad_linspace_edge_is_model.
