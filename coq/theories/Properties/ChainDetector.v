(* WP-K - composition theorems for the detector chain (C16 o C20 o C19; counted and axiom-checked with C16):
       photons (nwave x R x C cube, oversampled) -> collect_charge(qe) -> [pixel MTF] -> rebin(oversample) -> adc
   obtained by composing the theorems of the property packages; no new model code.  Only statements; the proofs are
   in Proofs/ChainDetP.v.  Shapes range over all positive integers, the oversampling factor f over all positive
   integers that divide both image axes (lentil.rebin refuses anything else: C20_rebin_accepts_exactly_divisible_shapes),
   the number of wavelengths over all integers.  [Detector.cube]/[Detector.cget] are the (nwave, rows, cols) cubes of
   Model/Detector.v, [Geometry.mkCube] those of Model/Geometry.v (two records for the same numpy array). *)
From Coq Require Import Reals QArith Qreals Qcanon.
From Coquelicot Require Import Complex.
From LV Require Import Lib.Cis Model.Blur Proofs.BlurC.
From LV Require Import Model.Geometry.
From LV Require Import Model.Detector Proofs.DetectorP Proofs.ChainDetP Lib.Instances.
Local Open Scope Z_scope.

(* 1a. C16 o C20, every commutative ring: collect the charge of the oversampled photon cube with per-wavelength
   efficiency v, then bin f x f sub-pixels.  Both calls succeed; detector pixel (i, j) holds
   sum_k v_k * (photons of slice k inside its f x f block); the total charge is the efficiency-weighted total flux
   sum_k v_k * sum_{x,y} photons[k,x,y]; and binning the cube first (lentil.rebin on the cube) and collecting
   afterwards gives the same frame. *)
Theorem Chain_detector_flux :
  forall (S : Scalar), is_ring S -> forall (c : Detector.cube S) (v : vec S) (nw f : Z),
  cnk c = nw -> vn v = nw -> 0 < cnr c -> 0 < cnc c -> 0 < f -> cnr c mod f = 0 -> cnc c mod f = 0 ->
  exists a b cb ab,
    collect_charge (Img3 c) nw (QVec v) = Ok a /\ rebin2 a f = Ok b /\
    nr b = cnr c / f /\ nc b = cnc c / f /\
    (forall i j, get b i j
       = sumZ nw (fun k => (sumZ f (fun u => sumZ f (fun x => Detector.cget c k (i * f + u) (j * f + x))) * vget v k)%K)) /\
    asum b = sumZ nw (fun k => (vget v k * sumZ (cnr c) (fun i => sumZ (cnc c) (fun j => Detector.cget c k i j)))%K) /\
    rebin3 (Geometry.mkCube (cnk c) (cnr c) (cnc c) (Detector.cget c)) f = Ok cb /\
    collect_charge (Img3 (Detector.mkCube (cd cb) (cr cb) (cc cb) (Geometry.cget cb))) nw (QVec v) = Ok ab /\
    nr ab = nr b /\ nc ab = nc b /\ forall i j, get ab i j = get b i j.
Proof. exact collect_then_rebin. Qed.
Print Assumptions Chain_detector_flux.

Example Chain_detector_flux_nonvacuous :
  let c := @Detector.mkCube ZS 2 4 6 (fun k i j => 1 + k + 2 * i + j) in
  let v := @mkVec ZS 2 (fun k => 3 - k) in
  cnk c = 2 /\ vn v = 2 /\ cnr c mod 2 = 0 /\ cnc c mod 2 = 0 /\
  match collect_charge (Img3 c) 2 (QVec v) with
  | Ok a => match rebin2 a 2 with
            | Ok b => nr b = 2 /\ nc b = 3 /\ get b 1 2 = 3 * (9 + 10 + 11 + 12) + 2 * (10 + 11 + 12 + 13) /\ asum b = 3 * 156 + 2 * 180
            | Err _ => False end
  | Err _ => False end.
Proof. vm_compute. repeat split; reflexivity. Qed.

(* 1b. C16 o C20 o C16 on the rationals (every float is one): photons -> collect_charge -> rebin(f) -> adc.  All three
   calls succeed for every gain form that fits the binned frame; the digital number of EVERY detector pixel is
       max(0, floor(P_ij(min(e_ij, capacity))))   with  e_ij = sum_k v_k * (photons of slice k in the f x f block of (i, j)),
   P_ij the pixel's gain polynomial (highest power first, no constant term; a scalar gain g is P(e) = g e): the exact
   floor and clip of gain * electrons, never negative; the warning fires exactly when it is requested and some binned
   pixel exceeds the capacity; and the total charge that is digitised is the efficiency-weighted total flux. *)
Theorem Chain_detector_digitise :
  forall (c : Detector.cube QcS) (v : vec QcS) (nw f : Z) (g : gainrep) (sat : option Qc) (warn : bool),
  cnk c = nw -> vn v = nw -> 0 < cnr c -> 0 < cnc c -> 0 < f -> cnr c mod f = 0 -> cnc c mod f = 0 ->
  gain_fits g (cnr c / f) (cnc c / f) ->
  exists a b w dn,
    collect_charge (Img3 c) nw (QVec v) = Ok a /\ rebin2 a f = Ok b /\ adc b g sat warn = Ok (w, dn) /\
    nr dn = cnr c / f /\ nc dn = cnc c / f /\
    (forall i j, 0 <= i < cnr c / f -> 0 <= j < cnc c / f ->
       get dn i j = Z.max 0 (qfloor (polyval (gain_poly g i j ++ [Q2Qc 0])
                      (clip_spec sat (@sumZ QcS nw (fun k =>
                         (@sumZ QcS f (fun u => @sumZ QcS f (fun x => Detector.cget c k (i * f + u) (j * f + x)))
                          * vget v k)%Qc)))))
       /\ 0 <= get dn i j) /\
    (w = true <-> warn = true /\ exceeds sat b) /\
    @asum QcS b = @sumZ QcS nw (fun k =>
       (vget v k * @sumZ QcS (cnr c) (fun i => @sumZ QcS (cnc c) (fun j => Detector.cget c k i j)))%Qc).
Proof. exact detector_digitise. Qed.
Print Assumptions Chain_detector_digitise.

(* a 2-wavelength 2 x 4 cube, f = 2, efficiencies (1/2, 1/4), gain 3/2, capacity 10: block (0,0) collects
   (0+1+1+2)/2 + (1+2+2+3)/4 = 4 e-, DN = floor(6) = 6; block (0,1) collects (2+3+3+4)/2 + (3+4+4+5)/4 = 10 e-,
   DN = floor(15) = 15; with capacity 5 the second pixel clips to floor(7.5) = 7 and the warning fires *)
Example Chain_detector_digitise_nonvacuous :
  let c := @Detector.mkCube QcS 2 2 4 (fun k i j => Q2Qc (inject_Z (k + i + j))) in
  let v := @mkVec QcS 2 (fun k => if k =? 0 then Q2Qc (1 # 2) else Q2Qc (1 # 4)) in
  gain_fits (G0 (Q2Qc (3 # 2))) (cnr c / 2) (cnc c / 2) /\
  match collect_charge (Img3 c) 2 (QVec v) with
  | Ok a => match rebin2 a 2 with
            | Ok b => match adc b (G0 (Q2Qc (3 # 2))) (Some (Q2Qc 10)) true, adc b (G0 (Q2Qc (3 # 2))) (Some (Q2Qc 5)) true with
                      | Ok (w, dn), Ok (w', dn') => w = false /\ get dn 0 0 = 6 /\ get dn 0 1 = 15 /\
                                                    w' = true /\ get dn' 0 0 = 6 /\ get dn' 0 1 = 7
                      | _, _ => False end
            | Err _ => False end
  | Err _ => False end.
Proof. vm_compute. repeat split; reflexivity. Qed.

(* 1c. C16 o C19 o C20 over the complex numbers: lentil's pixelate(img, f) = rebin(pixel(img, f), f) on the collected
   charge ([pixel sinc Cabs a (zQ f)] = |ifft2(fft2 a * outer(sinc(fy f), sinc(fx f)))|, np.sinc any function with
   sinc 0 = 1).  PARTIAL with respect to "for every image": np.abs folds negative ringing, so C19 proves flux
   preservation of the pixel blur only where the circular convolution of the image with the pixel's point-spread
   function ifft2(K) is non-negative; under that hypothesis the pixelated frame is non-negative and its total is the
   efficiency-weighted total flux.  (Before the absolute value the total is preserved unconditionally:
   C19_total_before_abs.) *)
Theorem Chain_detector_pixelate_flux_partial :
  forall (sinc : Qc -> C) (c : Detector.cube CS) (v : vec CS) (nw f : Z),
  sinc 0%Qc = RtoC 1 ->
  cnk c = nw -> vn v = nw -> 0 < cnr c -> 0 < cnc c -> 0 < f -> cnr c mod f = 0 -> cnc c mod f = 0 ->
  exists a, collect_charge (Img3 c) nw (QVec v) = Ok a /\ nr a = cnr c /\ nc a = cnc c /\
    ((forall i j, 0 <= i < cnr c -> 0 <= j < cnc c ->
        (0 <= fst (get (cconv a (ifft2 (@pixel_mul CS sinc (zQ f) (cnr c) (cnc c)))) i j))%R /\
        snd (get (cconv a (ifft2 (@pixel_mul CS sinc (zQ f) (cnr c) (cnc c)))) i j) = 0%R) ->
     exists b, rebin2 (@pixel CS sinc Cabs a (zQ f)) f = Ok b /\ nr b = cnr c / f /\ nc b = cnc c / f /\
       (forall i j, (0 <= fst (get b i j))%R /\ snd (get b i j) = 0%R) /\
       asum b = @sumZ CS nw (fun k =>
          Cmult (vget v k) (@sumZ CS (cnr c) (fun i => @sumZ CS (cnc c) (fun j => Detector.cget c k i j))))).
Proof. exact detector_pixelate_flux. Qed.
Print Assumptions Chain_detector_pixelate_flux_partial.

(* the hypotheses are satisfiable by a non-trivial instance: the ideal point pixel (transfer function 1) on a
   2-wavelength 2 x 4 cube of non-negative photon counts with positive efficiencies *)
Example Chain_detector_pixelate_nonvacuous :
  let sinc : Qc -> C := fun _ => RtoC 1 in
  let c := @Detector.mkCube CS 2 2 4 (fun k i j => RtoC (IZR (k + i + j))) in
  let v := @mkVec CS 2 (fun k => RtoC (IZR (1 + k))) in
  sinc 0%Qc = RtoC 1 /\ cnk c = 2 /\ vn v = 2 /\ cnr c mod 2 = 0 /\ cnc c mod 2 = 0 /\
  forall a, collect_charge (Img3 c) 2 (QVec v) = Ok a ->
    forall i j, 0 <= i < cnr c -> 0 <= j < cnc c ->
      (0 <= fst (get (cconv a (ifft2 (@pixel_mul CS sinc (zQ 2) (cnr c) (cnc c)))) i j))%R /\
      snd (get (cconv a (ifft2 (@pixel_mul CS sinc (zQ 2) (cnr c) (cnc c)))) i j) = 0%R.
Proof.
  cbv zeta. repeat (split; [reflexivity|]). intros a Ha.
  destruct (collect_charge_spec CS (Img3 (@Detector.mkCube CS 2 2 4 (fun k i j => RtoC (IZR (k + i + j))))) 2
              (@mkVec CS 2 (fun k => RtoC (IZR (1 + k)))) eq_refl eq_refl) as (a' & Ea & Na & Ma & Ga).
  rewrite Ha in Ea. injection Ea as <-. cbn [as_cube cnr cnc Detector.cget vget] in *.
  intros i j Hi Hj. rewrite <- Na, <- Ma. apply ideal_pixel_nonneg; [|lia|lia].
  intros x y Hx Hy. rewrite Ga. apply Cnn_sumZ. intros k Hk. apply Cnn_mul; apply Cnn_IZR; lia.
Qed.
