(* C10 - calls are pure: no hidden mutation of inputs and no dependence on call history.
   Only statements; every proof is [exact] of a lemma of Proofs/PurityP.v.  The theorems quantify over
   every kernel record K (all numeric kernels, the tilt fit, the generator's transition), every state
   (heap, objects, registers, cache, generator) and every operation/history of Model/Purity.v.
   Scope: they are statements about the aliasing facts written into the model (alias / copy /
   in-place write per operation); those facts are what the history correspondence observes. *)
From LV Require Import Lib.Base Model.Purity Proofs.PurityP Proofs.PurityConfP Proofs.PurityDeepP.

(* (a) frame: a call assigns only into buffers that are fresh or documented as in-place for it;
   hence every buffer that existed before and is not documented in-place is byte-identical afterwards *)
Theorem C10_frame :
  forall (K : kernels) (s : state) (o : op),
  (forall i, In i (o_writes (snd (step K s o))) -> In i (documented s o) \/ (length (hp s) <= i)%nat) /\
  (forall i, (i < length (hp s))%nat -> ~ In i (documented s o) ->
             hget (hp (fst (step K s o))) i = hget (hp s) i).
Proof. exact frame. Qed.
Print Assumptions C10_frame.

(* a read-only (frozen) array is never changed by any call, documented or not *)
Theorem C10_frozen_arrays_never_change :
  forall (K : kernels) (s : state) (o : op) (i : aid) (c : cell),
  hget (hp s) i = Some c -> cfrozen c = true -> hget (hp (fst (step K s o))) i = Some c.
Proof. exact frame_frozen. Qed.
Print Assumptions C10_frozen_arrays_never_change.

(* planes, wavefronts and spectra: only the documented object of an in-place call (attribute assignment,
   fit_tilt(inplace=True), the spectrum editing methods) has its attributes rebound *)
Theorem C10_frame_objects :
  forall (K : kernels) (s : state) (o : op),
  incl (o_owrites (snd (step K s o))) (odocumented s o) /\
  (forall j, (j < length (ob s))%nat -> ~ In j (odocumented s o) ->
             nth_error (ob (fst (step K s o))) j = nth_error (ob s) j).
Proof. exact frame_objects. Qed.
Print Assumptions C10_frame_objects.

(* (b) cache invariant, by induction over call histories: in every reachable state each cache entry
   holds coords(key) in buffers no caller variable or object attribute refers to ... *)
Theorem C10_cache_invariant :
  forall (K : kernels) (s : state), reachable K s ->
  (forall i, In i (visible s) -> (i < length (hp s))%nat) /\
  (forall k a b c d, In (k, (a, b, c, d)) (cache s) ->
     let '(cR, cS, cU, cV) := coords k in
     (hget (hp s) a = Some (mkcell cR false) /\ ~ In a (visible s)) /\
     (hget (hp s) b = Some (mkcell cS false) /\ ~ In b (visible s)) /\
     (hget (hp s) c = Some (mkcell cU false) /\ ~ In c (visible s)) /\
     (hget (hp s) d = Some (mkcell cV false) /\ ~ In d (visible s))).
Proof. exact cache_invariant_explicit. Qed.
Print Assumptions C10_cache_invariant.

(* ... and no operation assigns into a cached array *)
Theorem C10_cache_never_written :
  forall (K : kernels) (s : state) (o : op) (k : key) (a b c d : aid),
  inv s -> In (k, (a, b, c, d)) (cache s) ->
  ~ In a (o_writes (snd (step K s o))) /\ ~ In b (o_writes (snd (step K s o))) /\
  ~ In c (o_writes (snd (step K s o))) /\ ~ In d (o_writes (snd (step K s o))).
Proof. exact cache_never_written_explicit. Qed.
Print Assumptions C10_cache_never_written.

(* therefore: in any history of calls started in any valid state, every successful dft2/idft2 call
   returns [dft_spec] of its argument's current contents, its shapes and its scalar parameters -
   whatever was called before (repeated shapes, interleaved calls, caller writes between calls) *)
Theorem C10_history_independent :
  forall (K : kernels) (ops : list op) (s : state), inv s -> Forall (dft_ok K) (trace K s ops).
Proof. exact history_independent. Qed.
Print Assumptions C10_history_independent.

(* ... which is the value the same call gives when made with an empty cache and an arbitrary generator state *)
Theorem C10_dft2_same_as_in_fresh_state :
  forall (K : kernels) (s : state) (f : nat) (k : key) (out : option nat) (inverse : bool) (params : list Z)
         (a : aid) (r : Z),
  inv s -> getarr s f = Some a ->
  o_status (snd (step K s (ODft2 f k out inverse params))) = 0 ->
  o_status (snd (step K (forget s r) (ODft2 f k out inverse params))) = 0 ->
  exists i j, o_res (snd (step K s (ODft2 f k out inverse params))) = VArr i /\
              o_res (snd (step K (forget s r) (ODft2 f k out inverse params))) = VArr j /\
              valof (fst (step K s (ODft2 f k out inverse params))) i =
              valof (fst (step K (forget s r) (ODft2 f k out inverse params))) j.
Proof. exact dft2_fresh. Qed.
Print Assumptions C10_dft2_same_as_in_fresh_state.

(* the other operation with a coordinate-cache phase, propagate_dft: in every valid state the contents of the
   propagated fields are [prop_vals]: a function of the current field contents, their accumulated tilt shifts
   and the shapes - the cache does not appear *)
Theorem C10_propagate_dft_is_a_function_of_its_arguments :
  forall (K : kernels) (s : state) (w : nat) (z : Z) (keys : list key) (jw : oid) (fs : list field),
  inv s -> getobj s w = Some (jw, Wave fs) ->
  result_values (fst (step K s (OPropDft w z keys))) (snd (step K s (OPropDft w z keys)))
  = Some (prop_vals K s z fs (map coords (firstn (length fs) keys))).
Proof. exact step_prop_values. Qed.
Print Assumptions C10_propagate_dft_is_a_function_of_its_arguments.

(* every operation without a coordinate-cache phase that takes no unseeded random draw runs identically
   (same heap, objects, registers, same outcome) whatever the cache and the generator hold *)
Theorem C10_unaffected_by_hidden_state :
  forall (K : kernels) (s : state) (o : op) (r : Z),
  uses_global_rng o = false -> uses_cache o = false ->
  hp (fst (step K (forget s r) o)) = hp (fst (step K s o)) /\
  ob (fst (step K (forget s r) o)) = ob (fst (step K s o)) /\
  env (fst (step K (forget s r) o)) = env (fst (step K s o)) /\
  snd (step K (forget s r) o) = snd (step K s o).
Proof. exact step_forget. Qed.
Print Assumptions C10_unaffected_by_hidden_state.

(* (d) every operation other than the unseeded draws (smear(angle=None), cosmic_rays) leaves the global
   generator where it was and does not read it: under any other generator state it does exactly the same *)
Theorem C10_seeded_ops_leave_global_rng :
  forall (K : kernels) (s : state) (o : op), uses_global_rng o = false ->
  rng (fst (step K s o)) = rng s /\
  forall r, step K (with_rng s r) o = (with_rng (fst (step K s o)) r, snd (step K s o)).
Proof. exact seeded_rng. Qed.
Print Assumptions C10_seeded_ops_leave_global_rng.

(* (c) confluence of plane histories.  Field.shift folds the tilt list by x -= z*t.x, y -= z*t.y: the list
   enters only through its sum (the counterpart of C04's statement, here for the model's Field.shift) ... *)
Theorem C10_tilt_enters_only_through_its_sum :
  forall (z : Z) (tl : list tilt), shift_of z tl = (- z * fst (tsum tl), - z * snd (tsum tl)).
Proof. exact shift_of_tsum. Qed.
Print Assumptions C10_tilt_enters_only_through_its_sum.

(* ... hence: take any two valid states (reached by whatever histories of constructions, attribute updates and
   tilt fits) holding planes with equal amplitude, OPD and mask contents and equal per-segment tilt sums, and
   wavefronts with equal field contents and accumulated shifts: multiplying and propagating gives the same fields *)
Theorem C10_plane_history_confluence :
  forall (K : kernels) (z : Z) (keys : list key) (s1 s2 : state) (p1 w1 p2 w2 : nat)
         (jp1 : oid) (a1 d1 m1 : aid) (tl1 : list tilt) (n1 : nat) (k1 : Z) (jw1 : oid) (fs1 : list field)
         (jp2 : oid) (a2 d2 m2 : aid) (tl2 : list tilt) (n2 : nat) (k2 : Z) (jw2 : oid) (fs2 : list field),
  inv s1 -> inv s2 ->
  getobj s1 p1 = Some (jp1, Plane a1 d1 m1 tl1 n1 k1) -> getobj s2 p2 = Some (jp2, Plane a2 d2 m2 tl2 n2 k2) ->
  getobj s1 w1 = Some (jw1, Wave fs1) -> getobj s2 w2 = Some (jw2, Wave fs2) ->
  (valof s1 a1, valof s1 d1, valof s1 m1, Nat.max n1 1,
   map (fun n => tsum (stride tl1 n (Nat.max n1 1))) (seq 0 (Nat.max n1 1)))
  = (valof s2 a2, valof s2 d2, valof s2 m2, Nat.max n2 1,
     map (fun n => tsum (stride tl2 n (Nat.max n2 1))) (seq 0 (Nat.max n2 1))) ->
  map (fun f => (valof s1 (f_data f), shift_of z (f_tilt f))) fs1
  = map (fun f => (valof s2 (f_data f), shift_of z (f_tilt f))) fs2 ->
  propagated K z keys s1 p1 w1 = propagated K z keys s2 p2 w2 /\ propagated K z keys s1 p1 w1 <> None.
Proof. exact plane_history_confluence_explicit. Qed.
Print Assumptions C10_plane_history_confluence.

(* every state reachable by a history of calls is valid in the sense used above *)
Theorem C10_reachable_states_are_valid :
  forall (K : kernels) (s : state), reachable K s -> inv s.
Proof. exact reachable_inv. Qed.
Print Assumptions C10_reachable_states_are_valid.

(* ---- refusal paths: which calls raise, and what a refused call leaves behind ---- *)
(* a call that raises (read-only destination, NotImplementedError, bad argument) changes no object, no existing buffer
   and not the generator, rebinds nothing and returns nothing (only the private coordinate cache may have been filled) *)
Theorem C10_refused_call_changes_nothing :
  forall (K : kernels) (s : state) (o : op),
  o_status (snd (step K s o)) <> 0 ->
  ob (fst (step K s o)) = ob s /\
  (forall i, (i < length (hp s))%nat -> hget (hp (fst (step K s o))) i = hget (hp s) i) /\
  rng (fst (step K s o)) = rng s /\
  env (fst (step K s o)) = env s ++ [VNone] /\
  o_res (snd (step K s o)) = VNone /\ o_owrites (snd (step K s o)) = [].
Proof. exact step_refused. Qed.
Print Assumptions C10_refused_call_changes_nothing.

(* the read-only ValueError is raised only by ONE attempted assignment, into a target that is documented as in-place
   for that call and is read-only: no call trips over a frozen array it has no business writing *)
Theorem C10_read_only_refusal_only_for_documented_target :
  forall (K : kernels) (s : state) (o : op),
  inv s -> o_status (snd (step K s o)) = 1 ->
  exists a, o_writes (snd (step K s o)) = [a] /\ In a (documented s o) /\ frozen_at s a = true.
Proof. exact step_readonly. Qed.
Print Assumptions C10_read_only_refusal_only_for_documented_target.

(* NotImplementedError: only propagate_fft, and only for a wavefront that carries fitted tilt *)
Theorem C10_not_implemented_only_for_fft_of_tilted_wavefront :
  forall (K : kernels) (s : state) (o : op),
  o_status (snd (step K s o)) = 4 ->
  exists w scr jw fs, o = OPropFft w scr /\ getobj s w = Some (jw, Wave fs) /\ has_tilt fs = true.
Proof. exact step_notimpl. Qed.
Print Assumptions C10_not_implemented_only_for_fft_of_tilted_wavefront.

(* ---- identity of results ---- *)
(* a plane / wavefront / spectrum result is a NEW object, except fit_tilt(inplace=True) and Image.fit_tilt, which are
   specified to return their argument *)
Theorem C10_result_object_is_new_unless_specified :
  forall (K : kernels) (s : state) (o : op) (j : oid),
  o_res (snd (step K s o)) = VObj j -> j = length (ob s) \/ returns_self s o = Some j.
Proof. exact step_res_object. Qed.
Print Assumptions C10_result_object_is_new_unless_specified.

(* every buffer a result is made of - the array itself, the attributes of a returned plane / spectrum, the fields of a
   returned wavefront - is either allocated by the call or one of the caller buffers listed by [may_alias]: the arrays a
   plane / spectrum is constructed from, the arrays of the plane fit_tilt is called on, the out= / accumulation buffer,
   the wave array of the spectrum operand.  No other call hands back memory the caller already owns *)
Theorem C10_results_alias_only_as_specified :
  forall (K : kernels) (s : state) (o : op) (i : aid),
  In i (res_slots (fst (step K s o)) (o_res (snd (step K s o)))) ->
  In i (may_alias s o) \/ (length (hp s) <= i)%nat.
Proof. exact step_res_alias. Qed.
Print Assumptions C10_results_alias_only_as_specified.

(* copy, rescale/resample and fit_tilt(inplace=False) of a non-Image plane hand back a new plane made of new buffers
   only: with C10_frame, nothing done to the result can reach the original *)
Theorem C10_new_planes_share_nothing :
  forall (K : kernels) (s : state) (o : op),
  makes_new_plane s o = true -> o_status (snd (step K s o)) = 0 ->
  o_res (snd (step K s o)) = VObj (length (ob s)) /\
  forall i, In i (res_slots (fst (step K s o)) (VObj (length (ob s)))) -> (length (hp s) <= i)%nat.
Proof. exact step_new_plane. Qed.
Print Assumptions C10_new_planes_share_nothing.

(* non-vacuity of the five statements above: a poke of a read-only array is refused (status 1) and leaves everything;
   propagate_fft of a tilted wavefront is status 4; Image.fit_tilt returns its argument, copy a new plane on new buffers *)
Example C10_deepen_nonvacuous :
  let K := mkkernels (fun c args _ => match args with a :: _ => map (Z.add c) a | [] => [c; c] end)
                     (fun _ _ _ => (1, 2)) (fun r => r + 1) in
  let ops := [ONewArr 4 true; OPoke 0; OWave (Some (1, 2)); OPropFft 2 None;
              OPlane 2 (Some 0%nat) (Some 0%nat) None 1; OFitTilt 4 false; OCopy 4] in
  map (fun x => (o_status (snd (snd x)), o_res (snd (snd x)))) (trace K init ops)
    = [(0, VArr 0%nat); (1, VNone); (0, VObj 0%nat); (4, VNone); (0, VObj 1%nat); (0, VObj 1%nat); (0, VObj 2%nat)] /\
  match nth_error (trace K init ops) 6 with Some (pre, o, _) => makes_new_plane pre o | None => false end = true /\
  (* the Image plane of step 4 is made of the caller's array 0 (twice) and one new buffer: exactly what may_alias allows *)
  match nth_error (trace K init ops) 4 with
  | Some (pre, o, (post, out)) => (res_slots post (o_res out), may_alias pre o)
  | None => ([], []) end = ([0%nat; 0%nat; 2%nat], [0%nat; 0%nat]).
Proof. vm_compute. repeat split; reflexivity. Qed.

(* non-vacuity: a concrete history (two arrays, a plane on them, in-place tilt fit - which rebinds the plane's opd and
   writes no buffer -, two dft2 of the same shape, the second into an output buffer) is reachable, fills the cache, and performs exactly the documented writes *)
Example C10_nonvacuous :
  let K := mkkernels (fun c args _ => match args with a :: _ => map (Z.add c) a | [] => [c; c] end)
                     (fun _ _ _ => (1, 2)) (fun r => r + 1) in
  let ops := [ONewArr 4 false; ONewArr 4 false; OPlane 1 (Some 0%nat) (Some 1%nat) None 1; OFitTilt 2 true;
              ODft2 0 (2, 2, 2, 2) None false []; ODft2 0 (2, 2, 2, 2) (Some 1%nat) false []] in
  map (fun x => (o_status (snd (snd x)), o_writes (snd (snd x)))) (trace K init ops)
    = [(0, []); (0, []); (0, []); (0, []); (0, []); (0, [1%nat])] /\
  length (cache (fst (snd (last (trace K init ops) (init, ONewArr 0 false, (init, mkout 0 [] [] VNone)))))) = 1%nat.
Proof. vm_compute. split; reflexivity. Qed.
