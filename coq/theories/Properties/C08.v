(* Property C08 - the plane-type state machine follows the documented table.

   [observed]   : generated on every check from the real classes of /repo (Gen/PTypeObserved.v):
                  wavefront state (ptype, content: fields / fields with tilt / no fields) x
                  (Plane(ptype=p) | public plane class, aperture overlapping or disjoint |
                  propagate_dft / propagate_fft), enumerated completely, every multiplication also
                  with a plane object that was used before.
   [doc_mul], [doc_prop], [doc_class_ptype] : generated on every check from the RST tables of
                  wavefront.rst, diffraction.rst, planes.rst (Gen/DocTable.v).
   [documented] : the machine those tables describe (Model/PType.v:doc_machine,
                  Model/PTypeSpec.v): types, acceptance, exception class and the state a refusal
                  keeps come from the documentation; the fitted-tilt bit, which the documentation
                  and the property leave open, is implementation-defined.
   The finite statements quantify over the finite inductive types themselves. *)
From LV Require Import Model.PTypeSpec Proofs.PTypeP.

(* (a) all 15 cells of "Multiplication rules", for every content of the wavefront (no fields at all
   included) and whether or not the plane's aperture meets the light: the product has the
   documented type, or is refused with TypeError ([erase] drops the content, [tdoc w None] is
   "TypeError, type w kept"; that a refusal keeps the whole state is C08_refused_step_keeps_state) *)
Theorem C08_mul_table_matches_doc : forall w b p clip,
  erase (observed_mul (St w b) p clip false) = tdoc w (doc_mul w p).
Proof. exact mul_table_matches_doc. Qed.
Print Assumptions C08_mul_table_matches_doc.

(* a cell the table forbids is refused with TypeError - operand kept - whatever the sampling of the
   two operands (mism = both carry a pixel scale and the two differ), for Plane(ptype=p) and for
   every claimed class instance *)
Theorem C08_forbidden_cell_is_TypeError_whatever_the_sampling :
  (forall w b p clip mism,
     doc_mul w p = None -> observed_mul (St w b) p clip mism = Raises ETypeError (St w b)) /\
  (forall k po clip mism w b,
     op_claimed (MulClass k po clip mism) = true -> doc_mul w (eff_ptype k po) = None ->
     observed_class_mul k po clip mism (St w b) = Raises ETypeError (St w b)).
Proof. exact (conj forbidden_cell_is_TypeError forbidden_class_cell_is_TypeError). Qed.
Print Assumptions C08_forbidden_cell_is_TypeError_whatever_the_sampling.

(* (a) the propagation rows, both routines, wavefronts without fields included *)
Theorem C08_propagation_matches_doc : forall m w b, b <> Tilted ->
  erase (observed_prop m (St w b)) = tdoc w (doc_prop m w).
Proof. exact propagation_matches_doc. Qed.
Print Assumptions C08_propagation_matches_doc.

(* ... and on a wavefront that carries fitted tilt: the same, except that propagate_fft may refuse
   it outright (implementation-defined, observed_fft_refuses_tilt) *)
Theorem C08_propagation_with_tilt : forall m w,
  erase (observed_prop m (St w Tilted)) =
  if (match m with Fft => true | Dft => false end) && observed_fft_refuses_tilt
  then TRaises ENotImplementedError w
  else tdoc w (doc_prop m w).
Proof. exact propagation_with_tilt. Qed.
Print Assumptions C08_propagation_with_tilt.

(* far-field propagation is permitted only from a pupil or an image and turns one into the other;
   it is always refused from `none`; the DFT accepts every pupil/image (dark ones too), the FFT
   every one without tilt *)
Theorem C08_propagation_only_between_pupil_and_image :
  (forall m s s', observed_prop m s = Yields s' ->
     (ty s = WPupil /\ ty s' = WImage) \/ (ty s = WImage /\ ty s' = WPupil)) /\
  (forall m b, exists e, observed_prop m (St WNone b) = Raises e (St WNone b)) /\
  (forall w b, w <> WNone -> exists s', observed_prop Dft (St w b) = Yields s') /\
  (forall w b, w <> WNone -> b <> Tilted -> exists s', observed_prop Fft (St w b) = Yields s').
Proof. exact propagation_only_between_pupil_and_image. Qed.
Print Assumptions C08_propagation_only_between_pupil_and_image.

(* (b) UNBOUNDED: for every start state and every program (any length) over every plane type,
   every public plane class (with its default ptype and with every ptype its constructor
   accepts) except Rotate/Flip, and both propagation routines, the trace of
   results / exceptions of the implementation's transition function is the documented one *)
Theorem C08_programs_follow_doc : forall s ops,
  forallb op_claimed ops = true -> run_program observed s ops = run_program documented s ops.
Proof. exact programs_follow_doc. Qed.
Print Assumptions C08_programs_follow_doc.

(* (b) the same read on types alone, with no tilt parameter anywhere: programs without
   propagate_fft from any state, and programs with it that start untilted and never attach a tilt
   (consistently sampled operands: what a permitted product of differently sampled operands does is
   C07's clause, [documented] repeats the implementation there) *)
Theorem C08_program_types_follow_tables : forall ops s,
  forallb op_claimed ops = true -> forallb consistent ops = true ->
  forallb (fun o => negb (is_fft o)) ops = true ->
  map erase (run_program observed s ops) = run_types (ty s) ops.
Proof. exact program_types_follow_tables. Qed.
Print Assumptions C08_program_types_follow_tables.

Theorem C08_untilted_program_types_follow_tables : forall ops s,
  forallb op_claimed ops = true -> forallb consistent ops = true ->
  forallb untilting ops = true -> tilted s = false ->
  map erase (run_program observed s ops) = run_types (ty s) ops.
Proof. exact untilted_program_types_follow_tables. Qed.
Print Assumptions C08_untilted_program_types_follow_tables.

(* a class constructed with the documented ptype override carries that ptype; [programs_follow_doc]
   enters the multiplication table with it (Model/PTypeSpec.v:eff_ptype) *)
Theorem C08_ptype_override_is_honoured : forall k p q, observed_override_ptype k p = Some q -> q = p.
Proof. exact ptype_override_is_honoured. Qed.
Print Assumptions C08_ptype_override_is_honoured.

(* a refused step - of ANY kind, Rotate and Flip included - leaves the wavefront in its state *)
Theorem C08_refused_step_keeps_state : forall s (o : op cls) e k,
  step observed s o = Raises e k -> k = s.
Proof. exact refused_step_keeps_state. Qed.
Print Assumptions C08_refused_step_keeps_state.

(* (c) every class of the planes.rst table has the documented ptype and multiplies every wavefront
   the multiplication table allows for that ptype (there is at least one), with the documented
   resulting type.  Full statement: *)
Definition C08_documented_classes_apply_full : Prop :=
  forall k p, doc_class_ptype k = Some p ->
    observed_class_ptype k = p /\
    (exists w, doc_mul w p <> None) /\
    (forall w t b clip, doc_mul w p = Some t ->
       exists b', observed_class_mul k None clip false (St w b) = Yields (St t b')).

(* proved for all documented classes but Rotate and Flip *)
Theorem C08_documented_classes_apply_partial : forall k p,
  doc_class_ptype k = Some p -> known_broken k = false ->
    observed_class_ptype k = p /\
    (exists w, doc_mul w p <> None) /\
    (forall w t b clip, doc_mul w p = Some t ->
       exists b', observed_class_mul k None clip false (St w b) = Yields (St t b')).
Proof. exact documented_classes_apply_partial. Qed.
Print Assumptions C08_documented_classes_apply_partial.

(* the full statement is false of the code: known finding C08-rotate-flip *)
Theorem C08_documented_classes_apply_refuted : ~ C08_documented_classes_apply_full.
Proof. exact documented_classes_apply_refuted. Qed.
Print Assumptions C08_documented_classes_apply_refuted.

Theorem C08_rotate_flip_refuted : forall k, known_broken k = true ->
  doc_class_ptype k = Some PTransform /\ observed_class_ptype k = PNone /\
  forall clip mism s, observed_class_mul k None clip mism s = Raises EAttributeError s.
Proof. exact rotate_flip_refuted. Qed.
Print Assumptions C08_rotate_flip_refuted.

Theorem C08_programs_with_rotate_refuted :
  exists s ops, run_program observed s ops <> run_program documented s ops.
Proof. exact programs_with_rotate_refuted. Qed.
Print Assumptions C08_programs_with_rotate_refuted.

(* non-vacuity: a claimed program that visits all three types, refusals by the table, a tilt, both
   propagation routines, a second wavefront and a wavefront that lost all its light (types only:
   the content is implementation-defined) *)
Example C08_nonvacuous :
  let prog := [MulClass KPupil None false false; MulType PImage false true; Propagate Fft;
               MulClass KTilt None false false; Propagate Dft; MulClass KImage None false true;
               MulType PTransform false false; Propagate Dft; MulClass KPlane None false false;
               Fresh (St WNone Plain); MulClass KTilt (Some PPupil) false false;
               MulClass KPupil None true false; Propagate Dft; MulClass KImage None false false;
               MulClass KDispersiveTilt (Some PPupil) false true] in
  forallb op_claimed prog = true /\
  map erase (run_program observed (St WNone Plain) prog) =
    [TYields WPupil; TRaises ETypeError WPupil; TYields WImage; TYields WImage; TYields WPupil;
     TRaises ETypeError WPupil; TYields WPupil; TYields WImage; TRaises ETypeError WImage;
     TYields WNone; TYields WPupil; TYields WPupil; TYields WImage; TYields WImage;
     TRaises ETypeError WImage] /\
  run_program documented (St WNone Plain) prog = run_program observed (St WNone Plain) prog.
Proof. repeat split. Qed.
