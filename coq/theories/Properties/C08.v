(* Property C08 - the plane-type state machine follows the documented table.

   [observed]   : generated on every check from the real classes of /repo (Gen/PTypeObserved.v):
                  wavefront state (ptype, content: fields / fields with tilt / no fields) x
                  (Plane(ptype=p) | public plane class, aperture overlapping or disjoint |
                  propagate_dft / propagate_fft), enumerated completely, every multiplication also
                  with a plane object that was used before.
   [doc_mul], [doc_prop], [doc_class_ptype] : generated on every check from the RST tables of
                  wavefront.rst, diffraction.rst, planes.rst (Gen/DocTable.v).
   [documented] : the machine those tables describe (Model/PType.v:doc_machine,
                  Model/PTypeSpec.v): types, acceptance, exception class and the state a refusal
                  keeps come from the documentation; the fitted-tilt bit, which the documentation
                  and the property leave open, is implementation-defined.
   The finite statements quantify over the finite inductive types themselves. *)
From LV Require Import Model.PTypeSpec Proofs.PTypeP Proofs.PTypeMetaP.

(* (a) all 15 cells of "Multiplication rules", for every content of the wavefront (no fields at all
   included) and whether or not the plane's aperture meets the light: the product has the
   documented type, or is refused with TypeError ([erase] drops the content, [tdoc w None] is
   "TypeError, type w kept"; that a refusal keeps the whole state is C08_refused_step_keeps_state) *)
Theorem C08_mul_table_matches_doc : forall w b p clip,
  erase (observed_mul (St w b) p clip false) = tdoc w (doc_mul w p).
Proof. exact mul_table_matches_doc. Qed.
Print Assumptions C08_mul_table_matches_doc.

(* a cell the table forbids is refused with TypeError - operand kept - whatever the sampling of the
   two operands (mism = both carry a pixel scale and the two differ), for Plane(ptype=p) and for
   every claimed class instance *)
Theorem C08_forbidden_cell_is_TypeError_whatever_the_sampling :
  (forall w b p clip mism,
     doc_mul w p = None -> observed_mul (St w b) p clip mism = Raises ETypeError (St w b)) /\
  (forall k po clip mism w b,
     op_claimed (MulClass k po clip mism) = true -> doc_mul w (eff_ptype k po) = None ->
     observed_class_mul k po clip mism (St w b) = Raises ETypeError (St w b)).
Proof. exact (conj forbidden_cell_is_TypeError forbidden_class_cell_is_TypeError). Qed.
Print Assumptions C08_forbidden_cell_is_TypeError_whatever_the_sampling.

(* (a) the propagation rows, both routines, wavefronts without fields included *)
Theorem C08_propagation_matches_doc : forall m w b, b <> Tilted ->
  erase (observed_prop m (St w b)) = tdoc w (doc_prop m w).
Proof. exact propagation_matches_doc. Qed.
Print Assumptions C08_propagation_matches_doc.

(* ... and on a wavefront that carries fitted tilt: the same, except that propagate_fft may refuse
   it outright (implementation-defined, observed_fft_refuses_tilt) *)
Theorem C08_propagation_with_tilt : forall m w,
  erase (observed_prop m (St w Tilted)) =
  if (match m with Fft => true | Dft => false end) && observed_fft_refuses_tilt
  then TRaises ENotImplementedError w
  else tdoc w (doc_prop m w).
Proof. exact propagation_with_tilt. Qed.
Print Assumptions C08_propagation_with_tilt.

(* far-field propagation is permitted only from a pupil or an image and turns one into the other;
   it is always refused from `none`; the DFT accepts every pupil/image (dark ones too), the FFT
   every one without tilt *)
Theorem C08_propagation_only_between_pupil_and_image :
  (forall m s s', observed_prop m s = Yields s' ->
     (ty s = WPupil /\ ty s' = WImage) \/ (ty s = WImage /\ ty s' = WPupil)) /\
  (forall m b, exists e, observed_prop m (St WNone b) = Raises e (St WNone b)) /\
  (forall w b, w <> WNone -> exists s', observed_prop Dft (St w b) = Yields s') /\
  (forall w b, w <> WNone -> b <> Tilted -> exists s', observed_prop Fft (St w b) = Yields s').
Proof. exact propagation_only_between_pupil_and_image. Qed.
Print Assumptions C08_propagation_only_between_pupil_and_image.

(* (b) UNBOUNDED: for every start state and every program (any length) over every plane type,
   every public plane class (with its default ptype and with every ptype its constructor
   accepts) except Rotate/Flip, and both propagation routines, the trace of
   results / exceptions of the implementation's transition function is the documented one *)
Theorem C08_programs_follow_doc : forall s ops,
  forallb op_claimed ops = true -> run_program observed s ops = run_program documented s ops.
Proof. exact programs_follow_doc. Qed.
Print Assumptions C08_programs_follow_doc.

(* (b) the same read on types alone, with no tilt parameter anywhere: programs without
   propagate_fft from any state, and programs with it that start untilted and never attach a tilt
   (consistently sampled operands: what a permitted product of differently sampled operands does is
   C07's clause, [documented] repeats the implementation there) *)
Theorem C08_program_types_follow_tables : forall ops s,
  forallb op_claimed ops = true -> forallb consistent ops = true ->
  forallb (fun o => negb (is_fft o)) ops = true ->
  map erase (run_program observed s ops) = run_types (ty s) ops.
Proof. exact program_types_follow_tables. Qed.
Print Assumptions C08_program_types_follow_tables.

Theorem C08_untilted_program_types_follow_tables : forall ops s,
  forallb op_claimed ops = true -> forallb consistent ops = true ->
  forallb untilting ops = true -> tilted s = false ->
  map erase (run_program observed s ops) = run_types (ty s) ops.
Proof. exact untilted_program_types_follow_tables. Qed.
Print Assumptions C08_untilted_program_types_follow_tables.

(* a class constructed with the documented ptype override carries that ptype; [programs_follow_doc]
   enters the multiplication table with it (Model/PTypeSpec.v:eff_ptype) *)
Theorem C08_ptype_override_is_honoured : forall k p q, observed_override_ptype k p = Some q -> q = p.
Proof. exact ptype_override_is_honoured. Qed.
Print Assumptions C08_ptype_override_is_honoured.

(* a refused step - of ANY kind, Rotate and Flip included - leaves the wavefront in its state *)
Theorem C08_refused_step_keeps_state : forall s (o : op cls) e k,
  step observed s o = Raises e k -> k = s.
Proof. exact refused_step_keeps_state. Qed.
Print Assumptions C08_refused_step_keeps_state.

(* (c) every class of the planes.rst table has the documented ptype and multiplies every wavefront
   the multiplication table allows for that ptype (there is at least one), with the documented
   resulting type.  Full statement: *)
Definition C08_documented_classes_apply_full : Prop :=
  forall k p, doc_class_ptype k = Some p ->
    observed_class_ptype k = p /\
    (exists w, doc_mul w p <> None) /\
    (forall w t b clip, doc_mul w p = Some t ->
       exists b', observed_class_mul k None clip false (St w b) = Yields (St t b')).

(* proved for all documented classes but Rotate and Flip *)
Theorem C08_documented_classes_apply_partial : forall k p,
  doc_class_ptype k = Some p -> known_broken k = false ->
    observed_class_ptype k = p /\
    (exists w, doc_mul w p <> None) /\
    (forall w t b clip, doc_mul w p = Some t ->
       exists b', observed_class_mul k None clip false (St w b) = Yields (St t b')).
Proof. exact documented_classes_apply_partial. Qed.
Print Assumptions C08_documented_classes_apply_partial.

(* the full statement is false of the code: known finding C08-rotate-flip *)
Theorem C08_documented_classes_apply_refuted : ~ C08_documented_classes_apply_full.
Proof. exact documented_classes_apply_refuted. Qed.
Print Assumptions C08_documented_classes_apply_refuted.

Theorem C08_rotate_flip_refuted : forall k, known_broken k = true ->
  doc_class_ptype k = Some PTransform /\ observed_class_ptype k = PNone /\
  forall clip mism s, observed_class_mul k None clip mism s = Raises EAttributeError s.
Proof. exact rotate_flip_refuted. Qed.
Print Assumptions C08_rotate_flip_refuted.

Theorem C08_programs_with_rotate_refuted :
  exists s ops, run_program observed s ops <> run_program documented s ops.
Proof. exact programs_with_rotate_refuted. Qed.
Print Assumptions C08_programs_with_rotate_refuted.

(* non-vacuity: a claimed program that visits all three types, refusals by the table, a tilt, both
   propagation routines, a second wavefront and a wavefront that lost all its light (types only:
   the content is implementation-defined) *)
Example C08_nonvacuous :
  let prog := [MulClass KPupil None false false; MulType PImage false true; Propagate Fft;
               MulClass KTilt None false false; Propagate Dft; MulClass KImage None false true;
               MulType PTransform false false; Propagate Dft; MulClass KPlane None false false;
               Fresh (St WNone Plain); MulClass KTilt (Some PPupil) false false;
               MulClass KPupil None true false; Propagate Dft; MulClass KImage None false false;
               MulClass KDispersiveTilt (Some PPupil) false true] in
  forallb op_claimed prog = true /\
  map erase (run_program observed (St WNone Plain) prog) =
    [TYields WPupil; TRaises ETypeError WPupil; TYields WImage; TYields WImage; TYields WPupil;
     TRaises ETypeError WPupil; TYields WPupil; TYields WImage; TRaises ETypeError WImage;
     TYields WNone; TYields WPupil; TYields WPupil; TYields WImage; TYields WImage;
     TRaises ETypeError WImage] /\
  run_program documented (St WNone Plain) prog = run_program observed (St WNone Plain) prog.
Proof. repeat split. Qed.

(* ============================================================================================
   The code itself (Model/PTypeMeta.v: hand-written, branch by branch, from ptype.py, plane.py,
   wavefront.py, propagate.py), as opposed to what it was observed to do.
   ============================================================================================ *)

(* the table in plane.py and the ladder in propagate._propagate_ptype ARE the documented tables *)
Theorem C08_code_tables_are_documented_tables :
  (forall w p, hand_table w p = doc_mul w p) /\
  (forall m w, match propagate_ptype w with Ok t => Some t | Err _ => None end = doc_prop m w).
Proof. exact (conj hand_table_is_doc propagate_ptype_is_doc). Qed.
Print Assumptions C08_code_tables_are_documented_tables.

(* Wavefront.ptype = x: accepted exactly when x denotes none, pupil or image (None, a PType or one
   of the five names); anything else - an unknown name, tilt, transform - is a TypeError *)
Theorem C08_wavefront_ptype_setter : forall a,
  match set_wavefront_ptype a with
  | Ok w => make_ptype a = Ok (ptype_of_wtype w)
  | Err e => e = TypeError /\
             (make_ptype a = Err TypeError \/ make_ptype a = Ok PTilt \/ make_ptype a = Ok PTransform)
  end.
Proof. exact set_wavefront_ptype_spec. Qed.
Print Assumptions C08_wavefront_ptype_setter.

(* Plane.multiply and its three overrides, against the whole product: a forbidden cell is TypeError
   whatever the sampling; a permitted cell with two different pixel scales is ValueError; otherwise
   the product has the table's type (image planes: image), the plane's pixel scale if it has one else
   the wavefront's, the wavefront's wavelength, the plane's shape if it has one else the
   wavefront's, the wavefront's focal length (a Pupil: its own), and one field per overlapping
   (field, segment) pair, carrying the field's tilt objects (a tilt plane: one more) *)
Theorem C08_multiply_whole_product : forall pl ov w,
  match hand_table (w_ty w) (p_ty pl) with
  | None => multiply pl ov w = MErr TypeError
  | Some t =>
      if mism_of (p_ps pl) (w_ps w) then multiply pl ov w = MErr ValueError
      else exists r,
        (multiply pl ov w = MOk r \/ (p_kind pl = KindPupil None /\ multiply pl ov w = MOkNoFocal r)) /\
        w_ty r = (match p_kind pl with KindImage => WImage | _ => t end) /\
        w_ps r = (match p_ps pl with Some x => Some x | None => w_ps w end) /\
        w_wl r = w_wl w /\
        w_shape r = (match p_shape pl with Some s => Some s | None => w_shape w end) /\
        w_focal r = (match p_kind pl with KindPupil (Some f) => f | _ => w_focal w end) /\
        w_fields r = map (fun f => match p_kind pl with KindTilt => f + 1 | _ => f end)
                         (mul_fields 0 (w_fields w) (p_nseg pl) (p_ntilt pl) ov)
  end.
Proof. exact multiply_record. Qed.
Print Assumptions C08_multiply_whole_product.

(* ... and read on states (type, content), for wavefronts with any number of fields: the product of
   the code's multiply is the hand-written transition function [hand_mul_outcome]
   (clip: no field meets any segment; not clip: every field meets one) *)
Theorem C08_multiply_abstracts : forall pl ov w clip,
  p_ntilt pl = 0 -> uniform (w_fields w) = true -> nonneg (w_fields w) = true ->
  ((clip = true -> forall i n, ov i n = false) /\
   (clip = false -> forall i, (i < length (w_fields w))%nat ->
                    exists n, (n < p_nseg pl)%nat /\ ov i n = true)) ->
  abs_mul_out w (multiply pl ov w) =
  hand_mul_outcome (mk_of (p_kind pl)) (p_ty pl) clip (mism_of (p_ps pl) (w_ps w)) (abs_state w).
Proof. exact multiply_abstracts. Qed.
Print Assumptions C08_multiply_abstracts.

Theorem C08_multiply_keeps_invariant : forall pl ov w clip r,
  p_ntilt pl = 0 -> uniform (w_fields w) = true -> nonneg (w_fields w) = true ->
  ((clip = true -> forall i n, ov i n = false) /\
   (clip = false -> forall i, (i < length (w_fields w))%nat ->
                    exists n, (n < p_nseg pl)%nat /\ ov i n = true)) ->
  (multiply pl ov w = MOk r \/ multiply pl ov w = MOkNoFocal r) ->
  uniform (w_fields r) = true /\ nonneg (w_fields r) = true.
Proof. exact multiply_keeps_invariant. Qed.
Print Assumptions C08_multiply_keeps_invariant.

(* propagate_dft against the whole result: type flipped, sampled at du/oversample, focal length and
   wavelength kept, shape = (requested or the wavefront's) * oversample, no field carries tilt, no
   more fields than before *)
Theorem C08_propagate_dft_whole_result : forall du os shape keep w t dx,
  propagate_ptype (w_ty w) = Ok t -> w_ps w = Some dx ->
  exists r, propagate_dft du os shape keep w = Ok r /\
    w_ty r = t /\ w_ps r = Some (fst du / qz os, snd du / qz os)%Q /\
    w_focal r = w_focal w /\ w_wl r = w_wl w /\
    w_shape r = (match (match shape with Some s => Some s | None => w_shape w end) with
                 | Some (a, b) => Some (a * os, b * os) | None => None end) /\
    has_tilt (w_fields r) = false /\ (length (w_fields r) <= length (w_fields w))%nat.
Proof. exact propagate_dft_record. Qed.
Print Assumptions C08_propagate_dft_whole_result.

(* the order of the refusals: propagate_fft refuses fitted tilt before it looks at the type; an untyped
   wavefront is refused with TypeError by both routines whatever its sampling, its focal length or the
   requested shape *)
Theorem C08_propagate_refusal_order : forall du os shape keep w,
  (has_tilt (w_fields w) = true -> propagate_fft du os shape w = Err NotImplementedErr) /\
  (has_tilt (w_fields w) = false -> w_ty w = WNone -> propagate_fft du os shape w = Err TypeError) /\
  (w_ty w = WNone -> propagate_dft du os shape keep w = Err TypeError).
Proof. exact propagate_refusal_order. Qed.
Print Assumptions C08_propagate_refusal_order.

(* read on states: both routines are the hand-written [hand_prop_outcome] (DFT: every field stays in
   the window; FFT: sampled, finite focal length, the requested shape fits the FFT grid) *)
Theorem C08_propagate_abstracts :
  (forall du os shape keep w, w_ps w <> None -> (forall i, keep i = true) ->
     abs_result w (propagate_dft du os shape keep w) = hand_prop_outcome Dft (abs_state w)) /\
  (forall du os shape w dx z, w_ps w = Some dx -> w_focal w = Some z ->
     (forall r c, shape = Some (r, c) ->
        let '((nr, nc), _) := fft_shape dx du z (w_wl w) os in q_gt_z r nr os || q_gt_z c nc os = false) ->
     abs_result w (propagate_fft du os shape w) = hand_prop_outcome Fft (abs_state w)).
Proof. exact (conj propagate_dft_abstracts propagate_fft_abstracts). Qed.
Print Assumptions C08_propagate_abstracts.

(* the hand-written transition function - refusals, forced image type, tilt and emptiness included -
   is the one observed on the real classes: Plane(ptype=p), every claimed public class with the
   multiply() it runs and the ptype its instance carries, both propagation routines *)
Theorem C08_hand_transition_is_observed :
  (forall s p clip mism, hand_mul_outcome MKPlane p clip mism s = observed_mul s p clip mism) /\
  (forall k po clip mism s mk, ckind k = Some mk -> op_claimed (MulClass k po clip mism) = true ->
     hand_mul_outcome mk (inst_ptype k po) clip mism s = observed_class_mul k po clip mism s) /\
  (forall m s, hand_prop_outcome m s = observed_prop m s).
Proof. exact (conj hand_mul_is_observed (conj hand_class_is_observed hand_prop_is_observed)). Qed.
Print Assumptions C08_hand_transition_is_observed.

(* non-vacuity of the code model: a two-field pupil wavefront sampled at (1,2), times a two-segment
   Tilt plane that meets both fields, then propagate_fft (refused: tilt), propagate_dft, propagate_fft *)
Example C08_code_model_nonvacuous :
  let w := {| w_ty := WPupil; w_ps := Some (1, 2)%Q; w_focal := Some 32%Q; w_wl := 1%Q;
              w_shape := Some (4, 4); w_fields := [0; 0] |} in
  let pl := {| p_ty := PTilt; p_ps := None; p_shape := None; p_nseg := 2; p_ntilt := 0; p_kind := KindTilt |} in
  let ov := fun i n => Nat.eqb i n in
  exists a b c,
    multiply pl ov w = MOk a /\ w_fields a = [1; 1] /\ w_ty a = WPupil /\
    propagate_fft (2, 4)%Q 2 None a = Err NotImplementedErr /\
    propagate_dft (2, 4)%Q 2 (Some (4, 4)) (fun _ => true) a = Ok b /\ w_ty b = WImage /\ w_fields b = [0; 0] /\
    w_shape b = Some (8, 8) /\
    propagate_fft (2, 4)%Q 2 None b = Ok c /\ w_ty c = WPupil /\ w_shape c = Some (32, 8) /\ Qeq (w_wl c) 1.
Proof. do 3 eexists. repeat split; vm_compute; reflexivity. Qed.
