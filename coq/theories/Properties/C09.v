(* C09 - FFT propagation agrees with DFT propagation; the scratch buffer is transparent.
   Only statements: every proof is [exact] of a lemma of Proofs/FftP.v.
   [S] ranges over every commutative ring with a kernel e = [ke] such that e(a+b) = e a * e b, e 0 = 1 and
   e(integer) = 1 (over the complex numbers e t = exp(-2 pi i t): instance [CS], see C09_nonvacuous);
   [sq] stands for the square root.  Grid sizes, shapes, offsets range over all integers of the stated
   signs, pixel scales / wavelengths / focal lengths over all rationals (every float is one).
   The grid (N0, N1) is a parameter of [propagate_fft_N]: the code takes round_half_even(1/alpha)
   ([fft_grid]), and [propagate_fft] is [propagate_fft_N] at that grid, so each statement holds for it. *)
(* deepen: Model/Propagate.v (the propagate_dft model) is imported FIRST so that the names it shares with Model/Fft.v
   (wavefront, wfield, wshape, mkWf, ...) mean the FFT model's below; the DFT model's are written Propagate.xxx *)
From LV Require Import Model.Propagate Proofs.PropagateP Proofs.ChainP.
From LV Require Import Model.Fft Proofs.FieldP Proofs.DftP Proofs.FftP Lib.Cis Lib.GRing Lib.Instances.
From LV Require Import Proofs.FftDeepP Proofs.FftChainP.

(* (a) fftshift(fft2(ifftshift x), norm='ortho') is the unitary defining Fourier sum at alpha = 1/N with both
   origins at index floor(N/2) - for even and odd N alike *)
Theorem C09_fft2_centered_is_fourier_sum :
  forall (S : Scalar), is_ring S -> kernel_laws S -> (forall z : Z, @ke S (zq z) = k1) ->
  forall (sq : Qc -> S) (x : arr S) (u v : Z), 0 <= u < nr x -> 0 <= v < nc x ->
  get (fft2c sq x) u v
  = (sumZ (nr x) (fun p => sumZ (nc x) (fun q =>
       (get x p q * ke (/ zq (nr x) * zq (p - nr x / 2 + 0) * zq (u - nr x / 2)
                        + / zq (nc x) * zq (q - nc x / 2 + 0) * zq (v - nc x / 2))%Qc)%K))
     * sq (/ zq (nr x * nc x))%Qc)%K.
Proof. exact fft2c_is_fourier_sum. Qed.
Print Assumptions C09_fft2_centered_is_fourier_sum.

(* ... that is, lentil.fourier.dft2(x, alpha=(1/N_r, 1/N_c), shape=N, unitary=True) *)
Theorem C09_fft2_centered_is_dft2 :
  forall (S : Scalar), is_ring S -> kernel_laws S -> (forall z : Z, @ke S (zq z) = k1) ->
  forall (sq : Qc -> S) (x : arr S) (u v : Z), 0 <= u < nr x -> 0 <= v < nc x ->
  get (fft2c sq x) u v
  = get (dft2 sq x (/ zq (nr x))%Qc (/ zq (nc x))%Qc (nr x) (nc x) 0 0 0 0 true) u v.
Proof. exact fft2_centered_is_dft2. Qed.
Print Assumptions C09_fft2_centered_is_dft2.

(* the same over the complex numbers, nothing assumed *)
Theorem C09_fft2_centered_is_dft2_complex :
  forall (sq : Qc -> CS) (x : arr CS) (u v : Z), 0 <= u < nr x -> 0 <= v < nc x ->
  get (fft2c sq x) u v
  = get (dft2 sq x (/ zq (nr x))%Qc (/ zq (nc x))%Qc (nr x) (nc x) 0 0 0 0 true) u v.
Proof. exact (fft2_centered_is_dft2 CS CS_ring CS_kernel CS_ke_Z). Qed.
Print Assumptions C09_fft2_centered_is_dft2_complex.

(* (b) lentil.pad, growing or cropping, any parities: sample (i, j) of the result is the sample of the
   zero-extended input with the same coordinates relative to index floor(n/2) ... *)
Theorem C09_pad_keeps_origin :
  forall (S : Scalar) (a : arr S) (Nr Nc i j : Z), 0 < nr a -> 0 < nc a -> 0 <= i < Nr -> 0 <= j < Nc ->
  get (pad2 a Nr Nc) i j
  = (let i' := i - Nr / 2 - 0 + nr a / 2 in let j' := j - Nc / 2 - 0 + nc a / 2 in
     if inr (nr a) i' && inr (nc a) j' then get a i' j' else k0).
Proof. exact pad_origin. Qed.
Print Assumptions C09_pad_keeps_origin.

(* ... hence zero-padding leaves the centred transform unchanged (offset 0) *)
Theorem C09_pad_preserves_transform :
  forall (S : Scalar), is_ring S -> forall (a : arr S) (Nr Nc : Z) (ar ac U V : Qc),
  0 < nr a -> 0 < nc a -> nr a <= Nr -> nc a <= Nc ->
  fourier_sum (pad2 a Nr Nc) ar ac 0 0 U V = fourier_sum a ar ac 0 0 U V.
Proof. exact (fun S R => pad_preserves_transform S R (fun _ => k0)). Qed.
Print Assumptions C09_pad_preserves_transform.

(* (c) the wavelength propagate_fft reports makes the DFT sampling ratio dx*du/(lambda*z*oversample) exactly 1/N
   (square pixels in both planes); [fft_shape] returns [prop_wavelength] of the grid it returns *)
Theorem C09_fft_shape_wavelength :
  forall (N : Z) (d u z : Qc) (os : Z), N <> 0 -> os <> 0 -> d <> 0%Qc -> u <> 0%Qc -> z <> 0%Qc ->
  dft_alpha (d, d) (u, u) (prop_wavelength N N (d, d) (u, u) z os) z os = ((/ zq N)%Qc, (/ zq N)%Qc).
Proof. exact fft_shape_wavelength. Qed.
Print Assumptions C09_fft_shape_wavelength.

(* anisotropic pixels: exactly 1/N only on the axis that attains the minimum (the documented restriction) *)
Theorem C09_reported_wavelength_min_axis :
  forall (N0 N1 : Z) (dx du : Qc * Qc) (z : Qc) (os : Z),
  N0 <> 0 -> os <> 0 -> fst dx <> 0%Qc -> fst du <> 0%Qc -> z <> 0%Qc ->
  qleb ((zq N0 / zq os * fst dx * fst du) / z)%Qc ((zq N1 / zq os * snd dx * snd du) / z)%Qc = true ->
  fst (dft_alpha dx du (prop_wavelength N0 N1 dx du z os) z os) = (/ zq N0)%Qc.
Proof. exact reported_wavelength_axis0. Qed.
Print Assumptions C09_reported_wavelength_min_axis.

(* (d) accepted calls, with or without scratch: the result has the requested shape, reports [prop_wavelength], and
   each sample of Wavefront.field is the unitary Fraunhofer sum at alpha = 1/N of the input plane seen on the
   grid, at the output coordinates i - floor(n_out/2) *)
Theorem C09_propagate_fft_samples :
  forall (S : Scalar), is_ring S -> kernel_laws S -> (forall z : Z, @ke S (zq z) = k1) ->
  forall (sq : Qc -> S) (N0 N1 : Z) (w : wavefront S) (du : Qc * Qc) (shape : option (Z * Z)) (os : Z)
         (scratch : option (arr S)) (pt : ptype),
  0 < N0 -> 0 < N1 -> 0 < os -> has_tilt w = false -> propagate_ptype (wpt w) = Ok pt ->
  (forall f, In f (wdata w) -> match fd f with D0 _ => False | D2 d => 0 < nr d /\ 0 < nc d end) ->
  match shape with None => True | Some s => 0 < fst s /\ 0 < snd s /\ fst s * os <= N0 /\ snd s * os <= N1 end ->
  match scratch with
  | Some buf => N0 <= nr buf /\ N1 <= nc buf
  | None => 0 < fst (wshape w) /\ 0 < snd (wshape w) /\
            forall f r c, In f (wdata w) ->
              inr (fst (wshape w)) (r + fst (wshape w) / 2) && inr (snd (wshape w)) (c + snd (wshape w) / 2) = false ->
              embed f r c = k0
  end ->
  exists out sc, propagate_fft_N sq N0 N1 w du shape os scratch = Ok (out, sc) /\
    wshape out = match shape with None => (N0, N1) | Some s => (fst s * os, snd s * os) end /\
    wlam out = prop_wavelength N0 N1 (wpix w) du (wz w) os /\ wpt out = pt /\ wz out = wz w /\
    exists o, wfield out = Ok o /\
      nr o = fst (match shape with None => (N0, N1) | Some s => (fst s * os, snd s * os) end) /\
      nc o = snd (match shape with None => (N0, N1) | Some s => (fst s * os, snd s * os) end) /\
      forall i j, 0 <= i < nr o -> 0 <= j < nc o ->
        get o i j
        = (fourier_sum (mkArr N0 N1 (fun a b => embed_sum (wdata w) (a - N0 / 2) (b - N1 / 2)))
                       (/ zq N0)%Qc (/ zq N1)%Qc 0 0 (zq (i - nr o / 2)) (zq (j - nc o / 2))
           * sq (/ zq (N0 * N1))%Qc)%K.
Proof. exact propagate_fft_samples. Qed.
Print Assumptions C09_propagate_fft_samples.

(* when every field fits on the grid (pupil no larger than the grid), that sum is the sum over the fields of
   dft2(field.data, alpha=1/N, offset=field.offset): exactly what C02 proves propagate_dft returns for an
   untilted wavefront whose wavelength gives alpha = 1/N - the reported wavelength, by (c) *)
Theorem C09_grid_transform_is_sum_of_field_transforms :
  forall (S : Scalar), is_ring S -> forall (N0 N1 : Z) (ar ac U V : Qc) (fs : list (field S)),
  (forall f, In f fs ->
     match fd f with
     | D2 d => (0 < nr d /\ 0 < nc d) /\
               0 <= N0 / 2 - nr d / 2 + offr f /\ N0 / 2 - nr d / 2 + offr f + nr d <= N0 /\
               0 <= N1 / 2 - nc d / 2 + offc f /\ N1 / 2 - nc d / 2 + offc f + nc d <= N1
     | D0 _ => False
     end) ->
  fourier_sum (mkArr N0 N1 (fun a b => embed_sum fs (a - N0 / 2) (b - N1 / 2))) ar ac 0 0 U V
  = fold_left (fun acc f => (acc + match fd f with
                                   | D2 d => fourier_sum d ar ac (offr f) (offc f) U V
                                   | D0 _ => k0 end)%K) fs k0.
Proof.
  intros S R N0 N1 ar ac U V fs H. apply (grid_transform_is_sum_of_fields S R (fun _ => k0)).
  intros f Hf. specialize (H f Hf). unfold fgood, fits. destruct (fd f); [contradiction|]. tauto.
Qed.
Print Assumptions C09_grid_transform_is_sum_of_field_transforms.

(* refusals: output shapes larger than the grid, scratch buffers smaller than the grid *)
Theorem C09_larger_shape_refused :
  forall (S : Scalar) (sq : Qc -> S) (N0 N1 : Z) (w : wavefront S) du (s : Z * Z) os scratch pt,
  has_tilt w = false -> propagate_ptype (wpt w) = Ok pt -> (N0 < fst s * os \/ N1 < snd s * os) ->
  propagate_fft_N sq N0 N1 w du (Some s) os scratch = Err ValueError.
Proof. exact shape_refused. Qed.
Print Assumptions C09_larger_shape_refused.

Theorem C09_small_scratch_refused :
  forall (S : Scalar) (sq : Qc -> S) (N0 N1 : Z) (w : wavefront S) du shape os (buf : arr S) pt so,
  has_tilt w = false -> propagate_ptype (wpt w) = Ok pt -> out_shape N0 N1 shape os = Ok so ->
  (nr buf < N0 \/ nc buf < N1) ->
  propagate_fft_N sq N0 N1 w du shape os (Some buf) = Err ValueError.
Proof. exact small_scratch_refused. Qed.
Print Assumptions C09_small_scratch_refused.

(* (e) scratch buffers of any sufficient shapes and any contents give the same wavefront ... *)
Theorem C09_scratch_content_irrelevant :
  forall (S : Scalar), is_ring S -> kernel_laws S -> (forall z : Z, @ke S (zq z) = k1) ->
  forall (sq : Qc -> S) (N0 N1 : Z) (w : wavefront S) du shape os (buf1 buf2 : arr S) pt,
  0 < N0 -> 0 < N1 -> 0 < os -> has_tilt w = false -> propagate_ptype (wpt w) = Ok pt ->
  (forall f, In f (wdata w) -> fgood S f) -> accepted_shape N0 N1 shape os ->
  N0 <= nr buf1 -> N1 <= nc buf1 -> N0 <= nr buf2 -> N1 <= nc buf2 ->
  exists out1 sc1 out2 sc2 o1 o2,
    propagate_fft_N sq N0 N1 w du shape os (Some buf1) = Ok (out1, sc1) /\
    propagate_fft_N sq N0 N1 w du shape os (Some buf2) = Ok (out2, sc2) /\
    wshape out1 = wshape out2 /\ wlam out1 = wlam out2 /\ wpt out1 = wpt out2 /\
    wfield out1 = Ok o1 /\ wfield out2 = Ok o2 /\ nr o1 = nr o2 /\ nc o1 = nc o2 /\
    forall i j, 0 <= i < nr o1 -> 0 <= j < nc o1 -> get o1 i j = get o2 i j.
Proof. exact scratch_content_irrelevant. Qed.
Print Assumptions C09_scratch_content_irrelevant.

(* ... the one obtained without a scratch buffer *)
Theorem C09_scratch_transparent :
  forall (S : Scalar), is_ring S -> kernel_laws S -> (forall z : Z, @ke S (zq z) = k1) ->
  forall (sq : Qc -> S) (N0 N1 : Z) (w : wavefront S) du shape os (buf : arr S) pt,
  0 < N0 -> 0 < N1 -> 0 < os -> has_tilt w = false -> propagate_ptype (wpt w) = Ok pt ->
  (forall f, In f (wdata w) -> fgood S f) -> accepted_shape N0 N1 shape os ->
  N0 <= nr buf -> N1 <= nc buf ->
  0 < fst (wshape w) -> 0 < snd (wshape w) -> inside_shape S w ->
  exists out1 sc1 out2 o1 o2,
    propagate_fft_N sq N0 N1 w du shape os (Some buf) = Ok (out1, sc1) /\
    propagate_fft_N sq N0 N1 w du shape os None = Ok (out2, None) /\
    wshape out1 = wshape out2 /\ wlam out1 = wlam out2 /\ wpt out1 = wpt out2 /\
    wfield out1 = Ok o1 /\ wfield out2 = Ok o2 /\ nr o1 = nr o2 /\ nc o1 = nc o2 /\
    forall i j, 0 <= i < nr o1 -> 0 <= j < nc o1 -> get o1 i j = get o2 i j.
Proof. exact scratch_equals_unbuffered. Qed.
Print Assumptions C09_scratch_transparent.

(* ... and a buffer of exactly scratch_shape(wavelength, dx, du, z, oversample) is accepted by propagate_fft *)
Theorem C09_scratch_exact_shape_accepted :
  forall (S : Scalar), is_ring S -> kernel_laws S -> (forall z : Z, @ke S (zq z) = k1) ->
  forall (sq : Qc -> S) (w : wavefront S) du shape os (buf : arr S) pt,
  let N := scratch_shape [wlam w] (wpix w) du (wz w) os in
  nr buf = fst N -> nc buf = snd N ->
  0 < fst N -> 0 < snd N -> 0 < os -> has_tilt w = false -> propagate_ptype (wpt w) = Ok pt ->
  (forall f, In f (wdata w) -> fgood S f) -> accepted_shape (fst N) (snd N) shape os ->
  exists out sc, propagate_fft sq w du shape os (Some buf) = Ok (out, sc).
Proof. exact scratch_exact_accepted. Qed.
Print Assumptions C09_scratch_exact_shape_accepted.

(* scratch_shape for a list of wavelengths (np.max) covers the grid of every listed wavelength: rounding is monotone
   and 1/alpha grows with the wavelength ... *)
Theorem C09_scratch_shape_covers_every_wavelength :
  forall (wls : list Qc) (dx du : Qc * Qc) (z : Qc) (os : Z) (lam : Qc),
  In lam wls -> (0 < lam)%Qc -> (0 < fst dx * fst du)%Qc -> (0 < snd dx * snd du)%Qc -> (0 < z)%Qc -> 0 < os ->
  fst (fft_grid dx du z lam os) <= fst (scratch_shape wls dx du z os) /\
  snd (fft_grid dx du z lam os) <= snd (scratch_shape wls dx du z os).
Proof. exact scratch_shape_covers. Qed.
Print Assumptions C09_scratch_shape_covers_every_wavelength.

(* ... so one buffer of exactly scratch_shape(wavelengths, dx, du, z, oversample) serves every listed wavelength *)
Theorem C09_scratch_shape_of_list_accepted :
  forall (S : Scalar), is_ring S -> kernel_laws S -> (forall z : Z, @ke S (zq z) = k1) ->
  forall (sq : Qc -> S) (w : wavefront S) du shape os (buf : arr S) pt (wls : list Qc),
  let N := fft_grid (wpix w) du (wz w) (wlam w) os in
  In (wlam w) wls -> (0 < wlam w)%Qc -> (0 < fst (wpix w) * fst du)%Qc -> (0 < snd (wpix w) * snd du)%Qc -> (0 < wz w)%Qc ->
  nr buf = fst (scratch_shape wls (wpix w) du (wz w) os) -> nc buf = snd (scratch_shape wls (wpix w) du (wz w) os) ->
  0 < fst N -> 0 < snd N -> 0 < os -> has_tilt w = false -> propagate_ptype (wpt w) = Ok pt ->
  (forall f, In f (wdata w) -> fgood S f) -> accepted_shape (fst N) (snd N) shape os ->
  exists out sc, propagate_fft sq w du shape os (Some buf) = Ok (out, sc).
Proof. exact scratch_list_accepted. Qed.
Print Assumptions C09_scratch_shape_of_list_accepted.

(* (f) a wavefront with a field carrying tilt is refused, whatever the other arguments *)
Theorem C09_tilt_refused :
  forall (S : Scalar) (sq : Qc -> S) (N0 N1 : Z) (w : wavefront S) du shape os scratch,
  (exists f, In f (wdata w) /\ ftilt f <> []) ->
  propagate_fft_N sq N0 N1 w du shape os scratch = Err NotImplementedErr.
Proof. exact (fun S sq N0 N1 w du shape os scratch H =>
               tilt_refused S sq N0 N1 w du shape os scratch (proj2 (has_tilt_iff S w) H)). Qed.
Print Assumptions C09_tilt_refused.

(* sensitivity of (a): the shift order the code had before fix f003478, ifftshift(fft2(fftshift x)), is not the
   centred transform on an odd grid (1 x 3 delta, cube roots of unity), while the current order is *)
Theorem C09_old_shift_order_odd_refuted :
  let sq : Qc -> GRS 3 := fun _ => @k1 (GRS 3) in
  let x : arr (GRS 3) := mkArr 1 3 (fun _ j => if j =? 0 then @k1 (GRS 3) else @k0 (GRS 3)) in
  get (fft2c_old sq x) 0 1 <> get (dft2 sq x (/ zq 1)%Qc (/ zq 3)%Qc 1 3 0 0 0 0 true) 0 1
  /\ get (fft2c sq x) 0 1 = get (dft2 sq x (/ zq 1)%Qc (/ zq 3)%Qc 1 3 0 0 0 0 true) 0 1.
Proof. exact old_shift_order_odd_refuted. Qed.
Print Assumptions C09_old_shift_order_odd_refuted.

(* ---------------------------------------------------------------------------------------------------------------
   deepen (round 6): the whole refusal table, the metadata of the result, the state left in the scratch buffer,
   np.round, and FFT = DFT on non-square grids *)

(* the refusal table of propagate_fft is exact, with the precedence of the code: tilt metadata (NotImplementedError)
   before the plane type (TypeError for ptype none) before the output shape (ValueError) before the scratch size
   (ValueError); otherwise the call succeeds and the result has the requested shape, the reported wavelength, output
   pixel scale du/oversample, the focal length of the input, the opposite plane type, and exactly one untilted field at
   offset (0,0) of exactly the shape of the result (fix 1b12b57: the part of the N0 x N1 grid the result covers); a
   scratch buffer comes back iff one was supplied *)
Theorem C09_propagate_fft_verdict :
  forall (S : Scalar), is_ring S -> forall (sq : Qc -> S) (N0 N1 : Z) (w : Fft.wavefront S) (du : Qc * Qc)
         (shape : option (Z * Z)) (os : Z) (scratch : option (arr S)),
  0 < N0 -> 0 < N1 -> (forall f, In f (Fft.wdata w) -> fgood S f) ->
  (scratch = None -> 0 < fst (Fft.wshape w) /\ 0 < snd (Fft.wshape w)) ->
  match (if Fft.has_tilt w then Some NotImplementedErr
         else match Fft.wpt w with
              | PNone => Some TypeError
              | _ => if match shape with None => false | Some s => (N0 <? fst s * os) || (N1 <? snd s * os) end
                     then Some ValueError
                     else if match scratch with None => false | Some buf => negb ((N0 <=? nr buf) && (N1 <=? nc buf)) end
                          then Some ValueError else None
              end) with
  | Some e => propagate_fft_N sq N0 N1 w du shape os scratch = Err e
  | None =>
    exists out sc F, propagate_fft_N sq N0 N1 w du shape os scratch = Ok (out, sc) /\
      Fft.wshape out = match shape with None => (N0, N1) | Some s => (fst s * os, snd s * os) end /\
      Fft.wlam out = prop_wavelength N0 N1 (Fft.wpix w) du (Fft.wz w) os /\
      Fft.wpix out = (fst du / zq os, snd du / zq os)%Qc /\
      Fft.wz out = Fft.wz w /\
      Fft.propagate_ptype (Fft.wpt w) = Ok (Fft.wpt out) /\
      Fft.wdata out = [mkField (D2 F) 0 0 []] /\
      nr F = fst (match shape with None => (N0, N1) | Some s => (fst s * os, snd s * os) end) /\
      nc F = snd (match shape with None => (N0, N1) | Some s => (fst s * os, snd s * os) end) /\
      (scratch = None <-> sc = None)
  end.
Proof. exact propagate_fft_verdict. Qed.
Print Assumptions C09_propagate_fft_verdict.

(* hence a result is itself a well-formed input: its field is an array lying inside the result's own shape, without
   tilt - the hypotheses of C09_propagate_fft_samples / C09_scratch_transparent hold of it, so on the second leg of a relay
   the FFT with scratch, the FFT without scratch and the DFT see the same field (before fix 1b12b57 the stored field was
   the whole grid and [inside_shape] failed: finding C09-relay-field-exceeds-shape) *)
Theorem C09_output_is_wellformed_input :
  forall (S : Scalar), is_ring S -> forall (sq : Qc -> S) (N0 N1 : Z) (w : Fft.wavefront S) du shape os scratch out sc,
  0 < N0 -> 0 < N1 -> (forall f, In f (Fft.wdata w) -> fgood S f) ->
  (scratch = None -> 0 < fst (Fft.wshape w) /\ 0 < snd (Fft.wshape w)) ->
  0 < fst (match shape with None => (N0, N1) | Some s => (fst s * os, snd s * os) end) ->
  0 < snd (match shape with None => (N0, N1) | Some s => (fst s * os, snd s * os) end) ->
  propagate_fft_N sq N0 N1 w du shape os scratch = Ok (out, sc) ->
  (forall f, In f (Fft.wdata out) -> fgood S f) /\ Fft.has_tilt out = false /\
  0 < fst (Fft.wshape out) /\ 0 < snd (Fft.wshape out) /\ inside_shape S out.
Proof. exact propagate_fft_output_wellformed. Qed.
Print Assumptions C09_output_is_wellformed_input.

(* frame statement for the scratch buffer: after an accepted call it keeps its shape, holds the input plane (the sum of
   the zero-extended fields, centred at floor(N/2)) in its N0 x N1 corner whatever it held before, and is untouched
   everywhere else *)
Theorem C09_scratch_after_call :
  forall (S : Scalar), is_ring S -> forall (sq : Qc -> S) (N0 N1 : Z) (w : Fft.wavefront S) du shape os (buf : arr S) out sc,
  0 < N0 -> 0 < N1 -> (forall f, In f (Fft.wdata w) -> fgood S f) ->
  propagate_fft_N sq N0 N1 w du shape os (Some buf) = Ok (out, sc) ->
  exists b', sc = Some b' /\ nr b' = nr buf /\ nc b' = nc buf /\ N0 <= nr buf /\ N1 <= nc buf /\
    forall i j, 0 <= i < nr buf -> 0 <= j < nc buf ->
      get b' i j = if (i <? N0) && (j <? N1) then embed_sum (Fft.wdata w) (i - N0 / 2) (j - N1 / 2) else get buf i j.
Proof. exact scratch_after_call. Qed.
Print Assumptions C09_scratch_after_call.

(* np.round as _fft_shape uses it: an integer within 1/2 of its argument q = n/d (|2n - 2dr| <= d), the even one at a tie *)
Theorem C09_round_half_even_nearest :
  forall q : Qc, let n := Qnum (this q) in let d := Zpos (Qden (this q)) in let r := round_half_even q in
  d * (2 * r - 1) <= 2 * n <= d * (2 * r + 1).
Proof. exact round_half_even_nearest. Qed.
Print Assumptions C09_round_half_even_nearest.
Theorem C09_round_half_even_ties_to_even :
  forall q : Qc, let n := Qnum (this q) in let d := Zpos (Qden (this q)) in let r := round_half_even q in
  (2 * n = d * (2 * r - 1) \/ 2 * n = d * (2 * r + 1)) -> Z.even r = true.
Proof. exact round_half_even_tie. Qed.
Print Assumptions C09_round_half_even_ties_to_even.

(* FFT path = DFT path on a NON-SQUARE grid (anisotropic pixel scales): the generalisation of Chain_fft_equals_dft
   (Properties/Chain.v, square grids).  Side condition: one wavelength serves both axes, N0 dx0 du0 = N1 dx1 du1 (see
   C09_whole_grids_are_commensurate); the other hypotheses are those of the square case.  [wD] is the same wavefront as
   propagate_dft reads it (Model/Propagate.v) at the wavelength propagate_fft reports.  Both calls succeed, report the
   same wavelength and shape, and Wavefront.field agrees sample by sample: the unitary defining sum at alpha = (1/N0, 1/N1) *)
Theorem C09_fft_equals_dft_anisotropic :
  forall (S : Scalar), is_ring S -> kernel_laws S -> (forall k : Z, @ke S (zq k) = k1) -> forall (sq : Qc -> S)
    (wF : Fft.wavefront S) (N0 N1 : Z) (dx du : Qc * Qc) (z : Qc) (os s0 s1 : Z) (scratch : option (arr S)),
  0 < N0 -> 0 < N1 -> 0 < os ->
  fst dx <> 0%Qc -> fst du <> 0%Qc -> snd dx <> 0%Qc -> snd du <> 0%Qc -> z <> 0%Qc ->
  Fft.wpix wF = dx -> Fft.wz wF = z ->
  fft_grid dx du z (Fft.wlam wF) os = (N0, N1) ->
  ((zq N0 / zq os * fst dx * fst du) / z)%Qc = ((zq N1 / zq os * snd dx * snd du) / z)%Qc ->
  Fft.has_tilt wF = false -> Fft.wpt wF <> PNone ->
  (forall f, In f (Fft.wdata wF) ->
     match fd f with
     | D2 a => (0 < nr a /\ 0 < nc a) /\
               0 <= N0 / 2 - nr a / 2 + offr f /\ N0 / 2 - nr a / 2 + offr f + nr a <= N0 /\
               0 <= N1 / 2 - nc a / 2 + offc f /\ N1 / 2 - nc a / 2 + offc f + nc a <= N1
     | D0 _ => False
     end) ->
  0 < s0 -> 0 < s1 -> s0 * os <= N0 -> s1 * os <= N1 ->
  match scratch with
  | Some buf => N0 <= nr buf /\ N1 <= nc buf
  | None => 0 < fst (Fft.wshape wF) /\ 0 < snd (Fft.wshape wF) /\
            forall f r c, In f (Fft.wdata wF) ->
              inr (fst (Fft.wshape wF)) (r + fst (Fft.wshape wF) / 2) && inr (snd (Fft.wshape wF)) (c + snd (Fft.wshape wF) / 2) = false ->
              embed f r c = k0
  end ->
  let lamF := prop_wavelength N0 N1 dx du z os in
  let wD := Propagate.mkWf lamF (Some dx) (Some z) (Fft.wshape wF)
                 (match Fft.wpt wF with PNone => PtNone | PPupil => PtPupil | PImage => PtImage end) (Fft.wdata wF) in
  exists outF sc oF outD oD,
    propagate_fft sq wF du (Some (s0, s1)) os scratch = Ok (outF, sc) /\
    Fft.wfield outF = Ok oF /\ Fft.wlam outF = lamF /\ Fft.wshape outF = (s0 * os, s1 * os) /\
    Propagate.propagate_dft sq (@no_shift S) wD (fst du) (snd du) (Some (s0, s1)) None os None = Ok outD /\
    Propagate.wfield outD = Ok oD /\ Propagate.wwl outD = lamF /\ Propagate.wshape outD = (s0 * os, s1 * os) /\
    nr oF = s0 * os /\ nc oF = s1 * os /\ nr oD = s0 * os /\ nc oD = s1 * os /\
    forall i j, 0 <= i < s0 * os -> 0 <= j < s1 * os ->
      get oF i j = get oD i j /\
      get oF i j =
        (fold_right (fun f acc =>
           (match fd f with
            | D2 a => sumZ (nr a) (fun x => sumZ (nc a) (fun y =>
                (get a x y * ke (/ zq N0 * zq (x - nr a / 2 + offr f) * zq (i - (s0 * os) / 2)
                                 + / zq N1 * zq (y - nc a / 2 + offc f) * zq (j - (s1 * os) / 2))%Qc)%K))
            | D0 _ => k0
            end + acc)%K) k0 (Fft.wdata wF)
         * sq (/ zq (N0 * N1))%Qc)%K.
Proof. exact fft_equals_dft_anisotropic_explicit. Qed.
Print Assumptions C09_fft_equals_dft_anisotropic.

(* the side condition holds whenever the ideal grid lambda z os/(dx du) is a whole number on both axes; the reported
   wavelength is then the requested one *)
Theorem C09_whole_grids_are_commensurate :
  forall (N0 N1 : Z) (dx du : Qc * Qc) (z : Qc) (os : Z) (lam : Qc),
  os <> 0 -> fst dx <> 0%Qc -> fst du <> 0%Qc -> snd dx <> 0%Qc -> snd du <> 0%Qc -> z <> 0%Qc ->
  (lam * z * zq os / (fst dx * fst du))%Qc = zq N0 -> (lam * z * zq os / (snd dx * snd du))%Qc = zq N1 ->
  ((zq N0 / zq os * fst dx * fst du) / z)%Qc = ((zq N1 / zq os * snd dx * snd du) / z)%Qc /\
  prop_wavelength N0 N1 dx du z os = lam.
Proof. exact whole_grids_commensurate. Qed.
Print Assumptions C09_whole_grids_are_commensurate.

(* the hypotheses on the scalars are satisfiable: the complex numbers with e t = exp(-2 pi i t) *)
Example C09_nonvacuous : is_ring CS /\ kernel_laws CS /\ (forall z : Z, @ke CS (zq z) = k1).
Proof. exact (conj CS_ring (conj CS_kernel CS_ke_Z)). Qed.

(* the hypotheses of (d)/(e) are satisfiable: a 2 x 3 integer field on a 5 x 5 grid, with and without scratch *)
Example C09_nonvacuous_propagation :
  let w : wavefront ZS := mkWf [mkField (D2 (mkArr (S := ZS) 2 3 (fun i j => (i + 2 * j + 1 : ZS)))) 0 0 []] (2, 3) 1%Qc (1%Qc, 1%Qc) 1%Qc PPupil in
  has_tilt w = false /\ propagate_ptype (wpt w) = Ok PImage /\
  (forall f, In f (wdata w) -> fgood ZS f) /\ accepted_shape 5 5 (Some (2, 2)) 2 /\
  scratch_ok ZS 5 5 w None /\ scratch_ok ZS 5 5 w (Some (azeros 5 6)).
Proof.
  cbv zeta. split; [reflexivity|]. split; [reflexivity|]. split.
  { intros f [<-|[]]. unfold fgood. cbn. lia. }
  split; [cbn; lia|]. split; [|cbn; lia].
  cbn [scratch_ok wshape fst snd]. split; [lia|]. split; [lia|].
  intros f r c [<-|[]] H. cbn [wshape fst snd] in H. rewrite embed_D2. unfold embedA. cbn [nr nc get].
  change (2 / 2) with 1 in *. change (3 / 2) with 1 in *.
  replace (r - 0 + 1) with (r + 1) by ring. replace (c - 0 + 1) with (c + 1) by ring. rewrite H. reflexivity.
Qed.

(* deepen: a non-square instance of the anisotropic statement's arithmetic hypotheses (output pixels 1 x 1/2, wavelength 4:
   grid 4 x 8, both axes attain the reported wavelength), and every row of the refusal table is inhabited *)
Example C09_nonvacuous_anisotropic :
  fft_grid (1, 1)%Qc (1, Q2Qc (1 # 2))%Qc 1%Qc (Q2Qc 4) 1 = (4, 8) /\
  ((zq 4 / zq 1 * 1 * 1) / 1)%Qc = ((zq 8 / zq 1 * 1 * Q2Qc (1 # 2)) / 1)%Qc.
Proof. split; [vm_compute; reflexivity|apply Qc_is_canon; vm_compute; reflexivity]. Qed.

Example C09_nonvacuous_verdict :
  let f0 : field ZS := mkField (D2 (mkArr (S := ZS) 2 2 (fun i j => (1 : ZS)))) 0 0 [] in
  let ft : field ZS := mkField (D2 (mkArr (S := ZS) 2 2 (fun i j => (1 : ZS)))) 0 0 [TiltAng 0%Qc 0%Qc] in
  let w (fs : list (field ZS)) (p : Fft.ptype) : Fft.wavefront ZS := Fft.mkWf fs (2, 2) 1%Qc (1%Qc, 1%Qc) 1%Qc p in
  expected_error ZS 4 4 (w [f0; ft] PNone) (Some (9, 9)) 1 (Some (azeros 1 1)) = Some NotImplementedErr /\
  expected_error ZS 4 4 (w [f0] PNone) (Some (9, 9)) 1 (Some (azeros 1 1)) = Some TypeError /\
  expected_error ZS 4 4 (w [f0] PImage) (Some (2, 5)) 1 (Some (azeros 1 1)) = Some ValueError /\
  expected_error ZS 4 4 (w [f0] PPupil) (Some (2, 4)) 1 (Some (azeros 4 3)) = Some ValueError /\
  expected_error ZS 4 4 (w [f0] PPupil) (Some (2, 4)) 1 (Some (azeros 4 4)) = None.
Proof. cbv zeta. repeat split; reflexivity. Qed.
