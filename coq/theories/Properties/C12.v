(* C12 - Zernike fit, compose and remove are mutually inverse for any mode set.

   Reading guide.  [S] ranges over every formally real commutative ring (a sum of squares is 0 only
   if all terms are 0): the reals and the rationals are instances (C12_scalars).  The mode family
   [zpoly normalize crd j r c] is ARBITRARY: every subset and ordering of Noll modes, both
   normalisations, default or caller-supplied (rho, theta) are "another family".  [is0] is the
   bool cast of the mask.  [solve] stands for np.linalg.pinv + einsum with the contract
     sound: an answer solves the normal equations [NE] of min |y - sum_i c_i B_i|^2, and
     total: an independent family (k >= 0 vectors) gets an answer (pinv always returns).
   Over R the pair is the trusted contract of numpy's pinv.  Such a solver exists: the executed
   solver [q_solve] (Gauss elimination with pivot search on the rationals, answer validated inside
   the model) is PROVED sound (C12_solver_sound) and total (C12_solver_total: the Gram matrix of an
   independent family has a trivial kernel, a trivial kernel survives every elimination step and
   forbids an all-zero pivot column, back substitution solves every row), so the statements about
   the executed instance (the C12_executed theorems) carry no hypothesis on the solver at all.
   [indep k N B]: the k masked modes, sampled on the N pixels, are linearly independent.
   [basis_mat mask modes nrm crd i p] = pixel p (row-major) of zernike(mask, modes[i], nrm, crd).
   [scatter n modes cs] = the coefficient vector handed to zernike_compose: cs_i at position
   modes_i - 1 (Noll index modes_i), length n.
   The list of modes is non-empty in the total statements (as in the property text): zernike_fit and
   zernike_remove refuse an empty list (C12_fit_returns_iff).
   *)
From LV Require Import Model.ZernikeFit Proofs.ZernikeFitP Proofs.ZernikeArgsP Lib.LsqR Lib.Cis Lib.GaussTotal.

Notation solver_sound S solve :=
  (forall k N B y (c : list S), solve k N B y = Ok c -> Z.of_nat (length c) = k /\ NE k N B y (nthZ c)).
Notation solver_total S solve :=
  (forall k N (B : Z -> Z -> S) (y : Z -> S), 0 <= k -> indep k N B -> exists c : list S, solve k N B y = Ok c).

(* (a) independence => the normal equations have at most one solution *)
Theorem C12_lsq_unique :
  forall (S : Scalar), is_ring S -> formally_real S ->
  forall (k N : Z) (B : Z -> Z -> S) (y c c' : Z -> S),
  indep k N B -> NE k N B y c -> NE k N B y c' -> forall i, 0 <= i < k -> c i = c' i.
Proof. intros S R FR k N B y c c'. exact (lsq_unique S R k N B y c c' FR). Qed.
Print Assumptions C12_lsq_unique.

(* (b) fitting an OPD composed from coefficients returns those coefficients: any list of modes
   (subset, order), any normalisation flag, any coordinates *)
Theorem C12_fit_compose_id :
  forall (S : Scalar), is_ring S -> formally_real S ->
  forall (Crd : Type) (is0 : S -> bool) (zpoly : bool -> option Crd -> Z -> Z -> Z -> S) solve,
  solver_sound S solve -> solver_total S solve ->
  forall (mask : arr S) (n : Z) (modes : list Z) (cs : list S) (normalize : bool) (crd : option Crd),
  modes <> [] -> 0 <= n -> (forall i, 0 <= i < Z.of_nat (length modes) -> 1 <= nthmode modes i <= n) ->
  length cs = length modes ->
  indep (Z.of_nat (length modes)) (nr mask * nc mask) (basis_mat is0 zpoly mask modes normalize crd) ->
  zernike_fit is0 zpoly solve (zernike_compose is0 zpoly mask (scatter n modes cs) normalize crd)
              mask modes normalize crd = Ok cs.
Proof. intros S R FR Crd is0 zpoly solve Hs Ht mask n modes cs nrm crd.
  exact (fit_compose_id_total S R FR Crd is0 zpoly solve Hs Ht mask n modes cs nrm crd). Qed.
Print Assumptions C12_fit_compose_id.

(* the same for ANY array that is a combination of the masked modes on the pixels (needs only the
   soundness half of the contract: whatever the fit returns are the coefficients) *)
Theorem C12_fit_span_id :
  forall (S : Scalar), is_ring S -> formally_real S ->
  forall (Crd : Type) (is0 : S -> bool) (zpoly : bool -> option Crd -> Z -> Z -> Z -> S) solve,
  solver_sound S solve ->
  forall (opd mask : arr S) (modes : list Z) (normalize : bool) (crd : option Crd) (cs c : list S),
  indep (Z.of_nat (length modes)) (nr mask * nc mask) (basis_mat is0 zpoly mask modes normalize crd) ->
  length cs = length modes ->
  (forall p, 0 <= p < nr mask * nc mask ->
     ravel opd p = sumZ (Z.of_nat (length modes)) (fun i => (nthZ cs i * basis_mat is0 zpoly mask modes normalize crd i p)%K)) ->
  zernike_fit is0 zpoly solve opd mask modes normalize crd = Ok c -> c = cs.
Proof. intros S R FR Crd is0 zpoly solve Hs opd mask modes nrm crd cs c.
  exact (fit_span_id S R FR Crd is0 zpoly solve Hs opd mask modes nrm crd cs c). Qed.
Print Assumptions C12_fit_span_id.

(* (c0) what zernike_remove composes (the place of the historical defect): the coefficients fitted
   with normalize = True and the caller's coordinates multiply the modes modes[i] - the REQUESTED
   Noll indices, not 1..k - evaluated with the same normalize = True and the same coordinates *)
Theorem C12_remove_recomposes_requested_modes :
  forall (S : Scalar) (Crd : Type) (is0 : S -> bool) (zpoly : bool -> option Crd -> Z -> Z -> Z -> S) solve,
  forall (opd mask res : arr S) (modes : list Z) (crd : option Crd),
  zernike_remove is0 zpoly solve opd mask modes crd = Ok res ->
  exists c, zernike_fit is0 zpoly solve opd mask modes true crd = Ok c /\
    nr opd = nr mask /\ nc opd = nc mask /\ nr res = nr opd /\ nc res = nc opd /\
    forall r c', get res r c' =
      (get opd r c' - sumZ (Z.of_nat (length modes))
                           (fun i => (get (zernike is0 zpoly mask (nthmode modes i) true crd) r c' * nthZ c i)%K))%K.
Proof. intros S Crd is0 zpoly solve opd mask res modes crd.
  exact (remove_ok S Crd is0 zpoly solve opd mask modes crd res). Qed.
Print Assumptions C12_remove_recomposes_requested_modes.

(* (c1, c2) removal subtracts exactly the least-squares component: for every OPD of the mask's
   shape the call returns, the residual's fitted coefficients for the removed modes vanish, and
   removing again changes nothing *)
Theorem C12_remove_is_projection :
  forall (S : Scalar), is_ring S -> formally_real S ->
  forall (Crd : Type) (is0 : S -> bool) (zpoly : bool -> option Crd -> Z -> Z -> Z -> S) solve,
  solver_sound S solve -> solver_total S solve ->
  forall (opd mask : arr S) (modes : list Z) (crd : option Crd),
  modes <> [] -> modes_ok modes = true -> nr opd = nr mask -> nc opd = nc mask ->
  indep (Z.of_nat (length modes)) (nr mask * nc mask) (basis_mat is0 zpoly mask modes true crd) ->
  exists res, zernike_remove is0 zpoly solve opd mask modes crd = Ok res /\
    (exists c', zernike_fit is0 zpoly solve res mask modes true crd = Ok c' /\ length c' = length modes /\
                forall i, 0 <= i < Z.of_nat (length modes) -> nthZ c' i = k0) /\
    (exists res', zernike_remove is0 zpoly solve res mask modes crd = Ok res' /\
                  nr res' = nr res /\ nc res' = nc res /\ forall r c, get res' r c = get res r c).
Proof. intros S R FR Crd is0 zpoly solve Hs Ht opd mask modes crd.
  exact (remove_is_projection S R FR Crd is0 zpoly solve Hs Ht opd mask modes crd). Qed.
Print Assumptions C12_remove_is_projection.

(* (c3) an OPD made only of the removed modes is reduced to zero, everywhere *)
Theorem C12_remove_compose_zero :
  forall (S : Scalar), is_ring S -> formally_real S ->
  forall (Crd : Type) (is0 : S -> bool) (zpoly : bool -> option Crd -> Z -> Z -> Z -> S) solve,
  solver_sound S solve -> solver_total S solve ->
  forall (mask : arr S) (n : Z) (modes : list Z) (cs : list S) (crd : option Crd),
  modes <> [] -> 0 <= n -> (forall i, 0 <= i < Z.of_nat (length modes) -> 1 <= nthmode modes i <= n) ->
  length cs = length modes ->
  indep (Z.of_nat (length modes)) (nr mask * nc mask) (basis_mat is0 zpoly mask modes true crd) ->
  exists res, zernike_remove is0 zpoly solve (zernike_compose is0 zpoly mask (scatter n modes cs) true crd) mask modes crd = Ok res /\
              forall r c, get res r c = k0.
Proof. intros S R FR Crd is0 zpoly solve Hs Ht mask n modes cs crd.
  exact (remove_compose_zero_total S R FR Crd is0 zpoly solve Hs Ht mask n modes cs crd). Qed.
Print Assumptions C12_remove_compose_zero.

(* (d) fit is linear *)
Theorem C12_fit_linear :
  forall (S : Scalar), is_ring S -> formally_real S ->
  forall (Crd : Type) (is0 : S -> bool) (zpoly : bool -> option Crd -> Z -> Z -> Z -> S) solve,
  solver_sound S solve ->
  forall (mask : arr S) (modes : list Z) (normalize : bool) (crd : option Crd) (a : S) (y1 y2 y3 : arr S) (c1 c2 c3 : list S),
  indep (Z.of_nat (length modes)) (nr mask * nc mask) (basis_mat is0 zpoly mask modes normalize crd) ->
  zernike_fit is0 zpoly solve y1 mask modes normalize crd = Ok c1 ->
  zernike_fit is0 zpoly solve y2 mask modes normalize crd = Ok c2 ->
  zernike_fit is0 zpoly solve y3 mask modes normalize crd = Ok c3 ->
  (forall p, 0 <= p < nr mask * nc mask -> ravel y3 p = (a * ravel y1 p + ravel y2 p)%K) ->
  forall i, 0 <= i < Z.of_nat (length modes) -> nthZ c3 i = (a * nthZ c1 i + nthZ c2 i)%K.
Proof. intros S R FR Crd is0 zpoly solve Hs mask modes nrm crd a y1 y2 y3 c1 c2 c3.
  exact (fit_linear S R FR Crd is0 zpoly solve Hs mask modes nrm crd a y1 y2 y3 c1 c2 c3). Qed.
Print Assumptions C12_fit_linear.

(* mask application: the fit sees the OPD only where the mask is non-zero; removal leaves the
   pixels outside the mask untouched *)
Theorem C12_mask_application :
  forall (S : Scalar), is_ring S -> formally_real S ->
  forall (Crd : Type) (is0 : S -> bool) (zpoly : bool -> option Crd -> Z -> Z -> Z -> S) solve,
  solver_sound S solve ->
  forall (mask : arr S) (modes : list Z) (normalize : bool) (crd : option Crd),
  (forall (y1 y2 : arr S) (c1 c2 : list S),
     indep (Z.of_nat (length modes)) (nr mask * nc mask) (basis_mat is0 zpoly mask modes normalize crd) ->
     nc y1 = nc mask -> nc y2 = nc mask ->
     (forall r c, is0 (get mask r c) = false -> get y1 r c = get y2 r c) ->
     zernike_fit is0 zpoly solve y1 mask modes normalize crd = Ok c1 ->
     zernike_fit is0 zpoly solve y2 mask modes normalize crd = Ok c2 -> c1 = c2) /\
  (forall (opd res : arr S) r c,
     zernike_remove is0 zpoly solve opd mask modes crd = Ok res ->
     is0 (get mask r c) = true -> get res r c = get opd r c).
Proof. intros S R FR Crd is0 zpoly solve Hs mask modes nrm crd. split.
  - intros y1 y2 c1 c2. exact (fit_inside_mask_only S R FR Crd is0 zpoly solve Hs mask modes nrm crd y1 y2 c1 c2).
  - intros opd res r c. exact (remove_outside_mask S R Crd is0 zpoly solve opd mask modes crd res r c). Qed.
Print Assumptions C12_mask_application.

(* (e) the executed solver is sound by construction (its answer is checked against G c = B y inside
   the model), and the two scalar structures of interest are formally real *)
Theorem C12_solver_sound :
  forall (k N : Z) (B : Z -> Z -> QS) (y : Z -> QS) (c : list QS),
  q_solve k N B y = Ok c -> Z.of_nat (length c) = k /\ NE k N B y (nthZ c).
Proof. exact q_solve_sound. Qed.
Print Assumptions C12_solver_sound.

Theorem C12_scalars : (is_ring RS /\ formally_real RS) /\ (is_ring QS /\ formally_real QS).
Proof. exact (conj (conj RS_ring RS_formally_real) (conj QS_ring QS_formally_real)). Qed.
Print Assumptions C12_scalars.

(* (e') ... and total: Gauss elimination never meets an all-zero pivot column on the Gram matrix of an
   independent family, and its answer passes the validation *)
Theorem C12_solver_total :
  forall (k N : Z) (B : Z -> Z -> QS) (y : Z -> QS),
  0 <= k -> indep k N B -> exists c : list QS, q_solve k N B y = Ok c.
Proof. exact q_solve_total. Qed.
Print Assumptions C12_solver_total.

(* the executed model itself (rationals, validated Gauss solver): no hypothesis on the solver is left *)
Theorem C12_executed_fit_compose_id :
  forall (Crd : Type) (is0 : QS -> bool) (zpoly : bool -> option Crd -> Z -> Z -> Z -> QS)
         (mask : arr QS) (n : Z) (modes : list Z) (cs : list QS) (normalize : bool) (crd : option Crd),
  modes <> [] -> 0 <= n -> (forall i, 0 <= i < Z.of_nat (length modes) -> 1 <= nthmode modes i <= n) ->
  length cs = length modes ->
  indep (Z.of_nat (length modes)) (nr mask * nc mask) (basis_mat is0 zpoly mask modes normalize crd) ->
  zernike_fit is0 zpoly q_solve (zernike_compose is0 zpoly mask (scatter n modes cs) normalize crd)
              mask modes normalize crd = Ok cs.
Proof. intros Crd is0 zpoly mask n modes cs nrm crd.
  exact (fit_compose_id_total QS QS_ring QS_formally_real Crd is0 zpoly q_solve q_solve_sound q_solve_total
                              mask n modes cs nrm crd). Qed.
Print Assumptions C12_executed_fit_compose_id.

Theorem C12_executed_remove_is_projection :
  forall (Crd : Type) (is0 : QS -> bool) (zpoly : bool -> option Crd -> Z -> Z -> Z -> QS)
         (opd mask : arr QS) (modes : list Z) (crd : option Crd),
  modes <> [] -> modes_ok modes = true -> nr opd = nr mask -> nc opd = nc mask ->
  indep (Z.of_nat (length modes)) (nr mask * nc mask) (basis_mat is0 zpoly mask modes true crd) ->
  exists res, zernike_remove is0 zpoly q_solve opd mask modes crd = Ok res /\
    (exists c', zernike_fit is0 zpoly q_solve res mask modes true crd = Ok c' /\ length c' = length modes /\
                forall i, 0 <= i < Z.of_nat (length modes) -> nthZ c' i = k0) /\
    (exists res', zernike_remove is0 zpoly q_solve res mask modes crd = Ok res' /\
                  nr res' = nr res /\ nc res' = nc res /\ forall r c, get res' r c = get res r c).
Proof. intros Crd is0 zpoly opd mask modes crd.
  exact (remove_is_projection QS QS_ring QS_formally_real Crd is0 zpoly q_solve q_solve_sound q_solve_total
                              opd mask modes crd). Qed.
Print Assumptions C12_executed_remove_is_projection.

Theorem C12_executed_remove_compose_zero :
  forall (Crd : Type) (is0 : QS -> bool) (zpoly : bool -> option Crd -> Z -> Z -> Z -> QS)
         (mask : arr QS) (n : Z) (modes : list Z) (cs : list QS) (crd : option Crd),
  modes <> [] -> 0 <= n -> (forall i, 0 <= i < Z.of_nat (length modes) -> 1 <= nthmode modes i <= n) ->
  length cs = length modes ->
  indep (Z.of_nat (length modes)) (nr mask * nc mask) (basis_mat is0 zpoly mask modes true crd) ->
  exists res, zernike_remove is0 zpoly q_solve (zernike_compose is0 zpoly mask (scatter n modes cs) true crd) mask modes crd = Ok res /\
              forall r c, get res r c = k0.
Proof. intros Crd is0 zpoly mask n modes cs crd.
  exact (remove_compose_zero_total QS QS_ring QS_formally_real Crd is0 zpoly q_solve q_solve_sound q_solve_total
                                   mask n modes cs crd). Qed.
Print Assumptions C12_executed_remove_compose_zero.

(* ================= the public entry points around the kernel (group "deepen") =================
   zernike_basis as a function of its own, which calls return / are refused, shapes of the results. *)

(* zernike_basis(mask, modes, vectorize=False, ...): refused exactly for a Noll index < 1 (ValueError);
   otherwise one array per requested mode, in the caller's order, each equal to zernike(mask, modes[i], ...)
   (an empty list gives the empty cube) *)
Theorem C12_basis_cube :
  forall (S : Scalar) (Crd : Type) (is0 : S -> bool) (zpoly : bool -> option Crd -> Z -> Z -> Z -> S)
         (mask : arr S) (modes : list Z) (normalize : bool) (crd : option Crd),
  (forall e, zernike_basis_cube is0 zpoly mask modes normalize crd = Err e -> e = ValueError /\ modes_ok modes = false) /\
  (forall cb, zernike_basis_cube is0 zpoly mask modes normalize crd = Ok cb ->
     modes_ok modes = true /\ length cb = length modes /\
     forall i, 0 <= i < Z.of_nat (length modes) ->
       nth (Z.to_nat i) cb (azeros 0 0) = zernike is0 zpoly mask (nthmode modes i) normalize crd).
Proof. intros S Crd is0 zpoly mask modes nrm crd. exact (basis_cube_spec S Crd is0 zpoly mask modes nrm crd). Qed.
Print Assumptions C12_basis_cube.

(* vectorize=True: refused for an index < 1 or an EMPTY list (reshape of an empty cube), ValueError; otherwise the
   (len(modes), mask.size) matrix whose row i is cube[i] flattened row-major *)
Theorem C12_basis_vectorized :
  forall (S : Scalar) (Crd : Type) (is0 : S -> bool) (zpoly : bool -> option Crd -> Z -> Z -> Z -> S)
         (mask : arr S) (modes : list Z) (normalize : bool) (crd : option Crd),
  (forall e, zernike_basis_vec is0 zpoly mask modes normalize crd = Err e ->
     e = ValueError /\ (modes_ok modes = false \/ modes = [])) /\
  (forall B, zernike_basis_vec is0 zpoly mask modes normalize crd = Ok B ->
     modes_ok modes = true /\ modes <> [] /\ nr B = Z.of_nat (length modes) /\ nc B = nr mask * nc mask /\
     forall cb, zernike_basis_cube is0 zpoly mask modes normalize crd = Ok cb ->
     forall i p, 0 <= i < Z.of_nat (length modes) ->
       get B i p = ravel (nth (Z.to_nat i) cb (azeros 0 0)) p).
Proof. intros S Crd is0 zpoly mask modes nrm crd. exact (basis_vec_spec S Crd is0 zpoly mask modes nrm crd). Qed.
Print Assumptions C12_basis_vectorized.

(* which calls of the EXECUTED model return, for a mode set independent on the mask: exactly the well-formed
   ones; every refusal is a ValueError; the results have the documented shapes.  [a] is the pair of coordinate
   arguments as passed (rho alone is refused as soon as a mode is evaluated, theta alone is ignored). *)
Theorem C12_compose_returns_iff :
  forall (S : Scalar) (Crd : Type) (is0 : S -> bool) (zpoly : bool -> option Crd -> Z -> Z -> Z -> S)
         (mask : arr S) (coeffs : list S) (normalize : bool) (a : coordarg Crd),
  ((exists y, zernike_compose_a is0 zpoly mask coeffs normalize a = Ok y) <-> coords_err a (length coeffs) = false) /\
  (forall e, zernike_compose_a is0 zpoly mask coeffs normalize a = Err e -> e = ValueError) /\
  (forall y, zernike_compose_a is0 zpoly mask coeffs normalize a = Ok y ->
     y = zernike_compose is0 zpoly mask coeffs normalize (coords_of a) /\ nr y = nr mask /\ nc y = nc mask).
Proof. intros S Crd is0 zpoly mask coeffs nrm a. exact (compose_a_returns S Crd is0 zpoly mask coeffs nrm a). Qed.
Print Assumptions C12_compose_returns_iff.

Theorem C12_fit_returns_iff :
  forall (Crd : Type) (is0 : QS -> bool) (zpoly : bool -> option Crd -> Z -> Z -> Z -> QS)
         (opd mask : arr QS) (modes : list Z) (normalize : bool) (a : coordarg Crd),
  (modes <> [] -> modes_ok modes = true ->
   indep (Z.of_nat (length modes)) (nr mask * nc mask) (basis_mat is0 zpoly mask modes normalize (coords_of a))) ->
  ((exists c, zernike_fit_a is0 zpoly q_solve opd mask modes normalize a = Ok c) <->
   (coords_err a (length modes) = false /\ modes_ok modes = true /\ modes <> [] /\
    nr opd * nc opd = nr mask * nc mask)) /\
  (forall e, zernike_fit_a is0 zpoly q_solve opd mask modes normalize a = Err e -> e = ValueError) /\
  (forall c, zernike_fit_a is0 zpoly q_solve opd mask modes normalize a = Ok c -> length c = length modes).
Proof. intros Crd is0 zpoly opd mask modes nrm a.
  exact (fit_a_returns QS Crd is0 zpoly q_solve q_solve_sound q_solve_total q_solve_err opd mask modes nrm a). Qed.
Print Assumptions C12_fit_returns_iff.

Theorem C12_remove_returns_iff :
  forall (Crd : Type) (is0 : QS -> bool) (zpoly : bool -> option Crd -> Z -> Z -> Z -> QS)
         (opd mask : arr QS) (modes : list Z) (a : coordarg Crd),
  (modes <> [] -> modes_ok modes = true ->
   indep (Z.of_nat (length modes)) (nr mask * nc mask) (basis_mat is0 zpoly mask modes true (coords_of a))) ->
  ((exists r, zernike_remove_a is0 zpoly q_solve opd mask modes a = Ok r) <->
   (coords_err a (length modes) = false /\ modes_ok modes = true /\ modes <> [] /\
    nr opd = nr mask /\ nc opd = nc mask)) /\
  (forall e, zernike_remove_a is0 zpoly q_solve opd mask modes a = Err e -> e = ValueError) /\
  (forall r, zernike_remove_a is0 zpoly q_solve opd mask modes a = Ok r -> nr r = nr opd /\ nc r = nc opd).
Proof. intros Crd is0 zpoly opd mask modes a.
  exact (remove_a_returns QS Crd is0 zpoly q_solve q_solve_sound q_solve_total q_solve_err opd mask modes a). Qed.
Print Assumptions C12_remove_returns_iff.

Theorem C12_basis_returns_iff :
  forall (S : Scalar) (Crd : Type) (is0 : S -> bool) (zpoly : bool -> option Crd -> Z -> Z -> Z -> S)
         (mask : arr S) (modes : list Z) (vectorize normalize : bool) (a : coordarg Crd),
  ((exists b, zernike_basis_a is0 zpoly mask modes vectorize normalize a = Ok b) <->
   (coords_err a (length modes) = false /\ modes_ok modes = true /\ (vectorize = true -> modes <> []))) /\
  (forall e, zernike_basis_a is0 zpoly mask modes vectorize normalize a = Err e -> e = ValueError).
Proof. intros S Crd is0 zpoly mask modes vectorize nrm a.
  exact (basis_a_returns S Crd is0 zpoly mask modes vectorize nrm a). Qed.
Print Assumptions C12_basis_returns_iff.

(* ---- non-vacuity: a concrete 3-mode instance on a 2x2 mask, modes requested as [3; 1; 2] ----
   family: mode 1 = 1, mode 2 = column index, mode 3 = row index (independent on the 4 pixels);
   the executed solver returns an answer, fit(compose) gives back (5, -2, 1/2), and removing the
   modes from an OPD outside their span returns a residual whose fit is (0, 0, 0). *)
Definition ex_zpoly (_ : bool) (_ : option unit) (j r c : Z) : QS :=
  if j =? 1 then Q2Qc 1 else if j =? 2 then Q2Qc (inject_Z c) else if j =? 3 then Q2Qc (inject_Z r) else Q2Qc 0.
Definition ex_is0 (q : QS) : bool := qc_eqb q (Q2Qc 0).
Definition ex_mask : arr QS := @aconst QS 2 2 (Q2Qc 1).
Definition ex_modes : list Z := [3; 1; 2].
Definition ex_cs : list QS := [Q2Qc 5; Q2Qc (-2); Q2Qc (1 # 2)].
Definition ex_opd : arr QS := @of_list QS 2 2 [Q2Qc 1; Q2Qc 2; Q2Qc 3; Q2Qc 7].

Example C12_nonvacuous :
  indep 3 4 (basis_mat ex_is0 ex_zpoly ex_mask ex_modes true None) /\
  match zernike_fit ex_is0 ex_zpoly q_solve (zernike_compose ex_is0 ex_zpoly ex_mask (scatter 3 ex_modes ex_cs) true None)
                    ex_mask ex_modes true None with
  | Ok c => map (fun q : Qc => this q) c = [5 # 1; -2 # 1; 1 # 2]
  | Err _ => False end /\
  match zernike_remove ex_is0 ex_zpoly q_solve ex_opd ex_mask ex_modes None with
  | Ok res => map (fun q : Qc => this q) (tabulate res) = [3 # 4; -3 # 4; -3 # 4; 3 # 4] /\
              match zernike_fit ex_is0 ex_zpoly q_solve res ex_mask ex_modes true None with
              | Ok c => map (fun q : Qc => this q) c = [0 # 1; 0 # 1; 0 # 1]
              | Err _ => False end
  | Err _ => False end.
Proof.
  split; [|split; [vm_compute; reflexivity | vm_compute; split; reflexivity]].
  intros d H i Hi.
  pose proof (H 0 ltac:(lia)) as H0. pose proof (H 1 ltac:(lia)) as H1. pose proof (H 2 ltac:(lia)) as H2.
  unfold lin, sumZ in H0, H1, H2. change (Z.to_nat 3) with 3%nat in H0, H1, H2.
  cbn [sumn Z.of_nat Pos.of_succ_nat Pos.succ] in H0, H1, H2.
  change (basis_mat ex_is0 ex_zpoly ex_mask ex_modes true None 0 0) with (Q2Qc 0) in H0.
  change (basis_mat ex_is0 ex_zpoly ex_mask ex_modes true None 1 0) with (Q2Qc 1) in H0.
  change (basis_mat ex_is0 ex_zpoly ex_mask ex_modes true None 2 0) with (Q2Qc 0) in H0.
  change (basis_mat ex_is0 ex_zpoly ex_mask ex_modes true None 0 1) with (Q2Qc 0) in H1.
  change (basis_mat ex_is0 ex_zpoly ex_mask ex_modes true None 1 1) with (Q2Qc 1) in H1.
  change (basis_mat ex_is0 ex_zpoly ex_mask ex_modes true None 2 1) with (Q2Qc 1) in H1.
  change (basis_mat ex_is0 ex_zpoly ex_mask ex_modes true None 0 2) with (Q2Qc 1) in H2.
  change (basis_mat ex_is0 ex_zpoly ex_mask ex_modes true None 1 2) with (Q2Qc 1) in H2.
  change (basis_mat ex_is0 ex_zpoly ex_mask ex_modes true None 2 2) with (Q2Qc 0) in H2.
  cbn [QS K kadd kmul k0] in *.
  assert (E1 : d 1 = Q2Qc 0) by (rewrite <- H0; ring).
  assert (E2 : d 2 = Q2Qc 0) by (rewrite <- H1, E1; ring).
  assert (E0 : d 0 = Q2Qc 0) by (rewrite <- H2, E1; ring).
  assert (i = 0 \/ i = 1 \/ i = 2) as [-> | [-> | ->]] by lia; assumption.
Qed.

(* the full-strength statement about the executed model applied to this instance: its hypotheses are
   satisfied by the concrete family above, and it yields the value vm_compute found *)
Example C12_nonvacuous_total :
  zernike_fit ex_is0 ex_zpoly q_solve (zernike_compose ex_is0 ex_zpoly ex_mask (scatter 3 ex_modes ex_cs) true None)
              ex_mask ex_modes true None = Ok ex_cs.
Proof. apply C12_executed_fit_compose_id; [discriminate | lia | | reflexivity | exact (proj1 C12_nonvacuous)].
  intros i Hi. cbn [length ex_modes Z.of_nat Pos.of_succ_nat Pos.succ] in Hi.
  assert (i = 0 \/ i = 1 \/ i = 2) as [-> | [-> | ->]] by lia.
  - change (nthmode ex_modes 0) with 3. lia.
  - change (nthmode ex_modes 1) with 1. lia.
  - change (nthmode ex_modes 2) with 2. lia. Qed.

(* non-vacuity of the "deepen" group on the same concrete instance: the cube and the matrix of the three modes, the
   refusals (index 0, empty list, rho without theta, wrong opd size) *)
Example C12_entry_points_nonvacuous :
  match zernike_basis_vec ex_is0 ex_zpoly ex_mask ex_modes true None with
  | Ok B => (nr B, nc B) = (3, 4) /\ map (fun q : Qc => this q) (tabulate B) =
                                     [0 # 1; 0 # 1; 1 # 1; 1 # 1;   1 # 1; 1 # 1; 1 # 1; 1 # 1;   0 # 1; 1 # 1; 0 # 1; 1 # 1]
  | Err _ => False end /\
  match zernike_basis_cube ex_is0 ex_zpoly ex_mask ex_modes true None with
  | Ok cb => length cb = 3%nat | Err _ => False end /\
  zernike_basis_a ex_is0 ex_zpoly ex_mask [] false true CNone = Ok (Datatypes.inl []) /\
  zernike_basis_a ex_is0 ex_zpoly ex_mask [] true true CNone = Err ValueError /\
  zernike_fit_a ex_is0 ex_zpoly q_solve ex_opd ex_mask [] true CNone = Err ValueError /\
  zernike_fit_a ex_is0 ex_zpoly q_solve ex_opd ex_mask [0; 2] true CNone = Err ValueError /\
  zernike_remove_a ex_is0 ex_zpoly q_solve ex_opd ex_mask ex_modes CRhoOnly = Err ValueError /\
  zernike_fit_a ex_is0 ex_zpoly q_solve (@of_list QS 1 3 [Q2Qc 1; Q2Qc 2; Q2Qc 3]) ex_mask ex_modes true CNone = Err ValueError /\
  (exists y, zernike_compose_a ex_is0 ex_zpoly ex_mask [] true CRhoOnly = Ok y).
Proof. repeat match goal with |- _ /\ _ => split end; try (vm_compute; reflexivity).
  - vm_compute. split; reflexivity.
  - eexists. reflexivity. Qed.
