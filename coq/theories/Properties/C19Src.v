(* C19 (translation layer, WP-T3) - the axis each frequency vector of the blur kernels is built from is what the
   source says NOW.  [src_<f>_freq_sizes] (Gen/BlurSrc.v) are regenerated from the text of lentil/detector.py (pixel)
   and lentil/convolvable.py (jitter, smear) by harness/gen_src.py on every check: the lengths handed to the two
   np.fft.fftfreq calls, in order (x, y).  For every shape: x is built from the COLUMN count and y from the ROW count,
   and the model's multipliers (Model/Blur.v) use fftfreq of exactly those lengths along the columns (index j) and
   the rows (index i).  (convolvable.py and detector.pixel contain no other integer arithmetic: the kernels are
   built in the frequency domain, there is no kernel-size / odd-size / centre-index computation in the code.)
   Only statements: every proof is [exact]. *)
From LV Require Import Model.Blur Gen.BlurSrc Proofs.BlurSrcP.

Theorem C19_src_pixel_freq_sizes_is_model : forall m n : Z, src_pixel_freq_sizes (m, n) = (n, m).
Proof. exact src_pixel_freq_sizes_ok. Qed.
Print Assumptions C19_src_pixel_freq_sizes_is_model.
Theorem C19_src_jitter_freq_sizes_is_model : forall m n : Z, src_jitter_freq_sizes (m, n) = (n, m).
Proof. exact src_jitter_freq_sizes_ok. Qed.
Print Assumptions C19_src_jitter_freq_sizes_is_model.
Theorem C19_src_smear_freq_sizes_is_model : forall m n : Z, src_smear_freq_sizes (m, n) = (n, m).
Proof. exact src_smear_freq_sizes_ok. Qed.
Print Assumptions C19_src_smear_freq_sizes_is_model.

Theorem C19_src_pixel_kernel_axes : forall (S : Scalar) (sinc : Qc -> S) (os : Qc) (m n i j : Z),
  let '(nx, ny) := src_pixel_freq_sizes (m, n) in
  get (pixel_mul sinc os m n) i j = (sinc (fftfreq ny i * os)%Qc * sinc (fftfreq nx j * os)%Qc)%K.
Proof. exact src_pixel_kernel_axes. Qed.
Print Assumptions C19_src_pixel_kernel_axes.

Theorem C19_src_jitter_kernel_axes : forall (S : Scalar) (gauss : Qc -> S) (scale ps os : Qc) (m n i j : Z),
  let '(nx, ny) := src_jitter_freq_sizes (m, n) in
  get (jitter_mul gauss scale ps os m n) i j =
  gauss (extent scale ps os * extent scale ps os * (fftfreq nx j * fftfreq nx j + fftfreq ny i * fftfreq ny i))%Qc.
Proof. exact src_jitter_kernel_axes. Qed.
Print Assumptions C19_src_jitter_kernel_axes.

Theorem C19_src_smear_kernel_axes : forall (S : Scalar) (sinc : Qc -> S) (d sn cs ps os : Qc) (m n i j : Z),
  let '(nx, ny) := src_smear_freq_sizes (m, n) in
  get (smear_mul sinc d sn cs ps os m n) i j = sinc ((sn * fftfreq ny i + cs * fftfreq nx j) * extent d ps os)%Qc.
Proof. exact src_smear_kernel_axes. Qed.
Print Assumptions C19_src_smear_kernel_axes.
