(* The reals are formally real (the scalars of the statement of C12; the rationals, the scalars of
   the executed model, are handled in Lib/Lsq.v without real numbers).  Imports the Reals: use only
   from Proofs/ and Properties/ files. *)
From Coq Require Import Reals Lra.
From LV Require Import Lib.Cis Lib.Lsq.
Local Open Scope R_scope.

Lemma rsumn_sq_nonneg n (f : nat -> R) : 0 <= @sumn RS n (fun i => f i * f i).
Proof. induction n as [|n IH]; cbn [sumn RS kadd k0 K]; [lra|]. pose proof (Rle_0_sqr (f n)) as H.
  unfold Rsqr in H. cbn [sumn RS kadd k0 K] in IH. lra. Qed.
Lemma rsumn_sq_zero n (f : nat -> R) :
  @sumn RS n (fun i => f i * f i) = 0 -> forall i, (i < n)%nat -> f i = 0.
Proof. induction n as [|n IH]; intros H i Hi; [lia|]. cbn [sumn RS kadd k0 K] in H.
  pose proof (rsumn_sq_nonneg n f) as H0. pose proof (Rle_0_sqr (f n)) as Hn. unfold Rsqr in Hn.
  assert (H1 : @sumn RS n (fun i => f i * f i) = 0) by lra.
  assert (H2 : f n * f n = 0) by lra.
  destruct (Nat.eq_dec i n) as [->|Hne].
  - apply Rmult_integral in H2. tauto.
  - apply IH; [exact H1 | lia]. Qed.

Theorem RS_formally_real : formally_real RS.
Proof. intros N f H p Hp. unfold sumZ in H.
  rewrite <- (Z2Nat.id p) by lia.
  apply (rsumn_sq_zero (Z.to_nat N) (fun i => f (Z.of_nat i)) H (Z.to_nat p)). lia. Qed.
