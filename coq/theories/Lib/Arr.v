(* Pull arrays: a shape and an index function.  numpy slicing is an index shift, element-wise
   operations are point-wise on [get], reductions are BigSums.  [force] materialises an array
   into a list (the model calls it where the code creates a real ndarray) so that the extracted
   model does not recompute shared sub-results. *)
From LV Require Export Lib.BigSum.

Record arr (S : Scalar) := mkArr { nr : Z; nc : Z; get : Z -> Z -> S }.
Arguments mkArr {S}. Arguments nr {S}. Arguments nc {S}. Arguments get {S}.

Section Arr.
Variable S : Scalar.

Definition rows (n m : nat) (g : nat -> nat -> S) : list S :=
  flat_map (fun i => map (g i) (seq 0 m)) (seq 0 n).

Definition tabulate (a : arr S) : list S :=
  rows (Z.to_nat (nr a)) (Z.to_nat (nc a)) (fun i j => get a (Z.of_nat i) (Z.of_nat j)).

Definition of_list (n m : Z) (l : list S) : arr S :=
  mkArr n m (fun i j => if inr n i && inr m j then nth (Z.to_nat (i * m + j)) l k0 else k0).

Definition force (a : arr S) : arr S := of_list (nr a) (nc a) (tabulate a).

Definition amap (f : S -> S) (a : arr S) : arr S := mkArr (nr a) (nc a) (fun i j => f (get a i j)).
Definition azeros (n m : Z) : arr S := mkArr n m (fun _ _ => k0).
Definition aconst (n m : Z) (v : S) : arr S := mkArr n m (fun _ _ => v).
(* numpy basic slicing a[r0:r1, c0:c1] with in-range, ordered bounds *)
Definition aslice (a : arr S) (r0 r1 c0 c1 : Z) : arr S :=
  mkArr (r1 - r0) (c1 - c0) (fun i j => get a (i + r0) (j + c0)).
(* total of all samples *)
Definition asum (a : arr S) : S := sumZ (nr a) (fun i => sumZ (nc a) (fun j => get a i j)).
End Arr.
Arguments rows {S}. Arguments tabulate {S}. Arguments of_list {S}. Arguments force {S}.
Arguments amap {S}. Arguments azeros {S}. Arguments aconst {S}. Arguments aslice {S}. Arguments asum {S}.
