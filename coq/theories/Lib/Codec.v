(* Decoding of test cases (lists of integers) into model values and encoding of results.
   A parser consumes a prefix of the list; [None] = malformed case (a harness bug, result code 2). *)
From LV Require Export Lib.GRing Lib.Arr.

Definition parser (A : Type) := list Z -> option (A * list Z).
Definition pret {A} (a : A) : parser A := fun l => Some (a, l).
Definition pbind {A B} (p : parser A) (f : A -> parser B) : parser B :=
  fun l => match p l with Some (a, r) => f a r | None => None end.
Definition pfail {A} : parser A := fun _ => None.
Notation "x <- p ;; q" := (pbind p (fun x => q)) (at level 61, p at next level, right associativity).
Notation "' pat <- p ;; q" := (pbind p (fun x => match x with pat => q end))
  (at level 61, pat pattern, p at next level, right associativity).

Definition pZ : parser Z := fun l => match l with x :: r => Some (x, r) | [] => None end.
Definition pnat : parser nat := x <- pZ ;; if x <? 0 then pfail else pret (Z.to_nat x).
Definition pbool : parser bool := x <- pZ ;; pret (negb (x =? 0)).
Definition pQ : parser Qc :=
  n <- pZ ;; d <- pZ ;; if d <=? 0 then pfail else pret (Q2Qc (n # Z.to_pos d)).
Definition pCQ : parser CQ := a <- pQ ;; b <- pQ ;; pret (a, b).
Fixpoint prep {A} (n : nat) (p : parser A) : parser (list A) :=
  match n with O => pret [] | Datatypes.S k => x <- p ;; r <- prep k p ;; pret (x :: r) end.
Definition plist {A} (p : parser A) : parser (list A) := n <- pnat ;; prep n p.
Definition popt {A} (p : parser A) : parser (option A) :=
  t <- pZ ;; if t =? 0 then pret None else x <- p ;; pret (Some x).
Definition ppair {A B} (p : parser A) (q : parser B) : parser (A * B) := a <- p ;; b <- q ;; pret (a, b).
(* parse everything, require the input to be used up *)
Definition pall {A} (p : parser A) (l : list Z) : option A :=
  match p l with Some (a, []) => Some a | _ => None end.

(* complex-rational scalar embedded in the group ring *)
Definition pK (L : nat) : parser (GRS L) := c <- pCQ ;; pret (gofc L c).
(* arrays: nr nc then row-major scalars *)
Definition parr (L : nat) : parser (arr (GRS L)) :=
  n <- pZ ;; m <- pZ ;;
  if (n <? 0) || (m <? 0) then pfail else
  l <- prep (Z.to_nat (n * m)) (pK L) ;; pret (of_list n m l).

(* ---- encoders ---- *)
Definition eQ (q : Qc) : list Z := [Qnum (this q); Zpos (Qden (this q))].
Definition eCQ (c : CQ) : list Z := eQ (fst c) ++ eQ (snd c).
(* a group-ring element: its L coefficients; malformed -> a single -1 marker the harness rejects *)
Definition eK (L : nat) (x : GRS L) : list Z :=
  if Nat.eqb (length x) L then flat_map eCQ x else [-1; -1; -1; -1].
Definition earr (L : nat) (a : arr (GRS L)) : list Z :=
  nr a :: nc a :: flat_map (eK L) (tabulate a).
Definition eopt {A} (e : A -> list Z) (o : option A) : list Z :=
  match o with None => [0] | Some a => 1 :: e a end.
Definition elist {A} (e : A -> list Z) (l : list A) : list Z :=
  Z.of_nat (length l) :: flat_map e l.
Definition eresult {A} (e : A -> list Z) (r : result A) : list Z :=
  match r with Ok a => 0 :: e a | Err k => [1; errcode k] end.
Definition emalformed : list Z := [2].
