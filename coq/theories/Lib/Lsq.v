(* Linear least squares in an arbitrary commutative ring, and an executable Gauss solver.

   Part 1 (ring-generic): the normal equations  B (y - B^T c) = 0  of the problem "approximate the
   vector y (indexed by points p) by sum_i c_i * B i p", their Gram form  G c = B y, linearity, and
   UNIQUENESS of the solution for a linearly independent family in a formally real ring (a ring in
   which a sum of squares vanishes only if every term does: the reals, the rationals).
   Part 2: Gauss elimination with back substitution over any ring with an inverse operation and a
   boolean equality test.  Its result is not trusted: [gauss_solve] returns [Ok c] only after it has
   checked  G c = B y  exactly, so "returns Ok c -> c solves the normal equations" holds by
   construction ([gauss_solve_sound]).  [QS] is the execution instance: the field of rationals.
   No real numbers are needed in this file (see Lib/LsqR.v for the instances of [formally_real]). *)
From Coq Require Import Lqa.
From LV Require Export Lib.BigSum.

Definition formally_real (S : Scalar) : Prop :=
  forall (N : Z) (f : Z -> S), sumZ N (fun p => (f p * f p)%K) = k0 -> forall p, 0 <= p < N -> f p = k0.

(* index a list by an integer, out of range -> zero *)
Definition nthZ {S : Scalar} (l : list S) (i : Z) : S := nth (Z.to_nat i) l k0.
(* the list  [f 0; ...; f (n-1)] *)
Definition tabZ {A : Type} (n : Z) (f : Z -> A) : list A := map (fun i => f (Z.of_nat i)) (seq 0 (Z.to_nat n)).

Section Lsq.
Variable S : Scalar.
Hypothesis Sring : is_ring S.
Add Ring Sr : Sring.

Lemma sumZ_sub n (f g : Z -> S) : sumZ n (fun i => (f i - g i)%K) = (sumZ n f - sumZ n g)%K.
Proof. unfold sumZ. induction (Z.to_nat n) as [|m IH]; cbn [sumn]; [ring|]. rewrite IH. ring. Qed.

(* k basis vectors sampled on N points: B i p, 0 <= i < k, 0 <= p < N *)
Definition lin (k : Z) (B : Z -> Z -> S) (c : Z -> S) (p : Z) : S := sumZ k (fun i => (c i * B i p)%K).
(* the normal equations: the residual is orthogonal to every basis vector *)
Definition NE (k N : Z) (B : Z -> Z -> S) (y c : Z -> S) : Prop :=
  forall j, 0 <= j < k -> sumZ N (fun p => (B j p * (y p - lin k B c p))%K) = k0.
(* linear independence of the k sampled vectors *)
Definition indep (k N : Z) (B : Z -> Z -> S) : Prop :=
  forall d : Z -> S, (forall p, 0 <= p < N -> lin k B d p = k0) -> forall i, 0 <= i < k -> d i = k0.
Definition gram (N : Z) (B : Z -> Z -> S) (j i : Z) : S := sumZ N (fun p => (B j p * B i p)%K).
Definition rhs (N : Z) (B : Z -> Z -> S) (y : Z -> S) (j : Z) : S := sumZ N (fun p => (B j p * y p)%K).

Lemma lin_ext k B c c' p : (forall i, 0 <= i < k -> c i = c' i) -> lin k B c p = lin k B c' p.
Proof. intros H. unfold lin. apply sumZ_ext. intros i Hi. rewrite H by assumption. reflexivity. Qed.
Lemma lin_sub k B c c' p : lin k B (fun i => (c i - c' i)%K) p = (lin k B c p - lin k B c' p)%K.
Proof. unfold lin. rewrite <- sumZ_sub. apply sumZ_ext; intros; ring. Qed.
Lemma lin_comb k B a c c' p : lin k B (fun i => (a * c i + c' i)%K) p = (a * lin k B c p + lin k B c' p)%K.
Proof. unfold lin. rewrite <- sumZ_scale_l, <- sumZ_add by assumption. apply sumZ_ext; intros; ring. Qed.
Lemma lin_zero k B p : lin k B (fun _ => k0) p = k0.
Proof. unfold lin. apply sumZ_zero_ext; [assumption|]. intros; ring. Qed.

(* Gram form of the normal equations *)
Lemma NE_residual k N B y c j :
  sumZ N (fun p => (B j p * (y p - lin k B c p))%K) = (rhs N B y j - sumZ k (fun i => (gram N B j i * c i)%K))%K.
Proof.
  unfold rhs, gram.
  rewrite (sumZ_ext S N _ (fun p => (B j p * y p - sumZ k (fun i => (B j p * B i p * c i)%K))%K)).
  - rewrite sumZ_sub. f_equal. rewrite sumZ_exchange by assumption. apply sumZ_ext. intros i _.
    rewrite sumZ_scale_r by assumption. reflexivity.
  - intros p _. unfold lin.
    replace (sumZ k (fun i => (B j p * B i p * c i)%K)) with (B j p * sumZ k (fun i => (c i * B i p)%K))%K.
    + ring.
    + rewrite <- sumZ_scale_l by assumption. apply sumZ_ext; intros; ring.
Qed.
Lemma NE_gram k N B y c :
  NE k N B y c <-> (forall j, 0 <= j < k -> sumZ k (fun i => (gram N B j i * c i)%K) = rhs N B y j).
Proof.
  split; intros H j Hj; specialize (H j Hj); rewrite NE_residual in *.
  - transitivity (rhs N B y j - (rhs N B y j - sumZ k (fun i => (gram N B j i * c i)%K)))%K; [ring|].
    rewrite H. ring.
  - rewrite H. ring.
Qed.

Lemma NE_ext k N B y y' c c' :
  (forall p, 0 <= p < N -> y p = y' p) -> (forall i, 0 <= i < k -> c i = c' i) -> NE k N B y c -> NE k N B y' c'.
Proof. intros Hy Hc H j Hj. etransitivity; [|exact (H j Hj)]. apply sumZ_ext. intros p Hp.
  rewrite (Hy p Hp), (lin_ext k B c c' p Hc). reflexivity. Qed.

(* the normal equations are linear in (y, c) *)
Lemma NE_comb k N B a y1 y2 c1 c2 :
  NE k N B y1 c1 -> NE k N B y2 c2 ->
  NE k N B (fun p => (a * y1 p + y2 p)%K) (fun i => (a * c1 i + c2 i)%K).
Proof. intros H1 H2 j Hj.
  rewrite (sumZ_ext S N _ (fun p => (a * (B j p * (y1 p - lin k B c1 p)) + B j p * (y2 p - lin k B c2 p))%K)).
  - rewrite sumZ_add, sumZ_scale_l, (H1 j Hj), (H2 j Hj) by assumption. ring.
  - intros p _. rewrite lin_comb. ring. Qed.
(* a signal in the span is fitted by its own coefficients *)
Lemma NE_span k N B y c : (forall p, 0 <= p < N -> y p = lin k B c p) -> NE k N B y c.
Proof. intros H j Hj. apply sumZ_zero_ext; [assumption|]. intros p Hp. rewrite (H p Hp). ring. Qed.
(* the residual of a least-squares fit is fitted by zero *)
Lemma NE_of_residual k N B y c :
  NE k N B y c -> NE k N B (fun p => (y p - lin k B c p)%K) (fun _ => k0).
Proof. intros H j Hj. etransitivity; [|exact (H j Hj)]. apply sumZ_ext. intros p _. rewrite lin_zero. ring. Qed.

(* (a) uniqueness: an independent family has at most one solution of the normal equations *)
Theorem lsq_unique k N B y c c' :
  formally_real S -> indep k N B -> NE k N B y c -> NE k N B y c' -> forall i, 0 <= i < k -> c i = c' i.
Proof.
  intros FR Hi H1 H2. set (d := fun i => (c i - c' i)%K).
  assert (Hlin : forall p, lin k B d p = (lin k B c p - lin k B c' p)%K) by (intro p; apply lin_sub).
  assert (Hd : forall j, 0 <= j < k -> sumZ N (fun p => (B j p * lin k B d p)%K) = k0).
  { intros j Hj. specialize (H1 j Hj). specialize (H2 j Hj).
    rewrite (sumZ_ext S N _ (fun p => (B j p * (y p - lin k B c' p) - B j p * (y p - lin k B c p))%K)).
    - rewrite sumZ_sub, H1, H2. ring.
    - intros p _. rewrite Hlin. ring. }
  assert (Hsq : sumZ N (fun p => (lin k B d p * lin k B d p)%K) = k0).
  { rewrite (sumZ_ext S N _ (fun p => sumZ k (fun j => (d j * (B j p * lin k B d p))%K))).
    - rewrite sumZ_exchange by assumption. apply sumZ_zero_ext; [assumption|]. intros j Hj.
      rewrite sumZ_scale_l, Hd by assumption. ring.
    - intros p _. unfold lin at 1. rewrite <- sumZ_scale_r by assumption. apply sumZ_ext; intros; ring. }
  intros i Hi'. assert (Hz : d i = k0).
  { apply Hi; [|assumption]. intros p Hp. exact (FR N (lin k B d) Hsq p Hp). }
  unfold d in Hz. transitivity (c i - c' i + c' i)%K; [ring | rewrite Hz; ring].
Qed.

(* ---------------------------------------------------------------------------------------- *)
(* lists *)
Lemma nth_tabZ {A} n (f : Z -> A) d i : 0 <= i < n -> nth (Z.to_nat i) (tabZ n f) d = f i.
Proof. intros H. unfold tabZ.
  rewrite (nth_indep _ d (f (Z.of_nat 0))) by (rewrite map_length, seq_length; lia).
  rewrite (map_nth (fun i => f (Z.of_nat i))), seq_nth by lia. f_equal. lia. Qed.
Lemma length_tabZ {A} n (f : Z -> A) : length (tabZ n f) = Z.to_nat n.
Proof. unfold tabZ. rewrite map_length, seq_length. reflexivity. Qed.
Lemma nthZ_tabZ n (f : Z -> S) i : 0 <= i < n -> nthZ (tabZ n f) i = f i.
Proof. apply nth_tabZ. Qed.

Fixpoint dotacc (acc : S) (a b : list S) : S :=
  match a, b with x :: r, y :: t => dotacc (acc + x * y)%K r t | _, _ => acc end.
Definition dotl (a b : list S) : S := dotacc k0 a b.
Lemma dotacc_seq (f g : nat -> S) m : forall s acc,
  dotacc acc (map f (seq s m)) (map g (seq s m)) = (acc + sumn m (fun i => (f (s + i)%nat * g (s + i)%nat)%K))%K.
Proof. induction m as [|m IH]; intros s acc; [cbn; ring|].
  cbn [seq map dotacc]. rewrite IH, sumn_head by assumption. rewrite Nat.add_0_r.
  rewrite (sumn_ext S m (fun i => (f (s + Datatypes.S i)%nat * g (s + Datatypes.S i)%nat)%K)
                        (fun i => (f (Datatypes.S s + i)%nat * g (Datatypes.S s + i)%nat)%K)).
  - ring.
  - intros i _. rewrite Nat.add_succ_r. reflexivity. Qed.
Lemma dotl_tabZ n (f g : Z -> S) : dotl (tabZ n f) (tabZ n g) = sumZ n (fun p => (f p * g p)%K).
Proof. unfold dotl, tabZ, sumZ. rewrite dotacc_seq. cbn [Nat.add]. ring. Qed.
End Lsq.
Arguments lin {S}. Arguments NE {S}. Arguments indep {S}. Arguments gram {S}. Arguments rhs {S}.
Arguments dotl {S}.

(* ---------------------------------------------------------------------------------------- *)
(* Gauss elimination.  [kinv] and [keqb] are the only operations beyond the ring. *)
Section Gauss.
Variable S : Scalar.
Hypothesis Sring : is_ring S.
Variable kinv : S -> S.
Variable keqb : S -> S -> bool.
Hypothesis keqb_sound : forall a b, keqb a b = true -> a = b.

Fixpoint zipw (f : S -> S -> S) (a b : list S) : list S :=
  match a, b with x :: r, y :: t => f x y :: zipw f r t | _, _ => [] end.

(* first row whose leading entry is not zero, and the other rows in their order *)
Fixpoint pick (rows : list (list S)) : option (list S * list (list S)) :=
  match rows with
  | [] => None
  | r :: rest =>
      match r with
      | [] => None
      | h :: _ => if keqb h k0
                  then match pick rest with Some (p, others) => Some (p, r :: others) | None => None end
                  else Some (r, rest)
      end
  end.

(* forward elimination on augmented rows.  Every row holds its coefficients from the current
   column on, followed by the right-hand side; the result rows are normalised (leading 1 dropped) *)
Fixpoint forward (n : nat) (rows : list (list S)) : option (list (list S)) :=
  match n with
  | O => Some []
  | Datatypes.S n' =>
      match pick rows with
      | Some (p :: ptl, others) =>
          let ip := kinv p in
          let prow := map (fun x => (x * ip)%K) ptl in
          let others' := map (fun r => match r with
                                       | h :: tl => zipw (fun a b => (b - h * a)%K) prow tl
                                       | [] => [] end) others in
          match forward n' others' with Some U => Some (prow :: U) | None => None end
      | _ => None
      end
  end.

(* row = [u_{t,t+1}; ...; u_{t,k-1}; rhs_t],  xs = [x_{t+1}; ...; x_{k-1}]  |->  x_t *)
Fixpoint rowval (row xs : list S) : S :=
  match row, xs with
  | a :: row', x :: xs' => (rowval row' xs' - a * x)%K
  | r :: _, [] => r
  | [], _ => k0
  end.
Fixpoint back (U : list (list S)) : list S :=
  match U with [] => [] | row :: U' => let xs := back U' in rowval row xs :: xs end.

(* the validation: G c = h exactly, and c has k entries *)
Definition check_normal_eqs (k : Z) (G : list (list S)) (h c : list S) : bool :=
  (Z.of_nat (length c) =? k) &&
  forallb (fun j => keqb (sumZ k (fun i => (nthZ (nth (Z.to_nat j) G []) i * nthZ c i)%K)) (nthZ h j))
          (tabZ k (fun j => j)).

Definition gauss_solve (k N : Z) (B : Z -> Z -> S) (y : Z -> S) : result (list S) :=
  let Bm := tabZ k (fun i => tabZ N (B i)) in      (* the k x N matrix, materialised *)
  let yv := tabZ N y in
  let G := map (fun bj => map (fun bi => dotl bj bi) Bm) Bm in
  let h := map (fun bj => dotl bj yv) Bm in
  let aug := map (fun gh => fst gh ++ [snd gh]) (combine G h) in
  match forward (Z.to_nat k) aug with
  | None => Err ValueError            (* singular Gram matrix: the family is dependent *)
  | Some U => let c := back U in
              if check_normal_eqs k G h c then Ok c else Err ValueError
  end.

(* (e) whatever elimination did, an accepted answer solves the normal equations *)
Theorem gauss_solve_sound k N B y c :
  gauss_solve k N B y = Ok c -> Z.of_nat (length c) = k /\ NE k N B y (nthZ c).
Proof.
  unfold gauss_solve. destruct (forward _ _) as [U|]; [|discriminate].
  destruct (check_normal_eqs _ _ _ _) eqn:E; [|discriminate]. intros H. injection H as <-.
  unfold check_normal_eqs in E. apply andb_true_iff in E as [E1 E2]. split; [lia|].
  apply (NE_gram S Sring). intros j Hj.
  rewrite forallb_forall in E2. specialize (E2 j).
  assert (Hin : In j (tabZ k (fun j => j))).
  { unfold tabZ. apply in_map_iff. exists (Z.to_nat j). split; [lia|]. apply in_seq. lia. }
  apply E2, keqb_sound in Hin. clear E2.
  assert (Hlen : length (tabZ k (fun i => tabZ N (B i))) = Z.to_nat k) by apply length_tabZ.
  assert (Hrow : forall i, 0 <= i < k -> nth (Z.to_nat i) (tabZ k (fun i => tabZ N (B i))) [] = tabZ N (B i))
    by (intros i Hi; apply (nth_tabZ k (fun i => tabZ N (B i)) [] i Hi)).
  unfold nthZ at 3 in Hin.
  rewrite (nth_indep _ k0 (dotl [] (tabZ N y))) in Hin by (rewrite map_length; lia).
  rewrite (map_nth (fun bj => dotl bj (tabZ N y))), Hrow, (dotl_tabZ S Sring) in Hin by assumption.
  unfold rhs. rewrite <- Hin. apply sumZ_ext. intros i Hi. f_equal.
  rewrite (nth_indep _ [] (map (fun bi => dotl [] bi) (tabZ k (fun i => tabZ N (B i)))))
    by (rewrite map_length; lia).
  rewrite (map_nth (fun bj => map (fun bi => dotl bj bi) (tabZ k (fun i => tabZ N (B i))))), Hrow by assumption.
  unfold nthZ. rewrite (nth_indep _ k0 (dotl (tabZ N (B j)) [])) by (rewrite map_length; lia).
  rewrite (map_nth (fun bi => dotl (tabZ N (B j)) bi)), Hrow, (dotl_tabZ S Sring) by assumption.
  reflexivity.
Qed.
End Gauss.
Arguments gauss_solve {S}. Arguments check_normal_eqs {S}. Arguments forward {S}. Arguments back {S}.

(* ---------------------------------------------------------------------------------------- *)
(* the execution instance: the rationals *)
Definition QS : Scalar :=
  mkScalar Qc (Q2Qc 0) (Q2Qc 1) Qcplus Qcmult Qcminus Qcopp (fun x => x) (fun q => q) (fun _ => Q2Qc 1).
Lemma QS_ring : is_ring QS. Proof. exact Qcrt. Qed.
Definition qc_eqb (a b : Qc) : bool := Qeq_bool (this a) (this b).
Lemma qc_eqb_sound a b : qc_eqb a b = true -> a = b.
Proof. intros H. apply Qc_is_canon. apply Qeq_bool_iff. exact H. Qed.
Definition q_solve : Z -> Z -> (Z -> Z -> QS) -> (Z -> QS) -> result (list QS) :=
  @gauss_solve QS Qcinv qc_eqb.
Theorem q_solve_sound k N B y c :
  q_solve k N B y = Ok c -> Z.of_nat (length c) = k /\ NE k N B y (nthZ c).
Proof. exact (gauss_solve_sound QS QS_ring Qcinv qc_eqb qc_eqb_sound k N B y c). Qed.

(* the rationals are formally real (no real numbers involved) *)
Lemma qc_sq_nonneg (x : Qc) : (0 <= this (x * x)%Qc)%Q.
Proof. unfold Qcmult, Q2Qc; cbn [this]. rewrite Qred_correct. unfold Qle, Qmult; cbn. nia. Qed.
Lemma qc_this_add (a b : Qc) : (this (a + b)%Qc == this a + this b)%Q.
Proof. unfold Qcplus, Q2Qc; cbn [this]. apply Qred_correct. Qed.
Lemma qc_sum_nonneg n (f : nat -> Qc) : (0 <= this (@sumn QS n (fun i => (f i * f i)%Qc)))%Q.
Proof. induction n as [|n IH]; cbn [sumn QS kadd k0 K].
  - cbn. apply Qle_refl.
  - rewrite qc_this_add. pose proof (qc_sq_nonneg (f n)). lra. Qed.
Lemma qc_eq0 (a : Qc) : (this a == 0)%Q -> a = Q2Qc 0.
Proof. intros H. apply Qc_is_canon. rewrite H. cbn. reflexivity. Qed.
Lemma qc_sumsq_zero n (f : nat -> Qc) :
  @sumn QS n (fun i => (f i * f i)%Qc) = Q2Qc 0 -> forall i, (i < n)%nat -> f i = Q2Qc 0.
Proof. induction n as [|n IH]; intros H i Hi; [lia|]. cbn [sumn QS kadd k0 K] in H.
  pose proof (qc_sum_nonneg n f) as Ha. pose proof (qc_sq_nonneg (f n)) as Hb.
  assert (E : (this (@sumn QS n (fun i => (f i * f i)%Qc)) + this (f n * f n)%Qc == 0)%Q).
  { rewrite <- qc_this_add. cbn [QS K kmul] in *. rewrite H. cbn. reflexivity. }
  destruct (Nat.eq_dec i n) as [->|Hne].
  - assert (E2 : (this (f n * f n)%Qc == 0)%Q) by lra.
    unfold Qcmult, Q2Qc in E2; cbn [this] in E2. rewrite Qred_correct in E2.
    apply Qmult_integral in E2. apply qc_eq0. tauto.
  - apply IH; [|lia]. apply qc_eq0. lra. Qed.
Theorem QS_formally_real : formally_real QS.
Proof. intros N f H p Hp. unfold sumZ in H. rewrite <- (Z2Nat.id p) by lia.
  apply (qc_sumsq_zero (Z.to_nat N) (fun i => f (Z.of_nat i)) H (Z.to_nat p)). lia. Qed.
