(* Concrete scalar structures used for non-vacuity examples: the integers. *)
From LV Require Export Lib.Scalar.
Definition ZS : Scalar := mkScalar Z 0 1 Z.add Z.mul Z.sub Z.opp (fun x => x) (fun _ => 0) (fun _ => 1).
Lemma ZS_ring : is_ring ZS. Proof. exact Zth. Qed.
