(* Complex exponentials over Coquelicot's C and the scalar structure [CS] on which the
   analytic theorems about Fourier kernels are stated.

   - [Q2R] is a field morphism on the canonical rationals [Qc];
   - [qz a n] is the rational phase a/n (in turns);
   - [cis t = (cos t, sin t)], additivity, periodicity over Z;
   - [CS]: the Scalar instance with  ke t = exp(-2 pi i t) = cis (-(2 PI t)),  its ring, kernel,
     periodicity and conjugation laws;  [RS]: the reals as a Scalar (for sums of real arrays);
   - orthogonality of the roots of unity ([roots_orth], [roots_sum], and the [ke]/[sumZ] forms);
   - the 1-D inverse DFT theorem for arbitrary index origins (origin 0 = numpy's fft/ifft,
     origin n/2 = centred transforms). *)
From Coq Require Import Reals Lra QArith Qreals Qcanon.
From Coquelicot Require Import Complex.
From LV Require Export Lib.BigSum.

Local Open Scope R_scope.

(* ------------------------------------------------------------------------------------------ *)
(** * Q2R on canonical rationals *)

Lemma Q2R_Qc_add (a b : Qc) : Q2R (a + b)%Qc = Q2R a + Q2R b.
Proof. rewrite <- Q2R_plus. apply Qeq_eqR. unfold Qcplus, Q2Qc. cbn [this]. apply Qred_correct. Qed.
Lemma Q2R_Qc_mul (a b : Qc) : Q2R (a * b)%Qc = Q2R a * Q2R b.
Proof. rewrite <- Q2R_mult. apply Qeq_eqR. unfold Qcmult, Q2Qc. cbn [this]. apply Qred_correct. Qed.
Lemma Q2R_Qc_opp (a : Qc) : Q2R (- a)%Qc = - Q2R a.
Proof. rewrite <- Q2R_opp. apply Qeq_eqR. unfold Qcopp, Q2Qc. cbn [this]. apply Qred_correct. Qed.
Lemma Q2R_Qc_sub (a b : Qc) : Q2R (a - b)%Qc = Q2R a - Q2R b.
Proof. unfold Qcminus. rewrite Q2R_Qc_add, Q2R_Qc_opp. reflexivity. Qed.
Lemma Q2R_Qc_0 : Q2R 0%Qc = 0. Proof. cbn. unfold Q2R; cbn. lra. Qed.
Lemma Q2R_Qc_1 : Q2R 1%Qc = 1. Proof. cbn. unfold Q2R; cbn. lra. Qed.
Lemma Q2R_Qc_inv (a : Qc) : a <> 0%Qc -> Q2R (/ a)%Qc = / Q2R a.
Proof. intros H. rewrite <- Q2R_inv.
  - apply Qeq_eqR. unfold Qcinv, Q2Qc. cbn [this]. apply Qred_correct.
  - intro E. apply H. apply Qc_is_canon. exact E. Qed.
Lemma Q2R_Qc_div (a b : Qc) : b <> 0%Qc -> Q2R (a / b)%Qc = Q2R a / Q2R b.
Proof. intros H. unfold Qcdiv. rewrite Q2R_Qc_mul, Q2R_Qc_inv by assumption. reflexivity. Qed.

Definition Z2Qc (z : Z) : Qc := Q2Qc (inject_Z z).
Lemma Q2R_Z2Qc z : Q2R (Z2Qc z) = IZR z.
Proof. unfold Z2Qc. rewrite (Qeq_eqR _ (inject_Z z)) by (unfold Q2Qc; cbn [this]; apply Qred_correct).
  unfold Q2R, inject_Z; cbn. field. Qed.
Lemma Z2Qc_neq0 z : z <> 0%Z -> Z2Qc z <> 0%Qc.
Proof. intros H E. apply (f_equal (fun q : Qc => Q2R q)) in E. rewrite Q2R_Z2Qc, Q2R_Qc_0 in E.
  apply eq_IZR in E. contradiction. Qed.
Lemma Q2R_inj_Qc (a b : Qc) : Q2R a = Q2R b -> a = b.
Proof. intros H. apply Qc_is_canon. apply eqR_Qeq. exact H. Qed.

(* the phase a/n, in turns *)
Definition qz (a n : Z) : Qc := (Z2Qc a / Z2Qc n)%Qc.
Lemma Q2R_qz a n : n <> 0%Z -> Q2R (qz a n) = IZR a / IZR n.
Proof. intros H. unfold qz. rewrite Q2R_Qc_div by (apply Z2Qc_neq0; assumption).
  now rewrite !Q2R_Z2Qc. Qed.
Lemma qz_add a b n : n <> 0%Z -> qz (a + b) n = (qz a n + qz b n)%Qc.
Proof. intros H. apply Q2R_inj_Qc. rewrite Q2R_Qc_add, !Q2R_qz, plus_IZR by assumption.
  field. now apply not_0_IZR. Qed.
Lemma qz_opp a n : n <> 0%Z -> qz (- a) n = (- qz a n)%Qc.
Proof. intros H. apply Q2R_inj_Qc. rewrite Q2R_Qc_opp, !Q2R_qz, opp_IZR by assumption.
  field. now apply not_0_IZR. Qed.
Lemma qz_0 n : n <> 0%Z -> qz 0 n = 0%Qc.
Proof. intros H. apply Q2R_inj_Qc. rewrite Q2R_qz, Q2R_Qc_0 by assumption. unfold Rdiv. ring. Qed.
(* whole turns *)
Lemma qz_mul_n q n : n <> 0%Z -> qz (q * n) n = Z2Qc q.
Proof. intros H. apply Q2R_inj_Qc. rewrite Q2R_qz, Q2R_Z2Qc, mult_IZR by assumption.
  field. now apply not_0_IZR. Qed.

(* ------------------------------------------------------------------------------------------ *)
(** * cis *)

Definition cis (t : R) : C := (cos t, sin t).
Lemma cis_add a b : cis (a + b) = Cmult (cis a) (cis b).
Proof. unfold cis, Cmult; cbn. rewrite cos_plus, sin_plus. f_equal; ring. Qed.
Lemma cis_0 : cis 0 = RtoC 1. Proof. unfold cis; now rewrite cos_0, sin_0. Qed.
Lemma cis_opp t : cis (- t) = Cconj (cis t).
Proof. unfold cis, Cconj; cbn. now rewrite cos_neg, sin_neg. Qed.
Lemma Cmod_cis t : Cmod (cis t) = 1.
Proof. unfold Cmod, cis; cbn [fst snd]. replace (cos t ^ 2 + sin t ^ 2) with 1; [apply sqrt_1|].
  pose proof (sin2_cos2 t) as H. unfold Rsqr in H. lra. Qed.

Lemma cos_period_Z x (k : Z) : cos (x + 2 * IZR k * PI) = cos x.
Proof. destruct (Z_le_gt_dec 0 k) as [H|H].
  - rewrite <- (Z2Nat.id k H), <- INR_IZR_INZ. apply cos_period.
  - rewrite <- (cos_period (x + 2 * IZR k * PI) (Z.to_nat (- k))). f_equal.
    rewrite INR_IZR_INZ, Z2Nat.id by lia. rewrite opp_IZR. ring. Qed.
Lemma sin_period_Z x (k : Z) : sin (x + 2 * IZR k * PI) = sin x.
Proof. destruct (Z_le_gt_dec 0 k) as [H|H].
  - rewrite <- (Z2Nat.id k H), <- INR_IZR_INZ. apply sin_period.
  - rewrite <- (sin_period (x + 2 * IZR k * PI) (Z.to_nat (- k))). f_equal.
    rewrite INR_IZR_INZ, Z2Nat.id by lia. rewrite opp_IZR. ring. Qed.
Lemma cis_2PI_Z (k : Z) : cis (2 * PI * IZR k) = RtoC 1.
Proof.
  unfold cis. replace (2 * PI * IZR k) with (0 + 2 * IZR k * PI) by ring.
  rewrite cos_period_Z, sin_period_Z, cos_0, sin_0. reflexivity.
Qed.
(* cis t = 1 only at whole turns *)
Lemma cis_eq_1 t : cis t = RtoC 1 -> exists k : Z, t = 2 * PI * IZR k.
Proof.
  unfold cis, RtoC. intros H. injection H as Hc Hs.
  destruct (sin_eq_0_0 _ Hs) as [k Hk]. subst t.
  destruct (Z.Even_or_Odd k) as [[j Hj]|[j Hj]].
  - exists j. subst k. rewrite mult_IZR. simpl. ring.
  - exfalso. subst k. rewrite plus_IZR, mult_IZR in Hc. simpl in Hc.
    replace ((2 * IZR j + 1) * PI) with (PI + 2 * IZR j * PI) in Hc by ring.
    rewrite cos_period_Z, cos_PI in Hc. lra.
Qed.

(* ------------------------------------------------------------------------------------------ *)
(** * Orthogonality of the roots of unity (sums indexed by nat) *)

Fixpoint csum (n : nat) (f : nat -> C) : C :=
  match n with O => RtoC 0 | S k => Cplus (csum k f) (f k) end.
Fixpoint cpow (z : C) (n : nat) : C := match n with O => RtoC 1 | S k => Cmult z (cpow z k) end.
Lemma csum_ext n f g : (forall x, (x < n)%nat -> f x = g x) -> csum n f = csum n g.
Proof. induction n as [|m IH]; intros H; cbn; [reflexivity|].
  rewrite IH, H by (intros; try apply H; lia). reflexivity. Qed.
Lemma cis_pow t n : cpow (cis t) n = cis (INR n * t).
Proof. induction n as [|n IH]. - cbn. now rewrite Rmult_0_l, cis_0.
  - cbn [cpow]. rewrite IH, <- cis_add. f_equal. rewrite S_INR. ring. Qed.
Lemma geom (z : C) n : Cmult (Cminus z (RtoC 1)) (csum n (cpow z)) = Cminus (cpow z n) (RtoC 1).
Proof. induction n as [|n IH]; cbn [csum cpow]. - ring.
  - rewrite Cmult_plus_distr_l, IH. ring. Qed.

Theorem roots_orth (n : nat) (k : Z) : (0 < n)%nat -> (k mod Z.of_nat n <> 0)%Z ->
  csum n (fun x => cis (2 * PI * IZR k * INR x / INR n)) = RtoC 0.
Proof.
  intros Hn Hk. set (z := cis (2 * PI * IZR k / INR n)).
  assert (Hf : forall x, cis (2 * PI * IZR k * INR x / INR n) = cpow z x).
  { intro x. unfold z. rewrite cis_pow. f_equal. field. apply not_0_INR. lia. }
  rewrite (csum_ext n _ (cpow z)) by (intros; apply Hf). clear Hf.
  assert (Hzn : cpow z n = RtoC 1).
  { unfold z. rewrite cis_pow. replace (INR n * (2 * PI * IZR k / INR n)) with (2 * PI * IZR k).
    apply cis_2PI_Z. field. apply not_0_INR. lia. }
  assert (Hz1 : z <> RtoC 1).
  { intro H. apply cis_eq_1 in H. destruct H as [j Hj].
    apply Hk. assert (IZR k = IZR j * INR n).
    { assert (PI <> 0) by (apply PI_neq0). assert (INR n <> 0) by (apply not_0_INR; lia).
      apply (Rmult_eq_reg_l (2*PI)); [|lra].
      replace (2 * PI * (IZR j * INR n)) with ((2 * PI * IZR j) * INR n) by ring. rewrite <- Hj. field. assumption. }
    rewrite INR_IZR_INZ, <- mult_IZR in H. apply eq_IZR in H. subst k. apply Z.mod_mul. lia. }
  pose proof (geom z n) as G. rewrite Hzn in G.
  replace (Cminus (RtoC 1) (RtoC 1)) with (RtoC 0) in G by ring.
  destruct (Ceq_dec (csum n (cpow z)) (RtoC 0)) as [|Hne]; [assumption|].
  exfalso. apply (Cmult_neq_0 (Cminus z (RtoC 1)) (csum n (cpow z))); try assumption.
  apply Cminus_eq_contra. assumption.
Qed.

Lemma csum_const_1 n : csum n (fun _ => RtoC 1) = RtoC (INR n).
Proof. induction n as [|n IH]; [reflexivity|]. cbn [csum]. rewrite IH, S_INR.
  unfold RtoC, Cplus; cbn. f_equal; ring. Qed.

(* both cases *)
Theorem roots_sum (n : nat) (k : Z) : (0 < n)%nat ->
  csum n (fun x => cis (2 * PI * IZR k * INR x / INR n)) =
  if (k mod Z.of_nat n =? 0)%Z then RtoC (INR n) else RtoC 0.
Proof.
  intros Hn. destruct (Z.eqb_spec (k mod Z.of_nat n) 0) as [E|E].
  - apply Z.mod_divide in E; [|lia]. destruct E as [q ->].
    rewrite (csum_ext n _ (fun _ => RtoC 1)); [apply csum_const_1|].
    intros x _. rewrite mult_IZR, <- INR_IZR_INZ.
    replace (2 * PI * (IZR q * INR n) * INR x / INR n) with (2 * PI * IZR (q * Z.of_nat x)).
    apply cis_2PI_Z. rewrite mult_IZR, <- INR_IZR_INZ. field. apply not_0_INR; lia.
  - apply roots_orth; assumption.
Qed.

(* ------------------------------------------------------------------------------------------ *)
(** * The scalar structures on C and R *)

Definition CS : Scalar :=
  mkScalar C (RtoC 0) (RtoC 1) Cplus Cmult Cminus Copp Cconj
           (fun q => RtoC (Q2R q)) (fun t => cis (- (2 * PI * Q2R t))).
Definition RS : Scalar :=
  mkScalar R 0 1 Rplus Rmult Rminus Ropp (fun x => x) (fun q => Q2R q) (fun _ => 1).

Lemma CS_ring : is_ring CS. Proof. exact C_ring_theory. Qed.
Lemma RS_ring : is_ring RS. Proof. exact RTheory. Qed.

Ltac cs := cbn [CS ke kmul kadd k0 k1 kconj kofq K ksub kopp].
Lemma CS_kernel : kernel_laws CS.
Proof. split.
  - intros a b. cs. rewrite <- cis_add. f_equal. rewrite Q2R_Qc_add. ring.
  - cs. rewrite Q2R_Qc_0. replace (- (2 * PI * 0)) with 0 by ring. apply cis_0. Qed.
(* the kernel has period one turn *)
Lemma CS_ke_1 : @ke CS 1%Qc = k1.
Proof. cs. rewrite Q2R_Qc_1. replace (- (2 * PI * 1)) with (2 * PI * IZR (-1)) by (simpl; ring).
  apply cis_2PI_Z. Qed.
Lemma CS_ke_Z (z : Z) : @ke CS (Z2Qc z) = k1.
Proof. cs. rewrite Q2R_Z2Qc. replace (- (2 * PI * IZR z)) with (2 * PI * IZR (- z)) by (rewrite opp_IZR; ring).
  apply cis_2PI_Z. Qed.
Lemma CS_conj : conj_laws CS.
Proof. split; cs.
  - intros [a b] [c d]. unfold Cconj, Cplus; cbn. f_equal; ring.
  - intros [a b] [c d]. unfold Cconj, Cmult; cbn. f_equal; ring.
  - intros [a b]. unfold Cconj; cbn. f_equal; ring.
  - unfold Cconj, RtoC; cbn. f_equal; ring.
  - intros t. rewrite <- cis_opp. f_equal. rewrite Q2R_Qc_opp. ring. Qed.
Lemma CS_ke_qz a n : n <> 0%Z -> @ke CS (qz a n) = cis (- (2 * PI * IZR a / IZR n)).
Proof. intros H. cs. rewrite Q2R_qz by assumption. f_equal. unfold Rdiv. ring. Qed.
Lemma Cmod_ke t : Cmod (@ke CS t) = 1. Proof. apply Cmod_cis. Qed.

(* sums over CS are the plain complex sums *)
Lemma csum_sumn n f : csum n f = @sumn CS n f.
Proof. induction n as [|n IH]; [reflexivity|]. cbn [csum sumn]. now rewrite IH. Qed.

(* orthogonality in the form used by the models: kernel [ke], phases [qz], sums [sumZ] *)
Theorem ke_roots_sum (n d : Z) : (0 < n)%Z ->
  @sumZ CS n (fun u => ke (qz (d * u) n)) = if (d mod n =? 0)%Z then RtoC (IZR n) else RtoC 0.
Proof.
  intros Hn. unfold sumZ. rewrite <- csum_sumn.
  rewrite (csum_ext _ _ (fun x => cis (2 * PI * IZR (- d) * INR x / INR (Z.to_nat n)))).
  - rewrite roots_sum by lia. rewrite Z2Nat.id by lia. rewrite INR_IZR_INZ, Z2Nat.id by lia.
    replace (- d mod n =? 0)%Z with (d mod n =? 0)%Z; [reflexivity|].
    destruct (Z.eqb_spec (d mod n) 0) as [E|E]; destruct (Z.eqb_spec (- d mod n) 0) as [E'|E']; try reflexivity; exfalso.
    + apply E'. apply Z.mod_opp_l_z; [lia|assumption].
    + apply E. rewrite <- (Z.opp_involutive d). apply Z.mod_opp_l_z; [lia|assumption].
  - intros x _. rewrite CS_ke_qz by lia. f_equal.
    rewrite mult_IZR, opp_IZR, !INR_IZR_INZ, Z2Nat.id by lia. unfold Rdiv. ring.
Qed.

(* ------------------------------------------------------------------------------------------ *)
(** * 1-D transform pair with arbitrary index origins and its inverse theorem
      kernel  exp(-2 pi i (x - cx)(u - cu)/n);  cx = cu = 0: numpy's fft / ifft;
      cx = cu = n/2: the centred transforms *)

Definition dft1c (n cx cu : Z) (f : Z -> C) (u : Z) : C :=
  @sumZ CS n (fun x => Cmult (f x) (@ke CS (qz ((x - cx) * (u - cu)) n))).
Definition idft1c (n cx cu : Z) (F : Z -> C) (y : Z) : C :=
  Cmult (RtoC (/ IZR n)) (@sumZ CS n (fun u => Cmult (F u) (@ke CS (qz (- ((y - cx) * (u - cu))) n)))).

Theorem idft1c_dft1c n cx cu f y : (0 < n)%Z -> (0 <= y < n)%Z ->
  idft1c n cx cu (dft1c n cx cu f) y = f y.
Proof.
  intros Hn Hy. unfold idft1c, dft1c.
  assert (Hn0 : n <> 0%Z) by lia.
  pose proof CS_ring as Rg. pose proof CS_kernel as [Kadd K0].
  (* push the outer kernel in, combine the phases, exchange the sums *)
  rewrite (sumZ_ext CS n _ (fun u => @sumZ CS n (fun x => Cmult (f x)
        (@ke CS (qz ((x - y) * (u - cu)) n))))).
  2:{ intros u _. change Cmult with (@kmul CS). rewrite <- (sumZ_scale_r CS Rg).
      apply sumZ_ext; intros x _. cbn [kmul CS]. rewrite <- Cmult_assoc. f_equal.
      change Cmult with (@kmul CS). rewrite <- Kadd. f_equal. rewrite <- qz_add by assumption. f_equal. ring. }
  rewrite (sumZ_exchange CS Rg).
  rewrite (sumZ_ext CS n _ (fun x => if (x =? y)%Z then Cmult (f x) (RtoC (IZR n)) else RtoC 0)).
  2:{ intros x Hx. change Cmult with (@kmul CS). rewrite (sumZ_scale_l CS Rg).
      set (d := (x - y)%Z).
      rewrite (sumZ_ext CS n _ (fun u => (@ke CS (qz (- (d * cu)) n) * @ke CS (qz (d * u) n))%K)).
      2:{ intros u _. rewrite <- Kadd, <- qz_add by assumption. do 2 f_equal. ring. }
      rewrite (sumZ_scale_l CS Rg), ke_roots_sum by assumption.
      destruct (Z.eqb_spec x y) as [->|Hne].
      - subst d. rewrite Z.sub_diag, Z.mod_0_l by lia. cbn [Z.eqb].
        rewrite Z.mul_0_l. cbn [Z.opp]. rewrite qz_0, K0 by assumption. cbn. ring.
      - assert ((d mod n) <> 0)%Z.
        { subst d. intro E. apply Z.mod_divide in E; [|lia]. destruct E as [q Hq].
          assert (q = 0 \/ q <= -1 \/ 1 <= q)%Z as [Hq0|[Hq1|Hq1]] by lia; [subst q; lia| |]; nia. }
        destruct (Z.eqb_spec (d mod n) 0); [contradiction|]. cbn. ring. }
  change (RtoC 0) with (@k0 CS).
  rewrite (sumZ_delta CS Rg n y (fun x => Cmult (f x) (RtoC (IZR n)))) by assumption.
  rewrite RtoC_inv by (apply not_0_IZR; lia).
  field. intro H. apply RtoC_inj in H. apply eq_IZR in H. lia.
Qed.
