(* Common imports and arithmetic set-up shared by every file of the development. *)
From Coq Require Export ZArith List Bool Lia ZifyBool Ring.
Export ListNotations.
#[global] Open Scope Z_scope.
(* let lia decide goals with floor division and modulo *)
Ltac Zify.zify_post_hook ::= Z.to_euclidean_division_equations.

(* Errors a Python call can raise, as far as the models distinguish them. *)
Inductive errkind := ValueError | TypeError | IndexError | NotImplementedErr | AssertionErr | AttributeErr.
Inductive result (A : Type) := Ok (a : A) | Err (e : errkind).
Arguments Ok {A} a. Arguments Err {A} e.
Definition rbind {A B} (r : result A) (f : A -> result B) : result B :=
  match r with Ok a => f a | Err e => Err e end.
Definition errcode (e : errkind) : Z :=
  match e with ValueError => 1 | TypeError => 2 | IndexError => 3 | NotImplementedErr => 4
             | AssertionErr => 5 | AttributeErr => 6 end.

(* one destruct per [if], as the guidance advises *)
Ltac destr_if :=
  match goal with
  | |- context[if ?b then _ else _] => destruct b eqn:?
  end.
Ltac destr_ifs := repeat destr_if.

Definition ctr (n : Z) : Z := n / 2.          (* THE origin convention: index floor(n/2) *)
Definition inb (lo hi x : Z) : bool := (lo <=? x) && (x <=? hi).   (* closed range *)
Definition inr (n x : Z) : bool := (0 <=? x) && (x <? n).          (* valid index *)
