(* Linear least squares on a sampled grid, as far as it is ring algebra (no order, no Reals):
   normal equations, their Gram form, the vanishing-energy identity from which uniqueness follows
   over an ordered field (Proofs/TiltP.v), and an executable 3x3 solver on the canonical rationals
   (Cramer's rule) whose result is validated inside the model, so that
        solve3 G r = Ok t  ->  G t = r      holds by construction.
   Used by the model of Plane.fit_tilt (Model/Tilt.v). *)
From LV Require Export Lib.Arr.

(* the rationals as a scalar structure (no kernel: ke is unused here) *)
Definition QS : Scalar :=
  mkScalar Qc 0%Qc 1%Qc Qcplus Qcmult Qcminus Qcopp (fun x => x) (fun q => q) (fun _ => 1%Qc).
Lemma QS_ring : is_ring QS. Proof. exact Qcrt. Qed.

Section Lsq.
Variable S : Scalar.
Hypothesis Sring : is_ring S.
Add Ring Sr : Sring.

(* sample points are the cells of an m x n grid; b k i j = basis function k at cell (i, j) *)
Variables (m n q : Z) (b : Z -> Z -> Z -> S).

Definition sum2 (f : Z -> Z -> S) : S := sumZ m (fun i => sumZ n (fun j => f i j)).
Definition lin (c : Z -> S) (i j : Z) : S := sumZ q (fun k => (c k * b k i j)%K).
(* normal equations: the residual is orthogonal to every basis function *)
Definition NE (c : Z -> S) (y : Z -> Z -> S) : Prop :=
  forall k, 0 <= k < q -> sum2 (fun i j => (b k i j * (y i j - lin c i j))%K) = k0.
(* sum of squared residuals *)
Definition sqerr (c : Z -> S) (y : Z -> Z -> S) : S :=
  sum2 (fun i j => ((y i j - lin c i j) * (y i j - lin c i j))%K).
Definition gram (j k : Z) : S := sum2 (fun i l => (b j i l * b k i l)%K).
Definition rhs (y : Z -> Z -> S) (k : Z) : S := sum2 (fun i j => (b k i j * y i j)%K).

Lemma sum2_ext f g : (forall i j, 0 <= i < m -> 0 <= j < n -> f i j = g i j) -> sum2 f = sum2 g.
Proof. intros H. unfold sum2. apply sumZ_ext; intros i Hi. apply sumZ_ext; intros j Hj. now apply H. Qed.
Lemma sum2_add f g : sum2 (fun i j => (f i j + g i j)%K) = (sum2 f + sum2 g)%K.
Proof. unfold sum2. rewrite <- sumZ_add by exact Sring. apply sumZ_ext; intros i _.
  now rewrite sumZ_add by exact Sring. Qed.
Lemma sum2_scale c f : sum2 (fun i j => (c * f i j)%K) = (c * sum2 f)%K.
Proof. unfold sum2. rewrite <- sumZ_scale_l by exact Sring. apply sumZ_ext; intros i _.
  now rewrite sumZ_scale_l by exact Sring. Qed.
Lemma sum2_zero : sum2 (fun _ _ => k0) = @k0 S.
Proof. unfold sum2. apply (sumZ_zero_ext S Sring). intros i _. apply (sumZ_zero S Sring). Qed.
Lemma sum2_sub f g : sum2 (fun i j => (f i j - g i j)%K) = (sum2 f - sum2 g)%K.
Proof. rewrite (sum2_ext _ (fun i j => (f i j + (- k1) * g i j)%K)) by (intros; ring).
  rewrite sum2_add, sum2_scale. ring. Qed.
(* exchange a sum over the q coefficients with the sum over the grid *)
Lemma sum2_sumq (f : Z -> Z -> Z -> S) :
  sum2 (fun i j => sumZ q (fun k => f k i j)) = sumZ q (fun k => sum2 (f k)).
Proof. unfold sum2.
  rewrite (sumZ_ext S m _ (fun i => sumZ q (fun k => sumZ n (fun j => f k i j))))
    by (intros i _; apply (sumZ_exchange S Sring)).
  apply (sumZ_exchange S Sring). Qed.

Lemma lin_sub c c' i j : lin (fun k => (c k - c' k)%K) i j = (lin c i j - lin c' i j)%K.
Proof. unfold lin.
  rewrite (sumZ_ext S q _ (fun k => (c k * b k i j + (- k1) * (c' k * b k i j))%K)) by (intros; ring).
  rewrite sumZ_add, sumZ_scale_l by exact Sring. ring. Qed.

(* two solutions of the normal equations differ by a combination of zero energy *)
Lemma ne_diff_energy c c' y : NE c y -> NE c' y ->
  sum2 (fun i j => (lin (fun k => (c k - c' k)%K) i j * lin (fun k => (c k - c' k)%K) i j)%K) = k0.
Proof.
  intros H1 H2. set (d := fun k => (c k - c' k)%K).
  assert (Hd : forall k, 0 <= k < q -> sum2 (fun i j => (b k i j * lin d i j)%K) = k0).
  { intros k Hk. specialize (H1 k Hk). specialize (H2 k Hk).
    rewrite (sum2_ext _ (fun i j => (b k i j * (y i j - lin c' i j) - b k i j * (y i j - lin c i j))%K)).
    - rewrite sum2_sub, H1, H2. ring.
    - intros i j _ _. unfold d. rewrite lin_sub. ring. }
  rewrite (sum2_ext _ (fun i j => sumZ q (fun k => (d k * (b k i j * lin d i j))%K))).
  - rewrite sum2_sumq. apply (sumZ_zero_ext S Sring). intros k Hk. rewrite sum2_scale, Hd by assumption. ring.
  - intros i j _ _. unfold lin at 1. rewrite <- sumZ_scale_r by exact Sring.
    apply sumZ_ext; intros k _. ring.
Qed.

(* Pythagoras: around a solution of the normal equations the squared error of any other
   coefficient vector exceeds the optimum by the energy of the difference *)
Lemma ne_pythagoras c c' y : NE c y ->
  sqerr c' y = (sqerr c y + sum2 (fun i j => (lin (fun k => (c k - c' k)%K) i j * lin (fun k => (c k - c' k)%K) i j)%K))%K.
Proof.
  intros H. set (d := fun k => (c k - c' k)%K). unfold sqerr.
  assert (Hx : sum2 (fun i j => ((y i j - lin c i j) * lin d i j)%K) = k0).
  { rewrite (sum2_ext _ (fun i j => sumZ q (fun k => (d k * (b k i j * (y i j - lin c i j)))%K))).
    - rewrite sum2_sumq. apply (sumZ_zero_ext S Sring). intros k Hk. rewrite sum2_scale, (H k Hk). ring.
    - intros i j _ _. unfold lin at 2. rewrite <- sumZ_scale_l by exact Sring.
      apply sumZ_ext; intros k _. ring. }
  rewrite (sum2_ext _ (fun i j => ((y i j - lin c i j) * (y i j - lin c i j)
            + (lin d i j * lin d i j + (k1 + k1) * ((y i j - lin c i j) * lin d i j)))%K)).
  - rewrite !sum2_add, sum2_scale, Hx. ring.
  - intros i j _ _. unfold d. rewrite lin_sub. ring.
Qed.

(* the normal equations in Gram form *)
Lemma ne_gram c y k :
  sum2 (fun i j => (b k i j * (y i j - lin c i j))%K) = (rhs y k - sumZ q (fun l => (c l * gram k l)%K))%K.
Proof.
  unfold rhs, gram.
  rewrite (sum2_ext _ (fun i j => (b k i j * y i j - sumZ q (fun l => (c l * (b k i j * b l i j))%K))%K)).
  - rewrite sum2_sub, sum2_sumq. f_equal. apply sumZ_ext; intros l _. now rewrite sum2_scale.
  - intros i j _ _. unfold lin.
    replace (b k i j * (y i j - sumZ q (fun k1 => c k1 * b k1 i j)))%K
      with (b k i j * y i j - b k i j * sumZ q (fun k1 => c k1 * b k1 i j))%K by ring.
    rewrite <- sumZ_scale_l by exact Sring. f_equal. apply sumZ_ext; intros l _. ring.
Qed.
End Lsq.
Arguments sum2 {S}. Arguments lin {S}. Arguments NE {S}. Arguments sqerr {S}. Arguments gram {S}. Arguments rhs {S}.

(* ---- executable 3x3 solver on the rationals ---- *)
Local Open Scope Qc_scope.
Definition det3 (a11 a12 a13 a21 a22 a23 a31 a32 a33 : Qc) : Qc :=
  a11 * (a22 * a33 - a23 * a32) - a12 * (a21 * a33 - a23 * a31) + a13 * (a21 * a32 - a22 * a31).

Definition qeqb (a b : Qc) : bool := Qeq_bool (this a) (this b).

(* coefficient triple as a function of the index *)
Definition cof {A} (t : A * A * A) (k : Z) : A :=
  if (k =? 0)%Z then fst (fst t) else if (k =? 1)%Z then snd (fst t) else snd t.

(* G : symmetric 3x3 matrix given by its entry function, r : right-hand side.
   Err ValueError = singular (rank-deficient basis: outside the domain of the fit theorem);
   the final test re-checks G t = r, so an [Ok] answer solves the system whatever the formula above it. *)
Definition solve3 (G : Z -> Z -> Qc) (r : Z -> Qc) : result (Qc * Qc * Qc) :=
  let g00 := G 0%Z 0%Z in let g01 := G 0%Z 1%Z in let g02 := G 0%Z 2%Z in
  let g10 := G 1%Z 0%Z in let g11 := G 1%Z 1%Z in let g12 := G 1%Z 2%Z in
  let g20 := G 2%Z 0%Z in let g21 := G 2%Z 1%Z in let g22 := G 2%Z 2%Z in
  let r0 := r 0%Z in let r1 := r 1%Z in let r2 := r 2%Z in
  let D := det3 g00 g01 g02 g10 g11 g12 g20 g21 g22 in
  if qeqb D 0 then Err ValueError else
  let t0 := det3 r0 g01 g02 r1 g11 g12 r2 g21 g22 / D in
  let t1 := det3 g00 r0 g02 g10 r1 g12 g20 r2 g22 / D in
  let t2 := det3 g00 g01 r0 g10 g11 r1 g20 g21 r2 / D in
  if qeqb (g00 * t0 + g01 * t1 + g02 * t2) r0
     && qeqb (g10 * t0 + g11 * t1 + g12 * t2) r1
     && qeqb (g20 * t0 + g21 * t1 + g22 * t2) r2
  then Ok (t0, t1, t2) else Err AssertionErr.

Lemma qeqb_eq a b : qeqb a b = true -> a = b.
Proof. unfold qeqb. intros H. apply Qc_is_canon. now apply Qeq_bool_iff. Qed.

Lemma solve3_sound G r t : solve3 G r = Ok t ->
  G 0%Z 0%Z * fst (fst t) + G 0%Z 1%Z * snd (fst t) + G 0%Z 2%Z * snd t = r 0%Z
  /\ G 1%Z 0%Z * fst (fst t) + G 1%Z 1%Z * snd (fst t) + G 1%Z 2%Z * snd t = r 1%Z
  /\ G 2%Z 0%Z * fst (fst t) + G 2%Z 1%Z * snd (fst t) + G 2%Z 2%Z * snd t = r 2%Z.
Proof.
  unfold solve3. cbv zeta. destruct (qeqb _ 0); [discriminate|].
  match goal with |- (if ?c then _ else _) = _ -> _ => destruct c eqn:E end; [|discriminate].
  intros H; injection H as <-. cbn [fst snd].
  apply andb_prop in E as [E E3]. apply andb_prop in E as [E1 E2].
  repeat split; now apply qeqb_eq.
Qed.
