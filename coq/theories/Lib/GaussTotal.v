(* Totality and correctness of the Gauss solver of Lib/Lsq.v over a field.

   [forward] (elimination with search for a non-zero pivot in the current column) returns [Some]
   whenever the coefficient rows have a trivial kernel ("no non-trivial combination of the columns
   vanishes": A x = 0 -> x = 0), by induction on the number of eliminated columns with the invariant
   "the remaining rows still have a trivial kernel"; [back] then solves every row exactly, so the
   validation inside [gauss_solve] succeeds.  The Gram matrix of a family that is linearly
   independent on the sample points has a trivial kernel in a formally real field.  Hence
   [gauss_solve_total]: an independent family always gets an answer.  No real numbers. *)
From LV Require Export Lib.Lsq.

Section GaussTotal.
Variable S : Scalar.
Hypothesis Sring : is_ring S.
Add Ring Sr : Sring.
Variable kinv : S -> S.
Variable keqb : S -> S -> bool.
Hypothesis keqb_spec : forall a b, keqb a b = true <-> a = b.
Hypothesis kinv_r : forall x : S, x <> k0 -> (x * kinv x)%K = k1.
Hypothesis k1_neq_k0 : @k1 S <> k0.

Notation zipw := (zipw S).
Notation pick := (pick S keqb).
Notation forward := (@forward S kinv keqb).
Notation rowval := (rowval S).
Notation back := (@back S).

(* coefficient part of a row applied to x (the trailing right-hand side is not reached) *)
Fixpoint cdot (r x : list S) : S :=
  match r, x with a :: r', v :: x' => (a * v + cdot r' x')%K | _, _ => k0 end.

Lemma cdot_app l b x : length l = length x -> cdot (l ++ [b]) x = cdot l x.
Proof. revert x. induction l as [|a l IH]; intros [|v x] H; try discriminate; cbn; [reflexivity|].
  rewrite IH by (cbn in H; lia). reflexivity. Qed.
Lemma rowval_app l b x : length l = length x -> rowval (l ++ [b]) x = (b - cdot l x)%K.
Proof. revert x. induction l as [|a l IH]; intros [|v x] H; try discriminate; cbn; [ring|].
  rewrite IH by (cbn in H; lia). ring. Qed.
Lemma cdot_zero r m : cdot r (repeat k0 m) = k0.
Proof. revert m. induction r as [|a r IH]; intros [|m]; cbn; try reflexivity. rewrite IH. ring. Qed.

Lemma length_zipw f (a b : list S) : length a = length b -> length (zipw f a b) = length a.
Proof. revert b. induction a as [|x a IH]; intros [|y b] H; try discriminate; cbn; [reflexivity|].
  rewrite IH by (cbn in H; lia). reflexivity. Qed.

(* linearity in the row *)
Lemma cdot_scale c r x : cdot (map (fun a => (a * c)%K) r) x = (cdot r x * c)%K.
Proof. revert x. induction r as [|a r IH]; intros [|v x]; cbn; try ring. rewrite IH. ring. Qed.
Lemma rowval_scale c r x : rowval (map (fun a => (a * c)%K) r) x = (rowval r x * c)%K.
Proof. revert x. induction r as [|a r IH]; intros [|v x]; cbn; try ring. rewrite IH. ring. Qed.
Lemma cdot_elim h p t x : length p = length t ->
  cdot (zipw (fun a b => (b - h * a)%K) p t) x = (cdot t x - h * cdot p x)%K.
Proof. revert t x. induction p as [|a p IH]; intros [|b t] x H; try discriminate; cbn; [destruct x; ring|].
  destruct x as [|v x]; [ring|]. rewrite IH by (cbn in H; lia). ring. Qed.
Lemma rowval_elim h p t x : length p = length t ->
  rowval (zipw (fun a b => (b - h * a)%K) p t) x = (rowval t x - h * rowval p x)%K.
Proof. revert t x. induction p as [|a p IH]; intros [|b t] x H; try discriminate; cbn; [destruct x; ring|].
  destruct x as [|v x]; [ring|]. rewrite IH by (cbn in H; lia). ring. Qed.

(* ---- the pivot search ---- *)
Lemma pick_some rows p others : pick rows = Some (p, others) ->
  (exists h t, p = h :: t /\ h <> k0) /\ length rows = Datatypes.S (length others) /\
  (forall r, In r rows <-> r = p \/ In r others).
Proof. revert p others. induction rows as [|r rest IH]; intros p others H; [discriminate|].
  cbn in H. destruct r as [|h t]; [discriminate|]. destruct (keqb h k0) eqn:E.
  - destruct (pick rest) as [[p' o']|] eqn:E2; [|discriminate]. injection H as <- <-.
    destruct (IH _ _ eq_refl) as (Hp & Hl & Hin). split; [exact Hp|]. split; [cbn; lia|].
    intros r. cbn. rewrite Hin. tauto.
  - injection H as <- <-. split.
    + exists h, t. split; [reflexivity|]. intros ->. rewrite (proj2 (keqb_spec k0 k0) eq_refl) in E. discriminate.
    + split; [reflexivity|]. intros r. cbn. split; intros [H|H]; auto. Qed.
Lemma pick_none rows : (forall r, In r rows -> r <> []) -> pick rows = None ->
  forall r, In r rows -> exists t, r = k0 :: t.
Proof. induction rows as [|r rest IH]; intros Hne H r0 Hin; [destruct Hin|].
  cbn in H. destruct r as [|h t]; [exfalso; apply (Hne [] (or_introl eq_refl)); reflexivity|].
  destruct (keqb h k0) eqn:E; [|discriminate].
  apply keqb_spec in E. subst h.
  destruct Hin as [<-|Hin]; [exists t; reflexivity|].
  apply IH; [intros r' Hr'; apply Hne; right; exact Hr' | | exact Hin].
  destruct (pick rest) as [[p' o']|]; [discriminate|reflexivity]. Qed.

(* the rows after one elimination step *)
Definition elim_rows (prow : list S) (others : list (list S)) : list (list S) :=
  map (fun r => match r with h :: tl => zipw (fun a b => (b - h * a)%K) prow tl | [] => [] end) others.
Lemma forward_step n rows : forward (Datatypes.S n) rows =
  match pick rows with
  | Some (p :: ptl, others) =>
      match forward n (elim_rows (map (fun x => (x * kinv p)%K) ptl) others) with
      | Some U => Some (map (fun x => (x * kinv p)%K) ptl :: U) | None => None end
  | _ => None end.
Proof. reflexivity. Qed.
Lemma elim_rows_wf n prow others : length prow = Datatypes.S n ->
  (forall r, In r others -> length r = Datatypes.S (Datatypes.S n)) ->
  forall r, In r (elim_rows prow others) -> length r = Datatypes.S n.
Proof. intros Hp Ho r Hr. unfold elim_rows in Hr. apply in_map_iff in Hr as (r0 & <- & Hr0).
  specialize (Ho r0 Hr0). destruct r0 as [|h tl]; [discriminate|].
  rewrite length_zipw; [exact Hp|]. cbn in Ho. lia. Qed.

(* ---- soundness: back substitution solves every row ---- *)
Lemma forward_sound n : forall rows U,
  length rows = n -> (forall r, In r rows -> length r = Datatypes.S n) -> forward n rows = Some U ->
  length (back U) = n /\ forall r, In r rows -> rowval r (back U) = k0.
Proof. induction n as [|n IH]; intros rows U Hl Hwf H.
  - cbn in H. injection H as <-. split; [reflexivity|]. destruct rows; [intros r []|discriminate].
  - rewrite forward_step in H. destruct (pick rows) as [[p others]|] eqn:Ep; [|discriminate].
    destruct (pick_some _ _ _ Ep) as ((h & t & -> & Hh) & Hlen & Hin).
    set (prow := map (fun x => (x * kinv h)%K) t) in *.
    destruct (forward n (elim_rows prow others)) as [U'|] eqn:Ef; [|discriminate]. injection H as <-.
    assert (Hpl : length t = Datatypes.S n).
    { specialize (Hwf (h :: t) (proj2 (Hin _) (or_introl eq_refl))). cbn in Hwf. lia. }
    assert (Hprl : length prow = Datatypes.S n) by (unfold prow; rewrite map_length; exact Hpl).
    assert (Ho : forall r, In r others -> length r = Datatypes.S (Datatypes.S n))
      by (intros r Hr; apply Hwf, Hin; right; exact Hr).
    destruct (IH (elim_rows prow others) U') as (Hbl & Hsat).
    + unfold elim_rows. rewrite map_length. lia.
    + apply elim_rows_wf; assumption.
    + exact Ef.
    + cbn [back]. split; [cbn; lia|]. intros r Hr. apply Hin in Hr as [->|Hr].
      * cbn [rowval]. unfold prow. rewrite rowval_scale.
        replace (h * (rowval t (back U') * kinv h))%K with (rowval t (back U') * (h * kinv h))%K by ring.
        rewrite (kinv_r h Hh). ring.
      * pose proof (Ho r Hr) as Hrl. destruct r as [|h' tl]; [discriminate|].
        assert (Hs : rowval (zipw (fun a b => (b - h' * a)%K) prow tl) (back U') = k0).
        { apply Hsat. unfold elim_rows. apply in_map_iff. exists (h' :: tl). split; [reflexivity|exact Hr]. }
        rewrite rowval_elim in Hs by (cbn in Hrl; lia). cbn [rowval]. exact Hs.
Qed.

(* ---- totality: a trivial kernel is preserved by an elimination step, and forbids a zero column ---- *)
Definition ktriv (n : nat) (rows : list (list S)) : Prop :=
  forall x, length x = n -> (forall r, In r rows -> cdot r x = k0) -> forall v, In v x -> v = k0.

Lemma forward_total n : forall rows,
  (forall r, In r rows -> length r = Datatypes.S n) -> ktriv n rows -> exists U, forward n rows = Some U.
Proof. induction n as [|n IH]; intros rows Hwf Hk; [exists []; reflexivity|].
  rewrite forward_step. destruct (pick rows) as [[p others]|] eqn:Ep.
  - destruct (pick_some _ _ _ Ep) as ((h & t & -> & Hh) & _ & Hin).
    set (prow := map (fun x => (x * kinv h)%K) t) in *.
    assert (Hpl : length t = Datatypes.S n).
    { specialize (Hwf (h :: t) (proj2 (Hin _) (or_introl eq_refl))). cbn in Hwf. lia. }
    assert (Hprl : length prow = Datatypes.S n) by (unfold prow; rewrite map_length; exact Hpl).
    assert (Ho : forall r, In r others -> length r = Datatypes.S (Datatypes.S n))
      by (intros r Hr; apply Hwf, Hin; right; exact Hr).
    destruct (IH (elim_rows prow others)) as [U' HU'].
    + apply elim_rows_wf; assumption.
    + intros xs Hxl Hxs v Hv.
      (* extend a kernel vector of the reduced rows to one of the rows before the step *)
      apply (Hk ((- cdot prow xs)%K :: xs)); [cbn; lia | | right; exact Hv].
      intros r Hr. apply Hin in Hr as [->|Hr].
      * cbn [cdot]. unfold prow. rewrite cdot_scale.
        replace (h * - (cdot t xs * kinv h) + cdot t xs)%K with (cdot t xs - cdot t xs * (h * kinv h))%K by ring.
        rewrite (kinv_r h Hh). ring.
      * pose proof (Ho r Hr) as Hrl. destruct r as [|h' tl]; [discriminate|].
        assert (Hs : cdot (zipw (fun a b => (b - h' * a)%K) prow tl) xs = k0).
        { apply Hxs. unfold elim_rows. apply in_map_iff. exists (h' :: tl). split; [reflexivity|exact Hr]. }
        rewrite cdot_elim in Hs by (cbn in Hrl; lia). cbn [cdot].
        transitivity (cdot tl xs - h' * cdot prow xs)%K; [ring|exact Hs].
    + rewrite HU'. eexists. reflexivity.
  - (* no row has a non-zero leading entry: the first unit vector is in the kernel *)
    exfalso. apply k1_neq_k0.
    apply (Hk (k1 :: repeat k0 n)); [cbn; rewrite repeat_length; reflexivity | | left; reflexivity].
    intros r Hr. destruct (pick_none rows) with (r := r) as [t ->]; try assumption.
    + intros r' Hr' ->. specialize (Hwf [] Hr'). discriminate.
    + cbn [cdot]. rewrite cdot_zero. ring.
Qed.

(* ---- from lists to the indexed sums of Lib/Lsq.v ---- *)
Lemma cdot_sumn : forall l x : list S, length l = length x ->
  cdot l x = sumn (length x) (fun i => (nth i l k0 * nth i x k0)%K).
Proof. induction l as [|a l IH]; intros [|v x] H; try discriminate; [reflexivity|].
  cbn [cdot length]. rewrite (sumn_head S Sring). cbn [nth]. rewrite IH by (cbn in H; lia). reflexivity. Qed.
Lemma cdot_sumZ (l x : list S) : length l = length x ->
  cdot l x = sumZ (Z.of_nat (length x)) (fun i => (nthZ l i * nthZ x i)%K).
Proof. intros H. rewrite cdot_sumn by exact H. unfold sumZ. rewrite Nat2Z.id. apply sumn_ext.
  intros i _. unfold nthZ. rewrite Nat2Z.id. reflexivity. Qed.

Section Solve.
Hypothesis FR : formally_real S.
Variables (k N : Z) (B : Z -> Z -> S) (y : Z -> S).
Hypothesis Hk : 0 <= k.
Hypothesis Hind : indep k N B.

Let Bm := tabZ k (fun i => tabZ N (B i)).
Let G := map (fun bj => map (fun bi => dotl bj bi) Bm) Bm.
Let hv := map (fun bj => dotl bj (tabZ N y)) Bm.
Let aug := map (fun gh => fst gh ++ [snd gh]) (combine G hv).
Let kn := Z.to_nat k.

Lemma len_Bm : length Bm = kn. Proof. apply length_tabZ. Qed.
Lemma len_G : length G = kn. Proof. unfold G. rewrite map_length. apply len_Bm. Qed.
Lemma len_hv : length hv = kn. Proof. unfold hv. rewrite map_length. apply len_Bm. Qed.
Lemma row_Bm j : (j < kn)%nat -> nth j Bm [] = tabZ N (B (Z.of_nat j)).
Proof. intros H. unfold Bm. rewrite <- (Nat2Z.id j) at 1. apply (nth_tabZ k (fun i => tabZ N (B i)) [] (Z.of_nat j)).
  unfold kn in H. lia. Qed.
Lemma row_G j : (j < kn)%nat -> nth j G [] = map (fun bi => dotl (tabZ N (B (Z.of_nat j))) bi) Bm.
Proof. intros H. unfold G.
  rewrite (nth_indep _ [] (map (fun bi => dotl [] bi) Bm)) by (rewrite map_length, len_Bm; exact H).
  rewrite (map_nth (fun bj => map (fun bi => dotl bj bi) Bm)), row_Bm by exact H. reflexivity. Qed.
Lemma len_row_G j : (j < kn)%nat -> length (nth j G []) = kn.
Proof. intros H. rewrite row_G by exact H. rewrite map_length. apply len_Bm. Qed.
Lemma entry_G j i : (j < kn)%nat -> (i < kn)%nat -> nth i (nth j G []) k0 = gram N B (Z.of_nat j) (Z.of_nat i).
Proof. intros Hj Hi. rewrite row_G by exact Hj.
  rewrite (nth_indep _ k0 (dotl (tabZ N (B (Z.of_nat j))) [])) by (rewrite map_length, len_Bm; exact Hi).
  rewrite (map_nth (fun bi => dotl (tabZ N (B (Z.of_nat j))) bi)), row_Bm by exact Hi.
  apply (dotl_tabZ S Sring). Qed.
Lemma entry_hv j : (j < kn)%nat -> nth j hv k0 = rhs N B y (Z.of_nat j).
Proof. intros Hj. unfold hv.
  rewrite (nth_indep _ k0 (dotl [] (tabZ N y))) by (rewrite map_length, len_Bm; exact Hj).
  rewrite (map_nth (fun bj => dotl bj (tabZ N y))), row_Bm by exact Hj. apply (dotl_tabZ S Sring). Qed.
Lemma row_aug j : (j < kn)%nat -> In (nth j G [] ++ [nth j hv k0]) aug.
Proof. intros Hj. unfold aug. apply in_map_iff. exists (nth j G [], nth j hv k0). split; [reflexivity|].
  rewrite <- combine_nth by (rewrite len_G, len_hv; reflexivity).
  apply nth_In. rewrite combine_length, len_G, len_hv. lia. Qed.
Lemma aug_rows r : In r aug -> exists j, (j < kn)%nat /\ r = nth j G [] ++ [nth j hv k0].
Proof. intros Hr. unfold aug in Hr. apply in_map_iff in Hr as ([g b] & <- & Hin).
  apply (In_nth _ _ ([], k0)) in Hin as (j & Hj & Hnth).
  rewrite combine_length, len_G, len_hv in Hj. rewrite combine_nth in Hnth by (rewrite len_G, len_hv; reflexivity).
  injection Hnth as <- <-. exists j. split; [lia|reflexivity]. Qed.
Lemma aug_wf r : In r aug -> length r = Datatypes.S kn.
Proof. intros Hr. apply aug_rows in Hr as (j & Hj & ->). rewrite app_length, len_row_G by exact Hj. cbn. lia. Qed.
Lemma len_aug : length aug = kn.
Proof. unfold aug. rewrite map_length, combine_length, len_G, len_hv. lia. Qed.

(* row j applied to x, as the indexed sum of the normal equations *)
Lemma cdot_row_G j (x : list S) : (j < kn)%nat -> length x = kn ->
  cdot (nth j G []) x = sumZ k (fun i => (gram N B (Z.of_nat j) i * nthZ x i)%K).
Proof. intros Hj Hx. rewrite cdot_sumZ by (rewrite len_row_G by exact Hj; congruence).
  rewrite Hx. unfold kn. rewrite Z2Nat.id by exact Hk. apply sumZ_ext. intros i Hi. f_equal.
  unfold nthZ. rewrite entry_G by (unfold kn; lia). rewrite Z2Nat.id by lia. reflexivity. Qed.

(* the Gram matrix of an independent family has a trivial kernel *)
Lemma gram_ktriv : ktriv kn aug.
Proof. intros x Hx Hrows v Hv.
  assert (Hne : NE k N B (fun _ => k0) (nthZ x)).
  { apply (NE_gram S Sring). intros j Hj.
    pose proof (Hrows _ (row_aug (Z.to_nat j) ltac:(unfold kn; lia))) as H.
    rewrite cdot_app in H by (rewrite len_row_G by (unfold kn; lia); congruence).
    rewrite cdot_row_G in H by (try exact Hx; unfold kn; lia). rewrite Z2Nat.id in H by lia.
    rewrite H. unfold rhs. symmetry. apply sumZ_zero_ext; [exact Sring|]. intros; ring. }
  assert (Hz : NE k N B (fun _ => k0) (fun _ => k0)).
  { apply (NE_span S Sring). intros p _. symmetry. apply (lin_zero S Sring). }
  apply (In_nth _ _ k0) in Hv as (i & Hi & <-).
  pose proof (lsq_unique S Sring k N B _ _ _ FR Hind Hne Hz (Z.of_nat i) ltac:(unfold kn in Hx; lia)) as H.
  unfold nthZ in H. rewrite Nat2Z.id in H. exact H. Qed.

Theorem gauss_solve_total : exists c, @gauss_solve S kinv keqb k N B y = Ok c.
Proof.
  destruct (forward_total kn aug aug_wf gram_ktriv) as [U HU].
  destruct (forward_sound kn aug U len_aug aug_wf HU) as (Hlen & Hsat).
  exists (back U). unfold gauss_solve. fold Bm. fold G. fold hv. fold aug. fold kn. rewrite HU.
  replace (check_normal_eqs keqb k G hv (back U)) with true; [reflexivity|]. symmetry.
  unfold check_normal_eqs. apply andb_true_iff. split; [unfold kn in Hlen; lia|].
  apply forallb_forall. intros j Hj. unfold tabZ in Hj. apply in_map_iff in Hj as (m & <- & Hm).
  apply in_seq in Hm. assert (Hmk : (m < kn)%nat) by (unfold kn; lia).
  apply keqb_spec. rewrite Nat2Z.id.
  pose proof (Hsat _ (row_aug m Hmk)) as H.
  rewrite rowval_app in H by (rewrite len_row_G by exact Hmk; congruence).
  rewrite cdot_sumZ in H by (rewrite len_row_G by exact Hmk; congruence).
  rewrite Hlen in H. unfold kn in H. rewrite Z2Nat.id in H by exact Hk.
  unfold nthZ at 3. rewrite Nat2Z.id.
  transitivity (nth m hv k0 - (nth m hv k0 - sumZ k (fun i => (nthZ (nth m G []) i * nthZ (back U) i)%K)))%K; [ring|].
  rewrite H. ring. Qed.
End Solve.
End GaussTotal.

(* ---- the executed instance ---- *)
Lemma qc_eqb_spec a b : qc_eqb a b = true <-> a = b.
Proof. split; [apply qc_eqb_sound|]. intros ->. unfold qc_eqb. apply Qeq_bool_iff. reflexivity. Qed.
Lemma qc_inv_r (x : QS) : x <> k0 -> (x * Qcinv x)%K = k1.
Proof. intros H. apply Qcmult_inv_r. exact H. Qed.
Lemma qc_1_neq_0 : @k1 QS <> k0.
Proof. intros H. apply (f_equal (fun q : Qc => Qnum (this q))) in H. discriminate. Qed.

Theorem q_solve_total k N (B : Z -> Z -> QS) (y : Z -> QS) :
  0 <= k -> indep k N B -> exists c, q_solve k N B y = Ok c.
Proof. intros Hk Hi.
  exact (gauss_solve_total QS QS_ring Qcinv qc_eqb qc_eqb_spec qc_inv_r qc_1_neq_0 QS_formally_real k N B y Hk Hi). Qed.
