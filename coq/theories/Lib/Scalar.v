(* The scalar structure every numeric model is generic in.
   Theorems take [ring_theory] (and, where needed, the kernel laws) as hypotheses inside
   sections; execution instantiates it with the group ring of Lib/GRing.v. *)
From Coq Require Export QArith Qcanon.
From LV Require Export Lib.Base.

Record Scalar := mkScalar {
  K :> Type;
  k0 : K; k1 : K;
  kadd : K -> K -> K; kmul : K -> K -> K; ksub : K -> K -> K; kopp : K -> K;
  kconj : K -> K;            (* complex conjugation *)
  kofq : Qc -> K;            (* injection of the rationals *)
  ke : Qc -> K               (* the Fourier kernel  t |-> exp(-2 pi i t),  t in turns *)
}.
Arguments k0 {s}. Arguments k1 {s}. Arguments kadd {s}. Arguments kmul {s}. Arguments ksub {s}.
Arguments kopp {s}. Arguments kconj {s}. Arguments kofq {s}. Arguments ke {s}.

Declare Scope K_scope. Delimit Scope K_scope with K.
Notation "x + y" := (kadd x y) : K_scope.
Notation "x * y" := (kmul x y) : K_scope.
Notation "x - y" := (ksub x y) : K_scope.
Notation "- x" := (kopp x) : K_scope.

Notation is_ring S :=
  (ring_theory (@k0 S) (@k1 S) (@kadd S) (@kmul S) (@ksub S) (@kopp S) (@eq (K S))).

(* laws of the kernel used by the Fourier theorems *)
Record kernel_laws (S : Scalar) : Prop := {
  ke_add : forall a b : Qc, @ke S (a + b)%Qc = (ke a * ke b)%K;
  ke_0 : @ke S 0%Qc = k1
}.
(* laws of conjugation *)
Record conj_laws (S : Scalar) : Prop := {
  kconj_add : forall a b : S, kconj (a + b)%K = (kconj a + kconj b)%K;
  kconj_mul : forall a b : S, kconj (a * b)%K = (kconj a * kconj b)%K;
  kconj_inv : forall a : S, kconj (kconj a) = a;
  kconj_0 : @kconj S k0 = k0;
  kconj_e : forall t : Qc, @kconj S (ke t) = ke (- t)%Qc
}.

Definition norm2 {S : Scalar} (z : S) : S := (z * kconj z)%K.
