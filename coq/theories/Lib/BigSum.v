(* Finite sums in an arbitrary commutative ring, indexed by nat and by Z ranges. *)
From LV Require Export Lib.Scalar.

Section BigSum.
Variable S : Scalar.
Hypothesis Sring : is_ring S.
Add Ring Sr : Sring.

Fixpoint sumn (n : nat) (f : nat -> S) : S :=
  match n with O => k0 | Datatypes.S k => (sumn k f + f k)%K end.

(* sum over the Z range 0 <= i < n *)
Definition sumZ (n : Z) (f : Z -> S) : S := sumn (Z.to_nat n) (fun i => f (Z.of_nat i)).

Lemma sumn_ext n f g : (forall i, (i < n)%nat -> f i = g i) -> sumn n f = sumn n g.
Proof. induction n as [|n IH]; intros H; cbn; [reflexivity|].
  rewrite IH, H by (intros; try apply H; lia). reflexivity. Qed.
Lemma sumn_add n f g : sumn n (fun i => (f i + g i)%K) = (sumn n f + sumn n g)%K.
Proof. induction n as [|n IH]; cbn; [ring|]. rewrite IH. ring. Qed.
Lemma sumn_scale_l n c f : sumn n (fun i => (c * f i)%K) = (c * sumn n f)%K.
Proof. induction n as [|n IH]; cbn; [ring|]. rewrite IH. ring. Qed.
Lemma sumn_scale_r n c f : sumn n (fun i => (f i * c)%K) = (sumn n f * c)%K.
Proof. induction n as [|n IH]; cbn; [ring|]. rewrite IH. ring. Qed.
Lemma sumn_zero n : sumn n (fun _ => k0) = @k0 S.
Proof. induction n as [|n IH]; cbn; [reflexivity|]. rewrite IH. ring. Qed.
Lemma sumn_zero_ext n f : (forall i, (i < n)%nat -> f i = k0) -> sumn n f = k0.
Proof. intros H. rewrite (sumn_ext n f (fun _ => k0)) by assumption. apply sumn_zero. Qed.
Lemma sumn_exchange m n (f : nat -> nat -> S) :
  sumn m (fun i => sumn n (fun j => f i j)) = sumn n (fun j => sumn m (fun i => f i j)).
Proof. induction m as [|m IH]; cbn. - now rewrite sumn_zero. - rewrite IH, <- sumn_add. reflexivity. Qed.
Lemma sumn_head n f : sumn (Datatypes.S n) f = (f 0%nat + sumn n (fun i => f (Datatypes.S i)))%K.
Proof. induction n as [|n IH]. - cbn; ring. - cbn [sumn] in *. rewrite IH. ring. Qed.
Lemma sumn_split a b f : sumn (a + b) f = (sumn a f + sumn b (fun i => f (a + i)%nat))%K.
Proof. induction b as [|b IH]. - rewrite Nat.add_0_r. cbn. ring.
  - rewrite Nat.add_succ_r. cbn [sumn]. rewrite IH. ring. Qed.
(* Kronecker collapse *)
Lemma sumn_delta n j (a : nat -> S) : (j < n)%nat ->
  sumn n (fun i => if Nat.eqb i j then a i else k0) = a j.
Proof. induction n as [|n IH]; intros H; [lia|]. cbn [sumn].
  destruct (Nat.eqb n j) eqn:E.
  - apply Nat.eqb_eq in E; subst. rewrite sumn_zero_ext; [ring|].
    intros i Hi. destruct (Nat.eqb i j) eqn:E2; [apply Nat.eqb_eq in E2; lia|reflexivity].
  - apply Nat.eqb_neq in E. rewrite IH by lia. ring. Qed.

Lemma sumZ_ext n f g : (forall i, 0 <= i < n -> f i = g i) -> sumZ n f = sumZ n g.
Proof. intros H. unfold sumZ. apply sumn_ext. intros i Hi. apply H. lia. Qed.
Lemma sumZ_add n f g : sumZ n (fun i => (f i + g i)%K) = (sumZ n f + sumZ n g)%K.
Proof. unfold sumZ. apply sumn_add. Qed.
Lemma sumZ_scale_l n c f : sumZ n (fun i => (c * f i)%K) = (c * sumZ n f)%K.
Proof. unfold sumZ. apply sumn_scale_l. Qed.
Lemma sumZ_scale_r n c f : sumZ n (fun i => (f i * c)%K) = (sumZ n f * c)%K.
Proof. unfold sumZ. apply sumn_scale_r. Qed.
Lemma sumZ_zero n : sumZ n (fun _ => k0) = @k0 S.
Proof. unfold sumZ. apply sumn_zero. Qed.
Lemma sumZ_zero_ext n f : (forall i, 0 <= i < n -> f i = k0) -> sumZ n f = k0.
Proof. intros H. rewrite (sumZ_ext n f (fun _ => k0)) by assumption. apply sumZ_zero. Qed.
Lemma sumZ_exchange m n (f : Z -> Z -> S) :
  sumZ m (fun i => sumZ n (fun j => f i j)) = sumZ n (fun j => sumZ m (fun i => f i j)).
Proof. unfold sumZ. apply sumn_exchange. Qed.
Lemma sumZ_nonpos n f : n <= 0 -> sumZ n f = k0.
Proof. intros H. unfold sumZ. replace (Z.to_nat n) with 0%nat by lia. reflexivity. Qed.
Lemma sumZ_split a b f : 0 <= a -> 0 <= b ->
  sumZ (a + b) f = (sumZ a f + sumZ b (fun i => f (a + i)%Z))%K.
Proof. intros Ha Hb. unfold sumZ. rewrite Z2Nat.inj_add by lia. rewrite sumn_split. f_equal.
  apply sumn_ext. intros i _. f_equal. lia. Qed.
Lemma sumZ_succ n f : 0 <= n -> sumZ (n + 1) f = (sumZ n f + f n)%K.
Proof. intros H. rewrite sumZ_split by lia. f_equal. unfold sumZ.
  change (Z.to_nat 1) with 1%nat. cbn [sumn Z.of_nat]. rewrite Z.add_0_r. ring. Qed.
Lemma sumZ_delta n j (a : Z -> S) : 0 <= j < n ->
  sumZ n (fun i => if i =? j then a i else k0) = a j.
Proof. intros H. unfold sumZ.
  rewrite (sumn_ext _ _ (fun i => if Nat.eqb i (Z.to_nat j) then a (Z.of_nat i) else k0)).
  - rewrite sumn_delta by lia. f_equal. lia.
  - intros i Hi. destruct (Z.of_nat i =? j) eqn:E1; destruct (Nat.eqb i (Z.to_nat j)) eqn:E2; try reflexivity.
    + apply Nat.eqb_neq in E2. lia. + apply Nat.eqb_eq in E2. lia. Qed.
(* a sum over 0<=i<n of a function supported on lo<=i<lo+len, inside the range, equals the shifted sum *)
Lemma sumZ_support n lo len (f : Z -> S) : 0 <= lo -> 0 <= len -> lo + len <= n ->
  (forall i, 0 <= i < n -> ~ (lo <= i < lo + len) -> f i = k0) ->
  sumZ n f = sumZ len (fun i => f (lo + i)).
Proof. intros Hlo Hlen Hn Hz.
  replace n with (lo + (len + (n - lo - len))) by lia.
  rewrite sumZ_split by lia. rewrite sumZ_split by lia.
  rewrite (sumZ_zero_ext lo) by (intros; apply Hz; lia).
  rewrite (sumZ_zero_ext (n - lo - len)) by (intros; apply Hz; lia). ring. Qed.
End BigSum.
Arguments sumn {S}. Arguments sumZ {S}.
