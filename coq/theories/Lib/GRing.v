(* The execution scalar: the group ring Q(i)[C_L] of the cyclic group of order L, dense
   coefficient lists of length L.  Coefficient k multiplies zeta^k with zeta = exp(-2 pi i / L),
   so the kernel  ke t = exp(-2 pi i t)  is the monomial x^(t*L mod L) whenever t*L is an
   integer -- exactly, with no floating point.  For L = 1 this is the field of complex
   rationals.  A malformed element (wrong length, or a phase that is not a multiple of 1/L)
   is the empty list, which absorbs every operation and is rejected by the encoder. *)
From LV Require Export Lib.Scalar.

Definition CQ := (Qc * Qc)%type.
Definition cq0 : CQ := (0%Qc, 0%Qc).
Definition cq1 : CQ := (1%Qc, 0%Qc).
Definition cqadd (a b : CQ) : CQ := (fst a + fst b, snd a + snd b)%Qc.
Definition cqsub (a b : CQ) : CQ := (fst a - fst b, snd a - snd b)%Qc.
Definition cqopp (a : CQ) : CQ := (- fst a, - snd a)%Qc.
Definition cqmul (a b : CQ) : CQ := (fst a * fst b - snd a * snd b, fst a * snd b + snd a * fst b)%Qc.
Definition cqconj (a : CQ) : CQ := (fst a, - snd a)%Qc.
Definition qc_is0 (q : Qc) : bool := match Qnum (this q) with Z0 => true | _ => false end.
Definition cq_is0 (a : CQ) : bool := qc_is0 (fst a) && qc_is0 (snd a).

Section GR.
Variable L : nat.     (* L >= 1 *)

Definition GR := list CQ.
Definition gwf (a : GR) : bool := Nat.eqb (length a) L.
Definition gr0 : GR := repeat cq0 L.
Definition gmono (k : nat) (c : CQ) : GR := repeat cq0 k ++ c :: repeat cq0 (L - 1 - k).
Definition gr1 : GR := gmono 0 cq1.
Fixpoint map2 (f : CQ -> CQ -> CQ) (a b : GR) : GR :=
  match a, b with x :: r, y :: t => f x y :: map2 f r t | _, _ => [] end.
Definition gadd (a b : GR) : GR := if gwf a && gwf b then map2 cqadd a b else [].
Definition gsub (a b : GR) : GR := if gwf a && gwf b then map2 cqsub a b else [].
Definition gopp (a : GR) : GR := map cqopp a.
(* x^i * b : coefficient k of the result is b_(k-i mod L) *)
Definition rot (i : nat) (b : GR) : GR := skipn (L - i) b ++ firstn (L - i) b.
(* a * b = sum_i a_i x^i b over the non-zero coefficients of a *)
Fixpoint gmul_aux (a : GR) (i : nat) (b acc : GR) : GR :=
  match a with
  | [] => acc
  | c :: r => let acc' := if cq_is0 c then acc else map2 cqadd acc (map (cqmul c) (rot i b)) in
              gmul_aux r (Datatypes.S i) b acc'
  end.
Definition nnz (a : GR) : nat := length (filter (fun c => negb (cq_is0 c)) a).
(* iterate over the sparser operand (the ring is commutative) *)
Definition gmul (a b : GR) : GR :=
  if gwf a && gwf b then
    if Nat.leb (nnz a) (nnz b) then gmul_aux a 0 b gr0 else gmul_aux b 0 a gr0
  else [].
(* conj: coefficient-wise conjugation, x^k -> x^(-k) *)
Definition gconj (a : GR) : GR :=
  match a with [] => [] | c :: r => cqconj c :: rev (map cqconj r) end.
Definition gofq (q : Qc) : GR := gmono 0 (q, 0%Qc).
Definition gofc (c : CQ) : GR := gmono 0 c.
(* kernel: t turns -> x^(t*L mod L); poison if t*L is not an integer *)
Definition ge (t : Qc) : GR :=
  let q := this (t * Q2Qc (inject_Z (Z.of_nat L)))%Qc in
  match Qden q with
  | xH => gmono (Z.to_nat (Qnum q mod Z.of_nat L)) cq1
  | _ => []
  end.

Definition GRS : Scalar := mkScalar GR gr0 gr1 gadd gmul gsub gopp gconj gofq ge.
End GR.
