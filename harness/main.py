import glob
import importlib
import json
import os
import sys

from . import common as C


def props():
    out = []
    for f in sorted(glob.glob(os.path.join(C.ROOT, 'harness', 'props', 'c[0-9]*.py'))):
        out.append(os.path.basename(f)[:-3].upper())
    return out


def setup():
    bad = C.hygiene()
    if bad:
        # every check scans its own dependency closure and fails closed; setup only reports
        print('hygiene warning (whole tree):', bad)
    # generated tables must exist before the full build
    for p in props():
        mod = importlib.import_module(f'harness.props.{p.lower()}')
        if hasattr(mod, 'pregen'):
            mod.pregen('quick')
    # -k: a file that does not compile must not stop the others; the check of the property that
    # depends on it reports the broken obligation (setup only prepares build products)
    rc, out = C.coq_make(None, keep_going=True)
    if rc:
        print(out[-3000:])
        print('setup: some Coq targets failed to build; the checks that depend on them will report it')
    for p in props():
        mod = importlib.import_module(f'harness.props.{p.lower()}')
        if getattr(mod, 'MODEL', None):
            try:
                C.build_model(mod.MODEL)
            except Exception as e:
                print(f'setup: model binary for {p} not built: {str(e)[-300:]}')
    print('setup ok' if not rc else 'setup finished with build failures')
    return 0


def manifest():
    checks = []
    # only the properties the coordinator has accepted (check green on the unchanged tree, mutants caught)
    claimed_path = os.path.join(C.ROOT, 'harness', 'claimed.json')
    accepted = json.load(open(claimed_path)) if os.path.exists(claimed_path) else props()
    for p in props():
        if p not in accepted:
            continue
        mod = importlib.import_module(f'harness.props.{p.lower()}')
        checks.append({
            'property_id': p,
            'quick_cmd': f'./check {p} --tier quick',
            'thorough_cmd': f'./check {p} --tier thorough',
            'evidence_file': f'/verif/evidence/{p}.json',
            'replay_cmd_template': './check replay {path}',
            'engine': 'coq-proof+correspondence',
            'level_claimed': {'category': 'proof', 'text': mod.LEVEL_TEXT, 'design_ref': mod.DESIGN_REF},
            'level_note': mod.LEVEL_NOTE,
            'technique': mod.TECHNIQUE,
        })
    claimed = {c['property_id'] for c in checks}
    na_path = os.path.join(C.ROOT, 'harness', 'not_applicable.json')
    na = json.load(open(na_path)) if os.path.exists(na_path) else {}
    allp = [json.loads(l)['id'] for l in open(os.path.join(C.ROOT, 'properties.jsonl'))]
    not_app = [{'property_id': p, 'reason': na.get(p, 'check not built yet in this development (no claim made)')}
               for p in allp if p not in claimed]
    man = {
        'version': 1,
        'setup_cmd': './check --setup',
        'hooks': {'guard': 'LENTIL_VERIF', 'enable': 'no hooks are needed; checks import /repo directly (PYTHONPATH=/repo)',
                  'baseline_off_cmd': 'cd /repo && /venv/bin/python -m pytest -ra -q -p no:cacheprovider --timeout=900',
                  'source_commits': [], 'add_only': True},
        'engines': [{'name': 'coq-proof+correspondence', 'path': '/verif/check',
                     'serves_properties': sorted(claimed),
                     'kind_free_text': 'Coq 8.16 theorems about hand-written executable Gallina models; models '
                                       'extracted to OCaml and run against /repo on generated cases on every check; '
                                       'finite decision tables regenerated from /repo'}],
        'checks': checks,
        'not_applicable': not_app,
        'notes': 'See DESIGN.md. known_findings.json lists recorded findings and the fix: commits.',
    }
    json.dump(man, open(os.path.join(C.ROOT, 'MANIFEST.json'), 'w'), indent=1)
    print(f'MANIFEST.json written: {len(checks)} checks, {len(not_app)} not claimed')
    return 0


def main(argv):
    if not argv:
        print(__doc__ or 'usage: check --setup | Cxx [--tier T] | replay <file> | --manifest')
        return 2
    if argv[0] == '--setup':
        return setup()
    if argv[0] == '--manifest':
        return manifest()
    if argv[0] == 'replay':
        from . import runner
        return runner.replay(argv[1])
    prop = argv[0].upper()
    tier = os.environ.get('VERIF_TIER', 'quick')
    if '--tier' in argv:
        tier = argv[argv.index('--tier') + 1]
    seed = int(os.environ.get('VERIF_SEED', '0') or 0)
    from . import runner
    return runner.run_check(prop, tier, seed)


if __name__ == '__main__':
    sys.exit(main(sys.argv[1:]))
