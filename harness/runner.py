"""Generic check runner: proofs -> correspondence -> oracle -> decision -> evidence.

Usage (through /verif/check):  check C06 [--tier quick|thorough]
"""
import importlib
import json
import os
import random
import sys
import time
import traceback

from . import common as C


def canon_exc(e):
    return {'err': type(e).__name__}


def match_known(mod, findings, case, impl):
    for f in findings:
        if f.get('property') != mod.ID or f.get('status') != 'known':
            continue
        fn = getattr(mod, 'known_match', None)
        if fn and fn(f, case, impl):
            return f
    return None


def run_check(prop, tier, seed):
    t0 = time.time()
    mod = importlib.import_module(f'harness.props.{prop.lower()}')
    rng = random.Random(seed * 1000003 + int(prop[1:]))
    ev = {'property_id': prop, 'tier': tier, 'seed': seed, 'level': 'proof', 'violations': 0,
          'coverage': {}, 'assumptions': list(getattr(mod, 'ASSUMPTIONS', []))}
    cov = ev['coverage']
    violations = []      # (kind, replay payload, has_input)
    known_seen = {}

    def finish():
        ev['wall_s'] = round(time.time() - t0, 2)
        ev['violations'] = len(violations)
        C.write_evidence(prop, ev)
        for k, what in known_seen.items():
            print(f'KNOWN-FINDING: property={prop} {k}: {what}')
        if violations:
            for kind, payload, has_input in violations[:5]:
                path = C.write_replay(prop, payload)
                tail = '' if has_input else ' no-failing-input-found'
                print(f'VIOLATION property={prop} replay={path}{tail}')
            return 1
        print(f'OK property={prop} tier={tier} seed={seed} evaluations={cov.get("evaluations")} '
              f'obligations={cov.get("obligations")} wall_s={ev["wall_s"]}')
        return 0

    # ---- 0. hygiene (of everything this property's theorems and model depend on) ----
    targets = list(getattr(mod, 'COQ_TARGETS', [f'theories/Properties/{prop}.vo']))
    bad = C.hygiene(targets)
    if bad:
        violations.append(('hygiene', {'property': prop, 'what': 'forbidden construct in the Coq development',
                                       'items': bad}, False))
        return finish()

    # ---- 1. regenerate tables from /repo, build proofs and the model ----
    broken_proof = None
    try:
        if hasattr(mod, 'pregen'):
            mod.pregen(tier)
    except Exception as e:   # generator refused: the tie is broken
        broken_proof = {'stage': 'generator', 'error': ''.join(traceback.format_exception_only(type(e), e))[-1500:]}
    targets = list(getattr(mod, 'COQ_TARGETS', [f'theories/Properties/{prop}.vo']))
    rc, out = C.coq_make(targets)
    if rc and broken_proof is None:
        f, name, msg = C.first_error(out)
        broken_proof = {'stage': 'coq', 'file': f, 'theorem': name, 'error': msg}
    pa = None
    if broken_proof is None:
        pa = C.print_assumptions(prop)
        # further statement files of this property (e.g. cross-package composition theorems): same rules
        for extra_name in getattr(mod, 'EXTRA_PROPERTIES', []):
            if pa['rc']:
                break
            px = C.print_assumptions(extra_name)
            if px['rc']:
                pa = dict(pa, rc=px['rc'], raw=px['raw'])
                break
            pa = {'rc': 0, 'theorems': pa['theorems'] + px['theorems'], 'printed': pa['printed'] + px['printed'],
                  'axioms': sorted(set(pa['axioms']) | set(px['axioms'])), 'unknown': pa['unknown'] + px['unknown'],
                  'closed': pa['closed'] + px['closed'], 'raw': pa['raw'] + px['raw']}
        if pa['rc']:
            broken_proof = {'stage': 'coq', 'file': f'theories/Properties/{prop}.v (or an EXTRA_PROPERTIES file)', 'error': pa['raw'][-1500:]}
        else:
            unknown = list(pa['unknown'])
            if unknown or len(pa['printed']) < len(pa['theorems']) or not pa['theorems']:
                broken_proof = {'stage': 'assumptions', 'unknown_axioms': unknown,
                                'theorems': pa['theorems'], 'printed': pa['printed']}
    n_thm = len(pa['theorems']) if pa else 0
    cov['obligations'] = max(n_thm, 1)
    cov['discharged'] = n_thm if broken_proof is None else 0
    cov['theorems'] = pa['theorems'] if pa else []
    cov['axioms'] = pa['axioms'] if pa else []
    cov['checker_cmd'] = (f'make -C coq {" ".join(targets)} && coqc -Q theories LV theories/Properties/{prop}.v '
                          '(full .vo build; Print Assumptions parsed)')
    cov['trusted_base'] = list(getattr(mod, 'TRUSTED', [])) + [f'axiom: {a}' for a in (pa['axioms'] if pa else [])]

    if tier == 'thorough' and broken_proof is None and os.environ.get('VERIF_NO_COQCHK') != '1':
        mods = ' '.join(f'LV.Properties.{n}' for n in [prop] + list(getattr(mod, 'EXTRA_PROPERTIES', [])))
        rc2, out2 = C.sh(f'timeout 2400 coqchk -silent -o -Q theories LV {mods}', cwd=C.COQ, timeout=2460)
        cov['coqchk'] = 'ok' if rc2 == 0 else 'FAILED'
        cov['coqchk_tail'] = out2[-1200:]
        if rc2 != 0:
            broken_proof = {'stage': 'coqchk', 'error': out2[-1500:]}

    binp = None
    if getattr(mod, 'MODEL', None) and broken_proof is None:
        try:
            binp = C.build_model(mod.MODEL)
        except Exception as e:
            broken_proof = {'stage': 'extraction', 'error': str(e)[-1500:]}

    # ---- 2. cases: corpus first, then generated ----
    cases = []
    if hasattr(mod, 'generate'):
        for c in C.load_corpus(prop):
            c = dict(c)
            c['_corpus'] = True
            cases.append(c)
        cases += list(mod.generate(rng, tier))
    findings = C.load_known()

    # ---- 3. model side ----
    encs = [mod.encode(c) if binp else None for c in cases]
    idx = [i for i, e in enumerate(encs) if e is not None]
    model_out = {}
    if idx:
        outs = C.run_model(binp, [encs[i] for i in idx])
        for i, o in zip(idx, outs):
            model_out[i] = o

    # ---- 4. implementation side, comparison, oracle ----
    n_eval = 0
    seen = set()
    n_nontriv = 0
    dist = {}
    disagreements = []
    oracle_fail = []
    harness_bugs = []
    samples = []
    n_compared = 0
    for i, c in enumerate(cases):
        n_eval += 1
        try:
            impl = mod.run_impl(c)
        except Exception as e:       # the runner itself failed: not a property verdict
            harness_bugs.append({'case': c, 'error': traceback.format_exc()[-1200:]})
            continue
        h = C.case_hash({k: v for k, v in c.items() if not k.startswith('_')})
        if h not in seen:
            seen.add(h)
            if mod.nontrivial(c):
                n_nontriv += 1
        key = mod.classify(c) if hasattr(mod, 'classify') else str(c.get('op'))
        dist[key] = dist.get(key, 0) + 1
        if len(samples) < 3 and mod.nontrivial(c):
            samples.append(C.jsonable({k: v for k, v in c.items() if not k.startswith('_')}))
        omsg = None
        if hasattr(mod, 'oracle'):
            try:
                omsg = mod.oracle(c, impl)
            except Exception:
                harness_bugs.append({'case': c, 'error': 'oracle: ' + traceback.format_exc()[-1200:]})
        cmsg = None
        if i in model_out:
            mo = model_out[i]
            if mo and mo[0] == 2:
                harness_bugs.append({'case': c, 'error': 'model decoder rejected the case'})
            else:
                try:
                    mres = mod.decode(c, mo)
                    cmsg = mod.compare(c, impl, mres)
                    n_compared += 1
                except Exception:
                    harness_bugs.append({'case': c, 'error': 'decode/compare: ' + traceback.format_exc()[-1200:]})
        if omsg or cmsg:
            kf = match_known(mod, findings, c, impl)
            if kf is not None:
                known_seen[kf['id']] = kf.get('what', '')
                continue
        if omsg:
            oracle_fail.append((c, impl, omsg))
        elif cmsg:
            disagreements.append((c, impl, cmsg))

    cov['evaluations'] = n_eval
    cov['distinct_nontrivial'] = n_nontriv
    cov['compared_with_model'] = n_compared
    cov['rule'] = getattr(mod, 'RULE', '')
    cov['samples'] = samples or [C.jsonable({k: v for k, v in c.items() if not k.startswith('_')}) for c in cases[:2]]
    cov['input_distribution'] = dist
    cov['known_findings_seen'] = sorted(known_seen)

    # ---- 5. extraction cross-check by vm_compute on a deterministic sample ----
    if binp and model_out and broken_proof is None:
        ks = sorted(model_out)
        limit = 12 if tier == 'quick' else 40
        step = max(1, len(ks) // limit)
        small = [k for k in ks[::step] if len(encs[k]) < 600 and len(model_out[k]) < 4000][:limit]
        n, err = C.vm_crosscheck(mod.MODEL, getattr(mod, 'RUNFUN', 'run'),
                                 [(encs[k], model_out[k]) for k in small], prop)
        cov['vm_compute_crosschecked'] = n
        if err:
            violations.append(('extraction', {'property': prop, 'what': 'extracted binary and vm_compute disagree',
                                              'error': err}, False))

    extra_noinput = []
    # ---- 6. extra per-property checks (numeric tests labelled as tests, exhaustive tables, ...) ----
    if hasattr(mod, 'extra'):
        try:
            ex = mod.extra(tier, rng)
            cov['extra'] = C.jsonable(ex.get('report', {}))
            for v in ex.get('violations', []):
                kf = None
                for f in findings:
                    if f.get('property') == prop and f.get('status') == 'known' and f.get('id') == v.get('known_id'):
                        kf = f
                if kf:
                    known_seen[kf['id']] = kf.get('what', '')
                elif v.get('no_input') or v.get('case') is None:
                    # a broken obligation for which the search found no concrete failing input
                    extra_noinput.append(v)
                else:
                    oracle_fail.append((v.get('case'), v.get('impl'), v.get('what')))
        except Exception:
            harness_bugs.append({'case': None, 'error': 'extra: ' + traceback.format_exc()[-1500:]})

    # known findings that must still be replayed explicitly
    if hasattr(mod, 'replay_known'):
        for f in findings:
            if f.get('property') == prop and f.get('status') == 'known':
                try:
                    if mod.replay_known(f):
                        known_seen[f['id']] = f.get('what', '')
                except Exception:
                    harness_bugs.append({'case': f, 'error': 'replay_known: ' + traceback.format_exc()[-1200:]})

    # ---- 7. decision (DESIGN section 5.1) ----
    for c, impl, msg in oracle_fail[:5]:
        violations.append(('property', {'property': prop, 'kind': 'failing input', 'case': C.jsonable(c),
                                        'impl_result': C.jsonable(impl), 'what': msg,
                                        'how_to_replay': f'./check replay <this file>'}, True))
    for v in extra_noinput[:3]:
        violations.append(('extra', {'property': prop, 'kind': 'obligation broken, no failing input found',
                                     'what': v.get('what'), 'detail': C.jsonable(v.get('detail'))}, False))
    if not oracle_fail:
        if disagreements:
            c, impl, msg = disagreements[0]
            # search: the oracle already ran on every case and found nothing
            violations.append(('correspondence', {'property': prop, 'kind': 'correspondence broken',
                                                  'case': C.jsonable(c), 'impl_result': C.jsonable(impl),
                                                  'what': msg, 'n_disagreements': len(disagreements),
                                                  'searched_cases': n_eval}, False))
        if broken_proof is not None:
            violations.append(('proof', {'property': prop, 'kind': 'proof obligation broken',
                                         'detail': broken_proof, 'searched_cases': n_eval}, False))
    if harness_bugs:
        cov['harness_errors'] = len(harness_bugs)
        violations.append(('harness', {'property': prop, 'kind': 'harness error (not a property verdict)',
                                       'first': C.jsonable(harness_bugs[0])}, False))
    return finish()


def replay(path):
    j = json.load(open(path))
    prop = j['property']
    mod = importlib.import_module(f'harness.props.{prop.lower()}')
    c = j.get('case')
    if c is None:
        print('replay names a broken proof or correspondence, no input to re-run:')
        print(json.dumps(j, indent=1)[:3000])
        return 1
    impl = mod.run_impl(c)
    msg = mod.oracle(c, impl) if hasattr(mod, 'oracle') else None
    print('case:', json.dumps(c)[:2000])
    print('implementation result:', json.dumps(C.jsonable(impl))[:2000])
    print('oracle verdict:', msg or 'property holds on this input')
    return 1 if msg else 0
