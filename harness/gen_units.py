"""C14 - generator of coq/theories/Gen/UnitTable.v from the working tree of lentil.

Two parts (DESIGN.md section 4.1):

(i)  the 4 x 4 wavelength-unit factors are OBSERVED exhaustively through the real classes
     (``Unit(a).to(b)`` for every ordered pair of canonical unit names) and emitted as exact
     decimal rationals: the shortest decimal that round-trips the float (``repr``), which must be
     of the form d * 10^k - anything else (nan, inf, a non-number) is refused;
(ii) the 3 x 3 flux conversions are functions of (flux, wave), so they are TRANSLATED from the
     source text of ``Photlam.to / Flam.to / Wlam.to`` by a fail-closed ``ast`` translator.  It
     reads: an optional ``t = <unit>.lower()``; if/elif ladders or sequences of
     ``if <unit>.lower() == '<name>': return <expr>`` with early returns (``in [..names..]`` too)
     ending in ``raise``; or a dict-of-lambdas dispatch ``D[<lowered>](flux, wave)``; <expr> is
     arithmetic (+ - * / unary -, ** small natural) over the flux and wave parameters, H, C,
     numeric literals and module-level names bound exactly once to such arithmetic.
     Anything else is REFUSED (``GenError``).  A refusal is not an alarm: the last successfully
     translated terms (Gen/UnitTable.terms.json) are retained, the proofs are rebuilt against
     them and the harness validates them against the running implementation on exact rationals;
     only a disagreement there is a violation.

The module constants H, C, K are observed (``float`` -> exact binary rational).

``translate()`` also returns the emitted expressions in a tiny prefix form that
``eval_expr`` evaluates with ``fractions.Fraction`` - used by the harness to cross-check the
translator against the implementation without going through Coq.
"""
import ast
import inspect
import os
import re
import textwrap
from fractions import Fraction

WUNITS = [('Wm', 'm'), ('Wum', 'um'), ('Wnm', 'nm'), ('Wangstrom', 'angstrom')]
FUNITS = [('Fphotlam', 'photlam', 'Photlam'), ('Fflam', 'flam', 'Flam'), ('Fwlam', 'wlam', 'Wlam')]
FNAMES = [f[1] for f in FUNITS]
MAXPOW = 8


class GenError(Exception):
    pass


# ------------------------------------------------------------------ exact decimals
def decimal_of_float(x):
    """shortest round-tripping decimal of a float (or an int) as an exact Fraction"""
    if isinstance(x, bool) or not isinstance(x, (int, float)):
        try:
            import numpy as np
            if isinstance(x, (np.integer,)):
                x = int(x)
            elif isinstance(x, (np.floating,)):
                x = float(x)
            else:
                raise GenError(f'factor is not a number: {x!r}')
        except ImportError:
            raise GenError(f'factor is not a number: {x!r}')
    if isinstance(x, int):
        return Fraction(x)
    s = repr(x)
    m = re.fullmatch(r'(-?)(\d+)(?:\.(\d+))?(?:e([+-]?\d+))?', s)
    if not m:
        raise GenError(f'factor {s} is not of the form d*10^k')
    sign, ip, fp, ex = m.group(1), m.group(2), m.group(3) or '', int(m.group(4) or 0)
    val = Fraction(int(ip + fp)) * Fraction(10) ** (ex - len(fp))
    if float(val) != x:
        raise GenError(f'decimal reading of {s} does not round-trip')
    return -val if sign else val


def q_lit(fr):
    n, d = fr.numerator, fr.denominator
    return f'(({n}) # {d})%Q' if n < 0 else f'({n} # {d})%Q'


# ------------------------------------------------------------------ (i) observed wavelength factors
def observe_wave_factors(rad):
    tab = {}
    for ca, na in WUNITS:
        ua = rad.Unit(na)
        if ua is None or not hasattr(ua, 'to'):
            raise GenError(f'Unit({na!r}) is not a wavelength unit object')
        for cb, nb in WUNITS:
            v = ua.to(nb)
            fr = decimal_of_float(v)
            if fr <= 0:
                raise GenError(f'factor {na}->{nb} = {v!r} is not positive')
            tab[(ca, cb)] = fr
    return tab


# ------------------------------------------------------------------ (ii) translated flux conversions
class _Ctx:
    """what the translator knows while reading one to(): parameter roles, aliases of the lowered
    target, and the module (for named numeric constants)"""

    def __init__(self, rad, modtree, unitparam, env):
        self.rad = rad
        self.modtree = modtree
        self.unitparam = unitparam
        self.env = dict(env)          # python name -> 'flux' | 'wave' | 'H' | 'C'
        self.aliases = set()          # local names bound to <unitparam>.lower()
        self.consts = {}              # module-level named constants already translated
        self.busy = set()


def _is_lowered(node, ctx):
    """node is <unitparam>.lower() or a local alias of it"""
    if isinstance(node, ast.Name) and node.id in ctx.aliases:
        return True
    return (isinstance(node, ast.Call) and not node.args and not node.keywords
            and isinstance(node.func, ast.Attribute) and node.func.attr == 'lower'
            and isinstance(node.func.value, ast.Name) and node.func.value.id == ctx.unitparam)


def _names_of_test(test, ctx):
    """the unit names selected by a ladder test, or GenError"""
    if not isinstance(test, ast.Compare) or len(test.ops) != 1 or len(test.comparators) != 1:
        raise GenError('ladder test is not a single comparison: ' + ast.dump(test)[:120])
    left, op, right = test.left, test.ops[0], test.comparators[0]
    if not _is_lowered(left, ctx):
        raise GenError(f'ladder test is not on {ctx.unitparam}.lower(): ' + ast.dump(left)[:120])
    if isinstance(op, ast.Eq) and isinstance(right, ast.Constant) and isinstance(right.value, str):
        names = [right.value]
    elif isinstance(op, ast.In) and isinstance(right, (ast.List, ast.Tuple, ast.Set)) and right.elts and all(
            isinstance(e, ast.Constant) and isinstance(e.value, str) for e in right.elts):
        names = [e.value for e in right.elts]
    else:
        raise GenError('ladder test is neither == "<name>" nor in [<names>]: ' + ast.dump(test)[:160])
    for n in names:
        if n != n.lower():
            raise GenError(f'ladder compares a lowered name with {n!r}')
    return names


def _module_const(name, ctx):
    """a module-level name other than H, C: it must be bound exactly once, at module level, to
    arithmetic over literals, H, C and other such names; its translation replaces the name"""
    if name in ctx.consts:
        return ctx.consts[name]
    if name in ctx.busy:
        raise GenError(f'module constant {name} is defined in terms of itself')
    binds = []
    for node in ast.walk(ctx.modtree):
        if isinstance(node, (ast.Global, ast.Nonlocal)) and name in node.names:
            raise GenError(f'module constant {name} is declared global/nonlocal somewhere')
        tg = []
        if isinstance(node, ast.Assign):
            tg = node.targets
        elif isinstance(node, (ast.AugAssign, ast.AnnAssign)):
            tg = [node.target]
        elif isinstance(node, (ast.For, ast.comprehension)):
            tg = [node.target]
        elif isinstance(node, (ast.Import, ast.ImportFrom)):
            if any((a.asname or a.name.split('.')[0]) == name for a in node.names):
                binds.append(None)
        elif isinstance(node, (ast.FunctionDef, ast.ClassDef)) and node.name == name:
            binds.append(None)
        for t in tg:
            for sub in ast.walk(t):
                if isinstance(sub, ast.Name) and sub.id == name:
                    binds.append(node)
    top = [n for n in ctx.modtree.body if isinstance(n, ast.Assign) and len(n.targets) == 1
           and isinstance(n.targets[0], ast.Name) and n.targets[0].id == name]
    if len(binds) != 1 or len(top) != 1 or binds[0] is not top[0]:
        raise GenError(f'name {name!r} is not flux, wave, H, C or a module constant bound exactly once')
    ctx.busy.add(name)
    sub = _Ctx(ctx.rad, ctx.modtree, ctx.unitparam, {'H': 'H', 'C': 'C'})
    sub.consts, sub.busy = ctx.consts, ctx.busy
    e = _expr(top[0].value, sub)
    ctx.busy.discard(name)
    # the running module must hold the value the definition gives
    cs = observe_constants(ctx.rad)
    want = eval_expr(e, Fraction(0), Fraction(1), cs['H'], cs['C'])
    have = getattr(ctx.rad, name, None)
    if isinstance(have, bool) or not isinstance(have, (int, float)) or not _close(have, want):
        raise GenError(f'module constant {name} = {have!r} at run time, its definition gives {float(want)!r}')
    ctx.consts[name] = e
    return e


def _close(x, fr, tol=1e-12):
    fx = Fraction(x) if isinstance(x, int) else Fraction(*float(x).as_integer_ratio())
    return abs(fx - fr) <= Fraction(tol).limit_denominator(10 ** 15) * max(abs(fx), abs(fr))


def _expr(node, ctx):
    """python expression -> prefix form: ('flux',) ('wave',) ('H',) ('C',) ('lit', Fraction)
    ('add'|'sub'|'mul'|'div', a, b) ('neg', a)"""
    if isinstance(node, ast.Name):
        if node.id in ctx.env:
            return (ctx.env[node.id],)
        if node.id in ctx.aliases or node.id == ctx.unitparam:
            raise GenError(f'the unit name {node.id!r} is used as a number')
        return _module_const(node.id, ctx)
    if isinstance(node, ast.Constant):
        v = node.value
        if isinstance(v, bool) or not isinstance(v, (int, float)):
            raise GenError(f'literal {v!r} is not a real number')
        return ('lit', decimal_of_float(v))
    if isinstance(node, ast.UnaryOp):
        if isinstance(node.op, ast.USub):
            return ('neg', _expr(node.operand, ctx))
        if isinstance(node.op, ast.UAdd):
            return _expr(node.operand, ctx)
        raise GenError('unary operator ' + type(node.op).__name__)
    if isinstance(node, ast.BinOp):
        ops = {ast.Add: 'add', ast.Sub: 'sub', ast.Mult: 'mul', ast.Div: 'div'}
        if type(node.op) in ops:
            return (ops[type(node.op)], _expr(node.left, ctx), _expr(node.right, ctx))
        if isinstance(node.op, ast.Pow):
            e = node.right
            if (isinstance(e, ast.Constant) and isinstance(e.value, int) and not isinstance(e.value, bool)
                    and 1 <= e.value <= MAXPOW):
                b = _expr(node.left, ctx)
                out = b
                for _ in range(e.value - 1):
                    out = ('mul', out, b)
                return out
            raise GenError('power with an exponent that is not a literal natural number 1..%d' % MAXPOW)
        raise GenError('binary operator ' + type(node.op).__name__)
    raise GenError('expression form ' + type(node).__name__)


def _is_raise(stmts):
    return len(stmts) == 1 and isinstance(stmts[0], ast.Raise)


def _lambda_table(node, ctx):
    """{'name': lambda [flux[, wave]]: <arith>, ...} -> [(names, expr)]; the lambdas' parameters
    are matched by position with (flux, wave) of the call D[target](<flux>, <wave>) checked by the caller"""
    if not isinstance(node, ast.Dict) or not node.keys:
        raise GenError('dispatch table is not a dict literal')
    out = []
    for k, v in zip(node.keys, node.values):
        if not (isinstance(k, ast.Constant) and isinstance(k.value, str) and k.value == k.value.lower()):
            raise GenError('dispatch table key is not a lower-case string literal')
        if not isinstance(v, ast.Lambda):
            raise GenError('dispatch table value is not a lambda')
        a = v.args
        if a.vararg or a.kwarg or a.kwonlyargs or a.defaults or a.posonlyargs or a.kw_defaults:
            raise GenError('dispatch lambda has a non-plain parameter list')
        out.append((k.value, [x.arg for x in a.args], v.body))
    return out


def _dispatch(stmts, ctx, fd):
    """bodies of the form   [D = {...}]   return D[<lowered>](args)   possibly wrapped in
    try/except KeyError: raise, or guarded by `if <lowered> not in D: raise`"""
    body = list(stmts)
    table = None
    tname = None
    guard_table = None
    if body and isinstance(body[0], ast.Assign) and len(body[0].targets) == 1 and isinstance(body[0].targets[0], ast.Name) \
            and isinstance(body[0].value, ast.Dict):
        tname = body[0].targets[0].id
        table = body[0].value
        body = body[1:]
    if len(body) == 1 and isinstance(body[0], ast.Try):
        t = body[0]
        if t.orelse or t.finalbody or len(t.handlers) != 1 or not _is_raise(t.handlers[0].body):
            raise GenError('try statement around the dispatch is not `try: return ... except KeyError: raise ...`')
        h = t.handlers[0].type
        if not (isinstance(h, ast.Name) and h.id == 'KeyError'):
            raise GenError('dispatch handler does not catch KeyError only')
        body = t.body
    elif len(body) == 2 and isinstance(body[0], ast.If) and _is_raise(body[0].body) and not body[0].orelse:
        g = body[0].test
        if not (isinstance(g, ast.Compare) and len(g.ops) == 1 and isinstance(g.ops[0], ast.NotIn) and _is_lowered(g.left, ctx)):
            raise GenError('guard before the dispatch is not `if <lowered unit> not in <table>: raise`')
        gt = g.comparators[0]
        body = body[1:]
        guard_table = gt
    if not (len(body) == 1 and isinstance(body[0], ast.Return) and isinstance(body[0].value, ast.Call)):
        return None
    call = body[0].value
    if call.keywords or not isinstance(call.func, ast.Subscript) or not _is_lowered(call.func.slice, ctx):
        return None
    ref = call.func.value
    if isinstance(ref, ast.Name) and tname is not None and ref.id == tname:
        pass
    elif isinstance(ref, ast.Name) and tname is None:
        # a module-level table bound exactly once
        top = [n for n in ctx.modtree.body if isinstance(n, ast.Assign) and len(n.targets) == 1
               and isinstance(n.targets[0], ast.Name) and n.targets[0].id == ref.id]
        nb = sum(1 for n in ast.walk(ctx.modtree) if isinstance(n, ast.Name) and n.id == ref.id and isinstance(n.ctx, ast.Store))
        if len(top) != 1 or nb != 1:
            raise GenError(f'dispatch table {ref.id} is not a module-level name bound exactly once')
        table = top[0].value
    else:
        raise GenError('dispatch does not index a local or module-level dict literal')
    if guard_table is not None and not (isinstance(guard_table, ast.Name) and isinstance(ref, ast.Name)
                                                                     and guard_table.id == ref.id):
        raise GenError('guard and dispatch use different tables')
    rows = _lambda_table(table, ctx)
    roles = []
    for a in call.args:
        if not (isinstance(a, ast.Name) and a.id in ctx.env and ctx.env[a.id] in ('flux', 'wave')):
            raise GenError('dispatch call passes something other than the flux / wave parameters')
        roles.append(ctx.env[a.id])
    out = []
    for name, params, bodyexpr in rows:
        if len(params) != len(roles):
            raise GenError('dispatch lambda and call disagree on the number of arguments')
        env = {k: v for k, v in ctx.env.items() if v in ('H', 'C')}
        if not params:                       # closures over the enclosing flux / wave
            env.update({k: v for k, v in ctx.env.items() if v in ('flux', 'wave')})
            if tname is None:
                raise GenError('module-level dispatch lambdas cannot close over flux / wave')
        for prm, role in zip(params, roles):
            if prm in ('H', 'C'):
                raise GenError('dispatch lambda parameter shadows H or C')
            env[prm] = role
        sub = _Ctx(ctx.rad, ctx.modtree, ctx.unitparam, env)
        sub.consts, sub.busy = ctx.consts, ctx.busy
        out.append(([name], _expr(bodyexpr, sub)))
    return out


def _branches(stmts, ctx, fd):
    """the statements of a ``to`` body -> list of (names, expr), first match first.
    Accepted: docstring; `t = <unit>.lower()`; if/elif ladders and sequences of `if ...: return e`
    (early returns), ending in `raise`; or a dict-of-lambdas dispatch"""
    body = [s for s in stmts if not (isinstance(s, ast.Expr) and isinstance(s.value, ast.Constant)
                                     and isinstance(s.value.value, str))]      # docstring
    while body and isinstance(body[0], ast.Assign) and len(body[0].targets) == 1 \
            and isinstance(body[0].targets[0], ast.Name) and _is_lowered(body[0].value, ctx):
        nm = body[0].targets[0].id
        if nm in ctx.env or nm == ctx.unitparam:
            raise GenError(f'alias {nm!r} of the lowered unit shadows a parameter or constant')
        ctx.aliases.add(nm)
        body = body[1:]
    # no other binding of an alias anywhere in the function
    for node in ast.walk(fd):
        if isinstance(node, ast.Name) and isinstance(node.ctx, ast.Store) and (node.id in ctx.env or node.id == ctx.unitparam):
            raise GenError(f'{node.id!r} is re-bound inside to()')
    stores = [n.id for n in ast.walk(fd) if isinstance(n, ast.Name) and isinstance(n.ctx, ast.Store) and n.id in ctx.aliases]
    if len(stores) != len(set(stores)):
        raise GenError('an alias of the lowered unit is bound twice')
    d = _dispatch(body, ctx, fd)
    if d is not None:
        return d
    out = []

    def walk(seq):
        """returns True when the sequence certainly ends (raise)"""
        for k, st in enumerate(seq):
            if isinstance(st, ast.Raise):
                if k != len(seq) - 1:
                    raise GenError('statements after raise')
                return True
            if not isinstance(st, ast.If):
                raise GenError('body of to() has a statement that is neither `if <unit test>: return <expr>` nor raise: '
                               + type(st).__name__)
            names = _names_of_test(st.test, ctx)
            if len(st.body) != 1 or not isinstance(st.body[0], ast.Return) or st.body[0].value is None:
                raise GenError('ladder branch is not a single `return <expr>`')
            out.append((names, _expr(st.body[0].value, ctx)))
            if st.orelse:
                if not walk(st.orelse):
                    raise GenError('else branch of the ladder can fall through')
                if k != len(seq) - 1:
                    raise GenError('statements after a ladder that always returns or raises')
                return True
        return False
    if not body or not walk(body):
        raise GenError('ladder does not end in `raise ...`')
    return out


def translate_flux(rad):
    """{(from, to): expr} for the nine cells, translated from the source of the three classes"""
    for nm in ('H', 'C'):
        v = getattr(rad, nm, None)
        if isinstance(v, bool) or not isinstance(v, (int, float)):
            raise GenError(f'module constant {nm} is not a number')
    try:
        modtree = ast.parse(inspect.getsource(rad))
    except (OSError, TypeError, SyntaxError) as e:
        raise GenError(f'no source for the module: {e}')
    for nm in ('H', 'C'):
        nb = sum(1 for n in ast.walk(modtree) if isinstance(n, ast.Name) and n.id == nm and isinstance(n.ctx, ast.Store))
        if nb != 1:
            raise GenError(f'module constant {nm} is bound {nb} times')
    tab = {}
    for cf, nf, cls in FUNITS:
        klass = getattr(rad, cls, None)
        if klass is None:
            raise GenError(f'class {cls} not found')
        if getattr(rad.Unit(nf), '__class__', None) is not klass:
            raise GenError(f'Unit({nf!r}) is not an instance of {cls}')
        fn = inspect.getattr_static(klass, 'to')
        fn = getattr(fn, '__func__', fn)
        try:
            src = textwrap.dedent(inspect.getsource(fn))
        except (OSError, TypeError) as e:
            raise GenError(f'no source for {cls}.to: {e}')
        mod = ast.parse(src)
        if len(mod.body) != 1 or not isinstance(mod.body[0], ast.FunctionDef):
            raise GenError(f'{cls}.to is not a plain function definition')
        fd = mod.body[0]
        a = fd.args
        params = [x.arg for x in a.args]
        if (len(params) != 3 or a.vararg or a.kwarg or a.kwonlyargs or a.defaults or a.posonlyargs
                or not isinstance(inspect.getattr_static(klass, 'to'), staticmethod)):
            raise GenError(f'{cls}.to is not a staticmethod of three positional parameters (flux, fluxunit, wave)')
        for d in fd.decorator_list:
            if not (isinstance(d, ast.Name) and d.id == 'staticmethod'):
                raise GenError(f'{cls}.to has an unexpected decorator')
        pflux, punit, pwave = params
        if len({pflux, punit, pwave, 'H', 'C'}) != 5:
            raise GenError(f'{cls}.to: parameter names clash')
        ctx = _Ctx(rad, modtree, punit, {pflux: 'flux', pwave: 'wave', 'H': 'H', 'C': 'C'})
        brs = _branches(fd.body, ctx, fd)
        for ct, nt, _ in FUNITS:
            hit = [e for names, e in brs if nt in names]
            if not hit:
                raise GenError(f'{cls}.to has no branch for {nt!r}')
            tab[(cf, ct)] = hit[0]          # first match wins, as in the ladder
        for names, _ in brs:
            for n in names:
                if n not in FNAMES:
                    raise GenError(f'{cls}.to has a branch for the unknown unit {n!r}')
    return tab


# ------------------------------------------------------------------ retained table (last successful translation)
def terms_to_json(ftab):
    def enc(e):
        if e[0] == 'lit':
            return ['lit', str(e[1])]
        return [e[0]] + [enc(x) for x in e[1:]]
    return {f'{a}>{b}': enc(e) for (a, b), e in sorted(ftab.items())}


def terms_from_json(j):
    def dec(e):
        if not isinstance(e, list) or not e or e[0] not in ('flux', 'wave', 'H', 'C', 'lit', 'neg', 'add', 'sub', 'mul', 'div'):
            raise GenError('retained table: malformed term')
        if e[0] == 'lit':
            return ('lit', Fraction(e[1]))
        return tuple([e[0]] + [dec(x) for x in e[1:]])
    out = {}
    for k, v in j.items():
        a, b = k.split('>')
        out[(a, b)] = dec(v)
    if set(out) != {(a[0], b[0]) for a in FUNITS for b in FUNITS}:
        raise GenError('retained table: not the nine cells')
    return out


def gallina(e):
    k = e[0]
    if k in ('flux', 'wave'):
        return k
    if k == 'H':
        return 'cH'
    if k == 'C':
        return 'cC'
    if k == 'lit':
        return f'fofq {q_lit(e[1])}'
    if k == 'neg':
        return f'(- {gallina(e[1])})'
    sym = {'add': '+', 'sub': '-', 'mul': '*', 'div': '/'}[k]
    return f'({gallina(e[1])} {sym} {gallina(e[2])})'


def eval_expr(e, flux, wave, H, C):
    """evaluate a translated expression exactly (arguments: Fractions)"""
    k = e[0]
    if k == 'flux':
        return flux
    if k == 'wave':
        return wave
    if k == 'H':
        return H
    if k == 'C':
        return C
    if k == 'lit':
        return e[1]
    if k == 'neg':
        return -eval_expr(e[1], flux, wave, H, C)
    a, b = eval_expr(e[1], flux, wave, H, C), eval_expr(e[2], flux, wave, H, C)
    return a + b if k == 'add' else a - b if k == 'sub' else a * b if k == 'mul' else a / b


# ------------------------------------------------------------------ emission
def observe_constants(rad):
    out = {}
    for nm in ('H', 'C', 'K'):
        v = getattr(rad, nm, None)
        if isinstance(v, bool) or not isinstance(v, (int, float)):
            raise GenError(f'module constant {nm} is not a number')
        out[nm] = Fraction(*float(v).as_integer_ratio()) if isinstance(v, float) else Fraction(v)
        if out[nm] <= 0:
            raise GenError(f'module constant {nm} is not positive')
    return out


def render(wtab, ftab, consts):
    L = ['(* GENERATED by harness/gen_units.py from lentil/radiometry.py on every check - do not edit.',
         '   wave_factor: the 16 factors Unit(a).to(b), observed through the real classes (exact decimals).',
         '   flux_conv:   the 9 conversions X.to(flux, fluxunit, wave), translated from source.',
         '   const_*:     the module constants H, C, K (the floats, as exact rationals). *)',
         'From LV Require Import Model.UnitsBase.', '',
         'Definition wave_factor (a b : wunit) : Q :=', '  match a, b with']
    for ca, _ in WUNITS:
        for cb, _ in WUNITS:
            L.append(f'  | {ca}, {cb} => {q_lit(wtab[(ca, cb)])}')
    L += ['  end.', '']
    for nm in ('H', 'C', 'K'):
        L.append(f'Definition const_{nm} : Q := {q_lit(consts[nm])}.')
    L += ['', 'Section FluxTable.', 'Variable K : Fld.', 'Variables cH cC : K.',
          'Definition flux_conv (a b : funit) (flux wave : K) : K :=', '  match a, b with']
    for cf, _, _ in FUNITS:
        for ct, _, _ in FUNITS:
            L.append(f'  | {cf}, {ct} => {gallina(ftab[(cf, ct)])}%F')
    L += ['  end.', 'End FluxTable.', '']
    return '\n'.join(L)


def generate(rad, terms_path=None, keep=False):
    """returns (coq text, wave table, flux table, constants, status).
    The wavelength factors and the constants are always observed.  The flux terms are translated
    from source; when the translator REFUSES (a form it does not read) the last successfully
    translated terms (terms_path) are used instead and status says so - the caller must then
    validate them against the running implementation.  keep=True writes terms_path after a
    successful translation."""
    import json
    wtab = observe_wave_factors(rad)
    consts = observe_constants(rad)
    try:
        ftab = translate_flux(rad)
        status = {'translated': True, 'reason': None}
        if keep and terms_path:
            tj = terms_to_json(ftab)
            txt = '{\n' + ',\n'.join(f' {json.dumps(k)}: {json.dumps(tj[k])}' for k in sorted(tj)) + '\n}\n'
            old = open(terms_path).read() if os.path.exists(terms_path) else None
            if old != txt:
                with open(terms_path + '.tmp', 'w') as fh:
                    fh.write(txt)
                os.replace(terms_path + '.tmp', terms_path)
    except GenError as e:
        if not terms_path or not os.path.exists(terms_path):
            raise
        ftab = terms_from_json(json.load(open(terms_path)))
        status = {'translated': False, 'reason': str(e)}
    return render(wtab, ftab, consts), wtab, ftab, consts, status


def write(rad, path, terms_path=None, keep=False):
    """regenerate the table; the file is rewritten only when its text changes (keeps make quiet)"""
    txt, wtab, ftab, consts, status = generate(rad, terms_path, keep)
    old = open(path).read() if os.path.exists(path) else None
    if old != txt:
        tmp = path + '.tmp'
        with open(tmp, 'w') as fh:
            fh.write(txt)
        os.replace(tmp, path)
    return wtab, ftab, consts, status
