"""C14 - generator of coq/theories/Gen/UnitTable.v from the working tree of lentil.

Two parts (DESIGN.md section 4.1):

(i)  the 4 x 4 wavelength-unit factors are OBSERVED exhaustively through the real classes
     (``Unit(a).to(b)`` for every ordered pair of canonical unit names) and emitted as exact
     decimal rationals: the shortest decimal that round-trips the float (``repr``), which must be
     of the form d * 10^k - anything else (nan, inf, a non-number) is refused;
(ii) the 3 x 3 flux conversions are functions of (flux, wave), so they are TRANSLATED from the
     source text of ``Photlam.to / Flam.to / Wlam.to`` by a fail-closed ``ast`` translator.  It
     accepts only an ``if <unit>.lower() == '<name>': return <expr>`` ladder (``in [..names..]``
     is accepted too) that ends in ``raise``, with <expr> arithmetic (+ - * / unary -, ** small
     natural) over the flux and wave parameters, the module constants H and C and numeric
     literals.  Anything else raises ``GenError``; the runner reports a broken tie.

The module constants H, C, K are observed (``float`` -> exact binary rational).

``translate()`` also returns the emitted expressions in a tiny prefix form that
``eval_expr`` evaluates with ``fractions.Fraction`` - used by the harness to cross-check the
translator against the implementation without going through Coq.
"""
import ast
import inspect
import os
import re
import textwrap
from fractions import Fraction

WUNITS = [('Wm', 'm'), ('Wum', 'um'), ('Wnm', 'nm'), ('Wangstrom', 'angstrom')]
FUNITS = [('Fphotlam', 'photlam', 'Photlam'), ('Fflam', 'flam', 'Flam'), ('Fwlam', 'wlam', 'Wlam')]
FNAMES = [f[1] for f in FUNITS]
MAXPOW = 8


class GenError(Exception):
    pass


# ------------------------------------------------------------------ exact decimals
def decimal_of_float(x):
    """shortest round-tripping decimal of a float (or an int) as an exact Fraction"""
    if isinstance(x, bool) or not isinstance(x, (int, float)):
        try:
            import numpy as np
            if isinstance(x, (np.integer,)):
                x = int(x)
            elif isinstance(x, (np.floating,)):
                x = float(x)
            else:
                raise GenError(f'factor is not a number: {x!r}')
        except ImportError:
            raise GenError(f'factor is not a number: {x!r}')
    if isinstance(x, int):
        return Fraction(x)
    s = repr(x)
    m = re.fullmatch(r'(-?)(\d+)(?:\.(\d+))?(?:e([+-]?\d+))?', s)
    if not m:
        raise GenError(f'factor {s} is not of the form d*10^k')
    sign, ip, fp, ex = m.group(1), m.group(2), m.group(3) or '', int(m.group(4) or 0)
    val = Fraction(int(ip + fp)) * Fraction(10) ** (ex - len(fp))
    if float(val) != x:
        raise GenError(f'decimal reading of {s} does not round-trip')
    return -val if sign else val


def q_lit(fr):
    n, d = fr.numerator, fr.denominator
    return f'(({n}) # {d})%Q' if n < 0 else f'({n} # {d})%Q'


# ------------------------------------------------------------------ (i) observed wavelength factors
def observe_wave_factors(rad):
    tab = {}
    for ca, na in WUNITS:
        ua = rad.Unit(na)
        if ua is None or not hasattr(ua, 'to'):
            raise GenError(f'Unit({na!r}) is not a wavelength unit object')
        for cb, nb in WUNITS:
            v = ua.to(nb)
            fr = decimal_of_float(v)
            if fr <= 0:
                raise GenError(f'factor {na}->{nb} = {v!r} is not positive')
            tab[(ca, cb)] = fr
    return tab


# ------------------------------------------------------------------ (ii) translated flux conversions
def _names_of_test(test, unitparam):
    """the unit names selected by a ladder test, or GenError"""
    if not isinstance(test, ast.Compare) or len(test.ops) != 1 or len(test.comparators) != 1:
        raise GenError('ladder test is not a single comparison: ' + ast.dump(test)[:120])
    left, op, right = test.left, test.ops[0], test.comparators[0]
    ok_left = (isinstance(left, ast.Call) and not left.args and not left.keywords
               and isinstance(left.func, ast.Attribute) and left.func.attr == 'lower'
               and isinstance(left.func.value, ast.Name) and left.func.value.id == unitparam)
    if not ok_left:
        raise GenError(f'ladder test is not on {unitparam}.lower(): ' + ast.dump(left)[:120])
    if isinstance(op, ast.Eq) and isinstance(right, ast.Constant) and isinstance(right.value, str):
        names = [right.value]
    elif isinstance(op, ast.In) and isinstance(right, (ast.List, ast.Tuple, ast.Set)) and right.elts and all(
            isinstance(e, ast.Constant) and isinstance(e.value, str) for e in right.elts):
        names = [e.value for e in right.elts]
    else:
        raise GenError('ladder test is neither == "<name>" nor in [<names>]: ' + ast.dump(test)[:160])
    for n in names:
        if n != n.lower():
            raise GenError(f'ladder compares a lowered name with {n!r}')
    return names


def _expr(node, env):
    """python expression -> prefix form: ('flux',) ('wave',) ('H',) ('C',) ('lit', Fraction)
    ('add'|'sub'|'mul'|'div', a, b) ('neg', a)"""
    if isinstance(node, ast.Name):
        if node.id in env:
            return (env[node.id],)
        raise GenError(f'name {node.id!r} is not flux, wave, H or C')
    if isinstance(node, ast.Constant):
        v = node.value
        if isinstance(v, bool) or not isinstance(v, (int, float)):
            raise GenError(f'literal {v!r} is not a real number')
        return ('lit', decimal_of_float(v))
    if isinstance(node, ast.UnaryOp):
        if isinstance(node.op, ast.USub):
            return ('neg', _expr(node.operand, env))
        if isinstance(node.op, ast.UAdd):
            return _expr(node.operand, env)
        raise GenError('unary operator ' + type(node.op).__name__)
    if isinstance(node, ast.BinOp):
        ops = {ast.Add: 'add', ast.Sub: 'sub', ast.Mult: 'mul', ast.Div: 'div'}
        if type(node.op) in ops:
            return (ops[type(node.op)], _expr(node.left, env), _expr(node.right, env))
        if isinstance(node.op, ast.Pow):
            e = node.right
            if (isinstance(e, ast.Constant) and isinstance(e.value, int) and not isinstance(e.value, bool)
                    and 1 <= e.value <= MAXPOW):
                b = _expr(node.left, env)
                out = b
                for _ in range(e.value - 1):
                    out = ('mul', out, b)
                return out
            raise GenError('power with an exponent that is not a literal natural number 1..%d' % MAXPOW)
        raise GenError('binary operator ' + type(node.op).__name__)
    raise GenError('expression form ' + type(node).__name__)


def _branches(stmts, unitparam, env):
    """the statements of a ``to`` body -> list of (names, expr); the ladder must end in raise"""
    body = [s for s in stmts if not (isinstance(s, ast.Expr) and isinstance(s.value, ast.Constant)
                                     and isinstance(s.value.value, str))]      # docstring
    if len(body) != 1 or not isinstance(body[0], ast.If):
        raise GenError('body of to() is not a single if/elif ladder')
    out = []
    node = body[0]
    while True:
        names = _names_of_test(node.test, unitparam)
        if len(node.body) != 1 or not isinstance(node.body[0], ast.Return) or node.body[0].value is None:
            raise GenError('ladder branch is not a single `return <expr>`')
        out.append((names, _expr(node.body[0].value, env)))
        rest = node.orelse
        if len(rest) == 1 and isinstance(rest[0], ast.If):
            node = rest[0]
            continue
        if len(rest) == 1 and isinstance(rest[0], ast.Raise):
            return out
        raise GenError('ladder does not end in `else: raise ...`')


def translate_flux(rad):
    """{(from, to): expr} for the nine cells, translated from the source of the three classes"""
    for nm in ('H', 'C'):
        v = getattr(rad, nm, None)
        if isinstance(v, bool) or not isinstance(v, (int, float)):
            raise GenError(f'module constant {nm} is not a number')
    tab = {}
    for cf, nf, cls in FUNITS:
        klass = getattr(rad, cls, None)
        if klass is None:
            raise GenError(f'class {cls} not found')
        if getattr(rad.Unit(nf), '__class__', None) is not klass:
            raise GenError(f'Unit({nf!r}) is not an instance of {cls}')
        fn = inspect.getattr_static(klass, 'to')
        fn = getattr(fn, '__func__', fn)
        try:
            src = textwrap.dedent(inspect.getsource(fn))
        except (OSError, TypeError) as e:
            raise GenError(f'no source for {cls}.to: {e}')
        mod = ast.parse(src)
        if len(mod.body) != 1 or not isinstance(mod.body[0], ast.FunctionDef):
            raise GenError(f'{cls}.to is not a plain function definition')
        fd = mod.body[0]
        a = fd.args
        params = [x.arg for x in a.args]
        if (len(params) != 3 or a.vararg or a.kwarg or a.kwonlyargs or a.defaults or a.posonlyargs
                or not isinstance(inspect.getattr_static(klass, 'to'), staticmethod)):
            raise GenError(f'{cls}.to is not a staticmethod of three positional parameters (flux, fluxunit, wave)')
        for d in fd.decorator_list:
            if not (isinstance(d, ast.Name) and d.id == 'staticmethod'):
                raise GenError(f'{cls}.to has an unexpected decorator')
        pflux, punit, pwave = params
        if len({pflux, punit, pwave, 'H', 'C'}) != 5:
            raise GenError(f'{cls}.to: parameter names clash')
        env = {pflux: 'flux', pwave: 'wave', 'H': 'H', 'C': 'C'}
        brs = _branches(fd.body, punit, env)
        for ct, nt, _ in FUNITS:
            hit = [e for names, e in brs if nt in names]
            if not hit:
                raise GenError(f'{cls}.to has no branch for {nt!r}')
            tab[(cf, ct)] = hit[0]          # first match wins, as in the ladder
        for names, _ in brs:
            for n in names:
                if n not in FNAMES:
                    raise GenError(f'{cls}.to has a branch for the unknown unit {n!r}')
    return tab


def gallina(e):
    k = e[0]
    if k in ('flux', 'wave'):
        return k
    if k == 'H':
        return 'cH'
    if k == 'C':
        return 'cC'
    if k == 'lit':
        return f'fofq {q_lit(e[1])}'
    if k == 'neg':
        return f'(- {gallina(e[1])})'
    sym = {'add': '+', 'sub': '-', 'mul': '*', 'div': '/'}[k]
    return f'({gallina(e[1])} {sym} {gallina(e[2])})'


def eval_expr(e, flux, wave, H, C):
    """evaluate a translated expression exactly (arguments: Fractions)"""
    k = e[0]
    if k == 'flux':
        return flux
    if k == 'wave':
        return wave
    if k == 'H':
        return H
    if k == 'C':
        return C
    if k == 'lit':
        return e[1]
    if k == 'neg':
        return -eval_expr(e[1], flux, wave, H, C)
    a, b = eval_expr(e[1], flux, wave, H, C), eval_expr(e[2], flux, wave, H, C)
    return a + b if k == 'add' else a - b if k == 'sub' else a * b if k == 'mul' else a / b


# ------------------------------------------------------------------ emission
def observe_constants(rad):
    out = {}
    for nm in ('H', 'C', 'K'):
        v = getattr(rad, nm, None)
        if isinstance(v, bool) or not isinstance(v, (int, float)):
            raise GenError(f'module constant {nm} is not a number')
        out[nm] = Fraction(*float(v).as_integer_ratio()) if isinstance(v, float) else Fraction(v)
        if out[nm] <= 0:
            raise GenError(f'module constant {nm} is not positive')
    return out


def render(wtab, ftab, consts):
    L = ['(* GENERATED by harness/gen_units.py from lentil/radiometry.py on every check - do not edit.',
         '   wave_factor: the 16 factors Unit(a).to(b), observed through the real classes (exact decimals).',
         '   flux_conv:   the 9 conversions X.to(flux, fluxunit, wave), translated from source.',
         '   const_*:     the module constants H, C, K (the floats, as exact rationals). *)',
         'From LV Require Import Model.UnitsBase.', '',
         'Definition wave_factor (a b : wunit) : Q :=', '  match a, b with']
    for ca, _ in WUNITS:
        for cb, _ in WUNITS:
            L.append(f'  | {ca}, {cb} => {q_lit(wtab[(ca, cb)])}')
    L += ['  end.', '']
    for nm in ('H', 'C', 'K'):
        L.append(f'Definition const_{nm} : Q := {q_lit(consts[nm])}.')
    L += ['', 'Section FluxTable.', 'Variable K : Fld.', 'Variables cH cC : K.',
          'Definition flux_conv (a b : funit) (flux wave : K) : K :=', '  match a, b with']
    for cf, _, _ in FUNITS:
        for ct, _, _ in FUNITS:
            L.append(f'  | {cf}, {ct} => {gallina(ftab[(cf, ct)])}%F')
    L += ['  end.', 'End FluxTable.', '']
    return '\n'.join(L)


def generate(rad):
    """returns (coq text, wave table, flux table, constants)"""
    wtab = observe_wave_factors(rad)
    ftab = translate_flux(rad)
    consts = observe_constants(rad)
    return render(wtab, ftab, consts), wtab, ftab, consts


def write(rad, path):
    """regenerate the table; the file is rewritten only when its text changes (keeps make quiet)"""
    txt, wtab, ftab, consts = generate(rad)
    old = open(path).read() if os.path.exists(path) else None
    if old != txt:
        tmp = path + '.tmp'
        with open(tmp, 'w') as fh:
            fh.write(txt)
        os.replace(tmp, path)
    return wtab, ftab, consts
