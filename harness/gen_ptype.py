"""Generator of coq/theories/Gen/PTypeObserved.v  (property C08, DESIGN.md section 4.1).

The implementation's plane-type transition function is *observed exhaustively* on the real classes
of the working tree (imported through harness.common.import_lentil()):

  every wavefront state (ptype none/pupil/image  x  content: fields without tilt / fields with tilt
                         objects / no fields at all)
    x  Plane(ptype=p) for every p in lentil.ptype.PTYPES      } each with an overlapping aperture and
    x  every public plane class of the `lentil` namespace     } with one disjoint from all the light
       - with its default ptype and with every ptype its constructor accepts (ptype=... override)
    x  propagate_dft / propagate_fft

with real (small) arrays, several constructions of every object.  Recorded per cell: the state of
the returned wavefront, or the exception class and the state the operand is left in.  The domain
is finite and enumerated completely, so the emitted Gallina functions ARE the implementation's
transition function on that domain, not a sample of it.

Every multiplication cell is observed a second time with a plane object (and a copy() of it) that
was used before in a different permitted cell: the outcome must not depend on the plane's history.

Fail closed: an unknown ptype object, a different PTYPES tuple, a public plane class that cannot
be constructed, a step whose outcome differs between two constructions of the same types or
between a fresh and a used plane object (behaviour is not a function of the types)
=> GeneratorError => the runner reports a broken tie.

This module also owns the builders of real objects shared with harness/props/c08.py.
"""
import inspect
import os
import sys
import warnings

import numpy as np

from . import common as C

WTYPES = ['none', 'pupil', 'image']
BODIES = ['plain', 'tilted', 'empty']
B_CON = {'plain': 'Plain', 'tilted': 'Tilted', 'empty': 'Empty'}
PTYPES = ['none', 'pupil', 'image', 'tilt', 'transform']
METHODS = ['dft', 'fft']
W_CON = {'none': 'WNone', 'pupil': 'WPupil', 'image': 'WImage'}
P_CON = {'none': 'PNone', 'pupil': 'PPupil', 'image': 'PImage', 'tilt': 'PTilt', 'transform': 'PTransform'}
M_CON = {'dft': 'Dft', 'fft': 'Fft'}
EXC_CON = {'ValueError': 'EValueError', 'TypeError': 'ETypeError', 'IndexError': 'EIndexError',
           'NotImplementedError': 'ENotImplementedError', 'AssertionError': 'EAssertionError',
           'AttributeError': 'EAttributeError', 'KeyError': 'EKeyError'}
EXC_CODE = {'ValueError': 1, 'TypeError': 2, 'IndexError': 3, 'NotImplementedError': 4,
            'AssertionError': 5, 'AttributeError': 6, 'KeyError': 7}

# One consistent sampling regime so that nothing but the types decides whether a step is accepted:
# every wavefront has pixel scale 1 and a finite focal length, every propagation keeps the pixel
# scale at 1 (du / oversample = 1) and, for the FFT, gives an integer grid wl * z (8 or 16) with
# propagation wavelength exactly WL.
WL = 1.0
FOCAL = (8.0, 16.0)


class GeneratorError(Exception):
    pass


class OverrideRefused(GeneratorError):
    """a class constructor does not take the ptype= keyword (or not this value)"""


# ------------------------------------------------------------------------------------------
# real objects
# ------------------------------------------------------------------------------------------
def class_names(lentil):
    """public plane classes: classes of the `lentil` namespace derived from lentil.plane.Plane"""
    base = sys.modules['lentil.plane'].Plane
    out = []
    for n in sorted(dir(lentil)):
        o = getattr(lentil, n)
        if inspect.isclass(o) and issubclass(o, base) and not n.startswith('_'):
            out.append(n)
    if 'Plane' not in out:
        raise GeneratorError('lentil.Plane is not a public plane class any more')
    return out


def _seg_mask():
    m = np.zeros((2, 4, 4))
    m[0, :, :2] = 1
    m[1, :, 2:] = 1
    return m


# (amplitude, opd, mask, pixelscale) variants of a sampled plane
def _ramp(shape):
    return (1.0 + np.arange(shape[0] * shape[1], dtype=float).reshape(shape) / 8.0)


def _bordered():
    a = np.zeros((6, 6))
    a[1:5, 1:5] = 1.0
    return a


PLANE_VARIANTS = [
    lambda: dict(amplitude=1),
    lambda: dict(amplitude=np.ones((4, 4))),
    lambda: dict(amplitude=_ramp((4, 4)), opd=0.25),
    lambda: dict(amplitude=_bordered(), pixelscale=1),
    lambda: dict(amplitude=_ramp((3, 5)), opd=_ramp((3, 5)) / 4.0),
    lambda: dict(amplitude=np.ones((4, 4)), mask=_seg_mask(), pixelscale=1),
    lambda: dict(amplitude=2.0, opd=0.5),
    lambda: dict(amplitude=np.ones((4, 4)), opd=_ramp((4, 4)) / 16.0, pixelscale=(1, 1)),
    # other legal argument forms: integer, bool and float32 arrays, 0-d arrays, explicit masks
    lambda: dict(amplitude=np.ones((4, 4), dtype=int), opd=np.zeros((4, 4), dtype=int)),
    lambda: dict(amplitude=_bordered().astype(bool)),
    lambda: dict(amplitude=_ramp((5, 4)).astype(np.float32), opd=np.float32(0.125), pixelscale=1.0),
    lambda: dict(amplitude=np.array(1.5), opd=np.array(0.0), mask=np.ones((4, 4), dtype=np.uint8)),
]
# Tilts are kept small: one tilt plane displaces the propagated field by at most 1/32 output sample
# (angle * focal length / pixel scale), so that 40 of them displace it by little more than one sample
# and every centred aperture still overlaps it.  A wavefront loses all its fields only where the
# program says so (clip = a plane whose aperture is disjoint from all the light).
TILT_A = 1.0 / 512
TILT_VARIANTS = [(0.0, 0.0), (TILT_A, 0.0), (0.0, -TILT_A), (TILT_A, TILT_A)]
DISP_VARIANTS = [([1.0, 0.0], [1.0, 1.0]), ([0.0, 1.0 / 64], [64.0, 0.0]), ([1.0, 0.0], [128.0, 0.0])]
ROT_VARIANTS = [dict(angle=90), dict(angle=0), dict(angle=30, order=1), dict(angle=1.0, unit='radians')]
FLIP_VARIANTS = [dict(axis=None), dict(axis=0), dict(axis=1)]
# (du, oversample, shape) for the DFT; (du, oversample, shape) for the FFT
DFT_VARIANTS = [(2, 2, (4, 4)), (1, 1, 4), (3, 3, (2, 3)), (2, 2, (3, 5)), (1, 1, (8, 8)),
                ((2, 2), 2, [4, 4]), (np.array([1.0, 1.0]), 1, np.array([5, 4]))]
FFT_VARIANTS = [(2, 2, None), (1, 1, None), (2, 2, 2), (1, 1, (4, 4)), ((2.0, 2.0), 2, None), ([1, 1], 1, [3, 4])]


def _corner(which):
    """a 64x64 aperture open only in one far corner: disjoint from every field this harness produces
    (all of them lie within 16 samples of the centre)"""
    a = np.zeros((64, 64))
    if which == 0:
        a[0:2, 0:3] = 1.0
    else:
        a[61:64, 62:64] = 1.0
    return a


CLIP_VARIANTS = [
    lambda: dict(amplitude=_corner(0)),
    lambda: dict(amplitude=_corner(1), pixelscale=1),
    lambda: dict(amplitude=_corner(0) * 2.0, opd=0.25),
]


def n_variants(kind, name, clip=False):
    if kind == 'fresh':
        return 2
    if clip and kind in ('mulp', 'mulc') and name not in ('Rotate', 'Flip'):
        return len(CLIP_VARIANTS) * (len(FOCAL) if name == 'Pupil' else 1)
    if kind == 'mulp':
        return len(PLANE_VARIANTS)
    if kind == 'prop':
        return len(DFT_VARIANTS) if name == 'dft' else len(FFT_VARIANTS)
    # the tilt classes take the Plane keywords too: first the bare forms, then with a sampled aperture
    if name in ('Tilt',):
        return len(TILT_VARIANTS) + len(PLANE_VARIANTS)
    if name in ('DispersiveTilt', 'Grism'):
        return len(DISP_VARIANTS) + len(PLANE_VARIANTS)
    if name == 'Rotate':
        return len(ROT_VARIANTS)
    if name == 'Flip':
        return len(FLIP_VARIANTS)
    if name == 'Pupil':
        return len(PLANE_VARIANTS) * len(FOCAL)
    return len(PLANE_VARIANTS)


def build_plane(lentil, kind, name, v, clip=False, po=None):
    """kind 'mulp': Plane(ptype=name, ...);  kind 'mulc': an instance of the public class `name`.
    v selects one of the constructions; clip=True asks for an aperture disjoint from all the light
    (ignored by Rotate and Flip, which take no aperture); po = a plane type name: pass it to the class
    constructor as ptype= (as the object or as the string, alternating with v).
    Raises GeneratorError if the object cannot be built."""
    if po is not None and kind == 'mulc':
        if po not in PTYPES:
            raise GeneratorError(f'unknown plane type {po!r}')
        okw = {'ptype': po if v % 2 else getattr(lentil, po)}
    else:
        okw = {}
    with warnings.catch_warnings():
        warnings.simplefilter('ignore')
        try:
            samp = (CLIP_VARIANTS[v % len(CLIP_VARIANTS)] if clip else PLANE_VARIANTS[v % len(PLANE_VARIANTS)])
            nsamp = len(CLIP_VARIANTS) if clip else len(PLANE_VARIANTS)
            if kind == 'mulp':
                if name not in PTYPES:
                    raise GeneratorError(f'unknown plane type {name!r}')
                return lentil.Plane(ptype=(name if v % 2 else getattr(lentil, name)), **samp())
            cls = getattr(lentil, name)
            if name == 'Plane':
                return cls(**samp(), **okw)
            if name == 'Pupil':
                return cls(focal_length=FOCAL[(v // nsamp) % len(FOCAL)], **samp(), **okw)
            if name == 'Tilt':
                x, y = TILT_VARIANTS[v % len(TILT_VARIANTS)]
                if not clip and v >= len(TILT_VARIANTS):
                    return cls(x=x, y=y, **PLANE_VARIANTS[(v - len(TILT_VARIANTS)) % len(PLANE_VARIANTS)](), **okw)
                return cls(x=x, y=y, **(samp() if clip else {}), **okw)
            if name in ('DispersiveTilt', 'Grism'):
                tr, di = DISP_VARIANTS[v % len(DISP_VARIANTS)]
                if not clip and v >= len(DISP_VARIANTS):
                    return cls(trace=list(tr), dispersion=list(di),
                               **PLANE_VARIANTS[(v - len(DISP_VARIANTS)) % len(PLANE_VARIANTS)](), **okw)
                return cls(trace=list(tr), dispersion=list(di), **(samp() if clip else {}), **okw)
            if name == 'Rotate':
                return cls(**ROT_VARIANTS[v % len(ROT_VARIANTS)], **okw)
            if name == 'Flip':
                return cls(**FLIP_VARIANTS[v % len(FLIP_VARIANTS)], **okw)
            # Image, LensletArray and any public class this file has no recipe for: the Plane
            # keywords, then no arguments at all
            try:
                return cls(**samp(), **okw)
            except TypeError:
                if clip or okw:
                    raise
                return cls()
        except GeneratorError:
            raise
        except TypeError as e:
            if okw:
                raise OverrideRefused(f'{name}(ptype={po}): {e}')
            raise GeneratorError(f'cannot construct {kind} {name} (variant {v}, clip={clip}): TypeError: {e}')
        except Exception as e:
            raise GeneratorError(f'cannot construct {kind} {name} (variant {v}, clip={clip}, ptype={po}): '
                                 f'{type(e).__name__}: {e}')


def accepts_override(lentil, name, po):
    """does the constructor of the public class `name` take ptype=po?  (TypeError from the call itself = no;
    the answer must not depend on the construction)"""
    res = set()
    for clip in (False, True):
        for v in range(n_variants('mulc', name, clip)):
            try:
                build_plane(lentil, 'mulc', name, v, clip, po)
                res.add(True)
            except OverrideRefused:
                res.add(False)
    if len(res) != 1:
        raise GeneratorError(f'{name}(ptype={po}) is accepted for some constructions and refused for others')
    return res.pop()


def build_wavefront(lentil, wt, body, v=0):
    """a wavefront of type wt: 'plain' real 4x4 field data, 'tilted' the same with a tilt object on its
    field, 'empty' no fields at all (v even: the public Wavefront.empty constructor; v odd: a plain
    wavefront whose light a disjoint aperture clipped away)"""
    if wt not in WTYPES or body not in BODIES:
        raise GeneratorError(f'unknown wavefront state {(wt, body)!r}')
    if body == 'empty' and v % 2 == 0:
        w = lentil.Wavefront.empty(WL, pixelscale=1, focal_length=FOCAL[0], shape=(4, 4))
    else:
        w = lentil.Wavefront(WL, pixelscale=1, focal_length=FOCAL[0], tilt=[TILT_A, 0.0] if body == 'tilted' else None)
        w = w * lentil.Plane(amplitude=_ramp((4, 4)))
        if body == 'empty':
            w = w * lentil.Plane(amplitude=_corner(1))
    w.ptype = wt if v % 2 else getattr(lentil, wt)      # both documented forms of a plane type
    if state_of(w) != (wt, body):
        raise GeneratorError(f'could not build a wavefront in state ({wt}, {body}): got {state_of(w)}')
    return w


def do_propagate(lentil, m, w, v):
    with warnings.catch_warnings():
        warnings.simplefilter('ignore')
        if m == 'dft':
            du, os_, shape = DFT_VARIANTS[v % len(DFT_VARIANTS)]
            return lentil.propagate_dft(w, pixelscale=du, shape=shape, oversample=os_)
        if m == 'fft':
            du, os_, shape = FFT_VARIANTS[v % len(FFT_VARIANTS)]
            return lentil.propagate_fft(w, pixelscale=du, shape=shape, oversample=os_)
    raise GeneratorError(f'unknown propagation method {m!r}')


def ptype_name(p):
    """fail closed on anything that is not one of the five known plane types"""
    lentil = C.import_lentil()
    pt = sys.modules['lentil.ptype'].PType
    if not isinstance(p, pt):
        raise GeneratorError(f'ptype attribute is not a PType object: {p!r}')
    s = str(p)
    if s not in PTYPES or not (p == getattr(lentil, s)):
        raise GeneratorError(f'unknown ptype object {p!r}')
    return s


def state_of(w):
    s = ptype_name(w.ptype)
    if s not in WTYPES:
        raise GeneratorError(f'wavefront carries plane type {s!r}')
    if not isinstance(w.data, list):
        raise GeneratorError(f'wavefront data is a {type(w.data).__name__}')
    return (s, 'empty' if len(w.data) == 0 else 'tilted' if any(bool(f.tilt) for f in w.data) else 'plain')


def observe(lentil, fn, w):
    """('yields', (type, content)) | ('raises', exception class name, (type, content) of the operand)"""
    try:
        with warnings.catch_warnings():
            warnings.simplefilter('ignore')
            r = fn(w)
    except Exception as e:
        return ('raises', type(e).__name__, state_of(w))
    if not isinstance(r, lentil.Wavefront):
        raise GeneratorError(f'step returned {type(r).__name__}, not a Wavefront')
    return ('yields', state_of(r))


# ------------------------------------------------------------------------------------------
# the exhaustive observation
# ------------------------------------------------------------------------------------------
def observe_all():
    lentil = C.import_lentil()
    code_ptypes = tuple(sys.modules['lentil.ptype'].PTYPES)
    if code_ptypes != tuple(PTYPES):
        raise GeneratorError(f'lentil.ptype.PTYPES changed: {code_ptypes}')
    for n in PTYPES:
        ptype_name(getattr(lentil, n))
    classes = class_names(lentil)
    states = [(wt, b) for wt in WTYPES for b in BODIES]

    def cell(kind, name, clip, st, po=None):
        seen = {}
        nv = n_variants(kind, name, clip)
        for v in range(nv):
            for wv in ((0, 1) if st[1] == 'empty' else (v % 2,)):
                w = build_wavefront(lentil, st[0], st[1], wv)
                if kind == 'prop':
                    o = observe(lentil, lambda ww: do_propagate(lentil, name, ww, v), w)
                else:
                    pl = build_plane(lentil, kind, name, v, clip, po)
                    o = observe(lentil, lambda ww: ww * pl, w)
                    o2 = observe(lentil, pl.multiply, build_wavefront(lentil, st[0], st[1], wv))
                    if o2 != o:
                        raise GeneratorError(f'{kind} {name}: w * plane gives {o}, plane.multiply(w) gives {o2}')
                seen.setdefault(o, (v, wv))
        if len(seen) != 1:
            raise GeneratorError(f'{kind} {name} (clip={clip}, ptype={po}) on {st}: outcome depends on the construction, not only '
                                 f'on the types: {seen}')
        return next(iter(seen))

    obs = {'classes': classes, 'states': states, 'mul': {}, 'cls': {}, 'prop': {}, 'class_ptype': {},
           'override_ptype': {}}
    # which ptype overrides each class constructor takes, and the ptype the instance then carries
    for k in classes:
        for po in PTYPES:
            if accepts_override(lentil, k, po):
                pts = {ptype_name(build_plane(lentil, 'mulc', k, v, clip, po).ptype)
                       for clip in (False, True) for v in range(n_variants('mulc', k, clip))}
                if len(pts) != 1:
                    raise GeneratorError(f'{k}(ptype={po}): ptype depends on the construction: {pts}')
                obs['override_ptype'][(k, po)] = pts.pop()
    overrides = [None] + PTYPES
    for st in states:
        for clip in (False, True):
            for p in PTYPES:
                obs['mul'][(st, p, clip)] = cell('mulp', p, clip, st)
            for k in classes:
                for po in overrides:
                    if po is None or (k, po) in obs['override_ptype']:
                        obs['cls'][(k, po, clip, st)] = cell('mulc', k, clip, st, po)
        for m in METHODS:
            obs['prop'][(m, st)] = cell('prop', m, False, st)
    for k in classes:
        pts = {ptype_name(build_plane(lentil, 'mulc', k, v, clip).ptype)
               for clip in (False, True) for v in range(n_variants('mulc', k, clip))}
        if len(pts) != 1:
            raise GeneratorError(f'class {k}: ptype depends on the construction: {pts}')
        obs['class_ptype'][k] = pts.pop()

    # ---- history of the plane object: every cell again with a plane that was used before in a
    # different permitted cell (another wavefront type), directly and through copy()
    n_hist = 0
    specs = [('mulp', p, clip, None) for p in PTYPES for clip in (False, True)] + \
            [('mulc', k, clip, po) for k in classes for clip in (False, True) for po in overrides
             if po is None or (k, po) in obs['override_ptype']]
    for kind, name, clip, po in specs:
        tab = (lambda st: obs['mul'][(st, name, clip)]) if kind == 'mulp' else (lambda st: obs['cls'][(name, po, clip, st)])
        v = 0
        for w0 in WTYPES:
            if tab((w0, 'plain'))[0] != 'yields':
                continue
            for st in states:
                if st[0] == w0:
                    continue
                for via_copy in (False, True):
                    v += 1
                    pl = build_plane(lentil, kind, name, v % n_variants(kind, name, clip), clip, po)
                    first = observe(lentil, lambda ww: ww * pl, build_wavefront(lentil, w0, 'plain'))
                    if first != tab((w0, 'plain')):
                        raise GeneratorError(f'{kind} {name} on {(w0, "plain")}: {first} now, {tab((w0, "plain"))} before')
                    used = pl.copy() if via_copy else pl
                    if type(used) is not type(pl):
                        raise GeneratorError(f'{name}.copy() returned a {type(used).__name__}')
                    o = observe(lentil, lambda ww: ww * used, build_wavefront(lentil, st[0], st[1], v))
                    n_hist += 1
                    if o != tab(st):
                        raise GeneratorError(
                            f'{kind} {name} (clip={clip}, ptype={po}) on {st}: a fresh plane object gives {tab(st)}, one that '
                            f'was used before with a {w0} wavefront{" and then copied" if via_copy else ""} gives {o}: '
                            f'the outcome is not a function of the types')
    obs['history_observations'] = n_hist

    # implementation-defined facts about tilt (see Model/PType.v:doc_machine)
    obs['class_tilts'] = {}
    for k in classes:
        ys = [obs['cls'][(k, None, False, (wt, 'plain'))] for wt in WTYPES]
        obs['class_tilts'][k] = any(o[0] == 'yields' and o[1][1] == 'tilted' for o in ys)
    obs['fft_refuses_tilt'] = all(obs['prop'][('fft', (wt, 'tilted'))] == ('raises', 'NotImplementedError', (wt, 'tilted'))
                                  for wt in WTYPES)
    return obs


def _st(st):
    return f'St {W_CON[st[0]]} {B_CON[st[1]]}'


def _outcome(o):
    if o[0] == 'yields':
        return f'Yields ({_st(o[1])})'
    return f'Raises {EXC_CON.get(o[1], "EOther")} ({_st(o[2])})'


def _b(x):
    return 'true' if x else 'false'


def render(obs):
    classes = obs['classes']
    K = {k: 'K' + k for k in classes}
    L = []
    a = L.append
    a('(* GENERATED by harness/gen_ptype.py from the working tree of lentil -- do not edit.')
    a('   The plane-type transition function of the implementation, observed exhaustively on the')
    a('   real classes: wavefront state (ptype x content) x (Plane(ptype=p) | public plane class, each with')
    a('   an overlapping and with a disjoint aperture | propagate_dft / propagate_fft). *)')
    a('From LV Require Import Model.PType.')
    a('')
    a('(* the public plane classes of the lentil namespace *)')
    a('Inductive cls := ' + ' | '.join(K[k] for k in classes) + '.')
    a('Definition all_cls : list cls := [' + '; '.join(K[k] for k in classes) + '].')
    a('Definition cls_code (k : cls) : Z :=')
    a('  match k with ' + ' | '.join(f'{K[k]} => {i}' for i, k in enumerate(classes)) + ' end.')
    a('Definition cls_of_code (z : Z) : option cls :=')
    a('  match z with ' + ' | '.join(f'{i} => Some {K[k]}' for i, k in enumerate(classes)) + ' | _ => None end.')
    a('')
    a('(* <class>(...).ptype *)')
    a('Definition observed_class_ptype (k : cls) : ptype :=')
    a('  match k with ' + ' | '.join(f'{K[k]} => {P_CON[obs["class_ptype"][k]]}' for k in classes) + ' end.')
    a('')
    a('(* <class>(..., ptype=p).ptype; None = the constructor does not take that override *)')
    a('Definition observed_override_ptype (k : cls) (p : ptype) : option ptype :=')
    a('  match k, p with')
    for (k, po), q in sorted(obs['override_ptype'].items(), key=lambda t: (classes.index(t[0][0]), PTYPES.index(t[0][1]))):
        a(f'  | {K[k]}, {P_CON[po]} => Some {P_CON[q]}')
    a('  | _, _ => None')
    a('  end.')
    a('')
    a('(* w * Plane(ptype=p, ...) *)')
    a('Definition observed_mul (s : wstate) (p : ptype) (clip : bool) : outcome :=')
    a('  match ty s, body s, p, clip with')
    for st in obs['states']:
        for p in PTYPES:
            for clip in (False, True):
                a(f'  | {W_CON[st[0]]}, {B_CON[st[1]]}, {P_CON[p]}, {_b(clip)} => {_outcome(obs["mul"][(st, p, clip)])}')
    a('  end.')
    a('')
    a('(* w * <class>(...) *)')
    a('(* po = Some p: <class>(..., ptype=p); combinations the constructor refuses do not exist as objects')
    a('   (observed_override_ptype = None): they fall into the last line and are never claimed *)')
    a('Definition observed_class_mul (k : cls) (po : option ptype) (clip : bool) (s : wstate) : outcome :=')
    a('  match k, po, clip, ty s, body s with')
    for k in classes:
        for po in [None] + PTYPES:
            if po is not None and (k, po) not in obs['override_ptype']:
                continue
            pos = 'None' if po is None else f'Some {P_CON[po]}'
            for clip in (False, True):
                for st in obs['states']:
                    a(f'  | {K[k]}, {pos}, {_b(clip)}, {W_CON[st[0]]}, {B_CON[st[1]]} => '
                      f'{_outcome(obs["cls"][(k, po, clip, st)])}')
    a('  | _, _, _, _, _ => Raises EOther s')
    a('  end.')
    a('')
    a('(* propagate_dft(w, ...) / propagate_fft(w, ...) *)')
    a('Definition observed_prop (m : method) (s : wstate) : outcome :=')
    a('  match m, ty s, body s with')
    for m in METHODS:
        for st in obs['states']:
            a(f'  | {M_CON[m]}, {W_CON[st[0]]}, {B_CON[st[1]]} => {_outcome(obs["prop"][(m, st)])}')
    a('  end.')
    a('')
    a('(* implementation-defined facts about fitted tilt: which classes attach one (informational), and')
    a('   whether propagate_fft refuses a wavefront that carries one (parameter of the documented machine) *)')
    a('Definition observed_class_tilts (k : cls) : bool :=')
    a('  match k with ' + ' | '.join(f'{K[k]} => {_b(obs["class_tilts"][k])}' for k in classes) + ' end.')
    a(f'Definition observed_fft_refuses_tilt : bool := {_b(obs["fft_refuses_tilt"])}.')
    a('')
    a('Definition observed : machine cls :=')
    a('  {| m_mul := observed_mul; m_class := observed_class_mul; m_prop := observed_prop |}.')
    return '\n'.join(L) + '\n'


def write_if_changed(path, text):
    os.makedirs(os.path.dirname(path), exist_ok=True)
    old = open(path).read() if os.path.exists(path) else None
    if old != text:
        tmp = path + '.tmp'
        open(tmp, 'w').write(text)
        os.replace(tmp, path)
        return True
    return False


OUT = os.path.join(C.COQ, 'theories', 'Gen', 'PTypeObserved.v')


def generate():
    obs = observe_all()
    write_if_changed(OUT, render(obs))
    return obs


if __name__ == '__main__':
    o = generate()
    print('classes:', o['classes'])
    print(open(OUT).read())
