"""Generator of coq/theories/Gen/PTypeObserved.v  (property C08, DESIGN.md section 4.1).

The implementation's plane-type transition function is *observed exhaustively* on the real classes
of the working tree (imported through harness.common.import_lentil()):

  every wavefront state (ptype none/pupil/image  x  content: fields without tilt / fields with tilt
                         objects / no fields at all)
    x  Plane(ptype=p) for every p in lentil.ptype.PTYPES      } each with an overlapping aperture and
    x  every public plane class of the `lentil` namespace     } with one disjoint from all the light
       - with its default ptype and with every ptype its constructor accepts (ptype=... override)
    x  propagate_dft / propagate_fft

with real (small) arrays, several constructions of every object.  Recorded per cell: the state of
the returned wavefront, or the exception class and the state the operand is left in.  The domain
is finite and enumerated completely, so the emitted Gallina functions ARE the implementation's
transition function on that domain, not a sample of it.

Every construction rotates through the object routes (as built, copy(), copy.copy, deepcopy, pickle round
trip) for the plane, the wavefront and the product, and through the documented keyword alias amp=.
Every multiplication cell is observed a second time with a plane object (and a copy() of it) that
was used before in a different permitted cell: the outcome must not depend on the plane's history.

Fail closed: an unknown ptype object, a different PTYPES tuple, a public plane class that cannot
be constructed, a step whose outcome differs between two constructions of the same types or
between a fresh and a used plane object (behaviour is not a function of the types)
=> GeneratorError => the runner reports a broken tie.

This module also owns the builders of real objects shared with harness/props/c08.py.
"""
import copy
import inspect
import os
import pickle
import sys
import warnings

import numpy as np

from . import common as C

WTYPES = ['none', 'pupil', 'image']
BODIES = ['plain', 'tilted', 'empty']
B_CON = {'plain': 'Plain', 'tilted': 'Tilted', 'empty': 'Empty'}
PTYPES = ['none', 'pupil', 'image', 'tilt', 'transform']
METHODS = ['dft', 'fft']
W_CON = {'none': 'WNone', 'pupil': 'WPupil', 'image': 'WImage'}
P_CON = {'none': 'PNone', 'pupil': 'PPupil', 'image': 'PImage', 'tilt': 'PTilt', 'transform': 'PTransform'}
M_CON = {'dft': 'Dft', 'fft': 'Fft'}
EXC_CON = {'ValueError': 'EValueError', 'TypeError': 'ETypeError', 'IndexError': 'EIndexError',
           'NotImplementedError': 'ENotImplementedError', 'AssertionError': 'EAssertionError',
           'AttributeError': 'EAttributeError', 'KeyError': 'EKeyError'}
EXC_CODE = {'ValueError': 1, 'TypeError': 2, 'IndexError': 3, 'NotImplementedError': 4,
            'AssertionError': 5, 'AttributeError': 6, 'KeyError': 7}

# Sampling regimes.  A regime fixes the pixel scale S of the wavefronts of one history (1, 2 or the
# anisotropic (1, 2)) and their wavelength; focal lengths are 8*max(S)^2/wl (or twice that), every
# propagation asks for du = S*oversample, so the pixel scale stays S, the FFT grid wl*z/S^2 is an
# integer (8..64 per axis) and its propagation wavelength is exactly wl.  Planes carry no pixel scale
# or S ("consistent"), or - when the step says mism - one of the other two values.
# "Loose" wavefronts are only multiplied, never propagated: default (infinite) focal length, an
# optical wavelength, 6x5 data, and a pixel scale that may also be undefined.
SCALES = [1, 2, (1, 2)]
WLS = [1.0, 0.5]
STRICT = [(sc, wl, False) for wl in WLS for sc in SCALES]
LOOSE = [(sc, 650e-9, True) for sc in (None, 1, 2, (1, 2))]
REG0 = (1, 1.0, False)
WL = 1.0


def _smax(scale):
    return 1.0 if scale is None else float(max(np.broadcast_to(scale, (2,))))


def focal(reg, i=0):
    scale, wl, loose = reg
    if loose:
        return (10.0, 25.0)[i % 2]
    return 8.0 * _smax(scale) ** 2 / wl * (1, 2)[i % 2]


def canon_reg(scale=1, wl=1.0, loose=False):
    if isinstance(scale, list):
        scale = tuple(scale)
    return (scale, wl, bool(loose))


def plane_scale(reg, v, mism):
    """the pixel scale a sampled plane is given: the wavefronts' own, or (mism) a different one"""
    scale = reg[0]
    if scale is None:
        if mism:
            raise GeneratorError('a wavefront without pixel scale cannot be sampled inconsistently')
        return SCALES[v % len(SCALES)]
    if not mism:
        return scale
    others = [x for x in SCALES if x != scale]
    return others[v % len(others)]


def _pair(ps):
    return tuple(float(x) for x in np.broadcast_to(ps, (2,)))


def _flt(ps):
    return float(ps) if np.ndim(ps) == 0 else [float(x) for x in ps]


class GeneratorError(Exception):
    pass


# routes by which an object can reach a step: as constructed, through its own copy(), the copy module,
# or a pickle round trip (multiprocessing, a model cached on disk).  The plane-type rules are about the
# objects' types, so every route must behave alike; the product of a step is read through a route too.
ROUTES_P = ['fresh', 'copy()', 'copy.copy', 'deepcopy', 'pickle']
ROUTES_W = ['fresh', 'copy.copy', 'deepcopy', 'pickle']


def route(obj, r):
    if r in (None, 'fresh', False):
        return obj
    if r in ('copy()', True):
        out = obj.copy()
    elif r == 'copy.copy':
        out = copy.copy(obj)
    elif r == 'deepcopy':
        out = copy.deepcopy(obj)
    elif r == 'pickle':
        out = pickle.loads(pickle.dumps(obj))
    else:
        raise GeneratorError(f'unknown object route {r!r}')
    if type(out) is not type(obj):
        raise GeneratorError(f'{r} of a {type(obj).__name__} returned a {type(out).__name__}')
    return out


class OverrideRefused(GeneratorError):
    """a class constructor does not take the ptype= keyword (or not this value)"""


# ------------------------------------------------------------------------------------------
# real objects
# ------------------------------------------------------------------------------------------
def class_names(lentil):
    """public plane classes: classes of the `lentil` namespace derived from lentil.plane.Plane"""
    base = sys.modules['lentil.plane'].Plane
    out = []
    for n in sorted(dir(lentil)):
        o = getattr(lentil, n)
        if inspect.isclass(o) and issubclass(o, base) and not n.startswith('_'):
            out.append(n)
    if 'Plane' not in out:
        raise GeneratorError('lentil.Plane is not a public plane class any more')
    return out


def _seg_mask():
    m = np.zeros((2, 4, 4))
    m[0, :, :2] = 1
    m[1, :, 2:] = 1
    return m


# (amplitude, opd, mask, pixelscale) variants of a sampled plane
def _ramp(shape):
    return (1.0 + np.arange(shape[0] * shape[1], dtype=float).reshape(shape) / 8.0)


def _bordered():
    a = np.zeros((6, 6))
    a[1:5, 1:5] = 1.0
    return a


class _Meta(np.ndarray):
    """a metadata-carrying ndarray subclass"""
    def __new__(cls, a):
        o = np.asarray(a).view(cls)
        o.note = 'user metadata'
        return o

    def __array_finalize__(self, obj):
        self.note = getattr(obj, 'note', None)


PLANE_VARIANTS = [
    lambda ps: dict(amplitude=1),
    lambda ps: dict(amplitude=np.ones((4, 4))),
    lambda ps: dict(amplitude=_ramp((4, 4)), opd=0.25),
    lambda ps: dict(amplitude=_bordered(), pixelscale=ps),
    lambda ps: dict(amplitude=_ramp((3, 5)), opd=_ramp((3, 5)) / 4.0),
    lambda ps: dict(amplitude=np.ones((4, 4)), mask=_seg_mask(), pixelscale=ps),
    lambda ps: dict(amplitude=2.0, opd=0.5),
    lambda ps: dict(amplitude=np.ones((4, 4)), opd=_ramp((4, 4)) / 16.0, pixelscale=_pair(ps)),
    # other legal argument forms: integer, bool and float32 arrays, 0-d arrays, explicit masks
    lambda ps: dict(amplitude=np.ones((4, 4), dtype=int), opd=np.zeros((4, 4), dtype=int)),
    lambda ps: dict(amplitude=_bordered().astype(bool)),
    lambda ps: dict(amplitude=_ramp((5, 4)).astype(np.float32), opd=np.float32(0.125), pixelscale=_flt(ps)),
    lambda ps: dict(amplitude=np.array(1.5), opd=np.array(0.0), mask=np.ones((4, 4), dtype=np.uint8)),
    lambda ps: dict(amplitude=_ramp((7, 9)), pixelscale=ps),
    lambda ps: dict(amplitude=3.0, pixelscale=ps),
    # ndarray subclasses are legal array_like inputs; a 1x1 array is an aperture of one sample
    lambda ps: dict(amplitude=np.ma.array(_ramp((4, 4))), opd=np.ma.array(np.zeros((4, 4)), mask=False)),
    lambda ps: dict(amplitude=np.matrix(np.ones((4, 4))), pixelscale=ps),
    lambda ps: dict(amplitude=np.ones((1, 1))),
    lambda ps: dict(amplitude=_Meta(_ramp((4, 4))), mask=_Meta(np.ones((4, 4)))),
]
# Tilts are kept small: one tilt plane displaces the propagated field by at most 1/32 output sample
# (angle * focal length / pixel scale), so that 40 of them displace it by little more than one sample
# and every centred aperture still overlaps it.  A wavefront loses all its fields only where the
# program says so (clip = a plane whose aperture is disjoint from all the light).
TILT_A = 1.0 / 512
TILT_VARIANTS = [(0.0, 0.0), (TILT_A, 0.0), (0.0, -TILT_A), (TILT_A, TILT_A)]
DISP_VARIANTS = [([1.0, 0.0], [1.0, 1.0]), ([0.0, 1.0 / 64], [64.0, 0.0]), ([1.0, 0.0], [128.0, 0.0])]
ROT_VARIANTS = [dict(angle=90), dict(angle=0), dict(angle=30, order=1), dict(angle=1.0, unit='radians')]
FLIP_VARIANTS = [dict(axis=None), dict(axis=0), dict(axis=1)]
# (du, oversample, shape) for the DFT; (du, oversample, shape) for the FFT
# (form of the pixelscale argument, oversample, shape); the output pixel scale asked for is S*oversample
DFT_VARIANTS = [('scalar', 2, (4, 4)), ('scalar', 1, 4), ('scalar', 3, (2, 3)), ('scalar', 2, (3, 5)),
                ('scalar', 1, (8, 8)), ('tuple', 2, [4, 4]), ('array', 1, np.array([5, 4]))]
FFT_VARIANTS = [('scalar', 2, None), ('scalar', 1, None), ('scalar', 2, 2), ('scalar', 1, (4, 4)),
                ('tuple', 2, None), ('list', 1, [3, 4])]
# the same integers as they come out of numpy (np.arange, np.max, arr[0], ...): every variant index beyond
# the lists above re-uses a variant with oversample (and an integer shape) of one of these types
NP_INTS = [np.int64, np.int32, np.intp, np.uint8, np.int16]
DFT_NFORMS = len(DFT_VARIANTS) * 2
FFT_NFORMS = len(FFT_VARIANTS) * 2


def _prop_args(variants, v):
    form, os_, shape = variants[v % len(variants)]
    if (v // len(variants)) % 2:
        t = NP_INTS[v % len(NP_INTS)]
        os_ = t(os_)
        if isinstance(shape, int):
            shape = t(shape)
        elif isinstance(shape, tuple):
            shape = tuple(t(x) for x in shape)
    return form, os_, shape


def _du(reg, form, os_):
    sc = reg[0]
    if form == 'scalar' and np.ndim(sc) == 0:
        return sc * os_
    du = [float(x) * os_ for x in np.broadcast_to(sc, (2,))]
    return tuple(du) if form in ('tuple', 'scalar') else np.array(du) if form == 'array' else du


def _corner(which):
    """a 64x64 aperture open only in one far corner: disjoint from every field this harness produces
    (all of them lie within 16 samples of the centre)"""
    a = np.zeros((64, 64))
    if which == 0:
        a[0:2, 0:3] = 1.0
    else:
        a[61:64, 62:64] = 1.0
    return a


CLIP_VARIANTS = [
    lambda ps: dict(amplitude=_corner(0)),
    lambda ps: dict(amplitude=_corner(1), pixelscale=ps),
    lambda ps: dict(amplitude=_corner(0) * 2.0, opd=0.25),
]


def n_variants(kind, name, clip=False):
    if kind == 'fresh':
        return 24
    if clip and kind in ('mulp', 'mulc') and name not in ('Rotate', 'Flip'):
        return len(CLIP_VARIANTS) * (2 if name == 'Pupil' else 1)
    if kind == 'mulp':
        return len(PLANE_VARIANTS)
    if kind == 'prop':
        return DFT_NFORMS * 3 if name == 'dft' else FFT_NFORMS * 3
    # the tilt classes take the Plane keywords too: first the bare forms, then with a sampled aperture
    if name in ('Tilt',):
        return len(TILT_VARIANTS) + len(PLANE_VARIANTS)
    if name in ('DispersiveTilt', 'Grism'):
        return len(DISP_VARIANTS) + len(PLANE_VARIANTS)
    if name == 'Rotate':
        return len(ROT_VARIANTS)
    if name == 'Flip':
        return len(FLIP_VARIANTS)
    if name == 'Pupil':
        return len(PLANE_VARIANTS) * 2
    return len(PLANE_VARIANTS)


def build_plane(lentil, kind, name, v, clip=False, po=None, reg=REG0, mism=False):
    """kind 'mulp': Plane(ptype=name, ...);  kind 'mulc': an instance of the public class `name`.
    v selects one of the constructions; clip=True asks for an aperture disjoint from all the light
    (ignored by Rotate and Flip, which take no aperture); po = a plane type name: pass it to the class
    constructor as ptype= (as the object or as the string, alternating with v); reg = the sampling
    regime of the wavefronts it will meet; mism=True: give the plane a pixel scale that differs from
    theirs (ignored by Rotate and Flip).
    Raises GeneratorError if the object cannot be built."""
    if po is not None and kind == 'mulc':
        if po not in PTYPES:
            raise GeneratorError(f'unknown plane type {po!r}')
        okw = {'ptype': po if v % 2 else getattr(lentil, po)}
    else:
        okw = {}
    ps = plane_scale(reg, v, mism)
    var = CLIP_VARIANTS if clip else PLANE_VARIANTS

    def samp(i=None):
        kw = var[(v if i is None else i) % len(var)](ps)
        if (v // 2) % 2 and 'amplitude' in kw:
            kw['amp'] = kw.pop('amplitude')      # the documented keyword alias, every other pair of variants
        if mism:
            kw['pixelscale'] = ps
        return kw

    def bare():
        return {'pixelscale': ps} if mism else {}

    with warnings.catch_warnings():
        warnings.simplefilter('ignore')
        try:
            nsamp = len(var)
            if kind == 'mulp':
                if name not in PTYPES:
                    raise GeneratorError(f'unknown plane type {name!r}')
                pcls = _plane_subclass(lentil, lentil.Plane) if (v // 3) % 3 == 2 else lentil.Plane
                kw = samp()
                if (v // 5) % 2 and 'amp' not in kw:
                    # positionally, in the documented order (amplitude, opd, mask, pixelscale, diameter, ptype)
                    return pcls(kw.get('amplitude', 1), kw.get('opd', 0), kw.get('mask'), kw.get('pixelscale'),
                                None, (name if v % 2 else getattr(lentil, name)))
                return pcls(ptype=(name if v % 2 else getattr(lentil, name)), **kw)
            cls = getattr(lentil, name)
            if (v // 3) % 3 == 2:
                cls = _plane_subclass(lentil, cls)       # a user subclass that leaves everything alone
            if name == 'Plane':
                return cls(**samp(), **okw)
            if name == 'Pupil':
                return cls(focal_length=focal(reg, v // nsamp), **samp(), **okw)
            if name == 'Tilt':
                ta = TILT_A if reg[2] else TILT_A * 16.0 / focal(reg, 1)
                x, y = [t * ta / TILT_A for t in TILT_VARIANTS[v % len(TILT_VARIANTS)]]
                if not clip and v >= len(TILT_VARIANTS):
                    return cls(x=x, y=y, **samp(v - len(TILT_VARIANTS)), **okw)
                if v % 2 and not clip:
                    return cls(x, y, **bare(), **okw)          # positionally
                return cls(x=x, y=y, **(samp() if clip else bare()), **okw)
            if name in ('DispersiveTilt', 'Grism'):
                tr, di = DISP_VARIANTS[v % len(DISP_VARIANTS)]
                di = [di[0], reg[1]] if di[1] else di      # reference wavelength = the wavefronts'
                if not clip and v >= len(DISP_VARIANTS):
                    return cls(trace=list(tr), dispersion=list(di), **samp(v - len(DISP_VARIANTS)), **okw)
                if v % 2 and not clip:
                    return cls(list(tr), list(di), **bare(), **okw)     # positionally
                return cls(trace=list(tr), dispersion=list(di), **(samp() if clip else bare()), **okw)
            if name == 'Rotate':
                return cls(**ROT_VARIANTS[v % len(ROT_VARIANTS)], **okw)
            if name == 'Flip':
                return cls(**FLIP_VARIANTS[v % len(FLIP_VARIANTS)], **okw)
            # Image, LensletArray and any public class this file has no recipe for: the Plane
            # keywords, then no arguments at all
            try:
                return cls(**samp(), **okw)
            except TypeError:
                if clip or okw or mism:
                    raise
                return cls()
        except GeneratorError:
            raise
        except TypeError as e:
            if okw:
                raise OverrideRefused(f'{name}(ptype={po}): {e}')
            raise GeneratorError(f'cannot construct {kind} {name} (variant {v}, clip={clip}): TypeError: {e}')
        except Exception as e:
            raise GeneratorError(f'cannot construct {kind} {name} (variant {v}, clip={clip}, ptype={po}): '
                                 f'{type(e).__name__}: {e}')


def accepts_override(lentil, name, po):
    """does the constructor of the public class `name` take ptype=po?  (TypeError from the call itself = no;
    the answer must not depend on the construction)"""
    res = set()
    for clip in (False, True):
        for v in range(n_variants('mulc', name, clip)):
            try:
                build_plane(lentil, 'mulc', name, v, clip, po)
                res.add(True)
            except OverrideRefused:
                res.add(False)
    if len(res) != 1:
        raise GeneratorError(f'{name}(ptype={po}) is accepted for some constructions and refused for others')
    return res.pop()


# User-defined subclasses.  An instance of a subclass of Wavefront / of a plane class IS a wavefront / a plane
# of its ptype, so the table applies to it: one that leaves __init__ alone, one whose __init__ takes a further
# required argument, one whose __init__ pins the type it starts with (the ptype is set afterwards through
# the public setter).  Defined lazily (the base classes come from the tree under test) and registered as
# module attributes so that they pickle.
def _subclasses(lentil):
    g = globals()
    if g.get('_SUB_BASE') is not lentil.Wavefront:
        base = lentil.Wavefront

        class WfSubPlain(base):
            pass

        class WfSubExtra(base):
            def __init__(self, source, wavelength, **kw):
                super().__init__(wavelength, **kw)
                self.source = source

        class WfSubPinned(base):
            def __init__(self, wavelength, pixelscale=None, focal_length=None, tilt=None, **kw):
                super().__init__(wavelength, pixelscale=pixelscale, focal_length=focal_length, tilt=tilt, ptype=None)

        for k in (WfSubPlain, WfSubExtra, WfSubPinned):
            k.__module__ = __name__
            k.__qualname__ = k.__name__
            g[k.__name__] = k
        g['_SUB_BASE'] = base
        g['_PLANE_SUBS'] = {}
    return [None, g['WfSubPlain'], g['WfSubExtra'], g['WfSubPinned']]


def _plane_subclass(lentil, cls):
    _subclasses(lentil)
    subs = globals()['_PLANE_SUBS']
    if cls.__name__ not in subs:
        k = type('Sub' + cls.__name__, (cls,), {'__module__': __name__})
        k.__qualname__ = k.__name__
        globals()[k.__name__] = k
        subs[cls.__name__] = k
    return subs[cls.__name__]


def build_wavefront(lentil, wt, body, v=0, reg=REG0):
    """a wavefront of type wt in the sampling regime reg: 'plain' real field data, 'tilted' the same with a
    tilt object on its field, 'empty' no fields at all (v even: the public Wavefront.empty constructor;
    v odd: a plain wavefront whose light a disjoint aperture clipped away); (v // 2) % 4 selects the class of
    the object: lentil.Wavefront or one of three user subclasses of it"""
    if wt not in WTYPES or body not in BODIES:
        raise GeneratorError(f'unknown wavefront state {(wt, body)!r}')
    scale, wl, loose = reg
    shape = (6, 5) if loose else (4, 4)
    kw = dict(pixelscale=scale) if loose else dict(pixelscale=scale, focal_length=focal(reg, 0))
    ta = TILT_A if loose else TILT_A * 16.0 / focal(reg, 1)
    if body == 'empty' and v % 2 == 0:
        w = lentil.Wavefront.empty(wl, shape=shape, **kw)
    else:
        w = lentil.Wavefront(wl, tilt=[ta, 0.0] if body == 'tilted' else None, **kw)
        w = w * lentil.Plane(amplitude=_ramp(shape))
        if body == 'empty':
            w = w * lentil.Plane(amplitude=_corner(1))
    sub = _subclasses(lentil)[(v // 2) % 4]
    if sub is not None:
        kw2 = dict(kw, tilt=None)
        u = sub('star', wl, **kw2) if sub.__name__ == 'WfSubExtra' else sub(wl, **kw2)
        u.data, u.shape = w.data, w.shape
        w = u
    how = (v // 8) % 3
    if how and sub is None:
        # the type handed to the constructor instead of the setter: by keyword, or positionally in the
        # documented order (wavelength, pixelscale, diameter, focal_length, tilt, ptype)
        pt = wt if v % 2 else getattr(lentil, wt)
        if how == 1:
            u = lentil.Wavefront(wl, ptype=pt, **kw)
        else:
            u = lentil.Wavefront(wl, kw.get('pixelscale'), None, kw.get('focal_length'), None, pt)
        u.data, u.shape = w.data, w.shape
        w = u
    else:
        w.ptype = wt if v % 2 else getattr(lentil, wt)      # both documented forms of a plane type
    if state_of(w) != (wt, body):
        raise GeneratorError(f'could not build a wavefront in state ({wt}, {body}): got {state_of(w)}')
    return w


def propagate_call_args(m, v, reg, typed=True):
    """(pixelscale, oversample, shape) that do_propagate passes for variant v"""
    form, os_, shape = _prop_args(DFT_VARIANTS if m == 'dft' else FFT_VARIANTS, v)
    du = 5e-6 * os_ if reg[2] else _du(reg, form, os_)
    return du, os_, shape


def do_propagate(lentil, m, w, v, reg=REG0):
    if reg[2] and str(w.ptype) != 'none':
        raise GeneratorError('a typed loose wavefront (no focal length) is never propagated by this harness')
    with warnings.catch_warnings():
        warnings.simplefilter('ignore')
        if m == 'dft':
            form, os_, shape = _prop_args(DFT_VARIANTS, v)
            du = 5e-6 * os_ if reg[2] else _du(reg, form, os_)     # loose + untyped: must be refused on its type alone
            opt = (v // DFT_NFORMS) % 3 if not reg[2] else 0
            if opt:
                # the optional arguments: mask= (an output mask of the full output shape, lit in its middle) or
                # prop_shape= (here equal to shape); they select where samples are computed, never the type
                so = [int(x) * int(os_) for x in np.broadcast_to(shape, (2,))]
                if opt == 1:
                    m = np.zeros(so)
                    m[1:so[0] - 1, 1:so[1] - 1] = 1
                    return lentil.propagate_dft(w, pixelscale=du, shape=shape, oversample=os_, mask=m)
                return lentil.propagate_dft(w, pixelscale=du, shape=shape, prop_shape=shape, oversample=os_)
            if v % 3 == 2:
                return lentil.propagate_dft(w, du, shape, None, os_)           # positionally
            return lentil.propagate_dft(w, pixelscale=du, shape=shape, oversample=os_)
        if m == 'fft':
            form, os_, shape = _prop_args(FFT_VARIANTS, v)
            du = 5e-6 * os_ if reg[2] else _du(reg, form, os_)
            opt = (v // FFT_NFORMS) % 3 if not reg[2] else 0
            if opt and w.pixelscale is not None and np.isfinite(w.focal_length):
                # scratch=: a pre-allocated complex work array of exactly / more than the required shape
                ss = lentil.scratch_shape(w.wavelength, w.pixelscale, np.broadcast_to(du, (2,)), w.focal_length, os_)
                scr = np.ones(tuple(int(x) + (opt - 1) * 3 for x in ss), dtype=complex)
                return lentil.propagate_fft(w, pixelscale=du, shape=shape, oversample=os_, scratch=scr)
            if v % 3 == 2:
                return lentil.propagate_fft(w, du, shape, os_)                 # positionally
            return lentil.propagate_fft(w, pixelscale=du, shape=shape, oversample=os_)
    raise GeneratorError(f'unknown propagation method {m!r}')


_L = []


def _lentil():
    if not _L:
        _L.append(C.import_lentil())
    return _L[0]


def ptype_name(p):
    """fail closed on anything that is not one of the five known plane types"""
    lentil = _lentil()
    pt = sys.modules['lentil.ptype'].PType
    if not isinstance(p, pt):
        raise GeneratorError(f'ptype attribute is not a PType object: {p!r}')
    s = str(p)
    if s not in PTYPES or not (p == getattr(lentil, s)):
        raise GeneratorError(f'unknown ptype object {p!r}')
    return s


def state_of(w):
    s = ptype_name(w.ptype)
    if s not in WTYPES:
        raise GeneratorError(f'wavefront carries plane type {s!r}')
    if not isinstance(w.data, list):
        raise GeneratorError(f'wavefront data is a {type(w.data).__name__}')
    return (s, 'empty' if len(w.data) == 0 else 'tilted' if any(bool(f.tilt) for f in w.data) else 'plain')


def observe(lentil, fn, w):
    """('yields', (type, content)) | ('raises', exception class name, (type, content) of the operand)"""
    try:
        with warnings.catch_warnings():
            warnings.simplefilter('ignore')
            r = fn(w)
    except Exception as e:
        return ('raises', type(e).__name__, state_of(w))
    if not isinstance(r, lentil.Wavefront):
        raise GeneratorError(f'step returned {type(r).__name__}, not a Wavefront')
    return ('yields', state_of(r))


# ------------------------------------------------------------------------------------------
# the exhaustive observation
# ------------------------------------------------------------------------------------------
def observe_all():
    lentil = C.import_lentil()
    code_ptypes = tuple(sys.modules['lentil.ptype'].PTYPES)
    if code_ptypes != tuple(PTYPES):
        raise GeneratorError(f'lentil.ptype.PTYPES changed: {code_ptypes}')
    for n in PTYPES:
        ptype_name(getattr(lentil, n))
    classes = class_names(lentil)
    states = [(wt, b) for wt in WTYPES for b in BODIES]

    def cell(kind, name, clip, st, po=None, mism=False):
        """one cell of the transition function, observed under every construction of the plane (a few of
        them when mism), two strict sampling regimes per construction (rotating through all six) and, for
        multiplications, a loose wavefront (default focal length, optical wavelength, other array size,
        pixel scale possibly undefined); all observations must agree"""
        seen = {}
        nv = n_variants(kind, name, clip)
        si = states.index(st)
        j = si                                 # observation counter: rotates the object routes
        few = mism or po is not None          # the default cells already go through every construction
        for v in (range(nv) if not few else range(min(nv, 4))):
            regs = [STRICT[(v + si) % len(STRICT)]]
            if kind == 'prop':
                regs.append(STRICT[(v + si + 1 + v // len(STRICT)) % len(STRICT)])
                regs.append(STRICT[(v + si + 3) % len(STRICT)])
                if st[0] == 'none':          # an untyped wavefront is refused whatever else it carries or lacks
                    regs.append(LOOSE[(v + si) % len(LOOSE)])
            else:
                lo = [r for r in LOOSE if not (mism and r[0] is None)]
                regs.append(lo[(v + si) % len(lo)])
            for reg in regs:
                for wv0 in ((0, 1) if st[1] == 'empty' else (v % 2,)):
                    j += 1
                    wv = wv0 + 2 * ((j // 2) % 4) + 8 * ((j // 3) % 3)   # class of the object, how it got its type
                    pr, wr = ROUTES_P[j % len(ROUTES_P)], ROUTES_W[(j + j // 5) % len(ROUTES_W)]
                    outr = ROUTES_W[(j + 1 + j // 4) % len(ROUTES_W)]
                    w = route(build_wavefront(lentil, st[0], st[1], wv, reg), wr)
                    if state_of(w) != st:
                        raise GeneratorError(f'a {st} wavefront reads {state_of(w)} after {wr}')
                    if kind == 'prop':
                        o = observe(lentil, lambda ww: route(do_propagate(lentil, name, ww, v, reg), outr), w)
                    else:
                        pl = route(build_plane(lentil, kind, name, v, clip, po, reg, mism), pr)
                        if (v + si) % 3:
                            o = observe(lentil, lambda ww: route(ww * pl, outr), w)
                        else:
                            o = observe(lentil, lambda ww: route(pl.multiply(ww), outr), w)   # the other spelling
                    seen.setdefault(o, (v, wv, reg, pr, wr, outr))
        if len(seen) != 1:
            raise GeneratorError(f'{kind} {name} (clip={clip}, ptype={po}, mism={mism}) on {st}: outcome depends on the '
                                 f'construction (variant, wavefront variant, (pixel scale, wavelength, loose), plane / wavefront / '
                                 f'product route), not '
                                 f'only on the types: {seen}')
        return next(iter(seen))

    obs = {'classes': classes, 'states': states, 'mul': {}, 'cls': {}, 'prop': {}, 'class_ptype': {},
           'override_ptype': {}}
    # which ptype overrides each class constructor takes, and the ptype the instance then carries
    for k in classes:
        for po in PTYPES:
            if accepts_override(lentil, k, po):
                pts = {ptype_name(build_plane(lentil, 'mulc', k, v, clip, po).ptype)
                       for clip in (False, True) for v in range(n_variants('mulc', k, clip))}
                if len(pts) != 1:
                    raise GeneratorError(f'{k}(ptype={po}): ptype depends on the construction: {pts}')
                obs['override_ptype'][(k, po)] = pts.pop()
    overrides = [None] + PTYPES
    for st in states:
        for clip in (False, True):
            for mism in (False, True):
                for p in PTYPES:
                    obs['mul'][(st, p, clip, mism)] = cell('mulp', p, clip, st, None, mism)
                for k in classes:
                    for po in overrides:
                        if po is None or (k, po) in obs['override_ptype']:
                            obs['cls'][(k, po, clip, mism, st)] = cell('mulc', k, clip, st, po, mism)
        for m in METHODS:
            obs['prop'][(m, st)] = cell('prop', m, False, st)
    for k in classes:
        pts = {ptype_name(build_plane(lentil, 'mulc', k, v, clip).ptype)
               for clip in (False, True) for v in range(n_variants('mulc', k, clip))}
        if len(pts) != 1:
            raise GeneratorError(f'class {k}: ptype depends on the construction: {pts}')
        obs['class_ptype'][k] = pts.pop()

    # ---- history of the plane object: every cell again with a plane that was used before in a
    # different permitted cell (another wavefront type), directly and through copy()
    n_hist = 0
    specs = [('mulp', p, clip, None) for p in PTYPES for clip in (False, True)] + \
            [('mulc', k, clip, po) for k in classes for clip in (False, True) for po in overrides
             if po is None or (k, po) in obs['override_ptype']]
    for kind, name, clip, po in specs:
        tab = (lambda st: obs['mul'][(st, name, clip, False)]) if kind == 'mulp' else \
            (lambda st: obs['cls'][(name, po, clip, False, st)])
        v = 0
        for w0 in WTYPES:
            if tab((w0, 'plain'))[0] != 'yields':
                continue
            for st in states:
                if st[0] == w0:
                    continue
                for via_copy in (False, True):
                    v += 1
                    reg = STRICT[v % len(STRICT)]
                    pl = build_plane(lentil, kind, name, v % n_variants(kind, name, clip), clip, po, reg)
                    first = observe(lentil, lambda ww: ww * pl, build_wavefront(lentil, w0, 'plain', 0, reg))
                    if first != tab((w0, 'plain')):
                        raise GeneratorError(f'{kind} {name} on {(w0, "plain")}: {first} now, {tab((w0, "plain"))} before')
                    used = pl.copy() if via_copy else pl
                    if type(used) is not type(pl):
                        raise GeneratorError(f'{name}.copy() returned a {type(used).__name__}')
                    o = observe(lentil, lambda ww: ww * used, build_wavefront(lentil, st[0], st[1], v, reg))
                    n_hist += 1
                    if o != tab(st):
                        raise GeneratorError(
                            f'{kind} {name} (clip={clip}, ptype={po}) on {st}: a fresh plane object gives {tab(st)}, one that '
                            f'was used before with a {w0} wavefront{" and then copied" if via_copy else ""} gives {o}: '
                            f'the outcome is not a function of the types')
    obs['history_observations'] = n_hist

    # ---- construction order: after everything above was built (every class with every override, amplitude,
    # mask, pixel scale ...) a default instance of every class must still carry the ptype it carried at first
    for k in classes:
        for v in (0, 1):
            now = ptype_name(build_plane(lentil, 'mulc', k, v).ptype)
            if now != obs['class_ptype'][k]:
                raise GeneratorError(f'a default {k} instance carried ptype {obs["class_ptype"][k]} when built first and '
                                     f'carries {now} after other planes were built: state shared between objects')

    # implementation-defined facts about tilt (see Model/PType.v:doc_machine)
    obs['class_tilts'] = {}
    for k in classes:
        ys = [obs['cls'][(k, None, False, False, (wt, 'plain'))] for wt in WTYPES]
        obs['class_tilts'][k] = any(o[0] == 'yields' and o[1][1] == 'tilted' for o in ys)
    obs['fft_refuses_tilt'] = all(obs['prop'][('fft', (wt, 'tilted'))] == ('raises', 'NotImplementedError', (wt, 'tilted'))
                                  for wt in WTYPES)
    return obs


def _st(st):
    return f'St {W_CON[st[0]]} {B_CON[st[1]]}'


def _outcome(o):
    if o[0] == 'yields':
        return f'Yields ({_st(o[1])})'
    return f'Raises {EXC_CON.get(o[1], "EOther")} ({_st(o[2])})'


def _b(x):
    return 'true' if x else 'false'


def render(obs):
    classes = obs['classes']
    K = {k: 'K' + k for k in classes}
    L = []
    a = L.append
    a('(* GENERATED by harness/gen_ptype.py from the working tree of lentil -- do not edit.')
    a('   The plane-type transition function of the implementation, observed exhaustively on the')
    a('   real classes: wavefront state (ptype x content) x (Plane(ptype=p) | public plane class, each with')
    a('   an overlapping and with a disjoint aperture, consistently and inconsistently sampled |')
    a('   propagate_dft / propagate_fft), under several pixel scales, wavelengths, focal lengths and sizes. *)')
    a('From LV Require Import Model.PType.')
    a('')
    a('(* the public plane classes of the lentil namespace *)')
    a('Inductive cls := ' + ' | '.join(K[k] for k in classes) + '.')
    a('Definition all_cls : list cls := [' + '; '.join(K[k] for k in classes) + '].')
    a('Definition cls_code (k : cls) : Z :=')
    a('  match k with ' + ' | '.join(f'{K[k]} => {i}' for i, k in enumerate(classes)) + ' end.')
    a('Definition cls_of_code (z : Z) : option cls :=')
    a('  match z with ' + ' | '.join(f'{i} => Some {K[k]}' for i, k in enumerate(classes)) + ' | _ => None end.')
    a('')
    a('(* <class>(...).ptype *)')
    a('Definition observed_class_ptype (k : cls) : ptype :=')
    a('  match k with ' + ' | '.join(f'{K[k]} => {P_CON[obs["class_ptype"][k]]}' for k in classes) + ' end.')
    a('')
    a('(* <class>(..., ptype=p).ptype; None = the constructor does not take that override *)')
    a('Definition observed_override_ptype (k : cls) (p : ptype) : option ptype :=')
    a('  match k, p with')
    for (k, po), q in sorted(obs['override_ptype'].items(), key=lambda t: (classes.index(t[0][0]), PTYPES.index(t[0][1]))):
        a(f'  | {K[k]}, {P_CON[po]} => Some {P_CON[q]}')
    a('  | _, _ => None')
    a('  end.')
    a('')
    a('(* w * Plane(ptype=p, ...) *)')
    a('Definition observed_mul (s : wstate) (p : ptype) (clip mism : bool) : outcome :=')
    a('  match ty s, body s, p, clip, mism with')
    for st in obs['states']:
        for p in PTYPES:
            for clip in (False, True):
                for mism in (False, True):
                    a(f'  | {W_CON[st[0]]}, {B_CON[st[1]]}, {P_CON[p]}, {_b(clip)}, {_b(mism)} => '
                      f'{_outcome(obs["mul"][(st, p, clip, mism)])}')
    a('  end.')
    a('')
    a('(* w * <class>(...) *)')
    a('(* po = Some p: <class>(..., ptype=p); combinations the constructor refuses do not exist as objects')
    a('   (observed_override_ptype = None): they fall into the last line and are never claimed *)')
    a('Definition observed_class_mul (k : cls) (po : option ptype) (clip mism : bool) (s : wstate) : outcome :=')
    a('  match k, po, clip, mism, ty s, body s with')
    for k in classes:
        for po in [None] + PTYPES:
            if po is not None and (k, po) not in obs['override_ptype']:
                continue
            pos = 'None' if po is None else f'Some {P_CON[po]}'
            for clip in (False, True):
                for mism in (False, True):
                    for st in obs['states']:
                        a(f'  | {K[k]}, {pos}, {_b(clip)}, {_b(mism)}, {W_CON[st[0]]}, {B_CON[st[1]]} => '
                          f'{_outcome(obs["cls"][(k, po, clip, mism, st)])}')
    a('  | _, _, _, _, _, _ => Raises EOther s')
    a('  end.')
    a('')
    a('(* propagate_dft(w, ...) / propagate_fft(w, ...) *)')
    a('Definition observed_prop (m : method) (s : wstate) : outcome :=')
    a('  match m, ty s, body s with')
    for m in METHODS:
        for st in obs['states']:
            a(f'  | {M_CON[m]}, {W_CON[st[0]]}, {B_CON[st[1]]} => {_outcome(obs["prop"][(m, st)])}')
    a('  end.')
    a('')
    a('(* implementation-defined facts about fitted tilt: which classes attach one (informational), and')
    a('   whether propagate_fft refuses a wavefront that carries one (parameter of the documented machine) *)')
    a('Definition observed_class_tilts (k : cls) : bool :=')
    a('  match k with ' + ' | '.join(f'{K[k]} => {_b(obs["class_tilts"][k])}' for k in classes) + ' end.')
    a(f'Definition observed_fft_refuses_tilt : bool := {_b(obs["fft_refuses_tilt"])}.')
    a('')
    a('Definition observed : machine cls :=')
    a('  {| m_mul := observed_mul; m_class := observed_class_mul; m_prop := observed_prop |}.')
    return '\n'.join(L) + '\n'


def write_if_changed(path, text):
    os.makedirs(os.path.dirname(path), exist_ok=True)
    old = open(path).read() if os.path.exists(path) else None
    if old != text:
        tmp = path + '.tmp'
        open(tmp, 'w').write(text)
        os.replace(tmp, path)
        return True
    return False


OUT = os.path.join(C.COQ, 'theories', 'Gen', 'PTypeObserved.v')


def generate():
    obs = observe_all()
    write_if_changed(OUT, render(obs))
    return obs


if __name__ == '__main__' and len(sys.argv) > 2 and sys.argv[1] == '--pickle':
    # used by harness/props/c08.py:pregen - always leaves a pickle: the observation or the refusal, and the
    # (class, ptype) override pairs the constructors take (probed first, each pair on its own)
    _l = C.import_lentil()
    _ov = []
    for _k in class_names(_l):
        for _p in PTYPES:
            try:
                if accepts_override(_l, _k, _p):
                    _ov.append((_k, _p))
            except GeneratorError:
                _ov.append((_k, _p))
    _o, _err = None, None
    try:
        _o = generate()
    except GeneratorError as _e:
        _err = str(_e).replace('\n', ' ')
    pickle.dump({'obs': _o, 'overrides': _ov, 'error': _err}, open(sys.argv[2], 'wb'))
    sys.exit(0)

if __name__ == '__main__':
    o = generate()
    print('classes:', o['classes'])
    print(open(OUT).read())
