"""Generator of coq/theories/Gen/PTypeObserved.v  (property C08, DESIGN.md section 4.1).

The implementation's plane-type transition function is *observed exhaustively* on the real classes
of the working tree (imported through harness.common.import_lentil()):

  every wavefront state (ptype none/pupil/image  x  carries tilt objects or not)
    x  Plane(ptype=p) for every p in lentil.ptype.PTYPES
    x  every public plane class of the `lentil` namespace
    x  propagate_dft / propagate_fft

with real (small) arrays, several constructions of every object.  Recorded per cell: the state of
the returned wavefront, or the exception class and the state the operand is left in.  The domain
is finite and enumerated completely, so the emitted Gallina functions ARE the implementation's
transition function on that domain, not a sample of it.

Fail closed: an unknown ptype object, a different PTYPES tuple, a public plane class that cannot
be constructed, a step whose outcome differs between two constructions of the same types
(behaviour is not a function of the types) => GeneratorError => the runner reports a broken tie.

This module also owns the builders of real objects shared with harness/props/c08.py.
"""
import inspect
import os
import sys
import warnings

import numpy as np

from . import common as C

WTYPES = ['none', 'pupil', 'image']
PTYPES = ['none', 'pupil', 'image', 'tilt', 'transform']
METHODS = ['dft', 'fft']
W_CON = {'none': 'WNone', 'pupil': 'WPupil', 'image': 'WImage'}
P_CON = {'none': 'PNone', 'pupil': 'PPupil', 'image': 'PImage', 'tilt': 'PTilt', 'transform': 'PTransform'}
M_CON = {'dft': 'Dft', 'fft': 'Fft'}
EXC_CON = {'ValueError': 'EValueError', 'TypeError': 'ETypeError', 'IndexError': 'EIndexError',
           'NotImplementedError': 'ENotImplementedError', 'AssertionError': 'EAssertionError',
           'AttributeError': 'EAttributeError', 'KeyError': 'EKeyError'}
EXC_CODE = {'ValueError': 1, 'TypeError': 2, 'IndexError': 3, 'NotImplementedError': 4,
            'AssertionError': 5, 'AttributeError': 6, 'KeyError': 7}

# One consistent sampling regime so that nothing but the types decides whether a step is accepted:
# every wavefront has pixel scale 1 and a finite focal length, every propagation keeps the pixel
# scale at 1 (du / oversample = 1) and, for the FFT, gives an integer grid wl * z (8 or 16) with
# propagation wavelength exactly WL.
WL = 1.0
FOCAL = (8.0, 16.0)


class GeneratorError(Exception):
    pass


# ------------------------------------------------------------------------------------------
# real objects
# ------------------------------------------------------------------------------------------
def class_names(lentil):
    """public plane classes: classes of the `lentil` namespace derived from lentil.plane.Plane"""
    base = sys.modules['lentil.plane'].Plane
    out = []
    for n in sorted(dir(lentil)):
        o = getattr(lentil, n)
        if inspect.isclass(o) and issubclass(o, base) and not n.startswith('_'):
            out.append(n)
    if 'Plane' not in out:
        raise GeneratorError('lentil.Plane is not a public plane class any more')
    return out


def _seg_mask():
    m = np.zeros((2, 4, 4))
    m[0, :, :2] = 1
    m[1, :, 2:] = 1
    return m


# (amplitude, opd, mask, pixelscale) variants of a sampled plane
def _ramp(shape):
    return (1.0 + np.arange(shape[0] * shape[1], dtype=float).reshape(shape) / 8.0)


def _bordered():
    a = np.zeros((6, 6))
    a[1:5, 1:5] = 1.0
    return a


PLANE_VARIANTS = [
    lambda: dict(amplitude=1),
    lambda: dict(amplitude=np.ones((4, 4))),
    lambda: dict(amplitude=_ramp((4, 4)), opd=0.25),
    lambda: dict(amplitude=_bordered(), pixelscale=1),
    lambda: dict(amplitude=_ramp((3, 5)), opd=_ramp((3, 5)) / 4.0),
    lambda: dict(amplitude=np.ones((4, 4)), mask=_seg_mask(), pixelscale=1),
    lambda: dict(amplitude=2.0, opd=0.5),
    lambda: dict(amplitude=np.ones((4, 4)), opd=_ramp((4, 4)) / 16.0, pixelscale=(1, 1)),
]
# Tilts are kept small: one tilt plane displaces the propagated field by at most 1/8 output sample
# (angle * focal length / pixel scale), so that even 40 of them leave part of the field inside the
# smallest DFT window.  A wavefront propagated wholly outside the window has no fields at all, and
# then no tilt bit to observe.
TILT_A = 1.0 / 128
TILT_VARIANTS = [(0.0, 0.0), (TILT_A, 0.0), (0.0, -TILT_A), (TILT_A, TILT_A)]
DISP_VARIANTS = [([1.0, 0.0], [1.0, 1.0]), ([0.0, 0.0625], [16.0, 0.0]), ([1.0, 0.0], [32.0, 0.0])]
ROT_VARIANTS = [dict(angle=90), dict(angle=0), dict(angle=30, order=1), dict(angle=1.0, unit='radians')]
FLIP_VARIANTS = [dict(axis=None), dict(axis=0), dict(axis=1)]
# (du, oversample, shape) for the DFT; (du, oversample, shape) for the FFT
DFT_VARIANTS = [(2, 2, (4, 4)), (1, 1, 4), (3, 3, (2, 3)), (2, 2, (3, 5)), (1, 1, (8, 8))]
FFT_VARIANTS = [(2, 2, None), (1, 1, None), (2, 2, 2), (1, 1, (4, 4))]


def n_variants(kind, name):
    if kind == 'mulp':
        return len(PLANE_VARIANTS)
    if kind == 'prop':
        return len(DFT_VARIANTS) if name == 'dft' else len(FFT_VARIANTS)
    if name in ('Tilt',):
        return len(TILT_VARIANTS)
    if name in ('DispersiveTilt', 'Grism'):
        return len(DISP_VARIANTS)
    if name == 'Rotate':
        return len(ROT_VARIANTS)
    if name == 'Flip':
        return len(FLIP_VARIANTS)
    if name == 'Pupil':
        return len(PLANE_VARIANTS) * len(FOCAL)
    return len(PLANE_VARIANTS)


def build_plane(lentil, kind, name, v):
    """kind 'mulp': Plane(ptype=name, ...);  kind 'mulc': an instance of the public class `name`.
    v selects one of the constructions.  Raises GeneratorError if the object cannot be built."""
    with warnings.catch_warnings():
        warnings.simplefilter('ignore')
        try:
            if kind == 'mulp':
                if name not in PTYPES:
                    raise GeneratorError(f'unknown plane type {name!r}')
                kw = PLANE_VARIANTS[v % len(PLANE_VARIANTS)]()
                return lentil.Plane(ptype=getattr(lentil, name), **kw)
            cls = getattr(lentil, name)
            if name == 'Plane':
                return cls(**PLANE_VARIANTS[v % len(PLANE_VARIANTS)]())
            if name == 'Pupil':
                kw = PLANE_VARIANTS[v % len(PLANE_VARIANTS)]()
                return cls(focal_length=FOCAL[(v // len(PLANE_VARIANTS)) % len(FOCAL)], **kw)
            if name == 'Tilt':
                x, y = TILT_VARIANTS[v % len(TILT_VARIANTS)]
                return cls(x=x, y=y)
            if name in ('DispersiveTilt', 'Grism'):
                tr, di = DISP_VARIANTS[v % len(DISP_VARIANTS)]
                return cls(trace=list(tr), dispersion=list(di))
            if name == 'Rotate':
                return cls(**ROT_VARIANTS[v % len(ROT_VARIANTS)])
            if name == 'Flip':
                return cls(**FLIP_VARIANTS[v % len(FLIP_VARIANTS)])
            # Image, LensletArray and any public class this file has no recipe for: the Plane
            # keywords, then no arguments at all
            try:
                return cls(**PLANE_VARIANTS[v % len(PLANE_VARIANTS)]())
            except TypeError:
                return cls()
        except GeneratorError:
            raise
        except Exception as e:
            raise GeneratorError(f'cannot construct {kind} {name} (variant {v}): {type(e).__name__}: {e}')


def build_wavefront(lentil, wt, tilted):
    """a wavefront of type wt with real 4x4 field data, with or without a tilt object on its field"""
    if wt not in WTYPES:
        raise GeneratorError(f'unknown wavefront type {wt!r}')
    w = lentil.Wavefront(WL, pixelscale=1, focal_length=FOCAL[0], tilt=[TILT_A, 0.0] if tilted else None)
    w = w * lentil.Plane(amplitude=_ramp((4, 4)))
    w.ptype = getattr(lentil, wt)
    if state_of(w) != (wt, bool(tilted)):
        raise GeneratorError(f'could not build a wavefront in state ({wt}, tilted={tilted}): got {state_of(w)}')
    return w


def do_propagate(lentil, m, w, v):
    with warnings.catch_warnings():
        warnings.simplefilter('ignore')
        if m == 'dft':
            du, os_, shape = DFT_VARIANTS[v % len(DFT_VARIANTS)]
            return lentil.propagate_dft(w, pixelscale=du, shape=shape, oversample=os_)
        if m == 'fft':
            du, os_, shape = FFT_VARIANTS[v % len(FFT_VARIANTS)]
            return lentil.propagate_fft(w, pixelscale=du, shape=shape, oversample=os_)
    raise GeneratorError(f'unknown propagation method {m!r}')


def ptype_name(p):
    """fail closed on anything that is not one of the five known plane types"""
    lentil = C.import_lentil()
    pt = sys.modules['lentil.ptype'].PType
    if not isinstance(p, pt):
        raise GeneratorError(f'ptype attribute is not a PType object: {p!r}')
    s = str(p)
    if s not in PTYPES or not (p == getattr(lentil, s)):
        raise GeneratorError(f'unknown ptype object {p!r}')
    return s


def state_of(w):
    s = ptype_name(w.ptype)
    if s not in WTYPES:
        raise GeneratorError(f'wavefront carries plane type {s!r}')
    return (s, any(bool(f.tilt) for f in w.data))


def observe(lentil, fn, w):
    """('yields', (type, tilted)) | ('raises', exception class name, (type, tilted) of the operand)"""
    try:
        with warnings.catch_warnings():
            warnings.simplefilter('ignore')
            r = fn(w)
    except Exception as e:
        return ('raises', type(e).__name__, state_of(w))
    if not isinstance(r, lentil.Wavefront):
        raise GeneratorError(f'step returned {type(r).__name__}, not a Wavefront')
    return ('yields', state_of(r))


# ------------------------------------------------------------------------------------------
# the exhaustive observation
# ------------------------------------------------------------------------------------------
def observe_all():
    lentil = C.import_lentil()
    code_ptypes = tuple(sys.modules['lentil.ptype'].PTYPES)
    if code_ptypes != tuple(PTYPES):
        raise GeneratorError(f'lentil.ptype.PTYPES changed: {code_ptypes}')
    for n in PTYPES:
        ptype_name(getattr(lentil, n))
    classes = class_names(lentil)
    states = [(wt, tl) for wt in WTYPES for tl in (False, True)]

    def cell(kind, name, st):
        seen = {}
        for v in range(n_variants(kind, name)):
            w = build_wavefront(lentil, *st)
            if kind == 'prop':
                o = observe(lentil, lambda ww: do_propagate(lentil, name, ww, v), w)
            else:
                pl = build_plane(lentil, kind, name, v)
                o = observe(lentil, lambda ww: ww * pl, w)
                o2 = observe(lentil, pl.multiply, build_wavefront(lentil, *st))
                if o2 != o:
                    raise GeneratorError(f'{kind} {name}: w * plane gives {o}, plane.multiply(w) gives {o2}')
            seen.setdefault(o, v)
        if len(seen) != 1:
            raise GeneratorError(f'{kind} {name} on {st}: outcome depends on the construction, not only on '
                                 f'the types: {seen}')
        return next(iter(seen))

    obs = {'classes': classes, 'states': states, 'mul': {}, 'cls': {}, 'prop': {}, 'class_ptype': {}}
    for st in states:
        for p in PTYPES:
            obs['mul'][(st, p)] = cell('mulp', p, st)
        for k in classes:
            obs['cls'][(k, st)] = cell('mulc', k, st)
        for m in METHODS:
            obs['prop'][(m, st)] = cell('prop', m, st)
    for k in classes:
        pts = {ptype_name(build_plane(lentil, 'mulc', k, v).ptype) for v in range(n_variants('mulc', k))}
        if len(pts) != 1:
            raise GeneratorError(f'class {k}: ptype depends on the construction: {pts}')
        obs['class_ptype'][k] = pts.pop()
    # implementation-defined facts about tilt (see Model/PType.v:doc_machine)
    obs['class_tilts'] = {}
    for k in classes:
        ys = [obs['cls'][(k, (wt, False))] for wt in WTYPES]
        obs['class_tilts'][k] = any(o[0] == 'yields' and o[1][1] for o in ys)
    obs['fft_refuses_tilt'] = all(obs['prop'][('fft', (wt, True))] == ('raises', 'NotImplementedError', (wt, True))
                                  for wt in WTYPES)
    return obs


def _st(st):
    return f'St {W_CON[st[0]]} {"true" if st[1] else "false"}'


def _outcome(o):
    if o[0] == 'yields':
        return f'Yields ({_st(o[1])})'
    return f'Raises {EXC_CON.get(o[1], "EOther")} ({_st(o[2])})'


def render(obs):
    classes = obs['classes']
    K = {k: 'K' + k for k in classes}
    L = []
    a = L.append
    a('(* GENERATED by harness/gen_ptype.py from the working tree of lentil -- do not edit.')
    a('   The plane-type transition function of the implementation, observed exhaustively on the')
    a('   real classes: wavefront state (ptype x carries tilt) x (Plane(ptype=p) | public plane class |')
    a('   propagate_dft / propagate_fft). *)')
    a('From LV Require Import Model.PType.')
    a('')
    a('(* the public plane classes of the lentil namespace *)')
    a('Inductive cls := ' + ' | '.join(K[k] for k in classes) + '.')
    a('Definition all_cls : list cls := [' + '; '.join(K[k] for k in classes) + '].')
    a('Definition cls_code (k : cls) : Z :=')
    a('  match k with ' + ' | '.join(f'{K[k]} => {i}' for i, k in enumerate(classes)) + ' end.')
    a('Definition cls_of_code (z : Z) : option cls :=')
    a('  match z with ' + ' | '.join(f'{i} => Some {K[k]}' for i, k in enumerate(classes)) + ' | _ => None end.')
    a('')
    a('(* <class>(...).ptype *)')
    a('Definition observed_class_ptype (k : cls) : ptype :=')
    a('  match k with ' + ' | '.join(f'{K[k]} => {P_CON[obs["class_ptype"][k]]}' for k in classes) + ' end.')
    a('')
    a('(* w * Plane(ptype=p, ...) *)')
    a('Definition observed_mul (s : wstate) (p : ptype) : outcome :=')
    a('  match ty s, tilted s, p with')
    for st in obs['states']:
        for p in PTYPES:
            a(f'  | {W_CON[st[0]]}, {"true" if st[1] else "false"}, {P_CON[p]} => {_outcome(obs["mul"][(st, p)])}')
    a('  end.')
    a('')
    a('(* w * <class>(...) *)')
    a('Definition observed_class_mul (k : cls) (s : wstate) : outcome :=')
    a('  match k, ty s, tilted s with')
    for k in classes:
        for st in obs['states']:
            a(f'  | {K[k]}, {W_CON[st[0]]}, {"true" if st[1] else "false"} => {_outcome(obs["cls"][(k, st)])}')
    a('  end.')
    a('')
    a('(* propagate_dft(w, ...) / propagate_fft(w, ...) *)')
    a('Definition observed_prop (m : method) (s : wstate) : outcome :=')
    a('  match m, ty s, tilted s with')
    for m in METHODS:
        for st in obs['states']:
            a(f'  | {M_CON[m]}, {W_CON[st[0]]}, {"true" if st[1] else "false"} => {_outcome(obs["prop"][(m, st)])}')
    a('  end.')
    a('')
    a('(* implementation-defined facts about fitted tilt: which classes attach one (informational), and')
    a('   whether propagate_fft refuses a wavefront that carries one (parameter of the documented machine) *)')
    a('Definition observed_class_tilts (k : cls) : bool :=')
    a('  match k with ' + ' | '.join(f'{K[k]} => {"true" if obs["class_tilts"][k] else "false"}' for k in classes) + ' end.')
    a(f'Definition observed_fft_refuses_tilt : bool := {"true" if obs["fft_refuses_tilt"] else "false"}.')
    a('')
    a('Definition observed : machine cls :=')
    a('  {| m_mul := observed_mul; m_class := observed_class_mul; m_prop := observed_prop |}.')
    return '\n'.join(L) + '\n'


def write_if_changed(path, text):
    os.makedirs(os.path.dirname(path), exist_ok=True)
    old = open(path).read() if os.path.exists(path) else None
    if old != text:
        tmp = path + '.tmp'
        open(tmp, 'w').write(text)
        os.replace(tmp, path)
        return True
    return False


OUT = os.path.join(C.COQ, 'theories', 'Gen', 'PTypeObserved.v')


def generate():
    obs = observe_all()
    write_if_changed(OUT, render(obs))
    return obs


if __name__ == '__main__':
    o = generate()
    print('classes:', o['classes'])
    print(open(OUT).read())
