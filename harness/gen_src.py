"""WP-T - source-to-Gallina translator for the pure integer arithmetic of lentil.

``translate_all(repo)`` reads the CURRENT source files of lentil (``<repo>/lentil/*.py``), and for every
entry of ``SPECS`` (a whitelisted function, specialised to one *instance* of its parameter kinds, e.g.
``array_extent`` called with a 2-tuple shape and ``parent_shape=None``) symbolically executes the function
body on symbolic integers and emits

  * a Gallina definition ``src_<name>`` over ``Z`` / ``bool`` / tuples / ``option`` / ``result``
    (file ``coq/theories/Gen/ExtentSrc.v``, rewritten on every check when its text changes);
  * the same term as a compiled Python function (used to look for a concrete witness when an equivalence
    theorem of ``Proofs/ExtentSrcP.v`` stops compiling, and to self-check the translator against the
    running code).

The translator is FAIL CLOSED per function: anything it does not understand in a whitelisted function that
can influence the translated integers raises ``TranslationRefused(function, reason)`` for THAT function; the
generated file then carries the declared fallback (the model term, marked REFUSED) so that the tree builds,
and the function is reported as ``refused`` (not an alarm - the correspondence check still covers it).

Accepted Python (everything else is refused):
  statements   docstring; ``x = e``; ``a, b = e`` (tuple unpacking, also of parameters); ``x += e`` (+ - * //);
               ``if/elif/else`` including early ``return``/``raise``; ``return e``; ``raise E(...)``;
               one ``for x in <list parameter>:`` loop of straight-line code (translated to ``fold_left``);
  expressions  integer literals, ``True/False/None/Ellipsis``, names, ``+ - * // %`` (``//`` and ``%`` only by a
               non-zero integer literal: ZeroDivisionError is not modelled), unary ``- +``, ``int(e)`` on an
               integer (identity), ``max/min`` (also ``np.max/np.min`` of a tuple), comparisons (chains too),
               ``and/or/not`` on booleans, ``a if c else b``, tuples, constant subscripts of tuples,
               ``len`` of a tuple (static), ``slice(a, b)`` and ``np.s_[a:b, c:d]`` (a slice is the pair
               (start, stop)), ``any/all`` of a tuple of booleans, ``is None``/``is not None`` and ``==`` with
               ``()``/``Ellipsis`` when they can be decided statically from the instance, calls of other
               functions of the same file (inlined), ``sys.maxsize`` (the interpreter's value);
  numpy on small integer vectors (needed by field.insert / helper.slice_offset):
               ``np.asarray/np.array`` of a tuple of integers, elementwise ``+ - * // %`` with scalar
               broadcasting, ``v[k]``, ``v == k``, ``np.all``, ``np.array_equal``, ``tuple(v)``, ``v.shape``.
               numpy's int64 wrap-around is NOT modelled (integers are mathematical integers).
Statements that cannot be translated and can only rebind names (``x = <call>``, ``out[...] += ...``, calls as
statements, ``if <opaque>:`` around such statements) make the names they bind - and every mutable value they
mention - OPAQUE; an opaque value reaching a translated condition, a loop or the result is a refusal.

Two kinds of entries:
  * value entries: the translated term is the function's return value;
  * observation entries (functions that mix index arithmetic with array work: util.pad, util.subarray,
    field.insert): the translated term is the value of the expression ``observe`` (a tuple of local integer
    variables) at the function's ``return`` (``raise`` -> ``Err``); what the function then does with those
    integers (the actual slicing) is NOT translated - the correspondence check covers it.
"""
import ast
import functools
import hashlib
import os
import sys


class TranslationRefused(Exception):
    def __init__(self, function, reason):
        super().__init__(f'{function}: {reason}')
        self.function, self.reason = function, reason


class _Unsup(Exception):
    """an expression outside the whitelist (becomes an opaque value or a refusal, depending on where)"""


# ====================================================================== scalar expressions
class X:
    __slots__ = ('op', 'ty', 'a')

    def __init__(self, op, ty, *a):
        self.op, self.ty, self.a = op, ty, a


def zint(n):
    return X('int', 'Z', int(n))


def bconst(b):
    return X('bool', 'B', bool(b))


def var(name, ty):
    return X('var', ty, name)


_ARITH = {'add': lambda a, b: a + b, 'sub': lambda a, b: a - b, 'mul': lambda a, b: a * b,
          'div': lambda a, b: a // b, 'mod': lambda a, b: a % b, 'max': max, 'min': min}
_CMP = {'le': lambda a, b: a <= b, 'lt': lambda a, b: a < b, 'ge': lambda a, b: a >= b,
        'gt': lambda a, b: a > b, 'eq': lambda a, b: a == b, 'ne': lambda a, b: a != b}


def _need(x, ty, what):
    if not isinstance(x, X) or x.ty != ty:
        raise _Unsup(f'{what}: operand is not {"an integer" if ty == "Z" else "a boolean"} ({describe(x)})')


def arith(op, a, b):
    _need(a, 'Z', op)
    _need(b, 'Z', op)
    if op in ('div', 'mod') and not (b.op == 'int' and b.a[0] != 0):
        raise _Unsup('divisor of // or % is not a non-zero integer literal (ZeroDivisionError is not modelled)')
    if a.op == 'int' and b.op == 'int':
        return zint(_ARITH[op](a.a[0], b.a[0]))
    return X(op, 'Z', a, b)


def neg(a):
    _need(a, 'Z', 'unary -')
    return zint(-a.a[0]) if a.op == 'int' else X('neg', 'Z', a)


def cmp_(op, a, b):
    _need(a, 'Z', 'comparison')
    _need(b, 'Z', 'comparison')
    if a.op == 'int' and b.op == 'int':
        return bconst(_CMP[op](a.a[0], b.a[0]))
    return X(op, 'B', a, b)


def band(a, b):
    _need(a, 'B', 'and')
    _need(b, 'B', 'and')
    if a.op == 'bool':
        return b if a.a[0] else a
    if b.op == 'bool':
        return a if b.a[0] else b          # a and False == False because a is pure and total
    return X('and', 'B', a, b)


def bor(a, b):
    _need(a, 'B', 'or')
    _need(b, 'B', 'or')
    if a.op == 'bool':
        return a if a.a[0] else b
    if b.op == 'bool':
        return b if b.a[0] else a
    return X('or', 'B', a, b)


def bnot(a):
    _need(a, 'B', 'not')
    return bconst(not a.a[0]) if a.op == 'bool' else X('not', 'B', a)


def ite(c, a, b):
    if c.op == 'bool':
        return a if c.a[0] else b
    if a is b:
        return a
    return X('ite', a.ty, c, a, b)


def free_vars(x, acc=None):
    acc = set() if acc is None else acc
    if x.op == 'var':
        acc.add(x.a[0])
    elif x.op not in ('int', 'bool'):
        for y in x.a:
            free_vars(y, acc)
    return acc


# ====================================================================== structured values
class PyTuple:
    def __init__(self, items, kind='tuple'):
        self.items, self.kind = list(items), kind


class Vec:
    """a small 1-D numpy integer (or boolean) array: mutable, so aliases share the object"""

    def __init__(self, items, parents=()):
        self.items, self.parents, self.poisoned = list(items), list(parents), False


class Slice:
    def __init__(self, start, stop):
        self.start, self.stop = start, stop


class Seq:
    """an integer sequence of known length whose container type (list/tuple/array) is not known"""

    def __init__(self, items):
        self.items = list(items)


class Arr:
    """an abstract ndarray parameter: only .shape and .ndim are known"""

    def __init__(self, name, shape, ndim):
        self.name, self.shape, self.ndim, self.poisoned, self.parents = name, shape, ndim, False, []


class Obj:
    """an abstract object parameter with the integer attributes named in the spec"""

    def __init__(self, name, attrs):
        self.name, self.attrs, self.poisoned, self.parents = name, attrs, False, []


class ListOf:
    def __init__(self, name, elem):
        self.name, self.elem, self.poisoned = name, elem, False


class Opaque:
    def __init__(self, why):
        self.why = why


class Choice:
    """if c then t else f for values of different shapes (only a result may be one)"""

    def __init__(self, c, t, f):
        self.c, self.t, self.f = c, t, f


class _Const:
    def __init__(self, n):
        self.n = n

    def __repr__(self):
        return self.n


NONE = _Const('None')
ELLIPSIS = _Const('Ellipsis')


def describe(v):
    if isinstance(v, X):
        return 'integer' if v.ty == 'Z' else 'boolean'
    if isinstance(v, Opaque):
        return 'untranslatable value: ' + v.why
    if isinstance(v, PyTuple):
        return f'{v.kind} of {len(v.items)}'
    return type(v).__name__ if not isinstance(v, _Const) else v.n


def is_poisoned(v):
    return getattr(v, 'poisoned', False) or any(is_poisoned(p) for p in getattr(v, 'parents', ()))


def poison(v):
    if isinstance(v, (Vec, Arr, Obj)):
        v.poisoned = True
        for p in v.parents:
            poison(p)
    elif isinstance(v, ListOf):
        v.poisoned = True
    elif isinstance(v, PyTuple):
        for it in v.items:
            poison(it)
    elif isinstance(v, Choice):
        poison(v.t)
        poison(v.f)


def find_opaque(v):
    """the reason if an opaque value occurs in v, else None"""
    if isinstance(v, Opaque):
        return v.why
    if isinstance(v, (Vec, Arr, Obj)) and is_poisoned(v):
        return 'a mutable value that an untranslated statement may have changed'
    if isinstance(v, (PyTuple, Vec, Seq)):
        for it in v.items:
            r = find_opaque(it)
            if r:
                return r
    if isinstance(v, Slice):
        return find_opaque(v.start) or find_opaque(v.stop)
    if isinstance(v, Choice):
        return find_opaque(v.t) or find_opaque(v.f)
    return None


def merge_values(c, vt, vf):
    if vt is vf:
        return vt
    if isinstance(vt, Opaque) or isinstance(vf, Opaque):
        return vt if isinstance(vt, Opaque) else vf
    if isinstance(vt, X) and isinstance(vf, X) and vt.ty == vf.ty:
        return ite(c, vt, vf)
    if (isinstance(vt, PyTuple) and isinstance(vf, PyTuple) and vt.kind == vf.kind
            and len(vt.items) == len(vf.items)):
        return PyTuple([merge_values(c, a, b) for a, b in zip(vt.items, vf.items)], vt.kind)
    if isinstance(vt, Vec) and isinstance(vf, Vec) and len(vt.items) == len(vf.items):
        return Vec([merge_values(c, a, b) for a, b in zip(vt.items, vf.items)], parents=[vt, vf])
    if isinstance(vt, Slice) and isinstance(vf, Slice):
        return Slice(merge_values(c, vt.start, vf.start), merge_values(c, vt.stop, vf.stop))
    return Choice(c, vt, vf)


# ====================================================================== parameter kinds of the specs
def T(n):
    return ('T', n)


NONE_K = ('NONE',)
OPAQUE_K = ('OPAQUE',)
BOOL_K = ('B',)
SLICEBOX_K = ('SLICEBOX',)


def SEQ(n):
    return ('SEQ', n)


def ARR(ndim):
    return ('ARR', ndim)


def OBJ(**attrs):
    return ('OBJ', attrs)


def LISTOF(elem):
    return ('LISTOF', elem)


# result types
TZ, TB = ('Z',), ('B',)


def TT(*ts):
    return ('tuple', list(ts))


def TZn(n):
    return TT(*([TZ] * n))


def TOPT(t):
    return ('option', t)


def TRES(t):
    return ('result', t)


TSL = TT(TZ, TZ)                      # a slice: (start, stop)


def coq_type(t):
    k = t[0]
    if k == 'Z':
        return 'Z'
    if k == 'B':
        return 'bool'
    if k == 'tuple':
        return '(' + ' * '.join(coq_type(x) for x in t[1]) + ')'
    if k == 'option':
        return f'(option {coq_type(t[1])})'
    if k == 'result':
        return f'(result {coq_type(t[1])})'
    if k == 'list':
        return f'(list {coq_type(t[1])})'
    raise ValueError(t)


_RESERVED = set('''as at cofix else end exists exists2 fix for forall fun if IF in let match mod return Set Prop
SProp Type then using where with by nat Z bool list option result true false None Some Ok Err fst snd pair
Admitted admit Axiom Axioms Parameter Parameters Conjecture Conjectures Variable Variables Hypothesis
Hypotheses Context Definition Lemma Theorem Proof Qed negb andb orb nr nc get ValueError TypeError IndexError
fold_left map max min st el _reduce Z0 Zpos Zneg'''.split())


class Namer:
    def __init__(self):
        self.used = set()

    def fresh(self, base):
        base = ''.join(ch if (ch.isalnum() and ch.isascii()) or ch == '_' else '_' for ch in base) or 'v'
        if base[0].isdigit():
            base = 'v' + base
        base = base.rstrip('_') or 'v'           # a trailing underscore plus digits would look like an SSA suffix
        cand, k = base, 0
        while cand in self.used or cand in _RESERVED or cand.startswith('src_'):
            k += 1
            cand = f'{base}_{k}'
        self.used.add(cand)
        return cand


# ====================================================================== the symbolic executor
_ERRKINDS = {'ValueError': 'ValueError', 'TypeError': 'TypeError', 'IndexError': 'IndexError',
             'NotImplementedError': 'NotImplementedErr', 'AssertionError': 'AssertionErr',
             'AttributeError': 'AttributeErr'}
_BINOPS = {ast.Add: 'add', ast.Sub: 'sub', ast.Mult: 'mul', ast.FloorDiv: 'div', ast.Mod: 'mod'}
_CMPOPS = {ast.LtE: 'le', ast.Lt: 'lt', ast.GtE: 'ge', ast.Gt: 'gt', ast.Eq: 'eq', ast.NotEq: 'ne'}


def _dotted(node):
    if isinstance(node, ast.Name):
        return node.id
    if isinstance(node, ast.Attribute):
        b = _dotted(node.value)
        return None if b is None else b + '.' + node.attr
    return None


def _is_docstring(s):
    return isinstance(s, ast.Expr) and isinstance(s.value, ast.Constant) and isinstance(s.value.value, str)


def _has_exit(stmts):
    for s in stmts:
        for n in ast.walk(s):
            if isinstance(n, (ast.Return, ast.Raise, ast.Break, ast.Continue, ast.Yield, ast.YieldFrom)):
                return True
    return False


def _stored_names(s):
    out = []
    for n in ast.walk(s):
        if isinstance(n, ast.Name) and isinstance(n.ctx, (ast.Store, ast.Del)) and n.id not in out:
            out.append(n.id)
    return out


def _loaded_names(s):
    return {n.id for n in ast.walk(s) if isinstance(n, ast.Name)}


class Exec:
    def __init__(self, spec, fdefs, namer):
        self.spec, self.fdefs, self.namer = spec, fdefs, namer
        self.binds = None          # current let list (None: substitute)
        self.helpers = []          # auxiliary definitions (loop step functions)
        self.depth = 0
        self.returns = []          # Return nodes of the translated region, textual order
        self.atoms = {}            # unparse(call) -> value

    # ------------------------------------------------------------ binding
    def letbind(self, name, v):
        if self.binds is None:
            return v
        if isinstance(v, X):
            if v.op in ('var', 'int', 'bool'):
                return v
            nm = self.namer.fresh(name)
            self.binds.append(('let', nm, v))
            return var(nm, v.ty)
        if isinstance(v, PyTuple):
            return PyTuple([self.letbind(f'{name}_{i}', it) for i, it in enumerate(v.items)], v.kind)
        if isinstance(v, Vec):
            v.items = [self.letbind(f'{name}_{i}', it) for i, it in enumerate(v.items)]      # in place: aliases
            return v
        if isinstance(v, Slice):
            return Slice(self.letbind(name + '_start', v.start), self.letbind(name + '_stop', v.stop))
        return v

    # ------------------------------------------------------------ expressions
    def ev(self, node, env):
        m = getattr(self, 'ev_' + type(node).__name__, None)
        if m is None:
            raise _Unsup('expression form ' + type(node).__name__)
        return m(node, env)

    def ev_Constant(self, node, env):
        v = node.value
        if isinstance(v, bool):
            return bconst(v)
        if isinstance(v, int):
            return zint(v)
        if v is None:
            return NONE
        if v is Ellipsis:
            return ELLIPSIS
        raise _Unsup(f'literal {v!r} is not an integer')

    def ev_Name(self, node, env):
        if node.id in env:
            v = env[node.id]
            return v
        if node.id == 'Ellipsis':
            return ELLIPSIS
        raise _Unsup(f'name {node.id!r} is not a parameter or a translated local')

    def ev_Tuple(self, node, env):
        if any(isinstance(e, ast.Starred) for e in node.elts):
            raise _Unsup('starred tuple element')
        return PyTuple([self.ev(e, env) for e in node.elts], 'tuple')

    def ev_List(self, node, env):
        if any(isinstance(e, ast.Starred) for e in node.elts):
            raise _Unsup('starred list element')
        return PyTuple([self.ev(e, env) for e in node.elts], 'list')

    def _elementwise(self, f, a, b):
        av, bv = isinstance(a, Vec), isinstance(b, Vec)
        for v in (a, b):
            if isinstance(v, Vec) and is_poisoned(v):
                raise _Unsup('array that an untranslated statement may have changed')
        if av and bv:
            if len(a.items) != len(b.items):
                raise _Unsup('numpy broadcasting of vectors of different lengths')
            return Vec([f(x, y) for x, y in zip(a.items, b.items)])
        if av:
            return Vec([f(x, b) for x in a.items])
        return Vec([f(a, y) for y in b.items])

    def ev_BinOp(self, node, env):
        op = _BINOPS.get(type(node.op))
        if op is None:
            if isinstance(node.op, ast.Div):
                raise _Unsup('true division / (floating point) is not integer arithmetic')
            raise _Unsup('binary operator ' + type(node.op).__name__)
        a, b = self.ev(node.left, env), self.ev(node.right, env)
        if isinstance(a, Vec) or isinstance(b, Vec):
            for v in (a, b):
                if not isinstance(v, (Vec, X)):
                    raise _Unsup(f'arithmetic between a numpy vector and a {describe(v)}')
            return self._elementwise(lambda x, y: arith(op, x, y), a, b)
        if isinstance(a, X) and isinstance(b, X):
            return arith(op, a, b)
        raise _Unsup(f'operator {op} on {describe(a)} and {describe(b)}')

    def ev_UnaryOp(self, node, env):
        a = self.ev(node.operand, env)
        if isinstance(node.op, ast.USub):
            if isinstance(a, Vec):
                if is_poisoned(a):
                    raise _Unsup('array that an untranslated statement may have changed')
                return Vec([neg(x) for x in a.items])
            return neg(a)
        if isinstance(node.op, ast.UAdd):
            _need(a, 'Z', 'unary +')
            return a
        if isinstance(node.op, ast.Not):
            return bnot(a)
        raise _Unsup('unary operator ' + type(node.op).__name__)

    def ev_BoolOp(self, node, env):
        vals = [self.ev(v, env) for v in node.values]
        f = band if isinstance(node.op, ast.And) else bor
        return functools.reduce(f, vals)

    def struct_eq(self, a, b):
        """Python == between two values, as a boolean expression (statically decided where kinds differ)"""
        for v in (a, b):
            r = find_opaque(v)
            if r:
                raise _Unsup('== on ' + r)
        if isinstance(a, X) and isinstance(b, X):
            if a.ty == 'Z' and b.ty == 'Z':
                return cmp_('eq', a, b)
            raise _Unsup('== between booleans')
        if isinstance(a, PyTuple) and isinstance(b, PyTuple):
            if a.kind != b.kind:
                return bconst(False)        # a list never equals a tuple
            if len(a.items) != len(b.items):
                return bconst(False)
            return functools.reduce(band, [self.struct_eq(x, y) for x, y in zip(a.items, b.items)], bconst(True))
        if isinstance(a, Slice) and isinstance(b, Slice):
            return band(self.struct_eq(a.start, b.start), self.struct_eq(a.stop, b.stop))
        kinds = (PyTuple, Slice, _Const)
        if isinstance(a, _Const) and isinstance(b, _Const):
            return bconst(a is b)
        if isinstance(a, kinds) and isinstance(b, kinds):
            return bconst(False)             # tuple vs slice vs None/Ellipsis: different types are unequal
        if isinstance(a, X) and a.ty == 'Z' and isinstance(b, (PyTuple, Slice, _Const)):
            return bconst(False)
        if isinstance(b, X) and b.ty == 'Z' and isinstance(a, (PyTuple, Slice, _Const)):
            return bconst(False)
        raise _Unsup(f'== between {describe(a)} and {describe(b)}')

    def ev_Compare(self, node, env):
        vals = [self.ev(node.left, env)] + [self.ev(c, env) for c in node.comparators]
        out = None
        for k, op in enumerate(node.ops):
            a, b = vals[k], vals[k + 1]
            if isinstance(op, (ast.Is, ast.IsNot)):
                for v in (a, b):
                    if find_opaque(v) or isinstance(v, Choice):
                        raise _Unsup('identity test on an untranslatable value')
                if not (isinstance(a, _Const) or isinstance(b, _Const)):
                    raise _Unsup('`is` between values other than None/Ellipsis')
                r = bconst((a is b) == isinstance(op, ast.Is))
            elif isinstance(op, (ast.In, ast.NotIn)):
                if not isinstance(b, PyTuple):
                    raise _Unsup('`in` with a right operand that is not a tuple/list literal value')
                r = functools.reduce(bor, [self.struct_eq(a, it) for it in b.items], bconst(False))
                if isinstance(op, ast.NotIn):
                    r = bnot(r)
            elif isinstance(a, Vec) or isinstance(b, Vec):
                cop = _CMPOPS.get(type(op))
                for v in (a, b):
                    if not isinstance(v, (Vec, X)):
                        raise _Unsup('comparison of a numpy vector with a ' + describe(v))
                r = self._elementwise(lambda x, y: cmp_(cop, x, y), a, b)
                if len(node.ops) > 1:
                    raise _Unsup('chained comparison of numpy vectors')
                return r
            elif isinstance(op, (ast.Eq, ast.NotEq)) and not (isinstance(a, X) and isinstance(b, X)):
                r = self.struct_eq(a, b)
                if isinstance(op, ast.NotEq):
                    r = bnot(r)
            else:
                cop = _CMPOPS.get(type(op))
                if cop is None:
                    raise _Unsup('comparison operator ' + type(op).__name__)
                r = cmp_(cop, a, b)
            out = r if out is None else band(out, r)
        return out

    def ev_IfExp(self, node, env):
        c = self.ev(node.test, env)
        _need(c, 'B', 'condition of a conditional expression')
        if c.op == 'bool':
            return self.ev(node.body if c.a[0] else node.orelse, env)
        return merge_values(c, self.ev(node.body, env), self.ev(node.orelse, env))

    def ev_Slice(self, node, env):
        if node.step is not None:
            raise _Unsup('slice with a step')
        lo = NONE if node.lower is None else self.ev(node.lower, env)
        hi = NONE if node.upper is None else self.ev(node.upper, env)
        return Slice(lo, hi)

    def ev_Subscript(self, node, env):
        if _dotted(node.value) == 'np.s_':
            idx = self.ev(node.slice, env)
            return idx
        base = self.ev(node.value, env)
        if isinstance(base, Opaque):
            raise _Unsup(base.why)
        if isinstance(base, (PyTuple, Vec, Seq)):
            if isinstance(base, Vec) and is_poisoned(base):
                raise _Unsup('array that an untranslated statement may have changed')
            idx = self.ev(node.slice, env)
            if not (isinstance(idx, X) and idx.op == 'int'):
                raise _Unsup('subscript that is not a constant integer')
            k = idx.a[0]
            if not -len(base.items) <= k < len(base.items):
                raise _Unsup(f'constant subscript {k} out of range (IndexError)')
            return base.items[k]
        raise _Unsup('subscript of a ' + describe(base))

    def ev_Attribute(self, node, env):
        d = _dotted(node)
        if d == 'sys.maxsize' and 'sys' not in env:
            return zint(sys.maxsize)
        base = self.ev(node.value, env)
        if isinstance(base, Opaque):
            raise _Unsup(base.why)
        if isinstance(base, (Arr, Obj)) and is_poisoned(base):
            raise _Unsup(f'{base.name} may have been changed by an untranslated statement')
        if isinstance(base, Arr):
            if node.attr == 'shape':
                return base.shape
            if node.attr == 'ndim':
                return zint(base.ndim)
        if isinstance(base, Obj) and node.attr in base.attrs:
            return base.attrs[node.attr]
        if isinstance(base, Slice) and node.attr in ('start', 'stop'):
            return getattr(base, node.attr)
        if isinstance(base, Vec) and node.attr == 'shape':
            return PyTuple([zint(len(base.items))])
        raise _Unsup(f'attribute .{node.attr} of a {describe(base)}')

    def _ints(self, v, what):
        """the integer items of a tuple/list/vector/sequence value"""
        if isinstance(v, (PyTuple, Vec, Seq)):
            if isinstance(v, Vec) and is_poisoned(v):
                raise _Unsup('array that an untranslated statement may have changed')
            for it in v.items:
                _need(it, 'Z', what)
            return list(v.items)
        raise _Unsup(f'{what}: argument is a {describe(v)}')

    def ev_Call(self, node, env):
        if node.keywords:
            raise _Unsup('call with keyword arguments')
        if any(isinstance(a, ast.Starred) for a in node.args):
            raise _Unsup('call with a starred argument')
        d = _dotted(node.func)
        if d is None:
            raise _Unsup('call of a computed function')
        head = d.split('.')[0]
        if head in env:
            raise _Unsup(f'call of {d}: the name {head!r} is a local value here')
        key = ast.unparse(node)
        calls = self.spec.get('calls', {})
        if key in calls:
            if key not in self.atoms:
                raise _Unsup(f'{key}: an argument was rebound before the call')
            for nm in _loaded_names(node) - {head}:
                if env.get(nm) is not self.param0.get(nm):
                    raise _Unsup(f'{key}: argument {nm} is no longer the parameter')
            return self.atoms[key]
        args = [self.ev(a, env) for a in node.args]
        n = len(args)
        if d == 'int' and n == 1:
            _need(args[0], 'Z', 'int()')
            return args[0]
        if d in ('max', 'min', 'np.max', 'np.min', 'numpy.max', 'numpy.min'):
            op = d.split('.')[-1]
            if n == 1:
                items = self._ints(args[0], op)
            elif d in ('max', 'min') and n >= 2:
                items = args
                for it in items:
                    _need(it, 'Z', op)
            else:
                raise _Unsup(f'{d} with {n} arguments')
            if not items:
                raise _Unsup(f'{op} of an empty sequence (ValueError)')
            return functools.reduce(lambda x, y: arith(op, x, y), items)
        if d == 'len' and n == 1:
            if isinstance(args[0], (PyTuple, Vec, Seq)):
                return zint(len(args[0].items))
            raise _Unsup('len of a ' + describe(args[0]))
        if d == 'slice' and n == 2:
            for a in args:
                if not (a is NONE or (isinstance(a, X) and a.ty == 'Z')):
                    raise _Unsup('slice bound is a ' + describe(a))
            return Slice(args[0], args[1])
        if d in ('any', 'all', 'np.all', 'np.any', 'numpy.all', 'numpy.any') and n == 1:
            f, unit = (bor, False) if d.endswith('any') else (band, True)
            v = args[0]
            if isinstance(v, X) and d.startswith('n'):
                _need(v, 'B', d)
                return v
            if isinstance(v, (PyTuple, Vec)):
                if isinstance(v, Vec) and is_poisoned(v):
                    raise _Unsup('array that an untranslated statement may have changed')
                for it in v.items:
                    _need(it, 'B', d)
                return functools.reduce(f, v.items, bconst(unit))
            raise _Unsup(f'{d} of a {describe(v)}')
        if d == 'tuple' and n == 1:
            if isinstance(args[0], PyTuple):
                return PyTuple(args[0].items, 'tuple')
            if isinstance(args[0], (Vec, Seq)):
                return PyTuple(self._ints(args[0], 'tuple()'), 'tuple')
            raise _Unsup('tuple() of a ' + describe(args[0]))
        if d in ('np.asarray', 'np.array', 'numpy.asarray', 'numpy.array') and n == 1:
            v = args[0]
            if isinstance(v, Arr):
                if is_poisoned(v):
                    raise _Unsup(f'{v.name} may have been changed by an untranslated statement')
                return v                                   # shape and ndim are preserved
            if isinstance(v, Vec):
                if d.endswith('asarray'):
                    return v                               # no copy
                return Vec(self._ints(v, d))
            if isinstance(v, (PyTuple, Seq)) and v.items:
                return Vec(self._ints(v, d))
            raise _Unsup(f'{d} of a {describe(v)}')
        if d in ('np.array_equal', 'numpy.array_equal') and n == 2:
            a, b = self._ints(args[0], d), self._ints(args[1], d)
            if len(a) != len(b):
                return bconst(False)
            return functools.reduce(band, [cmp_('eq', x, y) for x, y in zip(a, b)], bconst(True))
        if d in ('np.append', 'numpy.append') and n == 2:
            return Vec(self._flat_ints(args[0], d) + self._flat_ints(args[1], d))
        if d in self.fdefs and d in self.spec.get('inline', ()):
            return self.inline(d, args)
        raise _Unsup(f'call of {d} (not in the whitelist)')

    def _flat_ints(self, v, what):
        if isinstance(v, X):
            _need(v, 'Z', what)
            return [v]
        return self._ints(v, what)

    def inline(self, fname, args):
        fd = self.fdefs[fname]
        if self.depth > 4:
            raise _Unsup('call depth')
        a = fd.args
        if a.vararg or a.kwarg or a.kwonlyargs or a.posonlyargs or fd.decorator_list:
            raise _Unsup(f'{fname} has a signature the translator does not handle')
        names = [x.arg for x in a.args]
        if len(args) > len(names):
            raise _Unsup(f'too many arguments for {fname}')
        env = dict(zip(names, args))
        ndef = len(a.defaults)
        for i, nm in enumerate(names):
            if nm not in env:
                j = i - (len(names) - ndef)
                if j < 0:
                    raise _Unsup(f'missing argument {nm} of {fname}')
                env[nm] = self.ev(a.defaults[j], {})
        body = [s for s in fd.body if not _is_docstring(s)]
        if not body or not isinstance(body[-1], ast.Return) or body[-1].value is None or _has_exit(body[:-1]):
            raise _Unsup(f'{fname} is not straight-line code ending in a single return (cannot be inlined)')
        self.depth += 1
        try:
            for s in body[:-1]:
                self.stmt(s, env)
            v = self.ev(body[-1].value, env)
        finally:
            self.depth -= 1
        r = find_opaque(v)
        if r:
            raise _Unsup(f'result of {fname} depends on: {r}')
        return v

    # ------------------------------------------------------------ statements without exits
    def opaque_stmt(self, s, env, why):
        for nm in _loaded_names(s):
            if nm in env:
                poison(env[nm])
        for nm in _stored_names(s):
            env[nm] = Opaque(f'{nm} is bound by an untranslated statement (line {s.lineno}: {why})')

    _OPAQUE_OK = (ast.Assign, ast.AugAssign, ast.AnnAssign, ast.Expr, ast.Pass)

    def check_opaque_ok(self, s):
        """statements that may be skipped as opaque: they can only (re)bind names or mutate objects"""
        if isinstance(s, ast.If):
            for t in s.body + s.orelse:
                self.check_opaque_ok(t)
            return
        if not isinstance(s, self._OPAQUE_OK):
            raise TranslationRefused(self.spec['name'], f'line {s.lineno}: statement {type(s).__name__} '
                                                         'is outside the whitelist')
        for n in ast.walk(s):
            if isinstance(n, (ast.Yield, ast.YieldFrom, ast.Await, ast.Lambda)):
                raise TranslationRefused(self.spec['name'], f'line {s.lineno}: {type(n).__name__} expression')

    def assign(self, target, v, env, s):
        if isinstance(target, ast.Name):
            env[target.id] = self.letbind(target.id, v)
            return
        if isinstance(target, (ast.Tuple, ast.List)):
            if any(not isinstance(t, ast.Name) for t in target.elts):
                raise _Unsup('nested or starred unpacking target')
            if isinstance(v, Opaque):
                raise _Unsup(v.why)
            if isinstance(v, Vec) and is_poisoned(v):
                raise _Unsup('array that an untranslated statement may have changed')
            if not isinstance(v, (PyTuple, Vec, Seq)):
                raise _Unsup('unpacking of a ' + describe(v))
            if len(v.items) != len(target.elts):
                raise TranslationRefused(self.spec['name'], f'line {s.lineno}: unpacking {len(v.items)} values '
                                                             f'into {len(target.elts)} names (ValueError)')
            for t, it in zip(target.elts, v.items):
                env[t.id] = self.letbind(t.id, it)
            return
        raise _Unsup('assignment target ' + type(target).__name__)

    def stmt(self, s, env):
        """a statement that cannot leave the function; updates env (and the let list)"""
        if _is_docstring(s) or isinstance(s, ast.Pass):
            return
        if isinstance(s, ast.If):
            return self.stmt_if(s, env)
        if isinstance(s, ast.For):
            return self.stmt_for(s, env)
        self.check_opaque_ok(s)
        try:
            if isinstance(s, ast.Assign):
                if len(s.targets) != 1:
                    raise _Unsup('chained assignment')
                if isinstance(s.targets[0], (ast.Subscript, ast.Attribute)):
                    raise _Unsup('store into an object')
                v = self.ev(s.value, env)
                self.assign(s.targets[0], v, env, s)
            elif isinstance(s, ast.AugAssign):
                if not isinstance(s.target, ast.Name):
                    raise _Unsup('augmented store into an object')
                op = _BINOPS.get(type(s.op))
                if op is None:
                    raise _Unsup('augmented operator ' + type(s.op).__name__)
                cur = self.ev(ast.Name(id=s.target.id, ctx=ast.Load()), env)
                if not isinstance(cur, X):
                    raise _Unsup('augmented assignment to a ' + describe(cur) + ' (in-place update)')
                rhs = self.ev(s.value, env)
                if not isinstance(rhs, X):
                    raise _Unsup('augmented assignment with a ' + describe(rhs))
                env[s.target.id] = self.letbind(s.target.id, arith(op, cur, rhs))
            else:
                raise _Unsup(type(s).__name__ + ' statement')
        except _Unsup as e:
            self.opaque_stmt(s, env, str(e))

    def cond(self, test, env):
        try:
            c = self.ev(test, env)
            if not (isinstance(c, X) and c.ty == 'B'):
                raise _Unsup('condition is a ' + describe(c) + ' (truthiness is not translated)')
            return c
        except _Unsup as e:
            return Opaque(str(e))

    def stmt_if(self, s, env):
        if _has_exit([s]):
            raise TranslationRefused(self.spec['name'], f'line {s.lineno}: return/raise/break inside a nested '
                                                         'block the translator executes without exits')
        c = self.cond(s.test, env)
        if isinstance(c, Opaque):
            for t in s.body + s.orelse:
                self.check_opaque_ok(t)
            self.opaque_stmt(s, env, c.why)
            return
        if c.op == 'bool':
            for t in (s.body if c.a[0] else s.orelse):
                self.stmt(t, env)
            return
        et, ef = dict(env), dict(env)
        saved, self.binds = self.binds, None
        try:
            for t in s.body:
                self.stmt(t, et)
            for t in s.orelse:
                self.stmt(t, ef)
        finally:
            self.binds = saved
        names = list(et) + [k for k in ef if k not in et]
        for nm in names:
            vt, vf = et.get(nm), ef.get(nm)
            if vt is vf:
                continue
            if vt is None or vf is None:
                env[nm] = Opaque(f'{nm} is bound on one branch only (line {s.lineno})')
            else:
                env[nm] = self.letbind(nm, merge_values(c, vt, vf))

    def stmt_for(self, s, env):
        name = self.spec['name']
        if self.binds is None or self.depth:
            raise TranslationRefused(name, f'line {s.lineno}: loop inside a branch or an inlined call')
        if s.orelse or _has_exit(s.body) or not isinstance(s.target, ast.Name) or not isinstance(s.iter, ast.Name):
            raise TranslationRefused(name, f'line {s.lineno}: loop is not `for x in <parameter>:` over '
                                           'straight-line code')
        lst = env.get(s.iter.id)
        if not isinstance(lst, ListOf):
            raise TranslationRefused(name, f'line {s.lineno}: loop over something that is not a list parameter')
        if lst.poisoned:
            raise TranslationRefused(name, f'line {s.lineno}: the list may have been changed by an untranslated '
                                           'statement before the loop')
        for t in s.body:
            for n in ast.walk(t):
                if isinstance(n, (ast.For, ast.While, ast.With, ast.Try, ast.FunctionDef, ast.ClassDef)):
                    raise TranslationRefused(name, f'line {s.lineno}: compound statement inside the loop')
        stored = [n for t in s.body for n in _stored_names(t)]
        stored = [n for i, n in enumerate(stored) if n not in stored[:i] and n != s.target.id]
        carried = [n for n in stored if n in env]
        # canonical order of the state tuple: first use after the loop (e.g. the order of the returned tuple),
        # then the order of the bindings before the loop - NOT the order of the statements of the loop body,
        # so that reordering independent assignments does not change the translated term
        after = sorted((n.lineno, n.col_offset, n.id) for n in ast.walk(self.fdefs[self.spec['func']])
                       if isinstance(n, ast.Name) and isinstance(n.ctx, ast.Load)
                       and n.lineno > (s.end_lineno or s.lineno))
        first_use = {}
        for k, (_, _, nm_) in enumerate(after):
            first_use.setdefault(nm_, k)
        pre = list(env)
        carried.sort(key=lambda n: (first_use.get(n, len(after)), pre.index(n)))
        for n in carried:
            if not isinstance(env[n], X):
                raise TranslationRefused(name, f'line {s.lineno}: loop-carried variable {n} is a {describe(env[n])}')
        nm2 = Namer()
        nm2.used |= self.namer.used | {'st', 'el'}
        st_names = [nm2.fresh(n) for n in carried]
        kind, attrs = lst.elem
        assert kind == 'OBJ' and len(attrs) == 1
        (attr, aty), = attrs.items()
        el_names = [nm2.fresh(f'{s.target.id}_{attr}_{i}') for i in range(aty[1])]
        env2 = dict(env)
        for n, sn in zip(carried, st_names):
            env2[n] = var(sn, env[n].ty)
        env2[s.target.id] = Obj(s.target.id, {attr: PyTuple([var(e, 'Z') for e in el_names])})
        saved, self.binds = self.binds, None
        try:
            for t in s.body:
                self.stmt(t, env2)
        finally:
            self.binds = saved
        outs = []
        for n in carried:
            v = env2[n]
            if not isinstance(v, X) or v.ty != env[n].ty:
                raise TranslationRefused(name, f'line {s.lineno}: loop-carried variable {n} becomes a {describe(v)}')
            extra = free_vars(v) - set(st_names) - set(el_names)
            if extra:
                raise TranslationRefused(name, f'line {s.lineno}: loop body reads {sorted(extra)} from outside '
                                               '(closures are not translated)')
            outs.append(v)
        if not carried:
            raise TranslationRefused(name, f'line {s.lineno}: loop carries no integer state')
        step = f'src_{name}_step'
        self.helpers.append({'name': step, 'st_names': st_names, 'st_types': [env[n].ty for n in carried],
                             'el_names': el_names, 'outs': outs})
        new = [self.namer.fresh(n) for n in carried]
        self.binds.append(('fold', new, step, self.listvars[s.iter.id], [env[n] for n in carried],
                           [env[n].ty for n in carried]))
        for n, nn in zip(carried, new):
            env[n] = var(nn, env[n].ty)
        for n in stored:
            if n not in carried:
                env[n] = Opaque(f'{n} is local to the loop body')
        env[s.target.id] = Opaque('loop variable after the loop')

    # ------------------------------------------------------------ blocks with exits -> terms
    def wrap(self, binds, t):
        for b in reversed(binds):
            t = (b[0],) + tuple(b[1:]) + (t,)
        return t

    def leaf_value(self, v, where):
        r = find_opaque(v)
        if r:
            raise TranslationRefused(self.spec['name'], f'{where} depends on: {r}')
        if isinstance(v, Choice):
            return ('ite', v.c, self.leaf_value(v.t, where), self.leaf_value(v.f, where))
        return ('ret', v)

    def observe(self, env, where):
        try:
            v = self.ev(self.spec['observe_ast'], env)
        except _Unsup as e:
            raise TranslationRefused(self.spec['name'], f'{where}: observed expression: {e}')
        return self.leaf_value(v, where)

    def do_return(self, s, env):
        where = f'line {s.lineno}: returned value'
        mode = self.spec.get('returns')
        if mode is None:
            if s.value is None:
                raise TranslationRefused(self.spec['name'], f'line {s.lineno}: bare return')
            try:
                v = self.ev(s.value, env)
            except _Unsup as e:
                raise TranslationRefused(self.spec['name'], f'{where}: {e}')
            return self.leaf_value(v, where)
        k = [i for i, r in enumerate(self.returns) if r is s][0]
        if k >= len(mode):
            raise TranslationRefused(self.spec['name'], f'line {s.lineno}: the function has more return '
                                                         f'statements than the {len(mode)} the spec describes')
        if mode[k] == 'none':
            return ('none',)
        return self.observe(env, f'line {s.lineno}: observation at return')

    def block(self, stmts, env, end):
        saved = self.binds
        self.binds = binds = []
        try:
            stmts = list(stmts)
            i = 0
            while i < len(stmts):
                s = stmts[i]
                rest = stmts[i + 1:]
                if isinstance(s, ast.Return):
                    return self.wrap(binds, self.do_return(s, env))
                if isinstance(s, ast.Raise):
                    return self.wrap(binds, ('raise', self.exc_name(s)))
                if isinstance(s, ast.If) and _has_exit([s]):
                    c = self.cond(s.test, env)
                    if isinstance(c, Opaque):
                        raise TranslationRefused(self.spec['name'], f'line {s.lineno}: the function returns or '
                                                                     f'raises depending on: {c.why}')
                    if c.op == 'bool':
                        stmts = list(s.body if c.a[0] else s.orelse) + rest
                        i = 0
                        continue
                    t = self.block(list(s.body) + rest, dict(env), end)
                    self.binds = binds
                    f = self.block(list(s.orelse) + rest, dict(env), end)
                    self.binds = binds
                    return self.wrap(binds, ('ite', c, t, f))
                self.stmt(s, env)
                i += 1
            return self.wrap(binds, end(env))
        finally:
            self.binds = saved

    def exc_name(self, s):
        e = s.exc
        if isinstance(e, ast.Call):
            e = e.func
        if isinstance(e, ast.Name) and e.id in _ERRKINDS:
            return _ERRKINDS[e.id]
        raise TranslationRefused(self.spec['name'], f'line {s.lineno}: raise of something that is not one of '
                                                     f'{sorted(_ERRKINDS)}')


# ====================================================================== from a spec to a term
def _make_input(kind, base, namer, inputs):
    """the symbolic value of a parameter/atom of the given kind; appends (name, type, component names)"""
    k = kind[0]
    if k == 'T':
        n = kind[1]
        if n == 0:
            return PyTuple([])
        nm = namer.fresh(base)
        comps = [namer.fresh(f'{base}_{i}') for i in range(n)]
        inputs.append({'name': nm, 'type': TZn(n) if n > 1 else TZ, 'comps': comps})
        return PyTuple([var(c, 'Z') for c in comps])
    if k == 'SEQ':
        v = _make_input(T(kind[1]), base, namer, inputs)
        return Seq(v.items)
    if k == 'B':
        nm = namer.fresh(base)
        inputs.append({'name': nm, 'type': TB, 'comps': None})
        return var(nm, 'B')
    if k == 'Z':
        nm = namer.fresh(base)
        inputs.append({'name': nm, 'type': TZ, 'comps': None})
        return var(nm, 'Z')
    if k == 'NONE':
        return NONE
    if k == 'OPAQUE':
        return Opaque(f'parameter {base} is not an integer')
    if k == 'SLICEBOX':
        nm = namer.fresh(base)
        comps = [namer.fresh(f'{base}_{s}') for s in ('r0', 'r1', 'c0', 'c1')]
        inputs.append({'name': nm, 'type': TT(TSL, TSL), 'comps': comps, 'nested': True})
        z = [var(c, 'Z') for c in comps]
        return PyTuple([Slice(z[0], z[1]), Slice(z[2], z[3])])
    if k == 'ARR':
        shape = _make_input(T(kind[1]), base + '_shape', namer, inputs)
        return Arr(base, shape, kind[1])
    if k == 'OBJ':
        return Obj(base, {a: _make_input(t, f'{base}_{a}', namer, inputs) for a, t in kind[1].items()})
    if k == 'LISTOF':
        ek, attrs = kind[1]
        (attr, aty), = attrs.items()
        nm = namer.fresh(f'{base}_{attr}')
        inputs.append({'name': nm, 'type': ('list', TZn(aty[1])), 'comps': None})
        v = ListOf(base, kind[1])
        v.input = nm
        return v
    raise ValueError(kind)


def _returns_in_order(stmts):
    out = []

    def go(node):
        if isinstance(node, ast.Return):
            out.append(node)
        for ch in ast.iter_child_nodes(node):
            if not isinstance(ch, (ast.FunctionDef, ast.Lambda, ast.ClassDef, ast.AsyncFunctionDef)):
                go(ch)
    for s in stmts:
        go(s)
    return out


def _vtype(v, name, where):
    if isinstance(v, X):
        return TZ if v.ty == 'Z' else TB
    if isinstance(v, PyTuple):
        if v.kind != 'tuple':
            raise TranslationRefused(name, f'{where}: the result contains a list')
        if not v.items:
            return ('unit',)
        if len(v.items) == 1:
            raise TranslationRefused(name, f'{where}: 1-tuples are not translated')
        return TT(*[_vtype(it, name, where) for it in v.items])
    if isinstance(v, Slice):
        if not (isinstance(v.start, X) and isinstance(v.stop, X)):
            raise TranslationRefused(name, f'{where}: slice with an open bound')
        return TSL
    raise TranslationRefused(name, f'{where}: the result is a {describe(v)}')


def _leaf_types(t, name, acc):
    k = t[0]
    if k == 'let':
        _leaf_types(t[3], name, acc)
    elif k == 'fold':
        _leaf_types(t[6], name, acc)
    elif k == 'ite':
        _leaf_types(t[2], name, acc)
        _leaf_types(t[3], name, acc)
    elif k == 'ret':
        ty = _vtype(t[1], name, 'result')
        if ('unit',) in (ty[1] if ty[0] == 'tuple' else []):
            raise TranslationRefused(name, 'result: an empty tuple inside a tuple')
        acc['ret'].append(ty)
    elif k == 'none':
        acc['none'] = True
    elif k == 'raise':
        acc['raise'] = True


def _result_type(term, name):
    acc = {'ret': [], 'none': False, 'raise': False}
    _leaf_types(term, name, acc)
    tys = []
    for t in acc['ret']:
        if t not in tys:
            tys.append(t)
    unit = ('unit',) in tys
    tys = [t for t in tys if t != ('unit',)]
    if len(tys) != 1:
        raise TranslationRefused(name, 'the function returns values of different shapes: '
                                 + ', '.join(map(str, tys)) if tys else 'the function returns only ()')
    ty = tys[0]
    if unit and acc['none']:
        raise TranslationRefused(name, 'both () results and unobserved returns')
    if unit or acc['none']:
        ty = TOPT(ty)
    if acc['raise']:
        ty = TRES(ty)
    return ty


def translate_one(spec, fdefs):
    """-> dict(defs=[coq text...], py=source text, inputs=[...], rtype=...) or raises TranslationRefused"""
    name = spec['name']
    fd = fdefs.get(spec['func'])
    if fd is None:
        raise TranslationRefused(name, f'function {spec["func"]} not found in {spec["file"]}')
    a = fd.args
    if a.vararg or a.kwarg or a.kwonlyargs or a.posonlyargs or fd.decorator_list:
        raise TranslationRefused(name, 'signature has decorators, *args, **kwargs or keyword-only parameters')
    pnames = [x.arg for x in a.args]
    if pnames != list(spec['params']):
        raise TranslationRefused(name, f'parameters are {pnames}, the spec expects {list(spec["params"])}')
    namer = Namer()
    inputs = []
    env = {}
    ex = Exec(spec, fdefs, namer)
    ex.listvars = {}
    for p in pnames:
        env[p] = _make_input(spec['params'][p], p, namer, inputs)
        if isinstance(env[p], ListOf):
            ex.listvars[p] = env[p].input
    ex.param0 = dict(env)
    for key, (anm, kind) in spec.get('calls', {}).items():
        ex.atoms[key] = _make_input(kind, anm, namer, inputs)
    body = list(fd.body)
    if 'focus' in spec:
        pre, body = spec['focus'](fd, name)
        for s in pre:
            if not _is_docstring(s):
                raise TranslationRefused(name, f'line {s.lineno}: statement before the translated block')
    ex.returns = _returns_in_order(body)
    if 'observe' in spec:
        spec = dict(spec)
        spec['observe_ast'] = ast.parse(spec['observe'], mode='eval').body
        ex.spec = spec
        if 'returns' not in spec:
            spec['returns'] = ['obs'] * len(ex.returns)
        if len(ex.returns) != len(spec['returns']):
            raise TranslationRefused(name, f'{len(ex.returns)} return statements, the spec describes '
                                           f'{len(spec["returns"])}')

    def end(env_):
        if spec.get('end') == 'obs':
            return ex.observe(env_, 'end of the translated block')
        raise TranslationRefused(name, 'control can reach the end of the function without a return')

    for n in ast.walk(ast.Module(body=body, type_ignores=[])):
        if isinstance(n, (ast.FunctionDef, ast.AsyncFunctionDef, ast.ClassDef, ast.Global, ast.Nonlocal, ast.While,
                          ast.Try, ast.With, ast.Delete, ast.Import, ast.ImportFrom, ast.NamedExpr, ast.Assert,
                          ast.Match if hasattr(ast, 'Match') else ast.While)):
            raise TranslationRefused(name, f'line {n.lineno}: {type(n).__name__} is outside the whitelist')
    try:
        term = ex.block(body, env, end)
    except _Unsup as e:          # should have been converted; fail closed
        raise TranslationRefused(name, str(e))
    rtype = _result_type(term, name)
    if rtype != spec['rtype']:
        raise TranslationRefused(name, f'result type {coq_type(rtype)} is not the declared {coq_type(spec["rtype"])}')
    return {'term': term, 'inputs': inputs, 'rtype': rtype, 'helpers': ex.helpers}


# ====================================================================== printing: Gallina
def gz(n):
    return str(n) if n >= 0 else f'({n})'


_GBIN = {'add': '+', 'sub': '-', 'mul': '*', 'div': '/', 'mod': 'mod', 'le': '<=?', 'lt': '<?', 'ge': '>=?',
         'gt': '>?', 'eq': '=?', 'and': '&&', 'or': '||'}


def gx(x):
    o = x.op
    if o == 'int':
        return gz(x.a[0])
    if o == 'bool':
        return 'true' if x.a[0] else 'false'
    if o == 'var':
        return x.a[0]
    if o in _GBIN:
        return f'({gx(x.a[0])} {_GBIN[o]} {gx(x.a[1])})'
    if o == 'ne':
        return f'(negb ({gx(x.a[0])} =? {gx(x.a[1])}))'
    if o in ('max', 'min'):
        return f'(Z.{o} {gx(x.a[0])} {gx(x.a[1])})'
    if o == 'neg':
        return f'(- {gx(x.a[0])})'
    if o == 'not':
        return f'(negb {gx(x.a[0])})'
    if o == 'ite':
        return f'(if {gx(x.a[0])} then {gx(x.a[1])} else {gx(x.a[2])})'
    raise ValueError(o)


def gv(v):
    if isinstance(v, X):
        return gx(v)
    if isinstance(v, PyTuple):
        return '(' + ', '.join(gv(it) for it in v.items) + ')'
    if isinstance(v, Slice):
        return f'({gx(v.start)}, {gx(v.stop)})'
    raise ValueError(v)


def g_leaf(t, rtype):
    """a leaf of the term under the result type"""
    res = rtype[0] == 'result'
    inner = rtype[1] if res else rtype
    opt = inner[0] == 'option'
    if t[0] == 'raise':
        return f'Err {t[1]}'
    if t[0] == 'none' or (t[0] == 'ret' and isinstance(t[1], PyTuple) and not t[1].items):
        s = 'None'
    else:
        s = gv(t[1])
        if opt:
            s = f'Some {s}'
    return f'Ok ({s})' if res else s


def g_term(t, rtype, ind):
    p = '  ' * ind
    k = t[0]
    if k == 'let':
        return f'{p}let {t[1]} := {gx(t[2])} in\n' + g_term(t[3], rtype, ind)
    if k == 'fold':
        _, new, step, lst, inits, _tys, body = t
        pat = new[0] if len(new) == 1 else "'(" + ', '.join(new) + ')'
        init = gx(inits[0]) if len(inits) == 1 else '(' + ', '.join(gx(i) for i in inits) + ')'
        return f'{p}let {pat} := fold_left {step} {lst} {init} in\n' + g_term(body, rtype, ind)
    if k == 'ite':
        return (f'{p}if {gx(t[1])} then\n' + g_term(t[2], rtype, ind + 1) + f'\n{p}else\n'
                + g_term(t[3], rtype, ind + 1))
    return p + g_leaf(t, rtype)


def g_pattern(inp):
    c = inp['comps']
    if inp.get('nested'):
        return f"'(({c[0]}, {c[1]}), ({c[2]}, {c[3]}))"
    return "'(" + ', '.join(c) + ')'


def g_binders(inputs):
    return ' '.join(f'({i["name"]} : {coq_type(i["type"])})' for i in inputs)


def g_def(spec, tr):
    out = []
    for h in tr['helpers']:
        sty = [TZ if t == 'Z' else TB for t in h['st_types']]
        st_t = coq_type(TT(*sty)) if len(sty) > 1 else coq_type(sty[0])
        el_t = coq_type(TZn(len(h['el_names'])))
        st_pat = h['st_names'][0] if len(sty) == 1 else "'(" + ', '.join(h['st_names']) + ')'
        body = gx(h['outs'][0]) if len(sty) == 1 else '(' + ', '.join(gx(o) for o in h['outs']) + ')'
        out.append(f'Definition {h["name"]} (st : {st_t}) (el : {el_t}) : {st_t} :=\n'
                   f"  let {st_pat} := st in\n  let '({', '.join(h['el_names'])}) := el in\n  {body}.")
    lines = [f'Definition src_{spec["name"]} {g_binders(tr["inputs"])} : {coq_type(tr["rtype"])} :=']
    for i in tr['inputs']:
        if i['comps'] and len(i['comps']) > 1:
            lines.append(f'  let {g_pattern(i)} := {i["name"]} in')
        elif i['comps']:
            lines.append(f'  let {i["comps"][0]} := {i["name"]} in')
    out.append('\n'.join(lines) + '\n' + g_term(tr['term'], tr['rtype'], 1) + '.')
    return '\n'.join(out)


# ====================================================================== printing: Python
_PBIN = {'add': '+', 'sub': '-', 'mul': '*', 'div': '//', 'mod': '%', 'le': '<=', 'lt': '<', 'ge': '>=',
         'gt': '>', 'eq': '==', 'ne': '!=', 'and': 'and', 'or': 'or'}


def px(x):
    o = x.op
    if o == 'int':
        return f'({x.a[0]})'
    if o == 'bool':
        return 'True' if x.a[0] else 'False'
    if o == 'var':
        return x.a[0]
    if o in _PBIN:
        return f'({px(x.a[0])} {_PBIN[o]} {px(x.a[1])})'
    if o in ('max', 'min'):
        return f'{o}({px(x.a[0])}, {px(x.a[1])})'
    if o == 'neg':
        return f'(-{px(x.a[0])})'
    if o == 'not':
        return f'(not {px(x.a[0])})'
    if o == 'ite':
        return f'({px(x.a[1])} if {px(x.a[0])} else {px(x.a[2])})'
    raise ValueError(o)


def pv(v):
    if isinstance(v, X):
        return px(v)
    if isinstance(v, PyTuple):
        return '(' + ', '.join(pv(it) for it in v.items) + ',)'
    if isinstance(v, Slice):
        return f'({px(v.start)}, {px(v.stop)},)'
    raise ValueError(v)


def p_leaf(t, rtype):
    """python value conventions: option -> None | value; result -> ('err', kind) | ('ok', value)"""
    res = rtype[0] == 'result'
    if t[0] == 'raise':
        return f"('err', {t[1]!r})"
    if t[0] == 'none' or (t[0] == 'ret' and isinstance(t[1], PyTuple) and not t[1].items):
        s = 'None'
    else:
        s = pv(t[1])
    return f"('ok', {s})" if res else s


def p_term(t, rtype, ind, out):
    p = '    ' * ind
    k = t[0]
    if k == 'let':
        out.append(f'{p}{t[1]} = {px(t[2])}')
        p_term(t[3], rtype, ind, out)
    elif k == 'fold':
        _, new, step, lst, inits, _tys, body = t
        init = px(inits[0]) if len(inits) == 1 else '(' + ', '.join(px(i) for i in inits) + ')'
        tgt = new[0] if len(new) == 1 else '(' + ', '.join(new) + ')'
        out.append(f'{p}{tgt} = _reduce({step}, {lst}, {init})')
        p_term(body, rtype, ind, out)
    elif k == 'ite':
        out.append(f'{p}if {px(t[1])}:')
        p_term(t[2], rtype, ind + 1, out)
        out.append(f'{p}else:')
        p_term(t[3], rtype, ind + 1, out)
    else:
        out.append(f'{p}return {p_leaf(t, rtype)}')


def p_def(spec, tr):
    out = []
    for h in tr['helpers']:
        n = len(h['st_names'])
        st = h['st_names'][0] if n == 1 else '(' + ', '.join(h['st_names']) + ')'
        body = px(h['outs'][0]) if n == 1 else '(' + ', '.join(px(o) for o in h['outs']) + ')'
        out += [f'def {h["name"]}(st, el):', f'    {st} = st', f'    ({", ".join(h["el_names"])},) = el',
                f'    return {body}']
    out.append(f'def src_{spec["name"]}({", ".join(i["name"] for i in tr["inputs"])}):')
    for i in tr['inputs']:
        c = i['comps']
        if c and i.get('nested'):
            out.append(f'    (({c[0]}, {c[1]}), ({c[2]}, {c[3]})) = {i["name"]}')
        elif c and len(c) > 1:
            out.append(f'    ({", ".join(c)},) = {i["name"]}')
        elif c:
            out.append(f'    {c[0]} = {i["name"]}')
    p_term(tr['term'], tr['rtype'], 1, out)
    return '\n'.join(out)


# ====================================================================== the whitelist
def _focus_first_else(fd, name):
    """the else-block of the first top-level `if` of the function"""
    for k, s in enumerate(fd.body):
        if isinstance(s, ast.If):
            if not s.orelse:
                raise TranslationRefused(name, f'line {s.lineno}: the first top-level if has no else block')
            return fd.body[:k], list(s.orelse)
    raise TranslationRefused(name, 'no top-level if statement')


EXT = 'lentil/extent.py'
_EXT_INLINE = ('array_extent', 'array_center', 'intersect', 'intersection_extent', 'intersection_shape',
               'intersection_slices', 'intersection_shift')
_E4 = '(a : Z * Z * Z * Z) (b : Z * Z * Z * Z)'

SPECS = [
    # ---------------------------------------------------------------- lentil/extent.py (all of it)
    dict(name='array_extent', file=EXT, func='array_extent', inline=_EXT_INLINE,
         params={'shape': T(2), 'shift': T(2), 'parent_shape': NONE_K}, rtype=TZn(4),
         doc='array_extent(shape, shift) for a 2-tuple shape, parent_shape=None',
         fallback='array_extent (fst shape) (snd shape) (fst shift) (snd shift)'),
    dict(name='array_extent_0d', file=EXT, func='array_extent', inline=_EXT_INLINE,
         params={'shape': T(0), 'shift': T(2), 'parent_shape': NONE_K}, rtype=TZn(4),
         doc='array_extent((), shift): the `len(shape) < 2` guard replaces the shape by (1, 1)',
         fallback='array_extent 1 1 (fst shift) (snd shift)'),
    dict(name='array_extent_parent', file=EXT, func='array_extent', inline=_EXT_INLINE,
         params={'shape': T(2), 'shift': T(2), 'parent_shape': T(2)}, rtype=TZn(4),
         doc='array_extent(shape, shift, parent_shape) for 2-tuples (extent relative to the parent corner)',
         fallback="let '(r0, r1, c0, c1) := array_extent (fst shape) (snd shape) (fst shift) (snd shift) in\n"
                  '  (r0 + fst parent_shape / 2, r1 + fst parent_shape / 2, c0 + snd parent_shape / 2, '
                  'c1 + snd parent_shape / 2)'),
    dict(name='array_center', file=EXT, func='array_center', inline=_EXT_INLINE,
         params={'extent': T(4)}, rtype=TZn(2), doc='array_center(extent)', fallback='array_center extent'),
    dict(name='intersect', file=EXT, func='intersect', inline=_EXT_INLINE,
         params={'a': T(4), 'b': T(4)}, rtype=TB, doc='intersect(a, b)', fallback='intersect a b'),
    dict(name='intersection_extent', file=EXT, func='intersection_extent', inline=_EXT_INLINE,
         params={'a': T(4), 'b': T(4)}, rtype=TZn(4), doc='intersection_extent(a, b)',
         fallback='intersection_extent a b'),
    dict(name='intersection_shape', file=EXT, func='intersection_shape', inline=_EXT_INLINE,
         params={'a': T(4), 'b': T(4)}, rtype=TOPT(TZn(2)), doc='intersection_shape(a, b); () is None',
         fallback='intersection_shape a b'),
    dict(name='intersection_slices', file=EXT, func='intersection_slices', inline=_EXT_INLINE,
         params={'a': T(4), 'b': T(4)}, rtype=TT(TT(TSL, TSL), TT(TSL, TSL)),
         doc='intersection_slices(a, b); slice(x, y) is the pair (x, y)', fallback='intersection_slices a b'),
    dict(name='intersection_shift', file=EXT, func='intersection_shift', inline=_EXT_INLINE,
         params={'a': T(4), 'b': T(4)}, rtype=TZn(2), doc='intersection_shift(a, b)',
         fallback='intersection_shift a b'),
    # ---------------------------------------------------------------- lentil/field.py
    dict(name='field_boundary', file='lentil/field.py', func='boundary',
         params={'fields': LISTOF(OBJ(extent=T(4)))}, rtype=TZn(4),
         doc='boundary(fields) as a function of the list [f.extent for f in fields]',
         fallback='fold_left src_field_boundary_step fields_extent '
                  '(9223372036854775807, -9223372036854775807, 9223372036854775807, -9223372036854775807)',
         fallback_helpers=['Definition src_field_boundary_step (st el : Z * Z * Z * Z) : Z * Z * Z * Z :=\n'
                           "  let '(rmin, rmax, cmin, cmax) := st in let '(frmin, frmax, fcmin, fcmax) := el in\n"
                           '  (if frmin <? rmin then frmin else rmin, if frmax >? rmax then frmax else rmax,\n'
                           '   if fcmin <? cmin then fcmin else cmin, if fcmax >? cmax then fcmax else cmax).']),
    dict(name='merge_offset', file='lentil/field.py', func='_merge_offset',
         params={'fields': OPAQUE_K}, calls={'boundary(fields)': ('bnd', T(4))}, rtype=TZn(2),
         doc='_merge_offset(fields) as a function of bnd = boundary(fields)',
         fallback="let '(rmin, rmax, cmin, cmax) := bnd in (rmin + (rmax - rmin + 1) / 2, "
                  'cmin + (cmax - cmin + 1) / 2)'),
    dict(name='merge_shape', file='lentil/field.py', func='_merge_shape',
         params={'fields': OPAQUE_K},
         calls={'boundary(fields)': ('bnd', T(4)), '_merge_scalars(fields)': ('scalars', BOOL_K)},
         rtype=TOPT(TZn(2)),
         doc='_merge_shape(fields) as a function of bnd = boundary(fields) and scalars = _merge_scalars(fields)',
         fallback="let '(rmin, rmax, cmin, cmax) := bnd in if scalars then None else "
                  'Some (rmax - rmin + 1, cmax - cmin + 1)'),
    dict(name='insert_clip', file='lentil/field.py', func='insert',
         params={'field': OBJ(shape=T(2), offset=SEQ(2)), 'out': ARR(2), 'intensity': OPAQUE_K,
                 'weight': OPAQUE_K},
         focus=_focus_first_else, returns=['none'], end='obs', observe='(out_slice, field_slice)',
         rtype=TOPT(TT(TT(TSL, TSL), TT(TSL, TSL))),
         doc='insert(field, out, ...): the else-block of its first if (the clipping arithmetic); the value of '
             '(out_slice, field_slice) after that block, None where the block returns early (nothing to add)',
         fallback="let cr := reconcile (fst out_shape) (fst field_shape) "
                  '(fst out_shape / 2 - fst field_shape / 2 + fst field_offset) in\n'
                  '  let cc := reconcile (snd out_shape) (snd field_shape) '
                  '(snd out_shape / 2 - snd field_shape / 2 + snd field_offset) in\n'
                  '  if negb (clip_nonempty cr) || negb (clip_nonempty cc) then None else\n'
                  '  Some (((o_lo cr, o_hi cr), (o_lo cc, o_hi cc)), ((f_lo cr, f_hi cr), (f_lo cc, f_hi cc)))'),
    # ---------------------------------------------------------------- lentil/helper.py
    dict(name='slice_offset', file='lentil/helper.py', func='slice_offset',
         params={'slice': SLICEBOX_K, 'shape': T(2)}, rtype=TZn(2),
         doc='slice_offset(slice, shape) for slice = (slice(r0, r1), slice(c0, c1)) and a 2-tuple shape',
         fallback="let '((r0, r1), (c0, c1)) := slice in Geometry.slice_offset (SlBox r0 r1 c0 c1) "
                  '(fst shape) (snd shape)'),
    dict(name='boundary_slice', file='lentil/helper.py', func='boundary_slice',
         params={'x': ARR(2), 'threshold': OPAQUE_K, 'pad': T(2)},
         calls={'lentil.boundary(x, threshold)': ('bnd', T(4))}, rtype=TT(TSL, TSL),
         doc='boundary_slice(x, threshold, pad) for a 2-d x and a 2-tuple pad, as a function of x.shape, pad '
             'and bnd = lentil.boundary(x, threshold)',
         fallback="let '(r0, r1, c0, c1) := bslice_of (fst x_shape) (snd x_shape) (fst pad) (snd pad) bnd in "
                  '((r0, r1), (c0, c1))'),
    # ---------------------------------------------------------------- lentil/util.py
    dict(name='pad_bounds', file='lentil/util.py', func='pad',
         params={'array': ARR(2), 'shape': T(2)},
         observe='(rmin0, rmax0, rmin1, rmax1, cmin0, cmax0, cmin1, cmax1)', rtype=TZn(8),
         doc='pad(array, shape) for a 2-d array: the slice bounds (rmin0, rmax0, rmin1, rmax1, cmin0, cmax0, '
             'cmin1, cmax1) at its return, as a function of array.shape and shape',
         fallback='(pad_src_lo (fst array_shape) (fst shape), pad_src_hi (fst array_shape) (fst shape), '
                  'pad_dst_lo (fst array_shape) (fst shape), pad_dst_hi (fst array_shape) (fst shape), '
                  'pad_src_lo (snd array_shape) (snd shape), pad_src_hi (snd array_shape) (snd shape), '
                  'pad_dst_lo (snd array_shape) (snd shape), pad_dst_hi (snd array_shape) (snd shape))'),
    dict(name='pad_bounds_3d', file='lentil/util.py', func='pad',
         params={'array': ARR(3), 'shape': T(2)},
         observe='(rmin0, rmax0, rmin1, rmax1, cmin0, cmax0, cmin1, cmax1)', rtype=TZn(8),
         doc='pad(array, shape) for a 3-d array (cube): the same bounds, computed from array.shape[1:]',
         fallback="let '(d, n, m) := array_shape in (pad_src_lo n (fst shape), pad_src_hi n (fst shape), "
                  'pad_dst_lo n (fst shape), pad_dst_hi n (fst shape), pad_src_lo m (snd shape), '
                  'pad_src_hi m (snd shape), pad_dst_lo m (snd shape), pad_dst_hi m (snd shape))'),
    dict(name='subarray_bounds', file='lentil/util.py', func='subarray',
         params={'a': ARR(2), 'shape': T(2), 'shift': T(2)},
         observe='(rmin, rmax, cmin, cmax)', rtype=TRES(TZn(4)),
         doc='subarray(a, shape, shift) for a 2-d a: Err ValueError where it raises, else the slice bounds '
             '(rmin, rmax, cmin, cmax) at its return',
         fallback="let rmin := sub_lo (fst a_shape) (fst shape) (fst shift) in\n"
                  '  let cmin := sub_lo (snd a_shape) (snd shape) (snd shift) in\n'
                  '  if (rmin <? 0) || (cmin <? 0) || (rmin + fst shape >? fst a_shape) || '
                  '(cmin + snd shape >? snd a_shape) then Err ValueError\n'
                  '  else Ok (rmin, rmin + fst shape, cmin, cmin + snd shape)'),
]


# ====================================================================== python mirrors of the MODEL
# (hand-written from Model/Extent.v, Model/Field.v, Model/Geometry.v; same argument and value conventions as the
#  compiled translated terms: tuples, a slice is (start, stop), option = None | value, result = ('ok', v) | ('err', kind))
def _m_array_extent(sr, sc, shr, shc):
    rmin = -(sr // 2) + shr
    cmin = -(sc // 2) + shc
    return (rmin, rmin + sr - 1, cmin, cmin + sc - 1)


def _m_center(e):
    rmin, rmax, cmin, cmax = e
    return (rmin + (rmax - rmin + 1) // 2, cmin + (cmax - cmin + 1) // 2)


def _m_iext(a, b):
    return (max(a[0], b[0]), min(a[1], b[1]), max(a[2], b[2]), min(a[3], b[3]))


def _m_ishape(a, b):
    r0, r1, c0, c1 = _m_iext(a, b)
    n, m = r1 - r0 + 1, c1 - c0 + 1
    return None if (n <= 0 or m <= 0) else (n, m)


def _m_islices(a, b):
    r0, r1, c0, c1 = _m_iext(a, b)
    return (((r0 - a[0], r1 - a[0] + 1), (c0 - a[2], c1 - a[2] + 1)),
            ((r0 - b[0], r1 - b[0] + 1), (c0 - b[2], c1 - b[2] + 1)))


_MAXSIZE = 9223372036854775807


def _m_bstep(acc, e):
    return (e[0] if e[0] < acc[0] else acc[0], e[1] if e[1] > acc[1] else acc[1],
            e[2] if e[2] < acc[2] else acc[2], e[3] if e[3] > acc[3] else acc[3])


def _m_reconcile(R, h, ul):
    f_lo, f_hi, o_lo, o_hi = 0, h, ul, ul + h
    if o_lo < 0:
        f_lo, o_lo = -o_lo, 0
    if o_hi > R:
        f_hi, o_hi = f_hi - (o_hi - R), R
    return o_lo, o_hi, f_lo, f_hi


def _m_insert_clip(fshape, foffset, oshape):
    cr = _m_reconcile(oshape[0], fshape[0], oshape[0] // 2 - fshape[0] // 2 + foffset[0])
    cc = _m_reconcile(oshape[1], fshape[1], oshape[1] // 2 - fshape[1] // 2 + foffset[1])
    if not (cr[0] < cr[1]) or not (cc[0] < cc[1]):
        return None
    return (((cr[0], cr[1]), (cc[0], cc[1])), ((cr[2], cr[3]), (cc[2], cc[3])))


def _m_pad_axis(n, N):
    if N - n <= 0:
        return (n // 2 - N // 2, n // 2 - N // 2 + N, 0, N)
    return (0, n, N // 2 - n // 2, N // 2 - n // 2 + n)


def _m_subarray(ash, shape, shift):
    rmin = ash[0] // 2 - shape[0] // 2 + shift[0]
    cmin = ash[1] // 2 - shape[1] // 2 + shift[1]
    if rmin < 0 or cmin < 0 or rmin + shape[0] > ash[0] or cmin + shape[1] > ash[1]:
        return ('err', 'ValueError')
    return ('ok', (rmin, rmin + shape[0], cmin, cmin + shape[1]))


MIRROR = {
    'array_extent': lambda shape, shift: _m_array_extent(shape[0], shape[1], shift[0], shift[1]),
    'array_extent_0d': lambda shift: _m_array_extent(1, 1, shift[0], shift[1]),
    'array_extent_parent': lambda shape, shift, par: (lambda e: (e[0] + par[0] // 2, e[1] + par[0] // 2,
                                                                 e[2] + par[1] // 2, e[3] + par[1] // 2))(
        _m_array_extent(shape[0], shape[1], shift[0], shift[1])),
    'array_center': _m_center,
    'intersect': lambda a, b: a[0] <= b[1] and a[1] >= b[0] and a[2] <= b[3] and a[3] >= b[2],
    'intersection_extent': _m_iext,
    'intersection_shape': _m_ishape,
    'intersection_slices': _m_islices,
    'intersection_shift': lambda a, b: _m_center(_m_iext(a, b)),
    'field_boundary': lambda es: functools.reduce(_m_bstep, es, (_MAXSIZE, -_MAXSIZE, _MAXSIZE, -_MAXSIZE)),
    'merge_offset': _m_center,
    'merge_shape': lambda b, s: None if s else (b[1] - b[0] + 1, b[3] - b[2] + 1),
    'insert_clip': _m_insert_clip,
    'slice_offset': lambda sl, shape: (sl[0][0] + (sl[0][1] - sl[0][0]) // 2 - shape[0] // 2,
                                       sl[1][0] + (sl[1][1] - sl[1][0]) // 2 - shape[1] // 2),
    'boundary_slice': lambda xs, pad, b: ((max(b[0] - pad[0], 0), min(b[1] + pad[0] + 1, xs[0])),
                                          (max(b[2] - pad[1], 0), min(b[3] + pad[1] + 1, xs[1]))),
    'pad_bounds': lambda ash, shape: _m_pad_axis(ash[0], shape[0]) + _m_pad_axis(ash[1], shape[1]),
    'pad_bounds_3d': lambda ash, shape: _m_pad_axis(ash[1], shape[0]) + _m_pad_axis(ash[2], shape[1]),
    'subarray_bounds': _m_subarray,
}


# ====================================================================== drivers: the RUNNING code on the same arguments
SKIP = ('skip',)      # the instance cannot be exercised through the running code for these arguments


def _ints(t):
    return tuple(int(x) for x in t)


def _sl(s):
    return (int(s.start), int(s.stop))


def _trace_locals(fn, codename, filename_end, *args, **kw):
    """run fn(*args); -> (locals of the frame of `codename` at its return | None, result | exception)"""
    box = {}

    def tracer(frame, event, arg):
        co = frame.f_code
        if event == 'call':
            if co.co_name == codename and co.co_filename.endswith(filename_end) and 'frame' not in box:
                box['frame'] = frame
                return local
            return None
        return None

    def local(frame, event, arg):
        if event == 'return' and frame is box.get('frame'):
            box['locals'] = dict(frame.f_locals)
        return local

    old = sys.gettrace()
    sys.settrace(tracer)
    try:
        try:
            r = fn(*args, **kw)
        except Exception as e:      # noqa: BLE001 - reported to the caller
            r = e
    finally:
        sys.settrace(old)
    return box.get('locals'), r


def _stub(**kw):
    import types
    return types.SimpleNamespace(**kw)


def _drv_insert_clip(L, fshape, foffset, oshape):
    import numpy as np
    if min(fshape) < 1 or min(oshape) < 1 or max(fshape) > 64 or max(oshape) > 64:
        return SKIP
    f = L.field.Field(np.ones(fshape), offset=list(foffset))
    loc, r = _trace_locals(L.field.insert, 'insert', 'lentil/field.py', f, np.zeros(oshape, dtype=complex))
    if loc is None:
        return SKIP
    if 'out_slice' not in loc:
        return SKIP if isinstance(r, Exception) else None
    if loc['out_slice'] is Ellipsis:
        return SKIP                      # the first branch of insert: the translated block did not run
    o, fs = loc['out_slice'], loc['field_slice']
    return ((_sl(o[0]), _sl(o[1])), (_sl(fs[0]), _sl(fs[1])))


def _drv_boundary_slice(L, xs, pad, b):
    import numpy as np
    n, m = xs
    if not (0 <= b[0] <= b[1] < n <= 64 and 0 <= b[2] <= b[3] < m <= 64):
        return SKIP
    x = np.zeros((n, m))
    x[b[0], b[2]] = 1
    x[b[1], b[3]] = 1
    r = L.helper.boundary_slice(x, 0, tuple(pad))
    return (_sl(r[0]), _sl(r[1]))


def _drv_pad(L, ash, shape):
    import numpy as np
    if min(ash) < 0 or min(shape) < 0 or max(ash) > 64 or max(shape) > 64:
        return SKIP
    loc, r = _trace_locals(L.util.pad, 'pad', 'lentil/util.py', np.zeros(ash), tuple(shape))
    if isinstance(r, Exception) or loc is None:
        return SKIP
    return tuple(int(loc[k]) for k in ('rmin0', 'rmax0', 'rmin1', 'rmax1', 'cmin0', 'cmax0', 'cmin1', 'cmax1'))


def _drv_subarray(L, ash, shape, shift):
    import numpy as np
    if min(ash) < 0 or max(ash) > 64:
        return SKIP
    loc, r = _trace_locals(L.util.subarray, 'subarray', 'lentil/util.py', np.zeros(ash), tuple(shape), tuple(shift))
    if isinstance(r, ValueError):
        return ('err', 'ValueError')
    if isinstance(r, Exception) or loc is None:
        return SKIP
    return ('ok', tuple(int(loc[k]) for k in ('rmin', 'rmax', 'cmin', 'cmax')))


def _drv_merge_shape(L, b, scalars):
    if scalars and tuple(b) != (0, 0, 0, 0):
        return SKIP                      # _merge_scalars is true only for 0-d fields at the origin
    r = L.field._merge_shape([_stub(shape=() if scalars else (1, 1), extent=tuple(b))])
    return None if len(r) == 0 else _ints(r)


def _drv_islices(L, a, b):
    (ar, ac), (br, bc) = L.extent.intersection_slices(a, b)
    return ((_sl(ar), _sl(ac)), (_sl(br), _sl(bc)))


def _drv_ishape(L, a, b):
    r = L.extent.intersection_shape(a, b)
    return None if len(r) == 0 else _ints(r)


DRIVER = {
    'array_extent': lambda L, shape, shift: _ints(L.extent.array_extent(tuple(shape), tuple(shift))),
    'array_extent_0d': lambda L, shift: _ints(L.extent.array_extent((), tuple(shift))),
    'array_extent_parent': lambda L, shape, shift, par: _ints(L.extent.array_extent(tuple(shape), tuple(shift),
                                                                                    tuple(par))),
    'array_center': lambda L, e: _ints(L.extent.array_center(tuple(e))),
    'intersect': lambda L, a, b: bool(L.extent.intersect(tuple(a), tuple(b))),
    'intersection_extent': lambda L, a, b: _ints(L.extent.intersection_extent(tuple(a), tuple(b))),
    'intersection_shape': _drv_ishape,
    'intersection_slices': _drv_islices,
    'intersection_shift': lambda L, a, b: _ints(L.extent.intersection_shift(tuple(a), tuple(b))),
    'field_boundary': lambda L, es: _ints(L.field.boundary([_stub(extent=tuple(e)) for e in es])),
    'merge_offset': lambda L, b: _ints(L.field._merge_offset([_stub(extent=tuple(b))])),
    'merge_shape': _drv_merge_shape,
    'insert_clip': _drv_insert_clip,
    'slice_offset': lambda L, sl, shape: _ints(L.helper.slice_offset((slice(*sl[0]), slice(*sl[1])), tuple(shape))),
    'boundary_slice': _drv_boundary_slice,
    'pad_bounds': _drv_pad,
    'pad_bounds_3d': _drv_pad,
    'subarray_bounds': _drv_subarray,
}


# ====================================================================== argument spaces, self-check, witness search
def _leaves(ty):
    """number of integer/boolean leaves of an input type, and a builder from a flat list"""
    k = ty[0]
    if k in ('Z', 'B'):
        return [k], (lambda xs: xs[0])
    if k == 'tuple':
        parts = [_leaves(t) for t in ty[1]]
        kinds = [x for p in parts for x in p[0]]

        def build(xs, parts=parts):
            out, i = [], 0
            for ks, b in parts:
                out.append(b(xs[i:i + len(ks)]))
                i += len(ks)
            return tuple(out)
        return kinds, build
    raise ValueError(ty)


_ORDER = [0, 1, -1, 2, -2, 3, -3, 4, -4, 5, -5, 6, -6]


def _valid_pref(name, args):
    """arguments on which the running code can be exercised meaningfully (tried first, so that a witness is
    replayable through the public API whenever one exists)"""
    def ext_ok(e):
        return e[0] <= e[1] and e[2] <= e[3]
    if name in ('array_center', 'merge_offset'):
        return ext_ok(args[0])
    if name in ('intersect', 'intersection_extent', 'intersection_shape', 'intersection_slices',
                'intersection_shift'):
        return ext_ok(args[0]) and ext_ok(args[1])
    if name in ('array_extent', 'array_extent_parent'):
        return min(args[0]) >= 1 and (len(args) < 3 or min(args[2]) >= 1)
    if name == 'merge_shape':
        return ext_ok(args[0]) and (not args[1] or tuple(args[0]) == (0, 0, 0, 0))
    if name == 'insert_clip':
        return min(args[0]) >= 1 and min(args[2]) >= 1 and not (tuple(args[0]) == tuple(args[2])
                                                               and tuple(args[1]) == (0, 0))
    if name == 'slice_offset':
        return 0 <= args[0][0][0] < args[0][0][1] <= args[1][0] and 0 <= args[0][1][0] < args[0][1][1] <= args[1][1]
    if name == 'boundary_slice':
        b, xs = args[2], args[0]
        return 0 <= b[0] <= b[1] < xs[0] and 0 <= b[2] <= b[3] < xs[1] and min(args[1]) >= 0
    if name in ('pad_bounds', 'pad_bounds_3d'):
        return min(args[0]) >= 1 and min(args[1]) >= 1
    if name == 'subarray_bounds':
        return min(args[0]) >= 1 and min(args[1]) >= 0
    return True


def arg_space(info, rng, exhaustive_budget=120000, n_random=4000, wide=40):
    """argument tuples for one translated function: an exhaustive box [-r, r]^k with the largest r <= 6 that fits
    the budget (small magnitudes first), then random points of [-6, 6]^k and of [-wide, wide]^k"""
    import itertools
    inputs = info['inputs']
    if any(i['type'][0] == 'list' for i in inputs):           # field_boundary: lists of extents
        def gen():
            vals = _ORDER[:7]
            yield ([],)
            for e in itertools.product(vals[:5], repeat=4):
                yield ([e],)
            for _ in range(n_random * 3):
                k = rng.randint(0, 4)
                R = rng.choice([3, 6, wide])
                yield ([tuple(rng.randint(-R, R) for _ in range(4)) for _ in range(k)],)
        return gen(), 'all single-extent lists over [-2, 2]^4 and random lists of 0..4 extents'
    parts = [_leaves(i['type']) for i in inputs]
    kinds = [x for p in parts for x in p[0]]
    nz = sum(1 for k in kinds if k == 'Z')
    nb = len(kinds) - nz
    r = 6
    while r > 1 and (2 * r + 1) ** nz * 2 ** nb > exhaustive_budget:
        r -= 1
    vals = [v for v in _ORDER if abs(v) <= r]

    def build(flat):
        out, i = [], 0
        for ks, b in parts:
            out.append(b(flat[i:i + len(ks)]))
            i += len(ks)
        return tuple(out)

    def gen():
        for flat in itertools.product(*[(vals if k == 'Z' else [False, True]) for k in kinds]):
            yield build(list(flat))
        for R in (6, wide):
            for _ in range(n_random):
                yield build([rng.randint(-R, R) if k == 'Z' else rng.random() < 0.5 for k in kinds])
    return gen(), f'exhaustive [-{r}, {r}]^{nz} then {n_random} random points of [-6, 6]^{nz} and of [-{wide}, {wide}]^{nz}'


def find_witness(name, info, pyfunc, rng, exhaustive_budget=120000, n_random=4000):
    """an argument tuple on which the translated term and the model mirror differ (preferring arguments that
    can be replayed through the running code), or None; also returns the description of the searched space"""
    mirror = MIRROR[name]
    gen, desc = arg_space(info, rng, exhaustive_budget, n_random)
    fallback = None
    for args in gen:
        try:
            a, b = pyfunc(*args), mirror(*args)
        except Exception:      # noqa: BLE001
            continue
        if a != b:
            w = {'args': args, 'source': a, 'model': b}
            if _valid_pref(name, args):
                return w, desc
            if fallback is None:
                fallback = w
    return fallback, desc


def selfcheck(name, info, pyfunc, lentil, rng, n=160):
    """translated term vs the RUNNING function on sampled arguments: -> (compared, first mismatch | None)"""
    drv = DRIVER[name]
    inputs = info['inputs']
    compared = 0
    tries = 0
    while compared < n and tries < 12 * n:
        tries += 1
        args = _sample_valid(name, inputs, rng)
        try:
            got = drv(lentil, *args)
        except Exception as e:      # noqa: BLE001
            got = ('exception', type(e).__name__)
        if got is SKIP:
            continue
        compared += 1
        want = pyfunc(*args)
        if got != want:
            return compared, {'args': args, 'running_code': got, 'translated': want}
    return compared, None


def _sample_valid(name, inputs, rng):
    """a random argument tuple, biased to the region where the running code can be exercised"""
    def ext():
        r0, c0 = rng.randint(-6, 6), rng.randint(-6, 6)
        if rng.random() < 0.15:
            return (r0, r0 + rng.randint(-3, 0), c0, c0 + rng.randint(-3, 4))
        return (r0, r0 + rng.randint(0, 5), c0, c0 + rng.randint(0, 5))

    def shp(lo=1, hi=7):
        return (rng.randint(lo, hi), rng.randint(lo, hi))

    def off(R=8):
        return (rng.randint(-R, R), rng.randint(-R, R))
    if name in ('array_extent', 'array_extent_parent'):
        a = (shp(-2, 7), off())
        return a + ((shp(-2, 9),) if name.endswith('parent') else ())
    if name == 'array_extent_0d':
        return (off(),)
    if name in ('array_center', 'merge_offset'):
        return (ext(),)
    if name == 'merge_shape':
        s = rng.random() < 0.2
        return ((0, 0, 0, 0) if s else ext(), s)
    if name == 'field_boundary':
        return ([ext() for _ in range(rng.randint(0, 4))],)
    if name == 'insert_clip':
        return (shp(1, 6), off(9), shp(1, 7))
    if name == 'slice_offset':
        n, m = shp(1, 9)
        r0, c0 = rng.randint(-2, n), rng.randint(-2, m)
        return (((r0, r0 + rng.randint(-1, 6)), (c0, c0 + rng.randint(-1, 6))), (n, m))
    if name == 'boundary_slice':
        n, m = shp(1, 8)
        r0, c0 = rng.randint(0, n - 1), rng.randint(0, m - 1)
        return ((n, m), (rng.randint(0, 3), rng.randint(0, 3)),
                (r0, rng.randint(r0, n - 1), c0, rng.randint(c0, m - 1)))
    if name == 'pad_bounds':
        return (shp(0, 7), shp(0, 8))
    if name == 'pad_bounds_3d':
        return ((rng.randint(0, 3),) + shp(0, 7), shp(0, 8))
    if name == 'subarray_bounds':
        return (shp(0, 7), shp(0, 6), off(3))
    return (ext(), ext())


# ====================================================================== driver
def _parse(repo, rel, cache):
    if rel not in cache:
        p = os.path.join(repo, rel)
        src = open(p, 'rb').read()
        tree = ast.parse(src.decode('utf-8'))
        fdefs = {}
        for s in tree.body:
            if isinstance(s, ast.FunctionDef):
                fdefs[s.name] = s
        cache[rel] = (hashlib.sha256(src).hexdigest(), fdefs)
    return cache[rel]


def _funcs_hash(fdefs, names):
    """sha256 of the parsed definitions (ast.dump, no positions) of the named functions: changes exactly when
    the code of a whitelisted function changes (not with comments or with the rest of the file)"""
    h = hashlib.sha256()
    for n in sorted(names):
        h.update((n + '=' + (ast.dump(fdefs[n]) if n in fdefs else 'MISSING') + '\n').encode())
    return h.hexdigest()


def _fallback_inputs(spec):
    """the binders of the definition, computed from the spec alone (so that a refused function keeps its type)"""
    namer = Namer()
    inputs = []
    for p, kind in spec['params'].items():
        _make_input(kind, p, namer, inputs)
    for key, (anm, kind) in spec.get('calls', {}).items():
        _make_input(kind, anm, namer, inputs)
    return inputs


def _compile_py(py):
    ns = {'_reduce': functools.reduce, 'max': max, 'min': min}
    exec(compile(py, '<gen_src translated term>', 'exec'), ns)     # our own generated text
    return ns


def translate_all(repo, lentil=None, rng=None):
    """-> dict(text=coq file text, results={name: {...}}, hashes={file: sha256}, pyfuncs={name: callable}).
    With `lentil` (the imported package of the same tree) every translated term is first compared with the
    RUNNING function on sampled arguments; a disagreement means the translator (or the instance the spec
    assumes) is not faithful for that function, which is then refused like any other."""
    import random
    rng = rng or random.Random(0)
    cache, results, chunks, hashes, pyfuncs = {}, {}, [], {}, {}
    for spec in SPECS:
        name = spec['name']
        try:
            try:
                h, fdefs = _parse(repo, spec['file'], cache)
            except (OSError, SyntaxError, UnicodeDecodeError) as e:
                raise TranslationRefused(name, f'cannot read/parse {spec["file"]}: {e}')
            hashes[spec['file']] = h
            tr = translate_one(spec, fdefs)
            fb = _fallback_inputs(spec)
            if [(i['name'], i['type']) for i in fb] != [(i['name'], i['type']) for i in tr['inputs']]:
                raise TranslationRefused(name, 'internal: binder names differ from the declared ones')
            coq = g_def(spec, tr)
            py = p_def(spec, tr)
            info = {'status': 'translated', 'inputs': tr['inputs'], 'rtype': tr['rtype'], 'py': py,
                    'doc': spec['doc'], 'file': spec['file'], 'func': spec['func']}
            fn = _compile_py(py)['src_' + name]
            if lentil is not None:
                n, bad = selfcheck(name, info, fn, lentil, rng)
                info['selfcheck_compared'] = n
                if bad:
                    raise TranslationRefused(name, 'self-check: the translated term and the running function '
                                                   f'disagree on {bad}')
            results[name] = info
            pyfuncs[name] = fn
            chunks.append(f'(* {spec["file"]}: {spec["doc"]} *)\n{coq}')
        except TranslationRefused as e:
            inputs = _fallback_inputs(spec)
            results[name] = {'status': 'refused', 'reason': e.reason, 'inputs': inputs, 'rtype': spec['rtype'],
                             'doc': spec['doc'], 'file': spec['file'], 'func': spec['func']}
            reason = e.reason.replace('(*', '( *').replace('*)', '* )')
            helpers = ''.join(h + '\n' for h in spec.get('fallback_helpers', []))
            chunks.append(f'(* {spec["file"]}: {spec["doc"]}\n   REFUSED by the translator: {reason}\n'
                          '   The definition below is NOT translated from the source: it is the declared fallback '
                          '(the model),\n   present only so that the development builds; the check reports the '
                          'function as refused. *)\n'
                          f'{helpers}Definition src_{name} {g_binders(inputs)} : {coq_type(spec["rtype"])} :=\n'
                          f'  {spec["fallback"]}.')
    head = ['(* GENERATED by harness/gen_src.py from the lentil source files on every `./check C06` - do not edit.',
            '   Each src_<f> is the translation of the integer arithmetic of one whitelisted function (see the',
            '   docstring of harness/gen_src.py for the accepted Python and for what an observation entry is).',
            '   Source: sha256 of the parsed definitions (ast.dump) of the whitelisted functions of each file - it',
            '   changes exactly when their code changes (the sha256 of the whole files is in evidence/C06.json):']
    fhashes = {}
    for f in sorted(hashes):
        used = {sp['func'] for sp in SPECS if sp['file'] == f} | {x for sp in SPECS if sp['file'] == f
                                                                  for x in sp.get('inline', ())}
        fhashes[f] = _funcs_hash(cache[f][1], used)
        head.append(f'     {f}  {fhashes[f]}  ({" ".join(sorted(used))})')
    head.append('   translated: ' + ' '.join(n for n, r in results.items() if r['status'] == 'translated'))
    head.append('   refused:    ' + (' '.join(n for n, r in results.items() if r['status'] == 'refused') or '-')
                + ' *)')
    head.append('From LV Require Import Model.Extent Model.Field Model.Geometry.')
    head.append('')
    text = '\n'.join(head) + '\n' + '\n\n'.join(chunks) + '\n'
    return {'text': text, 'results': results, 'hashes': hashes, 'function_hashes': fhashes, 'pyfuncs': pyfuncs}


def write(repo, path, lentil=None, rng=None):
    """regenerate; the file is rewritten only when its text changes (keeps make quiet)"""
    res = translate_all(repo, lentil, rng)
    old = open(path).read() if os.path.exists(path) else None
    res['changed'] = old != res['text']
    if res['changed']:
        tmp = path + '.tmp'
        with open(tmp, 'w') as fh:
            fh.write(res['text'])
        os.replace(tmp, path)
    return res


if __name__ == '__main__':
    r = translate_all(sys.argv[1] if len(sys.argv) > 1 else '/repo')
    print(r['text'])
    for n, x in r['results'].items():
        if x['status'] == 'refused':
            print('REFUSED', n, ':', x['reason'], file=sys.stderr)
